(* Correspondence checker for everything observed through Template::render / render_to:
   a template (as the tree the parser builds), data, partial sources, a sink budget. *)
From LV Require Import Corr Eval.

Record rcase := mkR {
  rc_tpl : template;
  rc_data : obj;
  rc_partials : list (str * option template);      (* None = a source that does not parse *)
  rc_shows : list (spec_float * str); rc_parses : list (str * option spec_float);
  rc_uppers : list (char * str); rc_lowers : list (char * str); rc_graphs : list (str * list str);
  rc_budget : option nat;                          (* bytes the sink accepts; None = unbounded *)
  rc_class : N;                                    (* observed: 0 = Ok, 1 = Err, 2 = panic *)
  rc_accepted : str;                               (* observed: what the sink accepted (decoded) *)
}.
Definition store_of (l : list (str * option template)) : pstore :=
  fun name => match lookup name l with
              | Some (Some b) => Ok b
              | Some None => Err EParse
              | None => Err EPartialMissing
              end.
Definition class_of (o : ores) : N := match o with ODone => 0%N | OFail _ => 1%N | OPanicked _ => 2%N end.
Definition render_check (c : rcase) : bool :=
  let O := table_oracle5 (rc_shows c) (rc_parses c) (rc_uppers c) (rc_lowers c) (rc_graphs c) in
  match render_top O (store_of (rc_partials c)) 8 (rc_tpl c) (rc_data c) (mkSink [] (rc_budget c)) with
  | (OPanicked 900%N, _, _) => negb (N.eqb (rc_class c) 1)      (* sort on a non-total comparator: unspecified *)
  | (o, _, k) =>
      N.eqb (class_of o) (rc_class c) &&
      (N.eqb (rc_class c) 2 || list_same N.eqb (acc k) (encode (rc_accepted c)))
  end.

(* C10: the same, with the accepted bytes compared as bytes (a budget may cut a character) *)
Record kcase := mkK {
  kc_tpl : template; kc_data : obj; kc_partials : list (str * option template);
  kc_budget : nat; kc_class : N; kc_accepted : list N;
}.
Definition sink_check (c : kcase) : bool :=
  match render_top no_oracle (store_of (kc_partials c)) 8 (kc_tpl c) (kc_data c) (mkSink [] (Some (kc_budget c))) with
  | (o, _, k) => N.eqb (class_of o) (kc_class c) && list_same N.eqb (acc k) (kc_accepted c)
  end.
