(* PegPos.v — the position an evaluation reports is the number of characters consumed: for every grammar,
   expression, mode and text, p' + |rest| = pos + |text|. *)
From LV Require Import Base Peg PegProofs PegTotal.
Require Import ZifyBool ZifyNat ZifyN.

Lemma strip_prefix_exact l : forall s r, strip_prefix l s = Some r -> length r + length l = length s.
Proof.
  induction l as [|c l IH]; intros s r H; cbn [strip_prefix] in H; [inversion H; cbn; lia|].
  destruct s as [|d s]; [discriminate|]. destruct (N.eqb c d); [|discriminate]. apply IH in H. cbn [length]. lia.
Qed.
Section P.
Variable g : grammar. Variable ws : option nat.
Notation ev' := (ev g ws).
Theorem ev_pos : forall f at_ la e s pos s' p' t, ev' f at_ la e s pos = Some (Some (s', p', t)) -> p' + length s' = pos + length s.
Proof.
  induction f as [|f IH]; intros at_ la e s pos s' p' t H; [discriminate|].
  assert (IHs : forall at0 la0 s0 p0 s1 p1 t1, skipf g ws f at0 la0 s0 p0 = Some (Some (s1, p1, t1)) -> p1 + length s1 = p0 + length s0).
  { intros at0 la0 s0 p0 s1 p1 t1. unfold skipf. destruct at0, ws; try (intro X; inversion X; subst; lia). apply IH. }
  destruct e.
  - rewrite ev_lit in H. destruct (strip_prefix s0 s) eqn:E; inversion H; subst. apply strip_prefix_exact in E. lia.
  - cbn [ev] in H. destruct s as [|c r]; [discriminate|]. destruct ((a <=? c)%N && (c <=? b)%N); inversion H; subst. cbn [length]. lia.
  - cbn [ev] in H. destruct s as [|c r]; inversion H; subst. cbn [length]. lia.
  - cbn [ev] in H. destruct (Nat.eqb pos 0); inversion H; subst. lia.
  - cbn [ev] in H. destruct s; inversion H; subst. lia.
  - rewrite ev_ref in H. destruct (nth_error g n) as [r|]; [|discriminate]. cbv zeta in H.
    match type of H with match ?x with _ => _ end = _ => destruct x as [[[[s1 p1] t1]|]|] eqn:E; try discriminate end.
    inversion H; subst. eapply IH; exact E.
  - rewrite ev_seq in H.
    destruct (ev' f at_ la e1 s pos) as [[[[s1 p1] t1]|]|] eqn:E1; try discriminate.
    destruct (skipf g ws f at_ la s1 p1) as [[[[s2 p2] t2]|]|] eqn:E2; try discriminate.
    destruct (ev' f at_ la e2 s2 p2) as [[[[s3 p3] t3]|]|] eqn:E3; try discriminate. inversion H; subst.
    apply IH in E1. apply IHs in E2. apply IH in E3. lia.
  - rewrite ev_alt in H. destruct (ev' f at_ la e1 s pos) as [[[[s1 p1] t1]|]|] eqn:E1; try discriminate.
    + inversion H; subst. eapply IH; exact E1.
    + eapply IH; exact H.
  - rewrite ev_star in H. destruct (ev' f at_ la (PPlus e) s pos) as [[[[s1 p1] t1]|]|] eqn:E1; try discriminate; inversion H; subst; [eapply IH; exact E1|lia].
  - rewrite ev_plus in H. destruct (ev' f at_ la e s pos) as [[[[s1 p1] t1]|]|] eqn:E1; try discriminate.
    apply IH in E1.
    destruct (skipf g ws f at_ la s1 p1) as [[[[s2 p2] t2]|]|] eqn:E2; try discriminate; [|inversion H; subst; exact E1].
    apply IHs in E2.
    destruct (ev' f at_ la (PPlus e) s2 p2) as [[[[s3 p3] t3]|]|] eqn:E3; try discriminate; inversion H; subst; [apply IH in E3; lia|exact E1].
  - rewrite ev_opt in H. destruct (ev' f at_ la e s pos) as [[[[s1 p1] t1]|]|] eqn:E1; try discriminate; inversion H; subst; [eapply IH; exact E1|lia].
  - rewrite ev_not in H. destruct (ev' f at_ true e s pos) as [[x|]|]; try discriminate. inversion H; subst. lia.
Qed.
End P.
(* a complete parse ends at the length of the text (in characters) *)
Corollary parse_end_is_length g ws f start s p ts : parse g ws f start s = Some (Some ([], p, ts)) -> p = length s.
Proof. unfold parse. intro H. apply ev_pos in H. cbn [length] in H. lia. Qed.
