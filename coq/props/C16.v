(* C16 — escape / escape_once / url_encode / url_decode / strip_html are safe and invertible.
   Statements only; proofs in proofs/HtmlProofs.v and proofs/Utf8Proofs.v.  The entity table,
   the escaped-character set and the percent-encoding set are gen/Consts.v, regenerated from
   html.rs / url.rs on every run. *)
From LV Require Import Base Value Utf8 Consts Filters_html Utf8Proofs HtmlProofs.

(* the generated tables are the ones the property names *)
Theorem consts_match :
  html_prefixes = [sLT; sGT; sAPOS; sQUOT; sAMP] /\
  html_specials = [cLT; cGT; cAPOS; cQUOT; cAMP] /\
  html_escapes = [(cLT, cAMP :: sLT); (cGT, cAMP :: sGT); (cAPOS, cAMP :: sAPOS); (cQUOT, cAMP :: sQUOT)] /\
  html_amp_escaped = cAMP :: sAMP /\ html_amp_kept = [cAMP] /\
  url_base_set = k_NON_ALPHANUMERIC /\ url_set_edits = [(true, 45%N); (true, 46%N); (true, 95%N)] /\
  url_decode_replace = (43%N, [32%N]).
Proof. exact HtmlProofs.consts_match. Qed.

(* escape: none of the five special characters (less-than, greater-than, ampersand, double
   and single quote) survives except as the '&' of one of the five entities, and
   replacing the entities back yields the input *)
Theorem escape_safe : forall s, ok 0 (escape_str s) = true.
Proof. exact HtmlProofs.escape_safe. Qed.
Theorem unescape_escape : forall s, unesc 0 (escape_str s) = s.
Proof. exact HtmlProofs.unescape_escape. Qed.
(* escape_once: safe, leaves existing entities untouched, and twice = once *)
Theorem escape_once_safe : forall s, ok 0 (escape_once_str s) = true.
Proof. exact HtmlProofs.escape_once_safe. Qed.
Theorem escape_once_keeps_entities : forall p u, In p [sLT; sGT; sAPOS; sQUOT; sAMP] ->
  escape_once_str (cAMP :: p ++ u) = cAMP :: p ++ escape_once_str u.
Proof. exact HtmlProofs.escape_once_keeps_entities. Qed.
Theorem escape_once_idem : forall s, escape_once_str (escape_once_str s) = escape_once_str s.
Proof. exact HtmlProofs.escape_once_idem. Qed.

(* UTF-8 and the URL pair *)
Theorem utf8_roundtrip : forall s, forallb valid_char s = true -> decode (encode s) = Some s.
Proof. exact Utf8Proofs.decode_encode. Qed.
Theorem url_encode_alphabet : forall s, forallb valid_char s = true -> pct_wf (url_encode_str s) = true.
Proof. exact HtmlProofs.url_encode_alphabet. Qed.
Theorem url_decode_encode : forall s, forallb valid_char s = true -> url_decode_str (url_encode_str s) = Some s.
Proof. exact HtmlProofs.url_decode_encode. Qed.
(* failures are error values, never a crash (url_decode of bytes that are not UTF-8 is an error) *)
Theorem html_filter_total : forall O f v, (exists r, html_filter O f v = Ok r) \/ (exists c, html_filter O f v = Err c).
Proof. exact HtmlProofs.html_filter_total. Qed.

(* strip_html: the output contains no complete <...> tag *)
Theorem strip_html_no_tag : forall s, no_tag (strip_html_str s) = true.
Proof. exact HtmlProofs.strip_html_no_tag. Qed.
Theorem no_tag_spec : forall s, no_tag s = true -> forall a b, s = a ++ cL :: b -> ~ In cG b.
Proof. exact HtmlProofs.no_tag_spec. Qed.

(* non-vacuity / sanity on concrete strings *)
Example c16_nonvacuous :
  escape_once_str [38;97;109;112;59;60;38;97;109;112]%N = [38;97;109;112;59;38;108;116;59;38;97;109;112;59;97;109;112]%N /\
  url_decode_str [37;67;51;37;65;57;43]%N = Some [233;32]%N /\ url_decode_str [37;67;51]%N = None /\
  strip_html_str [97;60;98;62;99;60;100]%N = [97;99;60;100]%N.
Proof. vm_compute. repeat split; reflexivity. Qed.

Print Assumptions consts_match.
Print Assumptions escape_safe.
Print Assumptions unescape_escape.
Print Assumptions escape_once_safe.
Print Assumptions escape_once_keeps_entities.
Print Assumptions escape_once_idem.
Print Assumptions utf8_roundtrip.
Print Assumptions url_encode_alphabet.
Print Assumptions url_decode_encode.
Print Assumptions html_filter_total.
Print Assumptions strip_html_no_tag.
Print Assumptions no_tag_spec.
