(* Correspondence checker for the C02 sweep: any one modelled filter (math, html/url, string,
   array, date) applied to any input with any arguments — the type-confused combinations included. *)
From LV Require Import Corr Filters_math Filters_html Filters_seq Filters_date Eval.
Record fcase := mkF {
  fc_f : filt; fc_input : value; fc_args : list value;
  fc_shows : list (spec_float * str); fc_parses : list (str * option spec_float);
  fc_uppers : list (char * str); fc_lowers : list (char * str); fc_graphs : list (str * list str);
  fc_dates : list (str * option datetime);      (* DateTime::from_str of the input, for the date filter *)
  fc_expected : outcome value;
}.
Definition filter_check (c : fcase) : bool :=
  let O := with_dates (table_oracle5 (fc_shows c) (fc_parses c) (fc_uppers c) (fc_lowers c) (fc_graphs c)) (fc_dates c) in
  match apply_filter O (fc_f c) (fc_input c) (fc_args c) with
  | Panic 900%N => match fc_expected c with OErr => false | _ => true end      (* unspecified sort: the known finding *)
  | r => outcome_same value_same (outcome_of r) (fc_expected c)
  end.
