(* C07 — Variable paths and literals denote the right value or fail loudly.
   Statements only; proofs in proofs/FindProofs.v (and StackProofs.v, DecimalProofs.v).
   Integer literals are followed from the text to the value: the IntegerLiteral rule of the generated
   grammar is characterised exactly, the numeral of every integer is one Literal > IntegerLiteral pair
   spanning exactly the numeral (proofs/LitProofs.v), and that text reads back as the integer.  The
   other literal kinds (floats through the f64 parser oracle, strings, keywords) are tied to these
   statements by the correspondence check (tools/props/c07.py). *)
From LV Require Import Peg Grammar LitProofs.
From LV Require Import Base Value Stack Eval StackProofs FindProofs.

(* ---- array elements: zero-based, negative indices count from the end ---- *)
Theorem array_index_spec : forall l i,
  arr_get l i = match norm_index (length l) i with Some j => nth_error l j | None => None end.
Proof. exact FindProofs.arr_get_spec. Qed.
Theorem array_index_nonneg : forall l j, arr_get l (Z.of_nat j) = nth_error l j.
Proof. exact FindProofs.arr_get_nonneg. Qed.
Theorem array_index_negative : forall l j, j < length l -> arr_get l (- Z.of_nat (S j)) = nth_error (rev l) j.
Proof. exact FindProofs.arr_get_neg. Qed.
(* exactly the indices in [-len, len) resolve; nothing outside yields a neighbouring element *)
Theorem array_index_in_range : forall l i,
  arr_get l i <> None <-> (- Z.of_nat (length l) <= i < Z.of_nat (length l))%Z.
Proof. exact FindProofs.arr_get_in_range. Qed.
Theorem array_index_out_of_range : forall l i,
  (i < - Z.of_nat (length l) \/ Z.of_nat (length l) <= i)%Z -> arr_get l i = None.
Proof. exact FindProofs.arr_get_out_of_range. Qed.

Section C07.
Variable O : oracle.
(* ---- one step of a path ---- *)
Theorem array_integer_index : forall l idx i, to_integer idx = Some i -> augmented_get O (VArray l) idx = arr_get l i.
Proof. exact (FindProofs.array_integer_index O). Qed.
Theorem array_first : forall l idx, to_integer idx = None -> scalar_kstr O idx = k_first ->
  augmented_get O (VArray l) idx = hd_error l.
Proof. exact (FindProofs.array_first O). Qed.
Theorem array_last : forall l idx, to_integer idx = None -> scalar_kstr O idx = k_last ->
  augmented_get O (VArray l) idx = hd_error (rev l).
Proof. exact (FindProofs.array_last O). Qed.
Theorem array_size : forall l idx, to_integer idx = None -> scalar_kstr O idx = k_size ->
  augmented_get O (VArray l) idx = Some (VScalar (SInt (Z.of_nat (length l)))).
Proof. exact (FindProofs.array_size O). Qed.
Theorem array_other_names_missing : forall l idx, to_integer idx = None ->
  scalar_kstr O idx <> k_first -> scalar_kstr O idx <> k_last -> scalar_kstr O idx <> k_size ->
  augmented_get O (VArray l) idx = None.
Proof. exact (FindProofs.array_other O). Qed.
(* object members by key; an object's own `size`/`first` member wins over the special names *)
Theorem object_own_key : forall kvs idx x, lookup (scalar_kstr O idx) kvs = Some x -> augmented_get O (VObject kvs) idx = Some x.
Proof. exact (FindProofs.object_own_key O). Qed.
Theorem object_size : forall kvs idx, lookup (scalar_kstr O idx) kvs = None -> scalar_kstr O idx = k_size ->
  augmented_get O (VObject kvs) idx = Some (VScalar (SInt (Z.of_nat (length kvs)))).
Proof. exact (FindProofs.object_size O). Qed.
Theorem object_missing_key : forall kvs idx, lookup (scalar_kstr O idx) kvs = None -> scalar_kstr O idx <> k_size ->
  augmented_get O (VObject kvs) idx = None.
Proof. exact (FindProofs.object_missing O). Qed.
Theorem scalar_step : forall s idx,
  augmented_get O (VScalar s) idx =
  if str_eqb (scalar_kstr O idx) k_size then Some (VScalar (SInt (Z.of_nat (length (scalar_kstr O s))))) else None.
Proof. exact (FindProofs.scalar_step O). Qed.
Theorem nil_has_no_members : forall idx, augmented_get O VNil idx = None.
Proof. exact (FindProofs.nil_has_no_members O). Qed.

(* ---- a path is resolved step by step ---- *)
Theorem path_step : forall v i p,
  try_find O v (i :: p) = match augmented_get O v i with Some c => try_find O c p | None => None end.
Proof. exact (FindProofs.try_find_step O). Qed.
Theorem path_concat : forall v p q,
  try_find O v (p ++ q) = match try_find O v p with Some c => try_find O c q | None => None end.
Proof. exact (FindProofs.try_find_app O). Qed.
Theorem missing_stays_missing : forall v p q, try_find O v p = None -> try_find O v (p ++ q) = None.
Proof. exact (FindProofs.missing_stays_missing O). Qed.
Theorem find_ok_iff : forall v p r, find O v p = Ok r <-> try_find O v p = Some r.
Proof. exact (FindProofs.find_ok_iff O). Qed.
Theorem find_missing_fails : forall v p, try_find O v p = None ->
  find O v p = Err EUnknownIndex \/ find O v p = Panic site_find_should_have_errored.
Proof. exact (FindProofs.find_missing_fails O). Qed.
(* the layered lookup never reaches the panic site and agrees with the optional lookup *)
Theorem get_never_panics : forall p r, not_panic (Stack.get O p r) = true /\ Stack.get O p r <> OutOfFuel.
Proof. exact (StackProofs.get_never_panics O). Qed.

(* ---- the output tag ---- *)
Variable ps : pstore. Variable rec : template -> est -> sink -> out.
(* the bracket may hold any expression: indices are evaluated first, and must be scalars *)
Theorem output_resolved : forall root idx s k p v,
  eval_indices O idx s = Ok p -> Stack.try_get O (root :: p) (fr s) = Some v ->
  rnode O ps rec (NOutput (EVar root idx, [])) s k = write_str s k (Value.render O v).
Proof. exact (FindProofs.output_resolved O ps rec). Qed.
(* if any step does not exist the output tag fails: it neither prints nothing-and-succeeds nor a
   neighbouring element; the sink and the state are as before *)
Theorem output_missing_fails : forall root idx s k p,
  eval_indices O idx s = Ok p -> Stack.try_get O (root :: p) (fr s) = None ->
  exists c, rnode O ps rec (NOutput (EVar root idx, [])) s k = (OFail c, s, k).
Proof. exact (FindProofs.output_missing_fails O ps rec). Qed.
Theorem output_bad_index_fails : forall root idx s k c,
  eval_indices O idx s = Err c -> rnode O ps rec (NOutput (EVar root idx, [])) s k = (OFail c, s, k).
Proof. exact (FindProofs.output_bad_index_fails O ps rec). Qed.

(* ---- literals ---- *)
Theorem literal_prints : forall v s k,
  rnode O ps rec (NOutput (ELit v, [])) s k = write_str s k (Value.render O v).
Proof. exact (FindProofs.literal_prints O ps rec). Qed.
(* every integer of the 64-bit range: its numeral reads back as the integer and the integer prints as the numeral *)
Theorem integer_numeral_roundtrip : forall z, in_i64 z = true ->
  parse_i64 (show_Z z) = Some z /\ Value.render O (VScalar (SInt z)) = show_Z z.
Proof. exact (FindProofs.integer_numeral_roundtrip O). Qed.
(* a numeral is only ever converted to an integer of the 64-bit range (never wrapped) *)
Theorem integer_conversion_in_range : forall t z, parse_i64 t = Some z -> in_i64 z = true.
Proof. exact FindProofs.parse_i64_in_range. Qed.
Theorem string_bool_nil_literals : forall x b,
  Value.render O (VScalar (SStr x)) = x /\ Value.render O (VScalar (SBool b)) = show_bool b /\ Value.render O VNil = [].
Proof. exact (FindProofs.string_bool_nil_literals O). Qed.
End C07.

(* non-vacuity: o.items[-1].size resolves through an object, a negative index and the size overlay;
   o.items[-3] does not exist and the output tag fails having written nothing *)
Example c07_nonvacuous :
  let o := [111%N] in let items := [105;116;101;109;115]%N in
  let data := [(o, VObject [(items, VArray [VScalar (SStr [97;98]%N); VScalar (SStr [99;100;101]%N)])])] in
  let path i last := EVar (SStr o) ([ELit (VScalar (SStr items)); ELit (VScalar (SInt i))] ++ last) in
  (match render_top no_oracle_v (fun _ => Err EOther) 1 [NOutput (path (-1)%Z [ELit (VScalar (SStr k_size))], [])] data sink0 with
   | (r, _, k) => r = ODone /\ acc k = [51%N] end) /\
  (match render_top no_oracle_v (fun _ => Err EOther) 1 [NText [60%N]; NOutput (path (-3)%Z [], [])] data sink0 with
   | (r, _, k) => r = OFail EUnknownIndex /\ acc k = [60%N] end).
Proof. vm_compute. repeat split; reflexivity. Qed.

(* ---- integer literals, from the text of the template to the value ---- *)
(* IntegerLiteral = @{ ("+" | "-")? ~ ASCII_DIGIT+ }: an optional sign and the longest run of digits, or no match *)
Theorem integer_literal_rule : forall at_ s pos fuel, at_ <> Atomic -> 10 + length s <= fuel ->
  ev liquid_grammar liquid_ws fuel at_ false (PRef r_IntegerLiteral) s pos =
  Some (let (sg, s1) := strip_sign s in
        match span_dig s1 with
        | ([], _) => None
        | (ds, r) => Some (r, pos + sg + length ds, [mkTok r_IntegerLiteral pos (pos + sg + length ds)])
        end).
Proof. exact LitProofs.integer_rule_exact. Qed.
(* the numeral of any integer, followed by anything that is neither a digit nor a fraction, is read by the
   Literal rule as an IntegerLiteral over exactly the numeral ... *)
Theorem numeral_is_a_literal : forall z rest at_ pos fuel, no_digit_next rest -> no_fraction_next rest -> at_ <> Atomic ->
  24 + length (show_Z z ++ rest) <= fuel ->
  ev liquid_grammar liquid_ws fuel at_ false (PRef r_Literal) (show_Z z ++ rest) pos =
  Some (Some (rest, pos + length (show_Z z),
              [mkTok r_Literal pos (pos + length (show_Z z)); mkTok r_IntegerLiteral pos (pos + length (show_Z z))])).
Proof. exact LitProofs.numeral_is_a_literal. Qed.
(* ... and (integer_numeral_roundtrip above) that text is converted to z when z is in the 64-bit range, and
   rejected otherwise (integer_conversion_in_range) — never wrapped *)

Print Assumptions array_index_spec.
Print Assumptions array_index_nonneg.
Print Assumptions array_index_negative.
Print Assumptions array_index_in_range.
Print Assumptions array_index_out_of_range.
Print Assumptions array_integer_index.
Print Assumptions array_first.
Print Assumptions array_last.
Print Assumptions array_size.
Print Assumptions array_other_names_missing.
Print Assumptions object_own_key.
Print Assumptions object_size.
Print Assumptions object_missing_key.
Print Assumptions scalar_step.
Print Assumptions nil_has_no_members.
Print Assumptions path_step.
Print Assumptions path_concat.
Print Assumptions missing_stays_missing.
Print Assumptions find_ok_iff.
Print Assumptions find_missing_fails.
Print Assumptions get_never_panics.
Print Assumptions output_resolved.
Print Assumptions output_missing_fails.
Print Assumptions output_bad_index_fails.
Print Assumptions literal_prints.
Print Assumptions integer_numeral_roundtrip.
Print Assumptions integer_conversion_in_range.
Print Assumptions string_bool_nil_literals.
Print Assumptions integer_literal_rule.
Print Assumptions numeral_is_a_literal.
