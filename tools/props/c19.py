"""C19 — eager, lazy and on-demand partial compilation are observationally equivalent."""
import itertools, json, random
from props import tpl, scen
import lv

PROP = "C19"
TARGETS = ["props/C19.vo", "corr/Rendercorr.vo"]
HEADER = "From LV Require Import Corr Eval Rendercorr.\n"
CHECKER = "render_check"
TRUSTED = [
    "model/Partials.v transcribes partials/{eager,lazy,ondemand,inmemory}.rs over sources whose name listing is truthful; `compile` (parser::parse of a partial's text) is a parameter of the store theorems",
    "the evaluator uses the store only through get (include_tag.rs, render_tag.rs): in model/Eval.v the store is the function `pstore`",
]
RULE = ("(main template, 0..4 partials, data) triples with valid, syntactically broken and absent partials, names chosen literally and dynamically, each rendered 1..3 times per parser, "
        "under the eager, lazy and on-demand policy over the in-memory source; non-trivial = the template reaches a partial")
POLICIES = ["eager", "lazy", "ondemand"]


def main(tier, seed):
    rnd = random.Random(seed)
    run = lv.Run(PROP, tier, seed)
    run.trusted = lv.COMMON_TRUSTED + TRUSTED
    lv.standard_proof_phase(run, PROP, TARGETS, thorough=(tier == "thorough"))
    ok, binp, out, dt = lv.build_harness("debug")
    if not ok:
        run.obligation(False, "harness build against /repo", out[-3000:])
        return run.finish()
    scenarios = scen.fixed_scenarios() + [scen.random_scenario(rnd) for _ in range(60 if tier == "quick" else 1200)]
    # also: no partials at all, and a parser with only broken partials
    scenarios.append({"partials": [], "templates": [[("text", "plain")], [("include", tpl.Sx("p"), [])]], "datas": [[]]})
    scenarios.append({"partials": [("b1", scen.BROKEN), ("b2", "{{ | }}")], "templates": [[("text", "ok")], [("render", tpl.Sx("b1"), None, [])], [("include", tpl.Sx("b2"), [])]], "datas": [[]]})
    # a name and the same name with the `.liquid` suffix (render falls back to the suffixed name) are two partials
    S = tpl.Sx
    scenarios.append({"partials": [("card", [("text", "plain")]), ("card.liquid", [("text", "suffixed")]), ("only.liquid", [("text", "O")])],
                      "templates": [[("include", S("card"), []), ("text", "|"), ("include", S("card.liquid"), [])], [("render", S("card.liquid"), None, []), ("text", "|"), ("render", S("card"), None, [])],
                                    [("render", S("only"), None, []), ("render", S("only.liquid"), None, [])], [("include", S("card.liquid"), [])], [("include", S("card"), [])]], "datas": [[]]})
    scenarios.append({"partials": [("card", scen.BROKEN), ("card.liquid", [("text", "fallback")])],
                      "templates": [[("render", S("card"), None, [])], [("render", S("card.liquid"), None, [])], [("include", S("card.liquid"), []), ("include", S("card"), [])]], "datas": [[]]})
    scenarios.append({"partials": [("card", [("text", "plain")]), ("card.liquid", scen.BROKEN)],
                      "templates": [[("render", S("card.liquid"), None, [])], [("render", S("card"), None, [])], [("include", S("card"), [])]], "datas": [[]]})
    reqs = []
    # partial sources of particular shapes: blank, whitespace only, ending / starting with a line break, only a comment, only raw text - each reached by include, render and a dynamic name
    V = tpl.var
    shapes = [("blank", [("text", "")]), ("ws", [("text", " \n")]), ("nl_end", [("text", "- "), ("out", (V("k"), [])), ("text", "\n")]), ("nl_start", [("text", "\n\tx")]), ("crlf_end", [("text", "x\r\n")]),
              ("cmt", [("comment", "nothing")]), ("rawonly", [("raw", "{{ k }}\n")]), ("two_nl", [("text", "y\n\n")])]
    tps = []
    for nme, _ in shapes:
        tps.append([("text", "<"), ("include", S(nme), [("k", S("K"))]), ("text", "|"), ("render", S(nme), None, [("k", S("R"))]), ("text", "|"), ("include", V("dyn"), [("k", S("D"))]), ("text", ">")])
    scenarios.append({"partials": shapes, "templates": tps, "datas": [[["dyn", ["s", n]]] for n, _ in shapes[:3]]})
    for si, sc in enumerate(scenarios):
        pairs = [(t, d) for t in range(len(sc["templates"])) for d in range(len(sc["datas"]))]
        calls = []
        for p in pairs:
            calls += [list(p)] * rnd.randint(1, 3)
        rnd.shuffle(calls)
        for pol in POLICIES:
            reqs.append({"id": len(reqs), "kind": "history", "si": si, "policy": pol, "partials": scen.partials_req(sc),
                         "templates": [tpl.body_text(t) for t in sc["templates"]], "datas": sc["datas"], "calls": calls})
    resps, problems = lv.run_harness(binp, reqs, tag="C19")
    for pb in problems:
        run.violations.append({"what": "implementation process died", "observed": pb["tail"]})
    seen, nontriv, calls_n, samples = {}, set(), 0, []
    by_s = {}
    for q in reqs:
        r = resps.get(q["id"])
        if r is None:
            continue
        if "build_err" in r or "panic" in r:
            run.violations.append({"what": "building / using the parser failed because of a partial (a broken or missing partial must fail only the render that reaches it)",
                                   "input": {"policy": q["policy"], "partials": q["partials"]}, "observed": r})
            continue
        by_s.setdefault(q["si"], {})[q["policy"]] = (q, [x for x in r["results"] if "data_changed" not in x])
    for si, d in by_s.items():
        if len(d) != 3:
            continue
        q0, base = d["eager"]
        for pol in ("lazy", "ondemand"):
            q, res = d[pol]
            for i, (call, a, b) in enumerate(zip(q0["calls"], base, res)):
                calls_n += 1
                if a != b:
                    run.violations.append({"what": "the %s policy and the eager policy give different results" % pol,
                                           "input": {"template": q0["templates"][call[0]], "data": q0["datas"][call[1]], "partials": q0["partials"], "call_index": i},
                                           "observed": b, "expected": a})
        for call, a in zip(q0["calls"], base):
            key = (si, call[0], call[1])
            if key in seen and seen[key] != a:
                run.violations.append({"what": "repeated use of a partial gave a different result than its first use", "input": {"template": q0["templates"][call[0]], "partials": q0["partials"]}, "observed": a, "expected": seen[key]})
            seen.setdefault(key, a)
            if "include" in q0["templates"][call[0]] or "render" in q0["templates"][call[0]]:
                nontriv.add(key)
        if len(samples) < 2:
            samples.append({"partials": q0["partials"], "templates": q0["templates"], "results_eager": base[:2]})
    irs, keys = [], []
    for (si, ti, di), got in seen.items():
        sc = scenarios[si]
        irs.append(tpl.case_ir({"tpl": sc["templates"][ti], "data": sc["datas"][di], "partials": sc["partials"]}, got))
        keys.append((si, ti, di))
    okd, drv, dout, ddt = lv.build_driver()
    run.obligation(okd, "extraction of the model and driver build", dout[-3000:])
    failing = []
    if okd:
        failing, errors = lv.run_driver(drv, CHECKER, [lv.to_sexp(t) for t in irs], tag="C19")
        run.obligation(not errors, "correspondence suite C19 evaluated by the extracted model", json.dumps(errors)[:3000])
        idx = sorted(set(failing[:20]) | set(random.Random(seed).sample(range(len(irs)), min(len(irs), 100))))
        cfail, cproblems = lv.run_coq_cases("C19", HEADER, [lv.to_coq(irs[i]) for i in idx], check_fn=CHECKER, shard_size=50)
        run.obligation(not cproblems and sorted(idx[j] for j in cfail) == sorted(i for i in failing if i in set(idx)),
                       "extracted driver agrees with vm_compute inside Coq on %d sampled cases" % len(idx), json.dumps(cproblems)[:2000])
        for i in failing[:5]:
            si, ti, di = keys[i]
            run.broken.append({"obligation": "correspondence C19: model and implementation disagree", "input": {"template": tpl.body_text(scenarios[si]["templates"][ti]), "data": scenarios[si]["datas"][di],
                                                                                                                "partials": scen.partials_req(scenarios[si])}, "implementation": seen[keys[i]]})
    run.obligation(okd and not failing, "correspondence C19: the policy-independent model result == the result under every policy", "%d disagreements" % len(failing))
    run.coverage.update({"evaluations": calls_n, "distinct_nontrivial": len(nontriv), "rule": RULE, "samples": samples, "traces_validated_against_impl": len(reqs),
                         "disagreements_checked": len(failing), "exhaustive": False,
                         "input_distribution": {"scenarios": len(scenarios), "parsers_built": len(reqs), "cross_policy_comparisons": calls_n}})
    return run.finish()
