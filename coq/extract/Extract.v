(* Extraction of the executable model and of the correspondence checkers to OCaml.
   ExtrOcamlBasic only: bool, option, unit, list, prod, sumbool, sumor map to OCaml's own
   types; N, Z, positive, nat, comparison, spec_float stay the extracted datatypes. *)
Require Extraction.
Require Import ExtrOcamlBasic.
From LV Require Import Corr C18corr C11corr C15corr C16corr Seqcorr Rendercorr C02corr C17corr Lexcorr C12corr Blockcorr Condcorr.
Extraction Language OCaml.
Extraction "model.ml" c18_check c11_check c15_check c16_check seq_check render_check sink_check filter_check date_check dshow_check dparse_check lex_check serde_check tovalue_check content_check block_check cond_check.
