"""C10 — a failing output sink produces an error and a clean prefix, never a panic."""
import random
from props import tpl, pyref, progen
from props.tpl import lit, var, I, Sx, observed
from lv import C, R, S, P, obj_ir

PROP = "C10"
TARGETS = ["props/C10.vo", "corr/Rendercorr.vo"]
HEADER = "From LV Require Import Corr Eval Rendercorr.\n"
CHECKER = "sink_check"
MODEL_HANDLES_PANIC = True
SHARD = 200
TRUSTED = [
    "model/Eval.v: every write!(..).replace(..)? of text.rs, filter_chain.rs, raw_block.rs, cycle_tag.rs, increment_tags.rs, for_block.rs (tablerow), ifchanged_block.rs is a `write` whose failure is propagated as the code propagates it; capture and ifchanged write into private buffers",
    "io::Write::write_all is modelled by its contract (the sink accepts bytes up to its budget, a short count at the boundary, then fails); the fail-at-the-k-th-call policy is checked on the implementation only (the number of write calls per write! is std's business)",
]
RULE = ("generated templates using every writing construct (text, output, raw, cycle, increment/decrement, tablerow, ifchanged, include, render, nested in loops and conditionals) x EVERY byte budget 0..|output| (sink accepts a short count then fails) "
        "x EVERY call index 1..W (sink fails at the k-th write call); non-trivial = the fault point lies strictly inside the output")

PARTIALS = [("p", [("text", "<p:"), ("out", (var("a"), [])), ("inc", "n"), ("text", ">")]),
            ("q", [("text", "{"), ("cycle", None, [Sx("é"), Sx("b")]), ("out", (var("v"), [])), ("text", "}")])]
DATA = [["a", ["s", "dä"]], ["arr", ["a", [["s", "x"], ["s", "yy"], ["s", "☃"]]]]]


def fixed_templates():
    arr = ("arr", var("arr"))
    T = []
    T.append([("text", "héllo "), ("out", (var("a"), [])), ("raw", "{{raw}}"), ("inc", "n"), ("dec", "m"), ("text", "!")])
    T.append([("for", "x", arr, None, None, False, [("cycle", None, [Sx("1"), Sx("2")]), ("out", (var("x"), [])), ("text", ",")], None), ("text", "end")])
    T.append([("tablerow", "x", arr, I(2), None, None, [("out", (var("x"), []))]), ("text", "Z")])
    T.append([("for", "x", arr, None, None, False, [("ifchanged", [("out", (var("x", "size"), []))]), ("text", ".")], None)])
    T.append([("capture", "c", [("text", "cap"), ("out", (var("a"), []))]), ("out", (var("c"), [])), ("out", (var("c"), []))])
    T.append([("include", Sx("p"), []), ("render", Sx("q"), None, [("v", Sx("V"))]), ("render", Sx("q"), (arr, "v"), []), ("include", Sx("p"), [("a", Sx("arg"))])])
    T.append([("for", "i", ("cnt", I(1), I(3)), None, None, False,
               [("if", True, ("bin", var("i"), "==", I(2)), [("text", "two"), ("continue",)], [("out", (var("i"), []))]), ("tablerow", "y", arr, None, I(2), None, [("out", (var("y"), [])), ("inc", "k")])], None)])
    T.append([("out", (var("missing"), [])), ("text", "never")])
    T.append([("text", "a"), ("out", (var("arr"), [])), ("out", (var("missing"), [])), ("text", "never")])
    # writes performed by a block AFTER its body has raised break/continue (the buffered ifchanged body, tablerow's cell and row closers)
    for irq in (("break",), ("continue",)):
        T.append([("text", "a"), ("for", "i", ("cnt", I(1), I(3)), None, None, False, [("ifchanged", [("out", (var("i"), [])), irq]), ("text", "x")], None), ("text", "z")])
        T.append([("tablerow", "x", arr, None, None, None, [("out", (var("x"), [])), irq]), ("text", "Z")])
        T.append([("tablerow", "x", arr, I(2), None, None, [("out", (var("x"), [])), irq, ("text", "never")]), ("text", "Z")])
        T.append([("for", "i", ("cnt", I(1), I(2)), None, None, False, [("tablerow", "x", arr, I(2), None, None, [("out", (var("x"), [])), irq]), ("text", ";")], None), ("text", "Z")])
        T.append([("for", "i", ("cnt", I(1), I(3)), None, None, False, [("capture", "c", [("out", (var("i"), [])), irq]), ("out", (var("c"), [])), ("text", ",")], None), ("text", "Z")])
        T.append([("for", "i", ("cnt", I(1), I(3)), None, None, False, [("ifchanged", [("ifchanged", [("out", (var("i"), [])), irq]), ("text", "y")]), ("text", "x")], None), ("text", "z")])
    T.append([])
    return T


def gen(tier, seed):
    rnd = random.Random(seed)
    templates = fixed_templates()
    n = 60 if tier == "quick" else 1500
    for _ in range(n):
        g = progen.Gen(rnd, partial_names=["p", "q"], allow=("assign", "capture", "inc", "dec", "for", "if", "include", "render", "read", "text", "cycle", "ifchanged", "tablerow", "break", "continue"))
        templates.append(g.program(size=4, depth=3))
    cases = []
    for ti, t in enumerate(templates):
        cases.append({"tpl": t, "data": DATA, "partials": PARTIALS, "budget": None, "ti": ti, "why": "fault-free"})
    for i, c in enumerate(cases):
        c["id"] = i
    return cases, {"templates": len(templates), "exhaustive": True}


STATE = {"cases2": [], "resps2": {}}


def request(c):
    return tpl.request(c)


def spec_check(c, resp):
    return None


def nontrivial(c, resp):
    return False


def main(tier, seed):
    """two-stage: the fault-free run gives the output and W; then one run per fault point"""
    import lv, lvcheck, json
    run = lv.Run(PROP, tier, seed)
    run.trusted = lv.COMMON_TRUSTED + TRUSTED
    lv.standard_proof_phase(run, PROP, TARGETS, thorough=(tier == "thorough"))
    ok, binp, out, dt = lv.build_harness("debug")
    run.checker_cmds.append("cargo build --offline (harness over /repo)")
    if not ok:
        run.obligation(False, "harness build against /repo", out[-3000:])
        return run.finish()
    base, dist = gen(tier, seed)
    r0, problems = lv.run_harness(binp, [dict(tpl.request(c), sink={}) for c in base], tag="C10a")
    cases = []
    for c in base:
        r = r0.get(c["id"])
        if r is None or "panic" in r:
            run.violations.append({"what": "render panicked / died with a working sink", "input": tpl.body_text(c["tpl"]), "observed": r})
            continue
        total = r["accepted_bytes"]
        W = r["calls"]
        for n in range(0, len(total) + 1):
            cases.append(dict(c, budget=n, full=total, full_result=r["result"], mode="budget"))
        for kk in range(1, W + 1):
            cases.append(dict(c, fail_at=kk, full=total, full_result=r["result"], mode="call"))
        # buffered render == streamed bytes
        cases.append(dict(c, mode="buffered", full=total, full_result=r["result"]))
    for i, c in enumerate(cases):
        c["id"] = i

    def req(c):
        q = tpl.request(dict(c, budget=None))
        if c["mode"] == "budget":
            q["sink"] = {"budget": c["budget"]}
        elif c["mode"] == "call":
            q["sink"] = {"fail_at_call": c["fail_at"]}
        return q
    resps, problems = lv.run_harness(binp, [req(c) for c in cases], tag="C10b")
    for pb in problems:
        run.violations.append({"what": "implementation process died", "observed": pb["tail"]})
    irs, kept = [], []
    nontriv = set()
    samples = []
    for c in cases:
        r = resps.get(c["id"])
        if r is None:
            continue
        src = tpl.body_text(c["tpl"])
        inp = {"template": src, "data": c["data"], "partials": [[n, tpl.body_text(b)] for n, b in c["partials"]], "fault": c.get("budget", c.get("fail_at")), "mode": c["mode"]}
        if "panic" in r:
            run.violations.append({"what": "render panicked when the sink failed", "input": inp, "observed": r["panic"]})
            continue
        full = c["full"]
        if c["mode"] == "buffered":
            want = bytes(full).decode("utf-8", "replace")
            got = r.get("ok") if c["full_result"] == "ok" else r.get("partial")
            if got != want:
                run.violations.append({"what": "buffered render differs from the streamed bytes", "input": inp, "observed": got, "expected": want})
            continue
        acc = r["accepted_bytes"]
        failed = r["result"] != "ok"
        if acc != full[:len(acc)]:
            run.violations.append({"what": "bytes accepted before the failure are not a prefix of the fault-free output", "input": inp, "observed": acc, "expected": full})
        if r["calls_after_failure"] != 0:
            run.violations.append({"what": "the sink was written to again after it had failed", "input": inp, "observed": r["calls_after_failure"]})
        if c["mode"] == "budget":
            n = c["budget"]
            if n < len(full):
                if not failed or acc != full[:n]:
                    run.violations.append({"what": "sink failed but render did not return an error with exactly the accepted prefix", "input": inp, "observed": [r["result"], acc], "expected": full[:n]})
                nontriv.add((c["ti"], n))
            elif (r["result"] == "ok") != (c["full_result"] == "ok") or acc != full:
                run.violations.append({"what": "a sink that never fails changed the result", "input": inp, "observed": [r["result"], acc]})
            cls = 1 if failed else 0
            irs.append(R("mkK", tpl.body_ir(c["tpl"]), obj_ir(c["data"]), [P(S(n), ("some", tpl.body_ir(b))) for n, b in c["partials"]],
                         ("nat", c["budget"]), ("n", cls), [("n", b) for b in acc]))
            kept.append(c)
        else:
            if r["sink_failed"] and not failed:
                run.violations.append({"what": "the sink failed at a write call but render returned Ok", "input": inp, "observed": r})
            if r["sink_failed"]:
                nontriv.add((c["ti"], "call", c["fail_at"]))
        if len(samples) < 3 and c["mode"] == "budget" and 0 < c["budget"] < len(full):
            samples.append({"request": req(c), "implementation": {k: r[k] for k in ("result", "accepted", "calls", "calls_after_failure")}})
    okd, drv, dout, ddt = lv.build_driver()
    run.obligation(okd, "extraction of the model and driver build", dout[-3000:])
    failing = []
    if okd:
        failing, errors = lv.run_driver(drv, CHECKER, [lv.to_sexp(t) for t in irs], tag="C10")
        run.obligation(not errors, "correspondence suite C10 evaluated by the extracted model", json.dumps(errors)[:3000])
        import random as _r
        rr = _r.Random(seed)
        idx = sorted(set(failing[:30]) | set(rr.sample(range(len(irs)), min(len(irs), 150))))
        cfail, cproblems = lv.run_coq_cases("C10", HEADER, [lv.to_coq(irs[i]) for i in idx], check_fn=CHECKER, shard_size=50)
        run.obligation(not cproblems and sorted(idx[j] for j in cfail) == sorted(i for i in failing if i in set(idx)),
                       "extracted driver agrees with vm_compute inside Coq on %d sampled cases" % len(idx), json.dumps(cproblems)[:2000])
        for i in failing[:5]:
            c = kept[i]
            run.broken.append({"obligation": "correspondence C10: model and implementation disagree", "input": req(c), "implementation": resps[c["id"]]})
    run.obligation(okd and not failing, "correspondence C10: model == implementation for every budget", "%d disagreements" % len(failing))
    run.coverage.update({"evaluations": len(cases), "distinct_nontrivial": len(nontriv), "rule": RULE, "samples": samples,
                         "traces_validated_against_impl": len(cases), "disagreements_checked": len(failing), "exhaustive": True,
                         "input_distribution": {"templates": len(base), "budget_runs": sum(1 for c in cases if c["mode"] == "budget"),
                                                "call_fault_runs": sum(1 for c in cases if c["mode"] == "call")}})
    return run.finish()
