#!/usr/bin/env python3
"""Regenerates /verif/MANIFEST.json from the table below (kept valid at all times)."""
import json, os
V = os.path.dirname(os.path.dirname(os.path.abspath(__file__)))
TECH = "machine-checked proof in Rocq (Coq 8.16) over an executable Gallina model + correspondence check (extracted model vs implementation)"
NOTE_COMMON = ("Trusted: Coq kernel; extraction (ExtrOcamlBasic only) cross-checked against vm_compute inside Coq on a sample each run; "
               "the hand transcription of the Rust code is tied to /repo only by the correspondence run of this check; ")
CLAIMS = {
 "C18": ("Theorems in coq/props/C18.v (no axioms) about a transcription of runtime/stack.rs + RuntimeBuilder + model/find.rs: failing/optional lookup agreement, refinement to the 'first resolving layer' specification, roots exactness, transparency, sandbox hiding, nearest-global assignment, pop restoration, shared counters, safety of every operation sequence over a builder-made runtime — for all stacks, names, paths and values. Correspondence on every run: operation traces (exhaustive to length 3 over the 28-operation alphabet, length 4/5 over a reduced one, random to 6) executed on the real StackFrame/SandboxedStackFrame/GlobalFrame types and on the extracted model, and judged by an independent abstract stack-of-maps.",
         "registers are outside C18.", "DESIGN.md §6 C18"),
 "C11": ("Theorems in coq/props/C11.v (no axioms) about a transcription of value_eq/value_cmp/scalar_eq/scalar_cmp: symmetry and reflexivity (NaN excepted) of ==, != as negation, duality of < and >, <=/>= as (< or ==) on ordered values, equal values never strictly ordered, and independence of every answer from the storage/iteration order of object entries (via canonicity of the key-sorted entry list) — for all values of any depth, for every recursion budget. Also proves that the pre-repair hash-order zip violated this (Pinned.order_dependent_refuted). Correspondence: all ordered pairs of a 76-value pool (each operand rebuilt 16 times so hash orders vary) plus random nested pairs, through Value, ValueViewCmp, ValueCow and to_value, against the extracted model and against the laws themselves.",
         "floats are SpecFloat data (SFcompare), `as f64` is binary_normalize; int/float equality for |x|<=2^53 is checked by the correspondence and the law check, not yet a theorem; the State::Truthy marker is outside the quantifier (proved asymmetric).", "DESIGN.md §6 C11"),
 "C15": ("Theorems in coq/props/C15.v (no axioms, no real numbers) about a transcription of stdlib/filters/math.rs: plus/minus/times/abs/at_least/at_most on integers equal the mathematical result when it fits in 64 bits and otherwise continue as the IEEE operation on the converted operands (never a wrapped integer); truncated division law with remainder bound, the single non-fitting quotient, division by zero as an error for integer/float/string zeros; the float path is SpecFloat's IEEE binary64 operation; numeric strings parse back to the integer they print (decimal print/parse round trip proved); floor/ceil/round of every finite double m*2^e are the neighbouring integers in the documented direction (ties away from zero) as integer-scaled inequalities. Correspondence: all pairs of the 64-bit boundary set as integers/strings/floats for each of the eleven filters, all k/8 pairs, random 64-bit operands and doubles, type-confused operands, on the debug and the release build, against the extracted model and an independent big-integer/IEEE reference.",
         "f64::from_str is an oracle (table observed from the implementation each run); % on doubles is an exact fmod written in the model; round with decimal places is multiply/round/divide in doubles with 10.0.powi(n) modelled as square-and-multiply, covered by the correspondence only.", "DESIGN.md §6 C15"),
 "C16": ("Theorems in coq/props/C16.v (no axioms) about a transcription of html.rs/url.rs whose entity table, escaped-character set and percent-encoding set are REGENERATED from the source on every run (tools/translate.py -> coq/gen/Consts.v; consts_match pins them to the five entities and the unreserved set of the property): escape output is safe and unescape inverts it; escape_once is safe, keeps existing entities and is idempotent; UTF-8 decode(encode s) = s for all scalar-value strings; url_encode emits only unreserved characters and %XY with upper-case hex; url_decode(url_encode s) = s; failures are error values; strip_html output has no '<' followed by a '>'. Correspondence: exhaustive strings over the entity/URL/tag alphabets (<=4, thorough <=5) plus random longer strings against the extracted model and an independent Python reference (regex/urllib).",
         "the regex crate's semantics (leftmost, lazy, (?is), simple case folding) and the percent-encoding crate are modelled by hand (explicit scanners) and validated by the correspondence only; the functional form of escape() (skip counter) stands for the byte-index loop.", "DESIGN.md §6 C16"),
 "C13": ("Theorems in coq/props/C13.v (no axioms) about a transcription of the string filters (string/*.rs, slice.rs, size/default, newline_to_br, join/first/last, FilterChain::evaluate) over strings as lists of characters: split-then-join identity, replace = join of split, strip = lstrip after rstrip, slice returns a contiguous piece of at most the requested length and is the documented piece for every offset/length, size counts characters, truncate/truncatewords/append/prepend/replace_first/strip_newlines/case/first/last/default specifications, and the chain-as-composition law — for every string. Correspondence: exhaustive strings over the 10-symbol alphabet (<=2 plus a seeded share of length 3 quick; <=4 thorough) x every filter x arguments and integer arguments -6..8, laws as chains, random strings to 200 with random chains, type-confused operands; against the extracted model and an independent Python reference.",
         "Rust std str::{split,splitn,replace,trim*} are modelled as list functions; char::to_uppercase/to_lowercase and grapheme clusters are oracles given as tables observed from the implementation in the same run (U+03A3 not generated; truncate after another filter not generated); truncate's length law is proved for strings whose clusters are single characters and stated as a cluster bound otherwise.", "DESIGN.md §6 C13"),
}
def main():
    props = [json.loads(l) for l in open(os.path.join(V, "properties.jsonl"))]
    checks, na = [], []
    for p in props:
        pid = p["id"]
        if pid in CLAIMS:
            text, note, ref = CLAIMS[pid]
            checks.append({"property_id": pid, "quick_cmd": "./check %s --tier quick" % pid,
                           "thorough_cmd": "./check %s --tier thorough" % pid,
                           "evidence_file": "/verif/evidence/%s.json" % pid,
                           "replay_cmd_template": "./check replay {path}", "engine": "rocq",
                           "level_claimed": {"category": "proof", "text": text, "design_ref": ref},
                           "level_note": NOTE_COMMON + note, "technique": TECH})
        else:
            na.append({"property_id": pid, "reason": "not yet built (work in progress, see DESIGN.md §9 build order); the technique applies"})
    m = {"version": 1, "setup_cmd": "./setup.sh",
         "hooks": {"guard": "liquid_verif", "enable": "RUSTFLAGS=\"--cfg liquid_verif\" (no hook is needed so far: everything observed is public API)",
                   "baseline_off_cmd": "cd /repo && cargo nextest run --workspace --no-fail-fast --tool-config-file pb:/w/lib/nextest.toml --profile pb --test-threads 8 --offline",
                   "source_commits": [], "add_only": True},
         "engines": [{"name": "rocq", "path": "/verif/coq", "serves_properties": sorted(CLAIMS),
                      "kind_free_text": "Coq 8.16.1 development (model/, proofs/, props/, corr/, extract/) + extracted OCaml driver (driver/) + Rust harness over /repo (harness/) + python orchestrator (tools/)"}],
         "checks": checks,
         "notes": "Single entry point ./check <Cnn> --tier quick|thorough; ./check replay <file>. Findings: known_findings.txt. Seeded mutants: seeded/.",
         "not_applicable": na}
    json.dump(m, open(os.path.join(V, "MANIFEST.json"), "w"), indent=1)
if __name__ == "__main__":
    main()
