(* Proofs about model/Eval.v: loops (C05), conditionals (C06), scoping (C04). *)
From LV Require Import Base Value Stack Eval BaseLemmas.

(* ---------------- C05: the selection window ---------------- *)
Lemma skipn_min {A} n (l : list A) : skipn (Nat.min n (length l)) l = skipn n l.
Proof.
  destruct (Nat.le_ge_cases n (length l)) as [H|H]; [rewrite Nat.min_l by lia; reflexivity|].
  rewrite Nat.min_r by lia. rewrite !skipn_all2 by lia. reflexivity.
Qed.
Lemma firstn_min {A} n (l : list A) : firstn (Nat.min n (length l)) l = firstn n l.
Proof.
  destruct (Nat.le_ge_cases n (length l)) as [H|H]; [rewrite Nat.min_l by lia; reflexivity|].
  rewrite Nat.min_r by lia. rewrite !firstn_all2 by lia. reflexivity.
Qed.
(* offset skips, limit bounds what remains, reversed reverses the selection *)
Theorem window_spec (l : list value) (lim off : nat) (rv : bool) :
  iter_array l (Some (Z.of_nat lim)) (Z.of_nat off) rv =
  (if rv then @rev value else fun x => x) (firstn lim (skipn off l)).
Proof.
  unfold iter_array.
  replace (Z.to_nat (Z.min (Z.of_nat off) (Z.of_nat (length l)))) with (Nat.min off (length l)) by lia.
  rewrite skipn_min.
  replace (Z.to_nat (Z.min (Z.of_nat lim) (Z.of_nat (length l) - Z.min (Z.of_nat off) (Z.of_nat (length l)))))
    with (Nat.min lim (length (skipn off l))) by (rewrite skipn_length; lia).
  rewrite firstn_min. destruct rv; reflexivity.
Qed.
Theorem window_spec_nolimit (l : list value) (off : nat) (rv : bool) :
  iter_array l None (Z.of_nat off) rv = (if rv then @rev value else fun x => x) (skipn off l).
Proof.
  unfold iter_array.
  replace (Z.to_nat (Z.min (Z.of_nat off) (Z.of_nat (length l)))) with (Nat.min off (length l)) by lia.
  rewrite skipn_min.
  replace (Z.to_nat (Z.of_nat (length l) - Z.min (Z.of_nat off) (Z.of_nat (length l)))) with (length (skipn off l)) by (rewrite skipn_length; lia).
  rewrite firstn_all. destruct rv; reflexivity.
Qed.
(* every selected element comes from the collection, each once: a sub-list *)
Corollary window_sublist l lim off rv x : In x (iter_array l (Some (Z.of_nat lim)) (Z.of_nat off) rv) -> In x l.
Proof.
  rewrite window_spec. intro H. assert (In x (firstn lim (skipn off l))) by (destruct rv; [apply in_rev|]; exact H).
  assert (G1 : forall (m : list value) n y, In y (firstn n m) -> In y m).
  { intros m n; revert m; induction n as [|n IH]; intros [|h t] y Hy; simpl in *; try tauto. destruct Hy as [->|Hy]; auto. }
  assert (G2 : forall (m : list value) n y, In y (skipn n m) -> In y m).
  { intros m n; revert m; induction n as [|n IH]; intros [|h t] y Hy; simpl in *; try tauto. auto. }
  eauto.
Qed.

(* ---------------- C05: truthful loop metadata ---------------- *)
Theorem loop_obj_truthful i n p : (0 <= i < n)%Z ->
  let o := match forloop_obj i n p with VObject kvs => kvs | _ => [] end in
  lookup k_index o = Some (vz (i + 1)) /\ lookup k_index0 o = Some (vz i) /\
  lookup k_rindex o = Some (vz (n - i)) /\ lookup k_rindex0 o = Some (vz (n - i - 1)) /\
  lookup k_firstk o = Some (vbool (i =? 0)%Z) /\ lookup k_lastk o = Some (vbool (i =? n - 1)%Z) /\
  lookup k_length o = Some (vz n) /\ lookup k_parentloop o = Some (match p with Some v => v | None => VNil end).
Proof. intros _. repeat split; reflexivity. Qed.
Theorem tablerow_obj_truthful i n cols : (0 <= i < n)%Z -> (0 < cols)%Z ->
  let col := (i mod cols)%Z in
  let o := match tablerow_obj i n col cols with VObject kvs => kvs | _ => [] end in
  lookup k_col0 o = Some (vz col) /\ lookup k_col o = Some (vz (col + 1)) /\
  lookup k_col_first o = Some (vbool (col =? 0)%Z) /\
  lookup k_col_last o = Some (vbool ((col =? cols - 1)%Z || (i =? n - 1)%Z)) /\
  lookup k_index o = Some (vz (i + 1)) /\ lookup k_length o = Some (vz n) /\ (0 <= col < cols)%Z.
Proof. intros _ Hc. repeat split; try reflexivity; apply Z.mod_pos_bound; exact Hc. Qed.

(* ---------------- C05: a for loop visits the selection in order, once each ---------------- *)
Section Loops.
Variable body : est -> sink -> out.
Variable x : str. Variable len : Z. Variable parent : option value.
Notation floop := (for_loop body x len parent).
Definition iter_frame (i : Z) (v : value) : obj := loop_frame k_forloop (forloop_obj i len parent) x v.
Definition clear_intr (s : est) : est := let g := get_regs s in set_regs (mkRegs None (r_cycles g) (r_changed g)) s.

Theorem for_loop_nil i s k : floop [] i s k = (ODone, s, k).
Proof. reflexivity. Qed.
(* one iteration: the body runs on the runtime with the loop's frame pushed; afterwards the frame is
   gone and the interrupt register is cleared; `break` ends this loop, anything else goes on with the
   next element *)
Theorem for_loop_cons v vs i s k :
  floop (v :: vs) i s k =
  match body (push_plain (iter_frame i v) s) k with
  | (ODone, s', k') =>
      match r_intr (get_regs (pop_plain s')) with
      | Some Brk => (ODone, clear_intr (pop_plain s'), k')
      | _ => floop vs (i + 1)%Z (clear_intr (pop_plain s')) k'
      end
  | (o, s', k') => (o, pop_plain s', k')
  end.
Proof. reflexivity. Qed.

(* a loop that ran at least once and finished leaves no interrupt behind: `break` and `continue` never
   reach the code after the loop (in particular the enclosing loop) *)
Lemma clear_intr_not_interrupted s : interrupted (clear_intr s) = false.
Proof. reflexivity. Qed.
Theorem for_loop_consumes_interrupt : forall vs i s k s' k', vs <> [] ->
  floop vs i s k = (ODone, s', k') -> interrupted s' = false.
Proof.
  induction vs as [|v vs IH]; intros i s k s' k' Hne H; [congruence|].
  rewrite for_loop_cons in H.
  destruct (body (push_plain (iter_frame i v) s) k) as [[o s1] k1]. destruct o; try discriminate.
  destruct (r_intr (get_regs (pop_plain s1))) as [[|]|] eqn:E.
  - inversion H; subst. apply clear_intr_not_interrupted.
  - destruct vs as [|v' vs']; [rewrite for_loop_nil in H; inversion H; subst; apply clear_intr_not_interrupted|].
    eapply IH; [discriminate|exact H].
  - destruct vs as [|v' vs']; [rewrite for_loop_nil in H; inversion H; subst; apply clear_intr_not_interrupted|].
    eapply IH; [discriminate|exact H].
Qed.
End Loops.

(* the for block: the else branch runs exactly when nothing is selected; otherwise the loop runs
   over the selection with forloop.length = its length and parentloop = the enclosing forloop *)
Section ForNode.
Variable O : oracle. Variable ps : pstore. Variable rec : template -> est -> sink -> out.
Definition ropt_list (o : option (list node)) (s : est) (k : sink) : out :=
  match o with Some l => rlist O ps rec l s k | None => (ODone, s, k) end.
Theorem rnode_for x rng limit offset reversed body els s k :
  rnode O ps rec (NFor x rng limit offset reversed body els) s k =
  of_res (eval_range O rng s) s k (fun arr =>
  of_res (attr_usize O limit s) s k (fun lim =>
  of_res (attr_usize O offset s) s k (fun off =>
    let sel := iter_array arr lim (match off with Some z => z | None => 0%Z end) reversed in
    match sel with
    | [] => ropt_list els s k
    | _ => for_loop (rlist O ps rec body) x (Z.of_nat (length sel)) (try_get O [SStr k_forloop] (fr s)) sel 0%Z s k
    end))).
Proof. reflexivity. Qed.
(* a sequence stops after the element that raised an interrupt, and goes on otherwise *)
Theorem rlist_cons n l s k :
  rlist O ps rec (n :: l) s k =
  match rnode O ps rec n s k with
  | (ODone, s', k') => if interrupted s' then (ODone, s', k') else rlist O ps rec l s' k'
  | o => o
  end.
Proof. cbn [rlist]. unfold seq_step. destruct (rnode O ps rec n s k) as [[[| |] ?] ?]; reflexivity. Qed.
Theorem break_stops_the_sequence l s k : exists s', rlist O ps rec (NBreak :: l) s k = (ODone, s', k) /\ r_intr (get_regs s') = Some Brk.
Proof. rewrite rlist_cons. cbn [rnode]. eexists. split; reflexivity. Qed.
Theorem continue_stops_the_sequence l s k : exists s', rlist O ps rec (NContinue :: l) s k = (ODone, s', k) /\ r_intr (get_regs s') = Some Cont.
Proof. rewrite rlist_cons. cbn [rnode]. eexists. split; reflexivity. Qed.
(* break ends only the innermost loop: what follows a for block that iterated runs as if the block had
   contained no break at all *)
Theorem after_a_for_block_the_sequence_goes_on x rng limit offset reversed body els rest s k arr lim off s' k' :
  eval_range O rng s = Ok arr -> attr_usize O limit s = Ok lim -> attr_usize O offset s = Ok off ->
  iter_array arr lim (match off with Some z => z | None => 0%Z end) reversed <> [] ->
  rnode O ps rec (NFor x rng limit offset reversed body els) s k = (ODone, s', k') ->
  rlist O ps rec (NFor x rng limit offset reversed body els :: rest) s k = rlist O ps rec rest s' k'.
Proof.
  intros Ha Hl Ho Hne H. rewrite rlist_cons, H.
  rewrite rnode_for, Ha, Hl, Ho in H. cbn [of_res] in H. cbv zeta in H.
  destruct (iter_array arr lim (match off with Some z => z | None => 0%Z end) reversed) as [|v sel] eqn:E; [congruence|].
  assert (I : interrupted s' = false) by (eapply for_loop_consumes_interrupt; [|exact H]; discriminate).
  rewrite I. reflexivity.
Qed.
Theorem rnode_if mode c t e s k :
  rnode O ps rec (NIf mode c t e) s k =
  of_res (eval_cond O c s) s k (fun b => if Bool.eqb b mode then rlist O ps rec t s k else ropt_list e s k).
Proof. reflexivity. Qed.
Theorem rnode_capture x body s k :
  rnode O ps rec (NCapture x body) s k =
  match rlist O ps rec body s sink0 with
  | (ODone, s', kc) =>
      match decode (acc kc) with
      | Some t => of_res (set_global x (VScalar (SStr t)) (fr s')) s' k (fun f' => (ODone, mkEst f' (rg s'), k))
      | None => (OPanicked 303%N, s', k)
      end
  | (o, s', _) => (o, s', k)
  end.
Proof. reflexivity. Qed.
End ForNode.

(* ---------------- C06: conditionals ---------------- *)
Theorem truthiness v : (forall st, v <> VState st) ->
  (truthy v = false <-> v = VNil \/ v = VScalar (SBool false)).
Proof.
  intro Hs. unfold truthy. destruct v as [s|l|l|st|]; simpl.
  - destruct s as [z|f|b|t|d|x]; simpl; try (split; [discriminate|intros [H|H]; discriminate]).
    destruct b; split; try discriminate; auto. intros [H|H]; discriminate.
  - split; [discriminate|intros [H|H]; discriminate].
  - split; [discriminate|intros [H|H]; discriminate].
  - exfalso. apply (Hs st). reflexivity.
  - split; auto.
Qed.
(* 0, the empty string and the empty array are true *)
Example zero_empty_are_true :
  truthy (VScalar (SInt 0)) = true /\ truthy (VScalar (SStr [])) = true /\ truthy (VArray []) = true /\ truthy (VObject []) = true.
Proof. repeat split; reflexivity. Qed.

Section Cond.
Variable O : oracle. Variable ps : pstore. Variable rec : template -> est -> sink -> out.
(* a bare value is tested without failing: an undefined name counts as nil *)
Theorem bare_test e s : eval_cond O (CExists e) s =
  Ok (truthy (match try_eval_expr O e s with Some v => v | None => VNil end)).
Proof. reflexivity. Qed.
Theorem undefined_is_false e s : try_eval_expr O e s = None -> eval_cond O (CExists e) s = Ok false.
Proof. intro H. simpl. rewrite H. reflexivity. Qed.
(* the operators are the value model's equality and ordering *)
Theorem ops_are_value_model a b :
  eval_cmp O OpEq a b = Ok (value_eq a b) /\ eval_cmp O OpNe a b = Ok (negb (value_eq a b)) /\
  eval_cmp O OpLt a b = Ok (v_lt a b) /\ eval_cmp O OpGt a b = Ok (v_gt a b) /\
  eval_cmp O OpLe a b = Ok (v_le a b) /\ eval_cmp O OpGe a b = Ok (v_ge a b).
Proof. repeat split; reflexivity. Qed.
Theorem contains_spec a b :
  eval_cmp O OpContains a b =
  match a with
  | VScalar _ => Ok (str_contains (to_kstr O a) (to_kstr O b))
  | VObject kvs => Ok (match b with VScalar _ => has_key (to_kstr O b) kvs | _ => false end)
  | VArray l => Ok (existsb (fun e => value_eq e b) l)
  | _ => Err EOther
  end.
Proof. reflexivity. Qed.
(* and / or with the grouping x or (y and z) *)
Theorem and_or_semantics a b c s x y z :
  eval_cond O a s = Ok x -> eval_cond O b s = Ok y -> eval_cond O c s = Ok z ->
  eval_cond O (COr a (CAnd b c)) s = Ok (x || (y && z)) /\
  eval_cond O (CAnd a b) s = Ok (x && y) /\ eval_cond O (COr a b) s = Ok (x || y).
Proof.
  intros Ha Hb Hc. simpl. rewrite Ha, Hb, Hc. simpl. destruct x, y, z; repeat split; reflexivity.
Qed.

Lemma rlist_single n s k : rlist O ps rec [n] s k = rnode O ps rec n s k.
Proof.
  simpl. unfold seq_step. destruct (rnode O ps rec n s k) as [[o s'] k']. destruct o; try reflexivity.
  destruct (interrupted s'); reflexivity.
Qed.
(* if / elsif / else as the parser builds it: each elsif is an `if` alone in the else branch *)
Fixpoint mk_if (arms : list (cond * list node)) (els : option (list node)) : option (list node) :=
  match arms with
  | [] => els
  | (c, b) :: rest => Some [NIf true c b (mk_if rest els)]
  end.
(* exactly one branch: the first whose condition holds, otherwise else, otherwise nothing *)
Theorem if_first_true : forall arms els s k,
  Forall (fun cb => exists v, eval_cond O (fst cb) s = Ok v) arms ->
  ropt_list O ps rec (mk_if arms els) s k =
  match List.find (fun cb => match eval_cond O (fst cb) s with Ok true => true | _ => false end) arms with
  | Some (_, b) => rlist O ps rec b s k
  | None => ropt_list O ps rec els s k
  end.
Proof.
  induction arms as [|[c b] rest IH]; intros els s k H; [reflexivity|].
  inversion H as [|? ? [v Hv] Hr]; subst. simpl in Hv.
  cbn [mk_if ropt_list]. rewrite rlist_single, rnode_if. cbn [List.find fst]. rewrite Hv. cbn [of_res].
  destruct v; cbn [Bool.eqb]; [reflexivity|]. apply IH; assumption.
Qed.
(* an evaluation error is raised by the first arm that is reached and fails *)
Theorem if_error_propagates c t e s k cl : eval_cond O c s = Err cl ->
  rnode O ps rec (NIf true c t e) s k = (OFail cl, s, k).
Proof. intro H. rewrite rnode_if, H. reflexivity. Qed.
(* unless is the negation of if *)
Theorem unless_is_negation c t e s k v : eval_cond O c s = Ok v ->
  rnode O ps rec (NIf false c t (Some e)) s k = rnode O ps rec (NIf true c e (Some t)) s k.
Proof. intro H. rewrite !rnode_if, H. cbn [of_res ropt_list]. destruct v; reflexivity. Qed.

(* case / when: the first arm one of whose values equals the target *)
Theorem rnode_case target whens els s k :
  rnode O ps rec (NCase target whens els) s k =
  of_res (eval_expr O target s) s k (fun tv =>
    (fix cases (ws : list (list expr * list node)) : out :=
       match ws with
       | [] => ropt_list O ps rec els s k
       | (args, body) :: ws' =>
           (fix any (l : list expr) : out :=
              match l with
              | [] => cases ws'
              | a :: l' => of_res (eval_expr O a s) s k (fun av => if value_eq av tv then rlist O ps rec body s k else any l')
              end) args
       end) whens).
Proof. reflexivity. Qed.
Definition arm_matches (tv : value) (s : est) (arm : list expr * list node) : bool :=
  existsb (fun a => match eval_expr O a s with Ok av => value_eq av tv | _ => false end) (fst arm).
Lemma case_any tv body (rest : out) s k : forall l, Forall (fun a => exists v, eval_expr O a s = Ok v) l ->
  (fix any (l : list expr) : out :=
     match l with
     | [] => rest
     | a :: l' => of_res (eval_expr O a s) s k (fun av => if value_eq av tv then rlist O ps rec body s k else any l')
     end) l =
  if existsb (fun a => match eval_expr O a s with Ok av => value_eq av tv | _ => false end) l
  then rlist O ps rec body s k else rest.
Proof.
  induction l as [|a l IH]; intro H; [reflexivity|]. inversion H as [|? ? [v Hv] Hl]; subst.
  cbn [existsb]. rewrite Hv. cbn [of_res]. destruct (value_eq v tv); [reflexivity|]. cbn [orb]. apply IH; assumption.
Qed.
Theorem case_first_equal : forall whens target els s k tv, eval_expr O target s = Ok tv ->
  Forall (fun arm => Forall (fun a => exists v, eval_expr O a s = Ok v) (fst arm)) whens ->
  rnode O ps rec (NCase target whens els) s k =
  match List.find (arm_matches tv s) whens with
  | Some (_, b) => rlist O ps rec b s k
  | None => ropt_list O ps rec els s k
  end.
Proof.
  intros whens target els s k tv Ht H. rewrite rnode_case, Ht. cbn [of_res].
  induction whens as [|[args body] ws IH]; [reflexivity|]. inversion H as [|? ? Ha Hw]; subst. simpl in Ha.
  cbn [List.find]. unfold arm_matches at 1. cbn [fst].
  rewrite case_any by assumption.
  destruct (existsb _ args); [reflexivity|]. apply IH; assumption.
Qed.
End Cond.
