(* Correspondence checker for parse_condition: a token sequence between `{% if` and `%}`, data, and what
   the implementation did: 0 = rendered the else branch, 1 = rendered the then branch, 2 = the template was
   rejected by the parser, 3 = the condition failed to evaluate. *)
From LV Require Import Corr Eval CondParse.
Record qcase := mkQ { q_toks : list ctok; q_data : obj; q_expected : N }.
Definition cond_check (c : qcase) : bool :=
  let r := match parse_condition (q_toks c) with
           | Ok cnd => match eval_cond no_oracle cnd (est_build (q_data c)) with
                       | Ok false => 0 | Ok true => 1 | _ => 3 end
           | _ => 2
           end%N in
  N.eqb r (q_expected c).
