"""C05 — loops visit exactly the selected elements, with truthful loop metadata."""
import itertools, random
from props import tpl
from props.tpl import lit, var, I, Sx, request, observed, prepare_floats

PROP = "C05"
TARGETS = ["props/C05.vo", "corr/Rendercorr.vo"]
HEADER = "From LV Require Import Corr Eval Rendercorr.\n"
CHECKER = "render_check"
MODEL_HANDLES_PANIC = True
TRUSTED = [
    "model/Eval.v transcribes stdlib/blocks/for_block.rs (For, TableRow, iter_array, ForloopObject, TableRowObject, RangeExpression), tags/interrupt_tags.rs, runtime/template.rs (interrupt polling), InterruptRegister",
    "templates reach the model as the tree the parser builds: tools/props/tpl.py prints the same tree as Liquid source (for the implementation) and as a model term, so the parser of the implementation is inside the loop being compared",
]
RULE = ("exhaustive: collection length 0..6 x offset {absent,0..8} x limit {absent,0..8} x reversed x cols {absent,1..4} for arrays, integer ranges (literal, variable, empty, descending) and single-key objects, "
        "bodies printing the item and every forloop/tablerow field; break/continue at every iteration index of two nested loops; random larger instances with parentloop chains; non-trivial = at least one element is visited")

FIELDS = ["index", "index0", "rindex", "rindex0", "first", "last", "length"]
TFIELDS = FIELDS + ["col", "col0", "col_first", "col_last"]


def prepare(cases, run):
    prepare_floats(cases, run)


def body_fields(x, obj, fields, item=None):
    b = [("text", "["), ("out", (item or var(x), []))]
    for f in fields:
        b += [("text", " "), ("out", (var(obj, f), []))]
    return b + [("text", "]")]


def select(xs, offset, limit, rev):
    off = min(offset or 0, len(xs))
    rest = xs[off:]
    sel = rest if limit is None else rest[:limit]
    return sel[::-1] if rev else sel


def tf(b):
    return "true" if b else "false"


def expect_for(items, shown, fields_fn):
    n = len(items)
    return "".join("[" + shown(v) + "".join(" " + f for f in fields_fn(i, n)) + "]" for i, v in enumerate(items))


def loop_fields(i, n):
    return [str(i + 1), str(i), str(n - i), str(n - i - 1), tf(i == 0), tf(i == n - 1), str(n)]


def gen(tier, seed):
    rnd = random.Random(seed)
    cases = []

    def add(t, data, expect, why):
        cases.append({"tpl": t, "data": data, "expect": expect, "why": why})
    OFFS = [None] + list(range(0, 9))
    LIMS = [None] + list(range(0, 9))
    for n in range(0, 7):
        arr = [10 * (i + 1) for i in range(n)]
        data_arr = [["a", ["a", [["i", str(v)] for v in arr]]], ["lo", ["i", "1"]], ["hi", ["i", str(n)]]]
        for off in OFFS:
            for lim in LIMS:
                for rev in (False, True):
                    sel = select(arr, off, lim, rev)
                    E = None if (off is None and lim is None and rnd.random() < 0.5) else [("text", "E")]
                    exp = expect_for(sel, str, loop_fields) if sel else ("E" if E else "")
                    t = [("for", "x", ("arr", var("a")), None if lim is None else I(lim), None if off is None else I(off), rev,
                          body_fields("x", "forloop", FIELDS), E)]
                    add(t, data_arr, exp, "array")
                    # integer ranges: literal bounds, variable bounds
                    rng_items = list(range(1, n + 1))
                    sel = select(rng_items, off, lim, rev)
                    exp = expect_for(sel, str, loop_fields) if sel else "E"
                    rng = ("cnt", I(1), I(n)) if (off or 0) % 2 == 0 else ("cnt", var("lo"), var("hi"))
                    t = [("for", "x", rng, None if lim is None else I(lim), None if off is None else I(off), rev,
                          body_fields("x", "forloop", FIELDS), [("text", "E")])]
                    add(t, data_arr, exp, "range")
                if n > 0:
                    for cols in (None, 1, 2, 3, 4):
                        sel = select(arr, off, lim, False)
                        m = len(sel)
                        c = cols if cols is not None else m
                        out = ""
                        for i, v in enumerate(sel):
                            col = i % c
                            last = i == m - 1
                            if col == 0:
                                out += '<tr class="row%d">' % (i // c + 1)
                            out += '<td class="col%d">' % (col + 1)
                            out += "[" + str(v) + "".join(" " + f for f in loop_fields(i, m) + [str(col + 1), str(col), tf(col == 0), tf(col == c - 1 or last)]) + "]"
                            out += "</td>" + ("</tr>" if (col == c - 1 or last) else "")
                        t = [("tablerow", "x", ("arr", var("a")), None if cols is None else I(cols), None if lim is None else I(lim),
                              None if off is None else I(off), body_fields("x", "tablerow", TFIELDS))]
                        add(t, data_arr, out, "tablerow")
    # descending and degenerate ranges, variable offset/limit, negative and non-integer attributes
    for lo, hi in ((5, 1), (3, 3), (-2, 2), (0, 0), (2, 1)):
        items = list(range(lo, hi + 1))
        t = [("for", "x", ("cnt", I(lo), I(hi)), None, None, False, body_fields("x", "forloop", FIELDS), [("text", "E")])]
        add(t, [], expect_for(items, str, loop_fields) if items else "E", "range-edge")
    for off, lim in ((-1, None), (None, -1), (100, None), (None, 100), (2, 100)):
        arr = [1, 2, 3, 4]
        big = lambda z: z if z is None or z >= 0 else 2 ** 64 + z
        sel = select(arr, None if off is None else min(big(off), 10 ** 6), None if lim is None else min(big(lim), 10 ** 6), False)
        t = [("for", "x", ("arr", var("a")), None if lim is None else var("l"), None if off is None else var("o"), False,
              body_fields("x", "forloop", ["index"]), [("text", "E")])]
        d = [["a", ["a", [["i", str(v)] for v in arr]]], ["l", ["i", str(lim or 0)]], ["o", ["i", str(off or 0)]]]
        add(t, d, expect_for(sel, str, lambda i, n: [str(i + 1)]) if sel else "E", "attr-edge")
    # single-key objects: each item is the [key, value] pair
    for n in (1,):
        for off in (None, 0, 1):
            for lim in (None, 0, 1, 2):
                sel = select([("k", 7)], off, lim, False)
                exp = "".join("[k=7 %d %d]" % (i + 1, len(sel)) for i, _ in enumerate(sel)) if sel else "E"
                t = [("for", "x", ("arr", var("o")), None if lim is None else I(lim), None if off is None else I(off), False,
                      [("text", "["), ("out", (var("x", 0), [])), ("text", "="), ("out", (var("x", 1), [])), ("text", " "),
                       ("out", (var("forloop", "index"), [])), ("text", " "), ("out", (var("forloop", "length"), [])), ("text", "]")], [("text", "E")])]
                add(t, [["o", ["o", [["k", ["i", "7"]]]]]], exp, "object")
    # nil / scalar collections
    for v, exp in ((["n"], "E"), (["st", "Empty"], "E")):
        t = [("for", "x", ("arr", lit(v)), None, None, False, [("text", "B")], [("text", "E")])]
        add(t, [], exp, "nil")
    t = [("for", "x", ("arr", var("s")), None, None, False, [("text", "B")], [("text", "E")])]
    add(t, [["s", ["s", "abc"]]], ("err",), "scalar-collection")
    add(t, [], ("err",), "missing-collection")
    # break / continue at every iteration index of two nested loops (and in a single loop)
    for n in range(1, 5):
        for m in range(1, 4):
            for kind in ("break", "continue"):
                for level in ("inner", "outer"):
                    for bi in range(1, n + 1):
                        for bj in range(1, m + 1):
                            inner_body = [("text", "("), ("out", (var("i"), [])), ("text", ","), ("out", (var("j"), [])), ("text", ")")]
                            cond = ("and", ("bin", var("i"), "==", I(bi)), ("bin", var("j"), "==", I(bj)))
                            if level == "inner":
                                inner = [("if", True, cond, [(kind,)], None)] + inner_body + [("text", ";")]
                                outer = [("text", "<"), ("for", "j", ("cnt", I(1), I(m)), None, None, False, inner, None), ("text", ">")]
                                exp = ""
                                for i in range(1, n + 1):
                                    exp += "<"
                                    for j in range(1, m + 1):
                                        if i == bi and j == bj:
                                            if kind == "break":
                                                break
                                            continue
                                        exp += "(%d,%d);" % (i, j)
                                    exp += ">"
                            else:
                                inner = inner_body
                                outer = [("text", "<"), ("for", "j", ("cnt", I(1), I(m)), None, None, False, inner, None),
                                         ("if", True, ("bin", var("i"), "==", I(bi)), [(kind,)], None), ("text", ">")]
                                exp = ""
                                for i in range(1, n + 1):
                                    exp += "<" + "".join("(%d,%d)" % (i, j) for j in range(1, m + 1))
                                    if i == bi:
                                        if kind == "break":
                                            break
                                        continue
                                    exp += ">"
                            t = [("for", "i", ("cnt", I(1), I(n)), None, None, False, outer, None), ("text", "|end")]
                            add(t, [], exp + "|end", "interrupt")
    # break / continue raised outside any iteration of the inner loop: in its else branch (the inner loop selected nothing), and below nested if / case / unless blocks
    data_e = [["none", ["a", []]], ["a", ["a", [["i", "7"], ["i", "8"]]]]]
    empties = [(("cnt", I(1), I(0)), None, None), (("arr", var("none")), None, None), (("arr", var("a")), None, I(2)), (("arr", var("a")), I(0), None), (("cnt", I(5), I(1)), None, None)]
    for n in range(1, 5):
        for bi in range(1, n + 1):
            for kind in ("break", "continue"):
                for coll, lim, off in empties:
                    inner = ("for", "j", coll, lim, off, False, [("text", "J")], [("if", True, ("bin", var("i"), "==", I(bi)), [(kind,)], None), ("text", "e")])
                    t = [("for", "i", ("cnt", I(1), I(n)), None, None, False, [("text", "<"), ("out", (var("i"), [])), inner, ("text", ">")], None), ("text", "|end")]
                    exp = ""
                    for i in range(1, n + 1):
                        exp += "<%d" % i
                        if i == bi:
                            if kind == "break":
                                break
                            continue
                        exp += "e>"
                    add(t, data_e, exp + "|end", "interrupt in the else branch of an empty inner loop")
                wraps = [lambda b: [("if", True, ("ex", lit(["b", True])), [("if", False, ("ex", lit(["n"])), b, None)], None)],
                         lambda b: [("case", var("i"), [([I(bi)], b)], [("text", "")])],
                         lambda b: [("if", True, ("ex", lit(["b", False])), [("text", "no")], [("text", "")] + b)]]
                for w in wraps:
                    body = [("text", "<"), ("out", (var("i"), []))] + w([("if", True, ("bin", var("i"), "==", I(bi)), [(kind,)], None)]) + [("text", ">")]
                    t = [("for", "i", ("cnt", I(1), I(n)), None, None, False, body, None), ("text", "|end")]
                    exp = ""
                    for i in range(1, n + 1):
                        exp += "<%d" % i
                        if i == bi:
                            if kind == "break":
                                break
                            continue
                        exp += ">"
                    add(t, data_e, exp + "|end", "interrupt below nested blocks")
    # parentloop chains and forloop inside nested loops (random larger instances)
    nrand = 300 if tier == "quick" else 6000
    for _ in range(nrand):
        n, m = rnd.randint(0, 9), rnd.randint(0, 5)
        off, lim = rnd.choice([None, 0, 1, 2, 5]), rnd.choice([None, 0, 1, 3, 20])
        rev = rnd.random() < 0.5
        outer_items = select(list(range(1, n + 1)), off, lim, rev)
        inner = [("text", "("), ("out", (var("forloop", "parentloop", "index"), [])), ("text", "/"), ("out", (var("forloop", "parentloop", "length"), [])),
                 ("text", ":"), ("out", (var("forloop", "index"), [])), ("text", "/"), ("out", (var("forloop", "rindex0"), [])), ("text", ")")]
        t = [("for", "i", ("cnt", I(1), I(n)), None if lim is None else I(lim), None if off is None else I(off), rev,
              [("for", "j", ("cnt", I(1), I(m)), None, None, False, inner, [("text", "e")])], [("text", "E")])]
        N = len(outer_items)
        exp = "".join(("".join("(%d/%d:%d/%d)" % (a + 1, N, b + 1, m - b - 1) for b in range(m)) if m else "e") for a in range(N)) if N else "E"
        add(t, [], exp, "parentloop")
    for i, c in enumerate(cases):
        c["id"] = i
    dist = {"exhaustive": True}
    for c in cases:
        dist[c["why"]] = dist.get(c["why"], 0) + 1
    return cases, dist


def case_ir(c, resp):
    return tpl.case_ir(c, resp)


def spec_check(c, resp):
    cls, acc = observed(resp)
    inp = {"template": tpl.body_text(c["tpl"]), "data": c["data"]}
    if cls == 2:
        return {"what": "render panicked", "input": inp, "observed": resp.get("panic")}
    if c["expect"] == ("err",):
        return None if cls == 1 else {"what": "iterating a non-collection did not fail", "input": inp, "observed": acc}
    if cls != 0 or acc != c["expect"]:
        return {"what": "loop output differs from the selected elements / truthful loop fields / structured break-continue (%s)" % c["why"],
                "input": inp, "observed": acc if cls == 0 else resp, "expected": c["expect"]}
    return None


def nontrivial(c, resp):
    return isinstance(c["expect"], str) and "[" in c["expect"] or "(" in str(c["expect"])
