(* Proofs about value_eq / value_cmp (property C11). *)
From Coq Require Import SpecFloat Permutation Sorted.
From LV Require Import Base Value BaseLemmas OrderLemmas.

(* nested induction principle for values *)
Section Ind.
Variable P : value -> Prop.
Hypothesis Hs : forall s, P (VScalar s).
Hypothesis Ha : forall l, Forall P l -> P (VArray l).
Hypothesis Ho : forall l, Forall (fun kv => P (snd kv)) l -> P (VObject l).
Hypothesis Ht : forall s, P (VState s).
Hypothesis Hn : P VNil.
Fixpoint value_ind' (v : value) : P v :=
  match v with
  | VScalar s => Hs s
  | VArray l => Ha l ((fix go l : Forall P l :=
      match l with [] => Forall_nil _ | x :: t => Forall_cons _ (value_ind' x) (go t) end) l)
  | VObject l => Ho l ((fix go l : Forall (fun kv => P (snd kv)) l :=
      match l with [] => Forall_nil _ | x :: t => Forall_cons _ (value_ind' (snd x)) (go t) end) l)
  | VState s => Ht s
  | VNil => Hn
  end.
End Ind.

(* the values the property quantifies over: unique object keys, no `Truthy` marker (the
   parser never produces it), at any depth *)
Inductive wf : value -> Prop :=
| wf_s s : wf (VScalar s)
| wf_a l : Forall wf l -> wf (VArray l)
| wf_o l : NoDup (keys l) -> Forall (fun kv => wf (snd kv)) l -> wf (VObject l)
| wf_t s : s <> Truthy -> wf (VState s)
| wf_n : wf VNil.

Fixpoint good (v : value) : bool :=
  match v with
  | VArray l => forallb good l
  | VObject kvs => nodup_keys (map fst kvs) && forallb (fun kv => good (snd kv)) kvs
  | VState Truthy => false
  | _ => true
  end.
Lemma nodup_keys_NoDup l : nodup_keys l = true -> NoDup l.
Proof.
  induction l as [|k t IH]; simpl; intro H; [constructor|]. apply andb_true_iff in H as [H1 H2].
  constructor; [|auto]. intro Hin. apply mem_str_in in Hin. rewrite Hin in H1. discriminate.
Qed.
Lemma good_wf v : good v = true -> wf v.
Proof.
  induction v as [s|l IH|l IH|s|] using value_ind'; simpl; intro H; try constructor.
  - rewrite forallb_forall in H. rewrite Forall_forall in *. auto.
  - apply andb_true_iff in H as [H1 H2]. apply nodup_keys_NoDup; exact H1.
  - apply andb_true_iff in H as [H1 H2]. rewrite forallb_forall in H2. rewrite Forall_forall in *. auto.
  - destruct s; congruence.
Qed.

(* ---- scalars ---- *)
Lemma scalar_eq_sym a b : scalar_eq a b = scalar_eq b a.
Proof.
  destruct a as [x|x|x|x|x|x], b as [y|y|y|y|y|y]; simpl; try reflexivity; auto using Z.eqb_sym, f_eqb_sym, str_eqb_sym.
  - destruct x, y; reflexivity.
  - unfold date_eqb, date_cmp. rewrite (Z.compare_antisym (d_year x) (d_year y)), (Z.compare_antisym (d_month x) (d_month y)),
      (Z.compare_antisym (d_day x) (d_day y)).
    destruct (d_year x ?= d_year y)%Z, (d_month x ?= d_month y)%Z, (d_day x ?= d_day y)%Z; reflexivity.
Qed.
Lemma date_cmp_antisym a b : date_cmp b a = CompOpp (date_cmp a b).
Proof.
  unfold date_cmp. rewrite (Z.compare_antisym (d_year a) (d_year b)), (Z.compare_antisym (d_month a) (d_month b)),
    (Z.compare_antisym (d_day a) (d_day b)).
  destruct (d_year a ?= d_year b)%Z, (d_month a ?= d_month b)%Z, (d_day a ?= d_day b)%Z; reflexivity.
Qed.
Lemma scalar_cmp_dual a b : scalar_cmp b a = option_map CompOpp (scalar_cmp a b).
Proof.
  destruct a as [x|x|x|x|x|x], b as [y|y|y|y|y|y]; simpl; try reflexivity; unfold f_cmp;
    try (rewrite Z.compare_antisym; reflexivity); try apply SFcompare_antisym.
  - destruct x, y; reflexivity.
  - f_equal. apply date_cmp_antisym.
  - f_equal. apply str_cmp_antisym.
Qed.
(* Eq from scalar_cmp is exactly scalar_eq, on the pairs scalar_cmp orders *)
Lemma scalar_cmp_eq_iff a b c : scalar_cmp a b = Some c -> (scalar_eq a b = true <-> c = Eq).
Proof.
  destruct a as [x|x|x|x|x|x], b as [y|y|y|y|y|y]; simpl; try discriminate; unfold f_cmp, f_eqb; intro H;
    try (rewrite H; destruct c; split; congruence);
    try (inversion H; subst; clear H);
    try (rewrite Z.eqb_eq, <- Z.compare_eq_iff; tauto).
  - destruct x, y; simpl; split; congruence.
  - unfold date_eqb. destruct (date_cmp x y); split; congruence.
  - rewrite str_eqb_cmp. tauto.
Qed.
Lemma scalar_eq_cmp_none_or_eq a b : scalar_eq a b = true -> scalar_cmp a b = Some Eq \/ scalar_cmp a b = None.
Proof.
  intro H. destruct (scalar_cmp a b) as [c|] eqn:E; [|auto]. left. f_equal. apply (scalar_cmp_eq_iff a b c E). exact H.
Qed.

(* ---- symmetry of ==, for every fuel ---- *)
Definition objarm (n : nat) (y : list (str * value)) (kv : str * value) : bool :=
  match lookup (fst kv) y with Some v => veq n v (snd kv) | None => false end.

Lemma obj_dir n x y :
  (forall k k' u w, In (k, u) y -> In (k', w) x -> veq n u w = veq n w u) ->
  NoDup (keys x) -> NoDup (keys y) -> length x = length y ->
  forallb (objarm n y) x = true -> forallb (objarm n x) y = true.
Proof.
  intros Hsym Nx Ny Hl H. rewrite forallb_forall in *. intros [k v2] Hin; unfold objarm; simpl.
  assert (Hincl : incl (keys x) (keys y)).
  { intros k' Hk. apply in_keys in Hk as [v Hv]. specialize (H _ Hv); unfold objarm in H; simpl in H.
    destruct (lookup k' y) eqn:L; [|discriminate]. apply lookup_some in L.
    apply in_map_iff; exists (k', v0); auto. }
  assert (Hincl' : incl (keys y) (keys x)).
  { apply NoDup_length_incl; try assumption. unfold keys; rewrite !map_length; lia. }
  assert (Hk : In k (keys x)) by (apply Hincl'; apply in_map_iff; exists (k, v2); auto).
  apply in_keys in Hk as [v Hv]. rewrite (lookup_in _ _ _ Nx Hv).
  specialize (H _ Hv); unfold objarm in H; simpl in H. rewrite (lookup_in _ _ _ Ny Hin) in H.
  rewrite <- (Hsym _ _ _ _ Hin Hv); assumption.
Qed.

Lemma veq_unfold_obj n x y : veq (S n) (VObject x) (VObject y) = Nat.eqb (length x) (length y) && forallb (objarm n y) x.
Proof. reflexivity. Qed.

Lemma state_query_wf s v : s <> Truthy -> wf v -> True.
Proof. trivial. Qed.

Theorem veq_sym n : forall a b, wf a -> wf b -> veq n a b = veq n b a.
Proof.
  induction n as [|n IH]; intros a b Wa Wb; [reflexivity|].
  destruct a as [p|x|x|s|], b as [q|y|y|t|]; try reflexivity.
  - simpl. apply scalar_eq_sym.
  - (* arrays *)
    inversion Wa as [|? Fa| | |]; inversion Wb as [|? Fb| | |]; subst. simpl.
    rewrite (Nat.eqb_sym (length x)). f_equal.
    clear Wa Wb. revert y Fb; induction x as [|u x IHx]; intros [|w y] Fb; try reflexivity.
    inversion Fa; inversion Fb; subst. rewrite (IH u w) by assumption. f_equal. apply IHx; assumption.
  - (* objects *)
    inversion Wa as [| |? Na Fa| |]; inversion Wb as [| |? Nb Fb| |]; subst.
    rewrite !veq_unfold_obj. rewrite (Nat.eqb_sym (length x)).
    destruct (Nat.eqb_spec (length y) (length x)) as [El|]; [|reflexivity]. simpl.
    rewrite Forall_forall in Fa, Fb.
    destruct (forallb (objarm n y) x) eqn:HA; destruct (forallb (objarm n x) y) eqn:HB; try reflexivity.
    + assert (T : forallb (objarm n x) y = true).
      { apply obj_dir; try assumption; try lia.
        intros k k' u w Hu Hw. apply IH; [apply (Fb _ Hu)|apply (Fa _ Hw)]. }
      congruence.
    + assert (T : forallb (objarm n y) x = true).
      { apply obj_dir; try assumption; try lia.
        intros k k' u w Hu Hw. apply IH; [apply (Fa _ Hu)|apply (Fb _ Hw)]. }
      congruence.
  - (* markers *)
    inversion Wa; inversion Wb; subst. simpl. destruct s, t; try reflexivity; congruence.
Qed.

(* ---- < and > are duals, for every fuel ---- *)
Definition lexA (n : nat) := fix lex (x y : list value) : option comparison :=
  match x, y with
  | [], [] => Some Eq | [], _ :: _ => Some Lt | _ :: _, [] => Some Gt
  | u :: x', w :: y' => match vcmp n u w with Some Eq => lex x' y' | r => r end
  end.
Definition lexO (n : nat) := fix lex (x y : list (str * value)) : option comparison :=
  match x, y with
  | [], [] => Some Eq | [], _ :: _ => Some Lt | _ :: _, [] => Some Gt
  | (k, u) :: x', (j, w) :: y' =>
      match str_cmp k j with
      | Eq => match vcmp n u w with Some Eq => lex x' y' | r => r end
      | c => Some c
      end
  end.
Lemma vcmp_unfold n a b : vcmp (S n) a b =
  match a, b with
  | VScalar x, VScalar y => scalar_cmp x y
  | VArray x, VArray y => lexA n x y
  | VObject x, VObject y => lexO n (sort_kvs x) (sort_kvs y)
  | _, _ => None
  end.
Proof. destruct a, b; reflexivity. Qed.

Theorem vcmp_dual n : forall a b, vcmp n b a = option_map CompOpp (vcmp n a b).
Proof.
  induction n as [|n IH]; intros a b; [reflexivity|]. rewrite !vcmp_unfold.
  destruct a as [p|x|x|s|], b as [q|y|y|t|]; try reflexivity.
  - apply scalar_cmp_dual.
  - revert y; induction x as [|u x IHx]; intros [|w y]; try reflexivity. simpl.
    rewrite (IH u w). destruct (vcmp n u w) as [[]|]; simpl; try reflexivity. apply IHx.
  - generalize (sort_kvs y). generalize (sort_kvs x). clear x y.
    intro x; induction x as [|[k u] x IHx]; intros [|[j w] y]; try reflexivity. simpl.
    rewrite (str_cmp_antisym k j). destruct (str_cmp k j); simpl; try reflexivity.
    rewrite (IH u w). destruct (vcmp n u w) as [[]|]; simpl; try reflexivity. apply IHx.
Qed.

(* ---- == and the ordering are consistent ---- *)
Lemma Forall2_in_l {A B} (R : A -> B -> Prop) l l' a : Forall2 R l l' -> In a l -> exists b, In b l' /\ R a b.
Proof.
  induction 1 as [|x y l l' Hxy H IH]; simpl; [tauto|]. intros [->|Hin]; [eauto|].
  destruct (IH Hin) as [b [Hb Hr]]; eauto.
Qed.

Lemma Forall2_length {A B} {R : A -> B -> Prop} {l l'} : Forall2 R l l' -> length l = length l'.
Proof. induction 1; simpl; congruence. Qed.

Lemma lexA_eq n x y : lexA n x y = Some Eq -> Forall2 (fun u w => vcmp n u w = Some Eq) x y.
Proof.
  revert y; induction x as [|u x IH]; intros [|w y]; simpl; try discriminate; [constructor|].
  destruct (vcmp n u w) as [[]|] eqn:E; try discriminate. intro H. constructor; auto.
Qed.
Lemma lexO_eq n x y : lexO n x y = Some Eq ->
  Forall2 (fun a b => fst a = fst b /\ vcmp n (snd a) (snd b) = Some Eq) x y.
Proof.
  revert y; induction x as [|[k u] x IH]; intros [|[j w] y]; simpl; try discriminate; [constructor|].
  destruct (str_cmp k j) eqn:Ek; try discriminate.
  destruct (vcmp n u w) as [[]|] eqn:E; try discriminate. intro H. constructor; auto.
  simpl. split; [apply str_cmp_eq; exact Ek|exact E].
Qed.

Lemma wf_sort_in x kv : In kv (sort_kvs x) <-> In kv x.
Proof. split; apply Permutation_in; [|apply Permutation_sym]; apply sort_kvs_perm. Qed.

Theorem vcmp_eq_veq n : forall a b, wf a -> wf b -> vcmp n a b = Some Eq -> veq n a b = true.
Proof.
  induction n as [|n IH]; intros a b Wa Wb; [discriminate|]. rewrite vcmp_unfold.
  destruct a as [p|x|x|s|], b as [q|y|y|t|]; try discriminate.
  - intro H. simpl. apply (scalar_cmp_eq_iff p q Eq H). reflexivity.
  - intro H. apply lexA_eq in H. inversion Wa as [|? Fa| | |]; inversion Wb as [|? Fb| | |]; subst. simpl.
    rewrite (Forall2_length H), Nat.eqb_refl. simpl. clear Wa Wb.
    induction H as [|u w x y Huw H IHH]; [reflexivity|]. inversion Fa; inversion Fb; subst.
    rewrite (IH u w) by assumption. simpl. apply IHH; assumption.
  - intro H. apply lexO_eq in H. inversion Wa as [| |? Na Fa| |]; inversion Wb as [| |? Nb Fb| |]; subst.
    rewrite veq_unfold_obj.
    assert (El : length x = length y) by (rewrite <- (sort_kvs_length x), <- (sort_kvs_length y); apply (Forall2_length H)).
    rewrite El, Nat.eqb_refl. simpl. rewrite forallb_forall. intros [k u] Hin. unfold objarm; simpl.
    pose proof (proj2 (wf_sort_in x (k, u)) Hin) as Hins.
    destruct (Forall2_in_l _ _ _ _ H Hins) as [[j w] [Hw [Ek Ec]]]. simpl in *. subst j.
    apply (proj1 (wf_sort_in y (k, w))) in Hw. rewrite (lookup_in _ _ _ Nb Hw).
    rewrite Forall_forall in Fa, Fb.
    rewrite veq_sym; [apply IH; [apply (Fa _ Hin)|apply (Fb _ Hw)|exact Ec]|apply (Fb _ Hw)|apply (Fa _ Hin)].
Qed.

Lemma insert_kv_map (g : str * value -> str * value) kv l : (forall a, fst (g a) = fst a) ->
  insert_kv (g kv) (map g l) = map g (insert_kv kv l).
Proof.
  intro Hg. induction l as [|h t IH]; simpl; [reflexivity|]. rewrite !Hg.
  destruct (str_cmp (fst kv) (fst h)); simpl; try reflexivity. rewrite IH. reflexivity.
Qed.
Lemma sort_kvs_map g l : (forall a, fst (g a) = fst a) -> sort_kvs (map g l) = map g (sort_kvs l).
Proof. intro Hg. induction l as [|h t IH]; simpl; [reflexivity|]. rewrite IH. apply insert_kv_map; exact Hg. Qed.

Lemma NoDup_keys_NoDup {A} (l : list (str * A)) : NoDup (keys l) -> NoDup l.
Proof. apply NoDup_map_inv. Qed.

Theorem veq_not_strict n : forall a b, wf a -> wf b -> veq n a b = true ->
  vcmp n a b = Some Eq \/ vcmp n a b = None.
Proof.
  induction n as [|n IH]; intros a b Wa Wb; [discriminate|]. rewrite vcmp_unfold.
  destruct a as [p|x|x|s|], b as [q|y|y|t|]; try (intros _; right; reflexivity).
  - simpl. apply scalar_eq_cmp_none_or_eq.
  - simpl. inversion Wa as [|? Fa| | |]; inversion Wb as [|? Fb| | |]; subst. clear Wa Wb.
    intro H. apply andb_true_iff in H as [Hl H]. apply Nat.eqb_eq in Hl.
    revert y Fb H Hl; induction x as [|u x IHx]; intros [|w y] Fb H Hl; simpl in *; auto; try discriminate.
    inversion Fa; inversion Fb; subst. apply andb_true_iff in H as [Hv1 Hv2].
    destruct (IH u w) as [E|E]; try assumption; rewrite E; [apply IHx; auto|right; reflexivity].
  - rewrite veq_unfold_obj. inversion Wa as [| |? Na Fa| |]; inversion Wb as [| |? Nb Fb| |]; subst.
    intro H. apply andb_true_iff in H as [Hl H]. apply Nat.eqb_eq in Hl. rewrite forallb_forall in H.
    set (g := fun kv : str * value => (fst kv, match lookup (fst kv) y with Some w => w | None => VNil end)).
    assert (Hg : forall a, fst (g a) = fst a) by reflexivity.
    assert (Hperm : Permutation (map g x) y).
    { apply NoDup_Permutation_bis.
      - apply NoDup_keys_NoDup. unfold keys. rewrite map_map. simpl. exact Na.
      - rewrite map_length. lia.
      - intros kv Hkv. apply in_map_iff in Hkv as [[k u] [<- Hin]]. unfold g; simpl.
        specialize (H _ Hin). unfold objarm in H; simpl in H.
        destruct (lookup k y) eqn:L; [|discriminate]. apply lookup_some; exact L. }
    rewrite <- (sort_kvs_canonical (map g x) y); [|unfold keys; rewrite map_map; exact Na|exact Hperm].
    rewrite sort_kvs_map by exact Hg.
    assert (Hall : forall kv, In kv (sort_kvs x) -> veq n (snd kv) (snd (g kv)) = true /\ wf (snd kv) /\ wf (snd (g kv))).
    { intros [k u] Hin. apply (proj1 (wf_sort_in x (k, u))) in Hin. specialize (H _ Hin). unfold objarm in H; simpl in H. unfold g; simpl.
      rewrite Forall_forall in Fa, Fb.
      destruct (lookup k y) eqn:L; [|discriminate]. apply lookup_some in L.
      repeat split; [rewrite veq_sym; [exact H|apply (Fa _ Hin)|apply (Fb _ L)]|apply (Fa _ Hin)|apply (Fb _ L)]. }
    clear - IH Hall. induction (sort_kvs x) as [|[k u] l IHl]; simpl; [auto|].
    rewrite str_cmp_refl. destruct (Hall (k, u) (or_introl eq_refl)) as [Hv [W1 W2]]. simpl in *.
    destruct (IH _ _ W1 W2 Hv) as [E|E]; rewrite E; [|right; reflexivity].
    apply IHl. intros kv Hkv. apply Hall. right; exact Hkv.
Qed.

(* ---- reflexivity (NaN excepted) ---- *)
Fixpoint nonan (v : value) : bool :=
  match v with
  | VScalar (SFloat f) => negb (f_is_nan f)
  | VArray l => forallb nonan l
  | VObject kvs => forallb (fun kv => nonan (snd kv)) kvs
  | _ => true
  end.
Lemma scalar_eq_refl s : nonan (VScalar s) = true -> scalar_eq s s = true.
Proof.
  destruct s as [x|x|x|x|x|x]; simpl; intro H.
  - apply Z.eqb_refl.
  - unfold f_eqb. rewrite SFcompare_refl; [reflexivity|]. destruct (f_is_nan x); [discriminate|reflexivity].
  - destruct x; reflexivity.
  - apply Z.eqb_refl.
  - unfold date_eqb, date_cmp. rewrite !Z.compare_refl. reflexivity.
  - apply str_eqb_refl.
Qed.
Lemma depth_in_arr v l : In v l -> depth v <= fold_right (fun x m => Nat.max (depth x) m) 0 l.
Proof. induction l as [|x l IH]; simpl; [tauto|]. intros [->|H]; [lia|]. specialize (IH H). lia. Qed.
Lemma depth_in_obj (kv : str * value) l : In kv l -> depth (snd kv) <= fold_right (fun x m => Nat.max (depth (snd x)) m) 0 l.
Proof. induction l as [|x l IH]; simpl; [tauto|]. intros [->|H]; [lia|]. specialize (IH H). lia. Qed.

Theorem veq_refl n : forall a, wf a -> nonan a = true -> depth a <= n -> veq n a a = true.
Proof.
  induction n as [|n IH]; intros a Wa Hn Hd; [destruct a; simpl in Hd; lia|].
  destruct a as [p|x|x|s|].
  - simpl. apply scalar_eq_refl; exact Hn.
  - inversion Wa as [|? Fa| | |]; subst. simpl in *. rewrite Nat.eqb_refl. simpl.
    assert (Hall : forall v, In v x -> veq n v v = true).
    { intros v Hv. rewrite Forall_forall in Fa. rewrite forallb_forall in Hn. apply IH; auto.
      pose proof (depth_in_arr v x Hv). lia. }
    clear - Hall. induction x as [|u x IHx]; [reflexivity|]. rewrite Hall by (left; reflexivity). simpl.
    apply IHx. intros v Hv. apply Hall. right; exact Hv.
  - inversion Wa as [| |? Na Fa| |]; subst. rewrite veq_unfold_obj, Nat.eqb_refl. simpl in *.
    rewrite forallb_forall. intros [k u] Hin. unfold objarm; simpl. rewrite (lookup_in _ _ _ Na Hin).
    rewrite Forall_forall in Fa. rewrite forallb_forall in Hn. apply IH; [apply (Fa _ Hin)|apply (Hn _ Hin)|].
    pose proof (depth_in_obj (k, u) x Hin). simpl in *. lia.
  - inversion Wa; subst. simpl. destruct s; try reflexivity; congruence.
  - reflexivity.
Qed.

(* ---- construction independence: the answers do not depend on the order in which an
   object's entries are stored or iterated ---- *)
Lemma forallb_perm {A} (f : A -> bool) l l' : Permutation l l' -> forallb f l = forallb f l'.
Proof.
  induction 1; simpl; try congruence.
  - destruct (f y), (f x); reflexivity.
Qed.
Lemma forallb_ext' {A} (f g : A -> bool) l : (forall a, f a = g a) -> forallb f l = forallb g l.
Proof. intro H. induction l as [|x l IH]; simpl; [reflexivity|]. rewrite H, IH. reflexivity. Qed.
Lemma perm_nil_iff {A} (l l' : list A) : Permutation l l' -> is_nil_l l = is_nil_l l'.
Proof. intro H. destruct l, l'; try reflexivity; [apply Permutation_nil in H|apply Permutation_sym, Permutation_nil in H]; discriminate. Qed.

Theorem veq_perm_l n x x' b : Permutation x x' -> veq n (VObject x) b = veq n (VObject x') b.
Proof.
  intro Hp. destruct n as [|n]; [reflexivity|].
  destruct b as [q|y|y|t|]; try reflexivity.
  - rewrite !veq_unfold_obj. rewrite (Permutation_length Hp). f_equal. apply forallb_perm; exact Hp.
  - simpl. destruct t; try reflexivity; apply perm_nil_iff; exact Hp.
Qed.
Theorem veq_perm_r n a y y' : NoDup (keys y) -> Permutation y y' -> veq n a (VObject y) = veq n a (VObject y').
Proof.
  intros Hn Hp. destruct n as [|n]; [reflexivity|].
  destruct a as [q|x|x|t|]; try reflexivity.
  - rewrite !veq_unfold_obj. rewrite (Permutation_length Hp). f_equal.
    apply forallb_ext'. intros kv. unfold objarm. rewrite (lookup_perm y y' (fst kv) Hn Hp). reflexivity.
  - simpl. destruct t; try reflexivity; apply perm_nil_iff; exact Hp.
Qed.
Theorem vcmp_perm n x x' y y' : NoDup (keys x) -> NoDup (keys y) -> Permutation x x' -> Permutation y y' ->
  vcmp n (VObject x) (VObject y) = vcmp n (VObject x') (VObject y').
Proof.
  intros Nx Ny Px Py. destruct n as [|n]; [reflexivity|]. rewrite !vcmp_unfold.
  rewrite (sort_kvs_canonical x x' Nx Px), (sort_kvs_canonical y y' Ny Py). reflexivity.
Qed.

(* ---- the statements at the API level: value_eq, value_ne, value_cmp, <, <=, >, >= ---- *)
Theorem value_eq_sym a b : wf a -> wf b -> value_eq a b = value_eq b a.
Proof. intros. unfold value_eq. rewrite (Nat.add_comm (depth b)). apply veq_sym; assumption. Qed.
Theorem value_ne_negation a b : value_ne a b = negb (value_eq a b).
Proof. reflexivity. Qed.
Theorem value_cmp_dual a b : value_cmp b a = option_map CompOpp (value_cmp a b).
Proof. unfold value_cmp. rewrite (Nat.add_comm (depth b)). apply vcmp_dual. Qed.
Theorem lt_gt_dual a b : v_lt a b = v_gt b a /\ v_le a b = v_ge b a.
Proof. unfold v_lt, v_gt, v_le, v_ge. rewrite (value_cmp_dual a b). destruct (value_cmp a b) as [[]|]; split; reflexivity. Qed.
Theorem value_eq_not_strict a b : wf a -> wf b -> value_eq a b = true -> v_lt a b = false /\ v_gt a b = false.
Proof.
  intros Wa Wb H. unfold v_lt, v_gt, value_cmp. destruct (veq_not_strict _ a b Wa Wb H) as [E|E]; rewrite E; split; reflexivity.
Qed.
Theorem le_iff a b c : wf a -> wf b -> value_cmp a b = Some c ->
  v_le a b = (v_lt a b || value_eq a b) /\ v_ge a b = (v_gt a b || value_eq a b).
Proof.
  intros Wa Wb H. unfold v_le, v_lt, v_ge, v_gt. rewrite H.
  destruct (value_eq a b) eqn:E.
  - destruct (veq_not_strict _ a b Wa Wb E) as [E'|E']; unfold value_cmp in H; rewrite E' in H; inversion H; subst; split; reflexivity.
  - destruct c; try (split; reflexivity). unfold value_cmp in H. unfold value_eq in E. rewrite (vcmp_eq_veq _ a b Wa Wb H) in E. discriminate.
Qed.
Theorem value_eq_refl a : wf a -> nonan a = true -> value_eq a a = true.
Proof. intros. apply veq_refl; auto. lia. Qed.

(* ---- the behaviour before the repair (commit "fix: value_cmp compares object entries in
   key order"): objects were zipped in hash-map iteration order, so the answer depended on
   how the operands were built ---- *)
Module Pinned.
Fixpoint vcmp0 (a b : value) {struct a} : option comparison :=
  match a, b with
  | VScalar x, VScalar y => scalar_cmp x y
  | VArray x, VArray y =>
      (fix lex (x y : list value) : option comparison :=
         match x, y with
         | [], [] => Some Eq | [], _ :: _ => Some Lt | _ :: _, [] => Some Gt
         | u :: x', w :: y' => match vcmp0 u w with Some Eq => lex x' y' | r => r end
         end) x y
  | VObject x, VObject y =>
      (fix lex (x y : list (str * value)) : option comparison :=
         match x, y with
         | [], [] => Some Eq | [], _ :: _ => Some Lt | _ :: _, [] => Some Gt
         | (k, u) :: x', (j, w) :: y' =>
             match str_cmp k j with
             | Eq => match vcmp0 u w with Some Eq => lex x' y' | r => r end
             | c => Some c
             end
         end) x y
  | _, _ => None
  end.
Lemma order_dependent_refuted :
  exists x x' y, Permutation x x' /\ NoDup (keys x) /\ vcmp0 (VObject x) (VObject y) <> vcmp0 (VObject x') (VObject y).
Proof.
  exists [([97%N], VNil); ([98%N], VNil)], [([98%N], VNil); ([97%N], VNil)], [([97%N], VNil); ([98%N], VNil)].
  split; [apply perm_swap|]. split; [repeat constructor; simpl; intuition discriminate|]. vm_compute. discriminate.
Qed.
End Pinned.

(* the marker the hypotheses exclude: State::Truthy is neither reflexive nor symmetric *)
Lemma truthy_marker_asymmetric :
  value_eq (VState Empty) (VState Truthy) = true /\ value_eq (VState Truthy) (VState Empty) = false /\
  value_eq (VState Truthy) (VState Truthy) = false.
Proof. vm_compute. auto. Qed.
