(* C08 — include shares the caller's scope; render isolates the partial.
   Statements only; proofs in proofs/IsoProofs.v (built on the generic invariant of GenInv.v). *)
From LV Require Import Base Value Stack Eval StackProofs ShapeProofs GenInv IsoProofs.

(* include = the partial's body inlined in the caller's runtime, with one more frame for the
   arguments which is popped afterwards: the partial sees and rebinds the caller's variables (its
   assigns land in the caller's global layer, C04), its arguments are visible only inside, and a
   break in it is a break for the caller (the registers are shared) *)
Theorem include_is_inline : forall O ps rec p args s k pv a body,
  eval_expr O p s = Ok (VScalar pv) -> eval_args O args s [] = Ok a -> ps (to_kstr O (VScalar pv)) = Ok body ->
  rnode O ps rec (NInclude p args) s k = match rec body (push_plain a s) k with (o, s', k') => (o, pop_plain s', k') end.
Proof. exact IsoProofs.include_is_inline. Qed.
(* render runs the partial in isolation: it starts from only its explicit arguments ... *)
Theorem render_view_closed : forall O p a q q' g,
  try_get O p (FGlobal g :: FSandbox a :: q) = try_get O p (FGlobal g :: FSandbox a :: q').
Proof. exact IsoProofs.render_view_closed. Qed.
(* ... and nothing it does reaches the caller: for EVERY partial body (any template, any nesting of
   further includes and renders), afterwards the caller's registers — pending break/continue, cycle
   positions, ifchanged memory — are exactly what they were, and every frame of the caller is unchanged
   except for the contents of the counter layer (counters are shared by all layers, C18) *)
Theorem render_isolates : forall O ps d p args s k, wfr s ->
  match rnode O ps (render O ps d) (NRender p None args) s k with
  | (_, s', _) => rg s' = rg s /\ strict (fr s) (fr s')
  end.
Proof. exact IsoProofs.render_isolates. Qed.
(* the two invariants behind it, for every template and nesting depth *)
Theorem registers_inner_only : forall O ps d l, GSH RA (render O ps d l).
Proof. exact IsoProofs.registers_inner_only. Qed.
Theorem frames_below_global_kept : forall O ps d l, GSH RB (render O ps d l).
Proof. exact IsoProofs.frames_below_global_kept. Qed.
(* a missing or broken partial is an error of the tag that names it, when executed — never a crash *)
Theorem missing_partial_is_error : forall O ps rec p args s k pv a c,
  eval_expr O p s = Ok (VScalar pv) -> eval_args O args s [] = Ok a -> ps (to_kstr O (VScalar pv)) = Err c ->
  rnode O ps rec (NInclude p args) s k = (OFail c, s, k).
Proof. exact IsoProofs.missing_partial_is_error. Qed.

(* non-vacuity: a rendered partial that assigns, breaks and cycles leaves the caller's state alone,
   while the same partial included changes it *)
Example c08_nonvacuous :
  let a := [97%N] in let p := [112%N] in
  let body := [NAssign a (ELit (VScalar (SInt 9)), []); NCycle [99%N] [ELit (VScalar (SInt 1)); ELit (VScalar (SInt 2))]; NBreak] in
  let ps := fun n => if str_eqb n p then Ok body else Err EPartialMissing in
  let s := est_build [(a, VScalar (SInt 1))] in
  match rnode no_oracle_v ps (render no_oracle_v ps 2) (NRender (ELit (VScalar (SStr p))) None []) s sink0,
        rnode no_oracle_v ps (render no_oracle_v ps 2) (NInclude (ELit (VScalar (SStr p))) []) s sink0 with
  | (o1, s1, _), (o2, s2, _) => s1 = s /\ interrupted s2 = true /\ try_get no_oracle_v [SStr a] (fr s2) = Some (VScalar (SInt 9))
  end.
Proof. vm_compute. repeat split; reflexivity. Qed.

Print Assumptions include_is_inline.
Print Assumptions render_view_closed.
Print Assumptions render_isolates.
Print Assumptions registers_inner_only.
Print Assumptions frames_below_global_kept.
Print Assumptions missing_partial_is_error.
