(* C06 — Conditionals render exactly one branch, chosen by Liquid truth and comparison.
   Statements only; proofs in proofs/EvalProofs.v.  The grouping of `and`/`or` is produced by
   the parser: the correspondence check compares it on the implementation's own parser; the
   theorems below give the meaning of the condition tree. *)
From LV Require Import Base Value Stack Eval EvalProofs.

(* a bare value is true unless it is nil or false *)
Theorem truthiness : forall v, (forall st, v <> VState st) ->
  (truthy v = false <-> v = VNil \/ v = VScalar (SBool false)).
Proof. exact EvalProofs.truthiness. Qed.
Theorem zero_empty_are_true :
  truthy (VScalar (SInt 0)) = true /\ truthy (VScalar (SStr [])) = true /\ truthy (VArray []) = true /\ truthy (VObject []) = true.
Proof. exact EvalProofs.zero_empty_are_true. Qed.

Section C06.
Variable O : oracle. Variable ps : pstore. Variable rec : template -> est -> sink -> out.
(* an undefined name counts as nil in a bare test (and only there) *)
Theorem bare_test : forall e s, eval_cond O (CExists e) s =
  Ok (truthy (match try_eval_expr O e s with Some v => v | None => VNil end)).
Proof. exact (EvalProofs.bare_test O). Qed.
Theorem undefined_is_false : forall e s, try_eval_expr O e s = None -> eval_cond O (CExists e) s = Ok false.
Proof. exact (EvalProofs.undefined_is_false O). Qed.
(* the comparison operators are the value model's equality and ordering (C11) *)
Theorem ops_are_value_model : forall a b,
  eval_cmp O OpEq a b = Ok (value_eq a b) /\ eval_cmp O OpNe a b = Ok (negb (value_eq a b)) /\
  eval_cmp O OpLt a b = Ok (v_lt a b) /\ eval_cmp O OpGt a b = Ok (v_gt a b) /\
  eval_cmp O OpLe a b = Ok (v_le a b) /\ eval_cmp O OpGe a b = Ok (v_ge a b).
Proof. exact (EvalProofs.ops_are_value_model O). Qed.
Theorem contains_spec : forall a b,
  eval_cmp O OpContains a b =
  match a with
  | VScalar _ => Ok (str_contains (to_kstr O a) (to_kstr O b))
  | VObject kvs => Ok (match b with VScalar _ => has_key (to_kstr O b) kvs | _ => false end)
  | VArray l => Ok (existsb (fun e => value_eq e b) l)
  | _ => Err EOther
  end.
Proof. exact (EvalProofs.contains_spec O). Qed.
Theorem and_or_semantics : forall a b c s x y z,
  eval_cond O a s = Ok x -> eval_cond O b s = Ok y -> eval_cond O c s = Ok z ->
  eval_cond O (COr a (CAnd b c)) s = Ok (x || (y && z)) /\
  eval_cond O (CAnd a b) s = Ok (x && y) /\ eval_cond O (COr a b) s = Ok (x || y).
Proof. exact (EvalProofs.and_or_semantics O). Qed.

(* if / elsif / else: exactly one branch — the first whose condition holds, otherwise else,
   otherwise nothing *)
Theorem if_first_true : forall arms els s k,
  Forall (fun cb => exists v, eval_cond O (fst cb) s = Ok v) arms ->
  ropt_list O ps rec (mk_if arms els) s k =
  match List.find (fun cb => match eval_cond O (fst cb) s with Ok true => true | _ => false end) arms with
  | Some (_, b) => rlist O ps rec b s k
  | None => ropt_list O ps rec els s k
  end.
Proof. exact (EvalProofs.if_first_true O ps rec). Qed.
Theorem if_error_propagates : forall c t e s k cl, eval_cond O c s = Err cl ->
  rnode O ps rec (NIf true c t e) s k = (OFail cl, s, k).
Proof. exact (EvalProofs.if_error_propagates O ps rec). Qed.
Theorem unless_is_negation : forall c t e s k v, eval_cond O c s = Ok v ->
  rnode O ps rec (NIf false c t (Some e)) s k = rnode O ps rec (NIf true c e (Some t)) s k.
Proof. exact (EvalProofs.unless_is_negation O ps rec). Qed.
(* case / when: the first arm one of whose values equals the target *)
Theorem case_first_equal : forall whens target els s k tv, eval_expr O target s = Ok tv ->
  Forall (fun arm => Forall (fun a => exists v, eval_expr O a s = Ok v) (fst arm)) whens ->
  rnode O ps rec (NCase target whens els) s k =
  match List.find (arm_matches O tv s) whens with
  | Some (_, b) => rlist O ps rec b s k
  | None => ropt_list O ps rec els s k
  end.
Proof. exact (EvalProofs.case_first_equal O ps rec). Qed.
End C06.

(* non-vacuity: a three-arm chain whose second condition holds *)
Example c06_nonvacuous :
  let c b := CExists (ELit (VScalar (SBool b))) in
  let s := est_build [] in
  ropt_list no_oracle_v (fun _ => Err EOther) (fun _ s k => (ODone, s, k))
    (mk_if [(c false, [NText [49%N]]); (c true, [NText [50%N]]); (c true, [NText [51%N]])] (Some [NText [52%N]])) s sink0
  = (ODone, s, mkSink [50%N] None).
Proof. vm_compute. reflexivity. Qed.

Print Assumptions truthiness.
Print Assumptions zero_empty_are_true.
Print Assumptions bare_test.
Print Assumptions undefined_is_false.
Print Assumptions ops_are_value_model.
Print Assumptions contains_spec.
Print Assumptions and_or_semantics.
Print Assumptions if_first_true.
Print Assumptions if_error_propagates.
Print Assumptions unless_is_negation.
Print Assumptions case_first_equal.
