"""C13 — string filters compute their documented function on every string."""
import itertools, random
from props import seqcommon as sc
from props.seqcommon import prepare, request, observed, case_ir, show_value, ORACLE

PROP = "C13"
TARGETS = ["props/C13.vo", "corr/Seqcorr.vo"]
HEADER = "From LV Require Import Corr Filters_seq Seqcorr.\n"
CHECKER = "seq_check"
MODEL_HANDLES_PANIC = True
TRUSTED = [
    "model/Filters_seq.v transcribes stdlib/filters/string/*.rs, slice.rs, mod.rs (size, default), html.rs (newline_to_br), array.rs (join, first, last) and FilterChain::evaluate",
    "modelled, not verified: Rust std str::{split, splitn, replace, trim*, chars} as list functions; char::is_whitespace as the White_Space set",
    "oracles (tables observed from the implementation in the same run): char::to_uppercase/to_lowercase per character, extended grapheme clusters (unicode-segmentation); U+03A3 (final-sigma context rule of str::to_lowercase) is not generated",
]
RULE = ("exhaustive strings over the 10-symbol alphabet (<=2 and a sample of length 3 quick; <=3 and a sample of length 4 thorough) x every string filter x arguments (<=1 symbol, thorough also 20 two-symbol arguments; integers -6..8), "
        "split/join and strip laws as chains, random strings up to 200 and random chains of 1..4 filters; non-trivial = the result differs from the input")

ALPHA = ["a", "B", " ", "\n", "\t", ",", "<", "é", "́", "\U0001F600"]
WS = set("\t\n\x0b\x0c\r \x85\xa0                　")
POOL = ALPHA + list("bcXYZ09.-_/;:'\"&>|") + ["\r", "ß", "Ǆ", "ǅ", "ﬁ", "İ", "ı", "ö", "Ω", "я", "Я", "中", "‍", "\U0001F1F7", "\U0001F1FA", "̈", "\xa0", " "]


def S_(s):
    return ["s", s]


def I_(n):
    return ["i", str(n)]


def strings(n):
    for k in range(n + 1):
        for t in itertools.product(ALPHA, repeat=k):
            yield "".join(t)


def gen(tier, seed):
    rnd = random.Random(seed)
    ss = list(strings(3))
    if tier == "quick":      # exhaustive up to length 2, a seeded eighth of length 3 (thorough: everything up to 3 and a sample of length 4)
        ss = [s for s in ss if len(s) <= 2 or rnd.random() < 0.12]
    else:
        ss += ["".join(rnd.choice(ALPHA) for _ in range(4)) for _ in range(600)]
    aa = list(strings(1))
    aa1 = aa if tier == "quick" else aa + rnd.sample([a for a in strings(2) if len(a) == 2], 20)     # arguments of the one-argument filters

    cases = []

    def add(x, chain, why):
        cases.append({"x": x, "chain": chain, "why": why})
    # every Unicode whitespace character (and near misses) at either end and in the middle
    for c in sorted(WS) + ["\u200b", "\ufeff", "\u180e", "\x1f", "\x00"]:
        for s in (c, c + "a", "a" + c, c + "a" + c, " " + c + "a" + c + " ", "a" + c + "b", c + c):
            for f in ("strip", "lstrip", "rstrip", "strip_newlines", "capitalize", "size", "first", "last", "upcase", "newline_to_br"):
                add(S_(s), [(f, [])], "unicode-whitespace")
            add(S_(s), [("rstrip", []), ("lstrip", [])], "unicode-whitespace")
            add(S_(s), [("split", [S_(" ")])], "unicode-whitespace")
            add(S_(s), [("split", [S_(c)]), ("join", [S_(c)])], "unicode-whitespace")
            add(S_(s), [("truncatewords", [I_(1)])], "unicode-whitespace")
            add(S_(s), [("truncate", [I_(2), S_(c)])], "unicode-whitespace")
    for s in ss:
        for f in ("upcase", "downcase", "capitalize", "strip", "lstrip", "rstrip", "strip_newlines", "size", "first", "last", "newline_to_br"):
            add(S_(s), [(f, [])], "unary")
        add(S_(s), [("rstrip", []), ("lstrip", [])], "law-strip")
        for a in aa1:
            for f in ("append", "prepend", "remove", "remove_first", "split", "replace"):
                add(S_(s), [(f, [S_(a)])], "arg1")
            add(S_(s), [("split", [S_(a)]), ("join", [S_(a)])], "law-split-join")
            add(S_(s), [("default", [S_(a)])], "default")
        for n in range(-6, 9):
            add(S_(s), [("truncate", [I_(n)])], "truncate")
            add(S_(s), [("truncatewords", [I_(n)])], "truncatewords")
            add(S_(s), [("slice", [I_(n)])], "slice")
            for m in (-1, 0, 1, 2, 3, 8):
                if rnd.random() < (0.35 if tier == "quick" else 1.0):
                    add(S_(s), [("slice", [I_(n), I_(m)])], "slice")
    small = [s for s in ss if len(s) <= 2]
    for s in ss:
        if rnd.random() > (0.25 if tier == "quick" else 0.5):
            continue
        for a in aa:
            for b in aa:
                add(S_(s), [("replace", [S_(a), S_(b)])], "arg2")
                add(S_(s), [("replace_first", [S_(a), S_(b)])], "arg2")
        for n in (0, 1, 2, 3, 5):
            for e in ("", "…", "ab", "́", "...."):
                add(S_(s), [("truncate", [I_(n), S_(e)])], "truncate")
                add(S_(s), [("truncatewords", [I_(n), S_(e)])], "truncatewords")
    # random longer strings and chains
    unary = ["upcase", "downcase", "capitalize", "strip", "lstrip", "rstrip", "strip_newlines", "size", "first", "last", "newline_to_br"]

    def rstr(maxlen):
        n = rnd.choice([0, 1, 2, 3, 5, 8, 13, 21, 50, maxlen])
        return "".join(rnd.choice(POOL) for _ in range(rnd.randint(0, n)))

    def rfilter(pos=0):
        r = rnd.random()
        if pos > 0 and r >= 0.7 and r < 0.85:
            r = 0.9     # truncate cuts by grapheme clusters of its input: only generated first in a chain (the cluster oracle is a table)
        if r < 0.35:
            return (rnd.choice(unary), [])
        if r < 0.6:
            return (rnd.choice(["append", "prepend", "remove", "remove_first", "split", "replace", "default"]), [S_(rstr(3))])
        if r < 0.7:
            return (rnd.choice(["replace", "replace_first"]), [S_(rstr(3)), S_(rstr(3))])
        if r < 0.85:
            f = "truncate" if pos == 0 and rnd.random() < 0.5 else "truncatewords"
            return (f, [I_(rnd.randint(-3, 30))] + ([S_(rstr(4))] if rnd.random() < 0.4 else []))
        return ("slice", [I_(rnd.randint(-30, 30))] + ([I_(rnd.randint(-2, 40))] if rnd.random() < 0.6 else []))
    nrand = 4000 if tier == "quick" else 60000
    for _ in range(nrand):
        chain = [rfilter(i) for i in range(rnd.randint(1, 4))]
        add(S_(rstr(200)), chain, "random")
    # type-confused inputs and arguments
    odd = [["n"], ["b", True], I_(-12345), ["f", "4609434218613702656"], ["a", [S_("ab"), I_(1), ["n"]]], ["o", [["k", S_("v")]]], ["st", "Empty"]]
    for v in odd:
        for f in unary + ["join", "reverse"]:
            add(v, [(f, [])], "confused")
        for f, args in (("append", [v]), ("split", [v]), ("truncate", [v]), ("truncate", [I_(4), v]), ("slice", [v]), ("slice", [I_(1), v]),
                        ("replace", [v, v]), ("default", [v]), ("join", [v]), ("truncatewords", [v])):
            add(S_("a1 b,<é"), [(f, args)], "confused")
            add(v, [(f, args)], "confused")
    for v in (I_(2 ** 63 - 1), I_(-2 ** 63), I_(0)):
        add(S_("abcdef"), [("slice", [I_(1), v])], "bounds")
        add(S_("abcdef"), [("slice", [v, I_(2)])], "bounds")
        add(S_("abcdef"), [("slice", [v, v])], "bounds")
        add(S_("abcdef"), [("truncate", [v])], "bounds")
        add(S_("abc def"), [("truncatewords", [v])], "bounds")
    for i, c in enumerate(cases):
        c["id"] = i
    dist = {"exhaustive": True, "alphabet": len(ALPHA), "max_len": 3 if tier == "quick" else 4, "max_arg_len": 1 if tier == "quick" else 2}
    for c in cases:
        dist[c["why"]] = dist.get(c["why"], 0) + 1
    return cases, dist


# ---------------- independent reference, written from the documentation ----------------
def up(s):
    return "".join(ORACLE["chars"].get(ch, (ch, ch))[0] for ch in s)


def low(s):
    return "".join(ORACLE["chars"].get(ch, (ch, ch))[1] for ch in s)


def lstrip(s):
    i = 0
    while i < len(s) and s[i] in WS:
        i += 1
    return s[i:]


def rstrip(s):
    i = len(s)
    while i > 0 and s[i - 1] in WS:
        i -= 1
    return s[:i]


def to_int(v):
    if v[0] == "i":
        return int(v[1])
    if v[0] == "s":
        s = v[1]
        body = s[1:] if s[:1] in "+-" else s
        if body and body.isascii() and body.isdigit():
            n = int(s)
            if -2 ** 63 <= n < 2 ** 63:
                return n
    return None


def glen(s):
    return len(ORACLE["graphemes"].get(s, list(s)))


class Skip(Exception):
    pass


def ref(f, x, args):
    """('ok', value) | ('err',) — documented meaning; raises Skip where the documentation is silent"""
    s = show_value(x)
    A = [show_value(a) for a in args]
    if f == "append":
        return ("ok", ["s", s + A[0]])
    if f == "prepend":
        return ("ok", ["s", A[0] + s])
    if f == "upcase":
        return ("ok", ["s", up(s)])
    if f == "downcase":
        return ("ok", ["s", low(s)])
    if f == "capitalize":
        return ("ok", ["s", up(s[:1]) + s[1:]])
    if f == "strip":
        return ("ok", ["s", lstrip(rstrip(s))])
    if f == "lstrip":
        return ("ok", ["s", lstrip(s)])
    if f == "rstrip":
        return ("ok", ["s", rstrip(s)])
    if f == "strip_newlines":
        return ("ok", ["s", s.replace("\n", "").replace("\r", "")])
    if f == "newline_to_br":
        return ("ok", ["s", s.replace("\n", "<br />\n")])
    if f in ("replace", "remove"):
        b = A[1] if len(A) > 1 else ""
        return ("ok", ["s", s.replace(A[0], b)])
    if f in ("replace_first", "remove_first"):
        b = A[1] if len(A) > 1 else ""
        return ("ok", ["s", s.replace(A[0], b, 1)])
    if f == "split":
        if s == "":
            return ("ok", ["a", []])
        if A[0] == "":
            return ("ok", ["a", [["s", p] for p in [""] + list(s) + [""]]])
        return ("ok", ["a", [["s", p] for p in s.split(A[0])]])
    if f == "join":
        if x[0] != "a":
            return ("err",)
        sep = A[0] if A else " "
        return ("ok", ["s", sep.join(show_value(e) for e in x[1])])
    if f == "size":
        if x[0] == "a" or x[0] == "o":
            return ("ok", ["i", str(len(x[1]))])
        if x[0] in ("n", "st"):
            return ("ok", ["i", "0"])
        return ("ok", ["i", str(len(s))])
    if f in ("first", "last"):
        if x[0] == "a":
            return ("ok", (x[1][0] if f == "first" else x[1][-1]) if x[1] else ["n"])
        if x[0] in ("n", "st", "o"):
            return ("err",)
        return ("ok", ["s", (s[:1] if f == "first" else s[-1:])])
    if f == "default":
        empty = x[0] in ("n",) or (x[0] == "s" and x[1] == "") or (x[0] == "b" and x[1] is False) or (x[0] in ("a", "o") and not x[1]) or x[0] == "st"
        return ("ok", args[0] if empty else x)
    if f == "reverse":
        return ("ok", ["a", x[1][::-1]]) if x[0] == "a" else ("err",)
    if f == "slice":
        off = to_int(args[0])
        ln = to_int(args[1]) if len(args) > 1 else 1
        if off is None or ln is None or ln < 1:
            return ("err",)
        seq = x[1] if x[0] == "a" else s
        n = len(seq)
        if off < 0:
            off += n
            if off < 0:
                piece = seq[0:0]
                return ("ok", ["a", piece] if x[0] == "a" else ["s", piece])
        piece = seq[off:off + ln]
        return ("ok", ["a", piece] if x[0] == "a" else ["s", piece])
    if f == "truncate":
        n = to_int(args[0]) if args else 50
        if n is None:
            return ("err",)
        e = A[1] if len(A) > 1 else "..."
        if n < 0 or len(s) <= n:
            return ("ok", x)
        keep = max(n - len(e), 0)
        g = ORACLE["graphemes"].get(s, list(s))
        return ("ok", ["s", "".join(g[:keep]) + e])
    if f == "truncatewords":
        n = to_int(args[0]) if args else 50
        if n is None:
            return ("err",)
        e = A[1] if len(A) > 1 else "..."
        words = s.split(" ")
        if n < 0 or len(words) <= n:
            return ("ok", x)
        return ("ok", ["s", " ".join(words[:n]) + e])
    raise Skip()


def ref_chain(c):
    v = c["x"]
    for f, args in c["chain"]:
        r = ref(f, v, args)
        if r[0] == "err":
            return r
        v = r[1]
    return ("ok", v)


def same(a, b):
    if a[0] == "f" and b[0] == "f":
        return a[1] == b[1]
    if a[0] in ("a",) and b[0] == "a":
        return len(a[1]) == len(b[1]) and all(same(x, y) for x, y in zip(a[1], b[1]))
    if a[0] == "o" and b[0] == "o":
        return sorted(k for k, _ in a[1]) == sorted(k for k, _ in b[1]) and all(same(dict(a[1])[k], dict(b[1])[k]) for k, _ in a[1])
    if a[0] == "dt" or b[0] == "dt" or a[0] == "d" or b[0] == "d":
        return a[0] == b[0] and a[2:] == b[2:]
    return list(a) == list(b)


def spec_check(c, resp):
    kind, got = observed(resp)
    inp = {"input": c["x"], "chain": c["chain"]}
    if kind == "panic":
        return {"what": "string filter panicked", "input": inp, "observed": got}
    try:
        want = ref_chain(c)
    except Skip:
        return None
    if want[0] == "err":
        return None if kind == "err" else {"what": "invalid input/argument accepted", "input": inp, "observed": got}
    if kind != "ok" or not same(got, want[1]):
        return {"what": "result differs from the documented function", "input": inp, "observed": got, "expected": want[1]}
    # laws
    names = [f for f, _ in c["chain"]]
    s = show_value(c["x"])
    if names == ["split", "join"] and c["chain"][0][1] == c["chain"][1][1] and show_value(c["chain"][0][1][0]) != "":
        if got != ["s", s]:
            return {"what": "split then join on the same separator is not the identity", "input": inp, "observed": got}
    if names == ["truncate"] and got[0] == "s" and c["x"][0] == "s":
        n = to_int(c["chain"][0][1][0]) if c["chain"][0][1] else 50
        e = show_value(c["chain"][0][1][1]) if len(c["chain"][0][1]) > 1 else "..."
        if n is not None and n >= 0 and got[1] != s:
            g = sum(1 for _ in ORACLE["graphemes"].get(s, list(s))[:max(n - len(e), 0)]) + len(e)
            if g > max(n, len(e)):
                return {"what": "truncated string longer than max(limit, ellipsis)", "input": inp, "observed": got}
    if names == ["slice"] and got[0] == "s":
        ln = to_int(c["chain"][0][1][1]) if len(c["chain"][0][1]) > 1 else 1
        if got[1] not in s or (ln is not None and len(got[1]) > ln):
            return {"what": "slice is not a contiguous piece of at most the requested length", "input": inp, "observed": got}
    return None


def nontrivial(c, resp):
    kind, got = observed(resp)
    return kind == "err" or (kind == "ok" and got != c["x"])
