(* Stack.v — crates/core/src/runtime/stack.rs and RuntimeCore/RuntimeBuilder of
   runtime.rs: the scope layers a template is rendered over.  A runtime is the list of
   its frames, innermost first; the empty list is the RuntimeCore at the bottom. *)
From LV Require Export Value.

Inductive frame :=
| FPlain (d : obj)      (* StackFrame<P, O> *)
| FSandbox (d : obj)    (* SandboxedStackFrame<P, O> *)
| FGlobal (d : obj)     (* GlobalFrame<P>: RefCell<Object> written by set_global *)
| FIndex (d : obj).     (* IndexFrame<P>: RefCell<Object> written by set_index *)
Definition rt := list frame.

Definition site_core_set_global : N := 201%N.   (* unreachable!("Must be masked by a global frame") *)
Definition site_core_set_index : N := 202%N.

Section WithOracle.
Variable O : oracle.

Definition path_key (p : list scalar) : option str :=
  match p with [] => None | k :: _ => Some (scalar_kstr O k) end.

(* Runtime::try_get *)
Fixpoint try_get (p : list scalar) (r : rt) : option value :=
  match path_key p with
  | None => None
  | Some key =>
    match r with
    | [] => None                                                        (* RuntimeCore *)
    | FPlain d :: q | FGlobal d :: q | FIndex d :: q =>
        if has_key key d then try_find O (VObject d) p else try_get p q
    | FSandbox d :: _ =>
        match lookup key d with Some _ => try_find O (VObject d) p | None => None end
    end
  end.

(* Runtime::get *)
Fixpoint get (p : list scalar) (r : rt) : res value :=
  match path_key p with
  | None => Err EUnknownVariable
  | Some key =>
    match r with
    | [] => Err EUnknownVariable
    | FPlain d :: q | FGlobal d :: q | FIndex d :: q =>
        if has_key key d then find O (VObject d) p else get p q
    | FSandbox d :: _ =>
        match lookup key d with
        | Some _ => match try_find O (VObject d) p with Some v => Ok v | None => Err EUnknownVariable end
        | None => Err EUnknownVariable
        end
    end
  end.

(* Runtime::roots — a BTreeSet in Rust; here a list read as a set *)
Fixpoint roots (r : rt) : list str :=
  match r with
  | [] => []
  | FPlain d :: q | FGlobal d :: q | FIndex d :: q => roots q ++ keys d
  | FSandbox d :: _ => keys d
  end.

(* Runtime::set_global / set_index / get_index *)
Fixpoint set_global (k : str) (v : value) (r : rt) : res rt :=
  match r with
  | [] => Panic site_core_set_global
  | FGlobal d :: q => Ok (FGlobal (upsert k v d) :: q)
  | f :: q => do q' <- set_global k v q; Ok (f :: q')
  end.
Fixpoint set_index (k : str) (v : value) (r : rt) : res rt :=
  match r with
  | [] => Panic site_core_set_index
  | FIndex d :: q => Ok (FIndex (upsert k v d) :: q)
  | f :: q => do q' <- set_index k v q; Ok (f :: q')
  end.
Fixpoint get_index (k : str) (r : rt) : option value :=
  match r with
  | [] => None
  | FIndex d :: _ => lookup k d
  | _ :: q => get_index k q
  end.

(* RuntimeBuilder::build: GlobalFrame(StackFrame(IndexFrame(RuntimeCore), globals)) *)
Definition runtime_build (data : obj) : rt := [FGlobal []; FPlain data; FIndex []].

(* The operations a plugin author can perform (C18's quantifier) *)
Inductive op :=
| OpPushPlain (d : obj) | OpPushSandbox (d : obj) | OpPushGlobal | OpPop
| OpSetGlobal (k : str) (v : value) | OpSetIndex (k : str) (v : value).

(* state = the runtime plus how many frames have been pushed over the base *)
Definition step (s : rt * nat) (o : op) : res (rt * nat) :=
  let (r, n) := s in
  match o with
  | OpPushPlain d => Ok (FPlain d :: r, S n)
  | OpPushSandbox d => Ok (FSandbox d :: r, S n)
  | OpPushGlobal => Ok (FGlobal [] :: r, S n)
  | OpPop => match n, r with S n', _ :: q => Ok (q, n') | _, _ => Ok (r, n) end
  | OpSetGlobal k v => do r' <- set_global k v r; Ok (r', n)
  | OpSetIndex k v => do r' <- set_index k v r; Ok (r', n)
  end.
Fixpoint run (s : rt * nat) (ops : list op) : res (rt * nat) :=
  match ops with
  | [] => Ok s
  | o :: t => do s' <- step s o; run s' t
  end.

(* ---- abstract specification: the layer that answers for a name ---- *)
Fixpoint resolve (key : str) (r : rt) : option obj :=
  match r with
  | [] => None
  | FSandbox d :: _ => if has_key key d then Some d else None
  | FPlain d :: q | FGlobal d :: q | FIndex d :: q => if has_key key d then Some d else resolve key q
  end.
Definition spec_try_get (p : list scalar) (r : rt) : option value :=
  match path_key p with
  | None => None
  | Some key => match resolve key r with Some d => try_find O (VObject d) p | None => None end
  end.
End WithOracle.
