"""C01 — parsing is total: any text yields a template or an error, never a crash."""
import itertools, json, random, re
from props import tpl, progen, c03
import lv

PROP = "C01"
TARGETS = ["props/C01.vo", "corr/Lexcorr.vo", "corr/Blockcorr.vo"]
BHEADER = "From LV Require Import Corr BlockParse Blockcorr.\n"
TRUSTED = [
    "coq/gen/Grammar.v (rules and termination certificate) is generated from grammar.pest on every run; the certificate is checked inside Coq (wf_cert ... = true by vm_compute), so a wrong certificate breaks the proof, it cannot make it unsound; "
    "model/Peg.v models the pest runtime (validated by the pair-stream correspondence on every enumerated text)",
    "model/BlockParse.v is a hand transcription of parser.rs (parse, TagBlock::next/escape_liquid/parse_all/assert_empty, BlockElement::parse_pair) and of the element loops of the stdlib blocks; it is validated by the C01/blocks correspondence "
    "(outcome class of parse() on the whole text == outcome class of the model on the element stream pest produced and the verdict bits observed by parsing each element alone in the smallest block accepting it)",
    "the argument parsers of the individual tags and the filter-chain construction are not modelled (input bits of the block model); their panic freedom is explored (catch_unwind, process exit status and a wall-clock limit on every enumerated text), not proved",
]
RULE = ("every sequence of up to 3 (thorough: 4) lexemes over a 95-lexeme alphabet — delimiters with and without trim markers, every stdlib tag/block keyword with its end/else/when/elsif forms, operators, literals incl. 20-digit integers, signs, both quote styles and "
        "unterminated quotes, identifiers, non-ASCII text, tabs, stray braces; random token soups up to 14 lexemes; character-level delete/duplicate/transpose mutations of generated well-formed templates; nesting up to depth 32; "
        "exhaustive sequences of up to 2 (thorough: 3) whole elements over 49 (every block keyword with accepted, rejected and superfluous arguments, closers with arguments, invalid tokens) and well-formed block nestings with 0-3 injected faults (replace/delete/insert/swap); "
        "parser configurations stdlib, stdlib+jekyll+shopify+extra, empty; a list of texts the language rejects, each of which must be an error with a message; non-trivial = the text is rejected or contains markup")

LEX = ["{{", "}}", "{%", "%}", "{{-", "-}}", "{%-", "-%}", " ", "\t", "\n", "x", "y.z", "a[0]", "é", "'s'", '"d"', "'", '"', "1", "-1", "1.5", "99999999999999999999", "-99999999999999999999", "9223372036854775807", "9223372036854775808", "-9223372036854775808", "-9223372036854775809", "9999999999999999999", "+", "-", "..", "(1..3)", "(", ")",
       "|", ":", ",", "=", "==", "!=", "<>", "<", ">", "<=", ">=", "contains", "and", "or", "true", "nil", "empty", "blank",
       "if", "elsif", "else", "endif", "unless", "endunless", "case", "when", "endcase", "for", "in", "endfor", "break", "continue", "tablerow", "endtablerow", "cols:", "limit:", "offset:", "reversed",
       "assign", "capture", "endcapture", "increment", "decrement", "cycle", "raw", "endraw", "comment", "endcomment", "ifchanged", "endifchanged", "include", "render", "with", "as", "upcase", "plus: 1", "{", "}", "%", "foo"]
CORE = ["{{", "}}", "{%", "%}", "{%-", "-}}", " ", "x", "'s'", "'", "1", "99999999999999999999", "|", ":", "==", "if", "else", "endif", "for", "in", "endfor", "case", "when", "endcase", "raw", "endraw", "comment", "endcomment",
        "assign", "=", "capture", "endcapture", "cycle", "tablerow", "endtablerow", "include", "elsif", "upcase", "é", "\t", "(1..3)", "break", "ifchanged", "increment", "render"]

CORE4 = ["{{", "}}", "{%", "%}", "{%-", " ", "x", "'", "99999999999999999999", "|", "if", "else", "endif", "for", "endfor", "raw", "endraw", "comment", "endcomment", "case", "when", "é"]

MUST_FAIL = ["{% unknown_tag %}", "{{ x | no_such_filter }}", "{{ x | upcase: 1 }}", "{{ x | plus }}", "{{ x | plus: 1, 2 }}", "{{ x | slice }}", "{% if x %}", "{% if x %}a{% endfor %}", "{% endif %}", "{% else %}", "{% elsif x %}", "{% when 1 %}",
             "{% for %}", "{% for x %}", "{% for x in %}{% endfor %}", "{% for x in y %}", "{% case %}{% endcase %}", "{% case x %}", "{% capture %}{% endcapture %}", "{% capture x %}", "{% raw %}", "{% comment %}", "{% tablerow x in y %}",
             "{{ 99999999999999999999 }}", "{{ -99999999999999999999 }}", "{{ 9223372036854775808 }}", "{{ -9223372036854775809 }}", "{{ 1 | plus: 9999999999999999999 }}", "{{ a[9223372036854775808] }}", "{% if x == 9999999999999999999 %}{% endif %}", "{% assign x = 99999999999999999999 %}", "{% if 99999999999999999999 %}{% endif %}", "{% for i in (1..99999999999999999999) %}{% endfor %}",
             "{{ 'unterminated }}", '{{ "unterminated }}', "{{", "{%", "{{ x", "{% if", "{{ }}", "{% %}", "{{ x }", "{% assign %}", "{% assign x %}", "{% assign x = %}", "{% assign = 1 %}", "{% increment %}", "{% cycle %}", "{% cycle a: %}",
             "{% include %}", "{% render %}", "{% if x == %}{% endif %}", "{% if == 1 %}{% endif %}", "{% if x and %}{% endif %}", "{% unless %}{% endunless %}", "{% if x %}{% else %}{% else x %}{% endif %}", "{% endraw %}", "{% endcomment %}",
             "{% for x in y limit %}{% endfor %}", "{% for x in y limit: %}{% endfor %}", "{% tablerow x in y cols %}{% endtablerow %}", "{% if x %}{% endif x %}", "{% raw x %}{% endraw %}", "{% comment %}{% if x %}", "{% comment %}{% raw %}{% endcomment %}",
             "{% assign z = \"\n{{ 'a\" %}{{ b' }}", "{{ x | }}", "{{ | upcase }}", "{{ x || upcase }}", "{{ x.y. }}", "{{ x[ }}", "{{ x[] }}", "{{ x..y }}", "{{ (1..3) }}", "{{ 1.. }}", "{% ifchanged %}", "{% break x %}", "{% continue 1 %}"]
ARG_POOL = ["nil", "null", "empty", "blank", "true", "false", "1", "-1", "1.5", "0", "'str'", '"dq"', "''", "x", "x.y", "x[0]", 'x["k"]', "x[y]", "(1..3)", "(x..y)", "99999999999999999999", "é", "-", "in", "with", "as", "for",
            "forloop", "x | upcase", "1..3", "x y", ""]
ARG_CORE = ["nil", "empty", "1", "'str'", "x", "(1..3)"]
ARG_SCHEMAS = ["{% cycle S: 'a', 'b' %}", "{% cycle S, S %}", "{% cycle 'g': S %}", "{% cycle S %}", "{% for i in S %}{% endfor %}", "{% for i in (S..S) %}{% endfor %}", "{% for i in a limit: S offset: S %}{% endfor %}",
               "{% for S in a %}{% endfor %}", "{% for i in a reversed S %}{% endfor %}", "{% tablerow i in S cols: S %}{% endtablerow %}", "{% tablerow i in a limit: S offset: S %}{% endtablerow %}", "{% if S %}{% endif %}",
               "{% if S == S %}{% endif %}", "{% if S contains S %}{% endif %}", "{% if x and S %}{% endif %}", "{% unless S %}{% endunless %}", "{% if x %}{% elsif S %}{% endif %}", "{% case S %}{% when S %}{% endcase %}",
               "{% case x %}{% when S, S %}{% endcase %}", "{% case x %}{% when S or S %}{% endcase %}", "{% assign v = S %}", "{% assign S = 1 %}", "{% assign v = x | append: S %}", "{% capture S %}{% endcapture %}", "{% include S %}",
               "{% include 'p' k: S %}", "{% include 'p' S: 1 %}", "{% include 'p', S %}", "{% render S %}", "{% render 'p' with S as v %}", "{% render 'p' for S as v %}", "{% render 'p', k: S %}", "{% render 'p' with x as S %}",
               "{% increment S %}", "{% decrement S %}", "{{ S }}", "{{ S | append: S }}", "{{ a | slice: S, S }}", "{{ a[S] }}", "{{ a.S }}", "{{ a | date: S }}", "{{ a | truncate: S, S }}", "{{ a | S }}", "{{ a | default: S }}",
               "{{ a | replace: S, S }}", "{{ a | where: S, S }}", "{{ a | S: S }}", "{% ifchanged S %}{% endifchanged %}", "{% break S %}", "{% continue S %}", "{% raw S %}{% endraw %}", "{% comment S %}{% endcomment %}",
               "{% endif S %}", "{% if x %}{% else S %}{% endif %}", "{% for i in a %}{% else S %}{% endfor %}", "{% case x %}{% else S %}{% endcase %}", "{% S %}", "{% S x %}", "{%- S -%}", "{{- S -}}"]
ERR_SCHEMAS = ['{{ x | upcase: "P" }}', '{{ x | truncate: 5, "...", "P" }}', '{% assign y = x | downcase: "P" %}', '{{ x | nofilter: "P" }}', '{% unknown "P" %}', '{% if "P" %}', '{{ "P" | plus }}',
               '{% assign P = 1 %}', '{{ "P }}', '{% for i in "P" %}', '{% cycle "P": 1, %}', '{% case "P" %}{% bogus %}{% endcase %}', 'P{% endif %}', '{% render "P" with %}', '{{ x | date: "P", "P" }}',
               '{% if x === "P" %}{% endif %}', '{% tablerow i in "P" cols: %}', '{% include "P" "P" %}', "{{ x | append: 'P', 'P' }}", '{% P %}', '{{ x.P }}', '{{ x["P" }}', '{% capture "P" %}{% endcapture %}',
               '{% comment %}P', '{% raw %}P', '{% if "P" contains %}{% endif %}', '{% increment "P" %}', '{% for i in (1.."P") %}{% endfor %}', '{% assign y = "P" | %}', '{% liquid P %}']
MUST_PARSE = ["", "plain", "}}", "%}", "{ {", "{{ x }}", "{{ x | upcase }}", "{% if x %}{% endif %}", "{% case x %}{% else %}{% endcase %}", "{% case x %}{% endcase %}", "{% comment %}{{ bad {% endcomment %}", "{% raw %}{{ {% endraw %}",
              "{% comment %}{% if x %}{{ bad {% endif %}{% endcomment %}", "{% comment %}{% unknown %}{% endcomment %}", "{{ 9223372036854775807 }}", "{{ -9223372036854775808 }}", "{%\tif x\t%}{%\tendif\t%}", "{{ x['a'][0].b }}",
              "{% for i in (1..3) reversed limit:1 offset:1 %}{% else %}{% endfor %}", "{% tablerow i in x cols:2 %}{% endtablerow %}", "{% cycle 'a': 1, 2 %}", "{% ifchanged %}{% endifchanged %}", "{% break %}", "{% continue %}"]


PLAIN = {"assign", "break", "continue", "cycle", "decrement", "include", "increment", "render"}
KW = {"if": "KIf", "unless": "KUnless", "else": "KElse", "elsif": "KElsif", "endif": "KEndif", "endunless": "KEndunless", "for": "KFor", "endfor": "KEndfor", "tablerow": "KTablerow", "endtablerow": "KEndtablerow",
      "case": "KCase", "when": "KWhen", "endcase": "KEndcase", "capture": "KCapture", "endcapture": "KEndcapture", "ifchanged": "KIfchanged", "endifchanged": "KEndifchanged", "comment": "KComment", "endcomment": "KEndcomment",
      "raw": "KRaw", "endraw": "KEndraw"}
WRAP = {"if": ("", "{% endif %}"), "unless": ("", "{% endunless %}"), "for": ("", "{% endfor %}"), "tablerow": ("", "{% endtablerow %}"), "case": ("", "{% endcase %}"), "capture": ("", "{% endcapture %}"),
        "elsif": ("{% if true %}", "{% endif %}"), "when": ("{% case 1 %}", "{% endcase %}")}


ELEMS = ["t", "{{ x }}", "{{ x | nofilter }}", "{{ bad", "{% bad", "{% unknown %}", "{% assign a = 1 %}", "{% assign %}", "{% break %}", "{% cycle 1, 2 %}",
         "{% if x %}", "{% if %}", "{%- if x == 1 -%}", "{% elsif y %}", "{% elsif %}", "{% else %}", "{% else x %}", "{% endif %}", "{% endif x %}",
         "{% unless x %}", "{% unless %}", "{% endunless %}", "{% for i in a %}", "{% for i %}", "{% endfor %}", "{% endfor 1 %}", "{% tablerow i in a %}", "{% tablerow %}", "{% endtablerow %}",
         "{% case x %}", "{% case %}", "{% when 1 %}", "{% when 1 or 2, 3 %}", "{% when %}", "{% endcase %}", "{% capture c %}", "{% capture %}", "{% endcapture %}",
         "{% ifchanged %}", "{% ifchanged x %}", "{% endifchanged %}", "{% comment %}", "{% comment x %}", "{% endcomment %}", "{% endcomment x %}", "{% raw %}", "{% raw x %}", "{% endraw %}", "{%- endraw x -%}"]
OPENERS = {"{% if x %}": "{% endif %}", "{% unless x %}": "{% endunless %}", "{% for i in a %}": "{% endfor %}", "{% tablerow i in a %}": "{% endtablerow %}", "{% case x %}": "{% endcase %}",
           "{% capture c %}": "{% endcapture %}", "{% ifchanged %}": "{% endifchanged %}", "{% comment %}": "{% endcomment %}", "{% raw %}": "{% endraw %}"}


def block_texts(tier, seed):
    """sequences of whole elements: every block keyword with accepted, rejected and superfluous arguments"""
    rnd = random.Random(seed * 7 + 1)
    out = {}
    for k in (1, 2) if tier == "quick" else (1, 2, 3):
        for combo in itertools.product(ELEMS, repeat=k):
            out.setdefault("".join(combo), "exhaustive element sequences (length %d)" % k)
    ops = list(OPENERS)
    good = ["t", "{{ x }}", "{% assign a = 1 %}", "{% break %}", "{% cycle 1, 2 %}", " "]
    mids = {"{% if x %}": ["{% else %}", "{% elsif y %}", "{% elsif y %}{% else %}", "{% else x %}"], "{% unless x %}": ["{% else %}", "{% else x %}"], "{% for i in a %}": ["{% else %}"],
            "{% case x %}": ["{% when 1 %}", "{% when 1 %}{% when 2 or 3 %}", "{% when 1 %}{% else %}", "{% else %}"]}

    def nest(depth):
        """a well-formed element list"""
        parts = []
        for _ in range(rnd.randint(1, 3)):
            if depth > 0 and rnd.random() < 0.6:
                o = rnd.choice(ops)
                body = nest(depth - 1) if o not in ("{% raw %}",) else [rnd.choice(["t", "{{ x", "{% if x %}", "{% endraw x %}"])]
                if o in mids and rnd.random() < 0.6:
                    m = rnd.choice(mids[o])
                    body = body + re.findall(r"\{%.*?%\}", m) + nest(depth - 1)
                if o == "{% case x %}" and not body[0].startswith("{% when") and not body[0].startswith("{% else"):
                    body = ["{% when 1 %}"] + body
                parts += [o] + body + [OPENERS[o]]
            else:
                parts.append(rnd.choice(good))
        return parts
    n = 4000 if tier == "quick" else 40000
    for i in range(n):
        els = nest(rnd.randint(1, 4))
        for _ in range(rnd.choice([0, 1, 1, 1, 2, 3])):
            j = rnd.randrange(len(els))
            m = rnd.random()
            if m < 0.4:
                els[j] = rnd.choice(ELEMS)
            elif m < 0.6 and len(els) > 1:
                del els[j]
            elif m < 0.8:
                els.insert(j, rnd.choice(ELEMS))
            else:
                k = rnd.randrange(len(els))
                els[j], els[k] = els[k], els[j]
        out.setdefault("".join(els), "random nesting of blocks with misplaced, missing and malformed tags")
    return out


def block_suite(run, binp, texts, outcome, tier, seed):
    """parse() above the pair stream == model/BlockParse.v: the element stream pest hands over, the verdict of each
    element's own argument parser (observed by parsing that element alone, in the smallest block that accepts it),
    and the class of outcome of the whole text (template / error / panic)"""
    from lv import C, R, Nv
    texts = [t for t in sorted(set(texts)) if t in outcome]
    reqs = [{"id": i, "kind": "elements", "text": t} for i, t in enumerate(texts)]
    resps, problems = lv.run_harness(binp, reqs, tag="C01el")
    streams = {}
    for q in reqs:
        r = resps.get(q["id"])
        if r and r.get("elements") is not None:
            streams[q["text"]] = r["elements"]
    # one oracle query per distinct element
    probes = {}
    for els in streams.values():
        for e in els:
            if e["rule"] == "Expression":
                probes.setdefault(e["text"], None)
            elif e["rule"] == "Tag" and (e["name"] in PLAIN or e["name"] in WRAP):
                a, b = WRAP.get(e["name"], ("", ""))
                probes.setdefault(a + e["text"] + b, None)
    plist = sorted(probes)
    presps, pproblems = lv.run_harness(binp, [{"id": i, "kind": "parse", "config": "stdlib", "tpl": t} for i, t in enumerate(plist)], tag="C01pr")
    for i, t in enumerate(plist):
        r = presps.get(i)
        probes[t] = None if r is None or "panic" in r else bool(r.get("parsed"))
    irs, keys, kinds = [], [], {}
    for t, els in streams.items():
        out, good = [], True
        for e in els:
            k = e["rule"]
            if k == "Raw":
                out.append(C("ERaw"))
            elif k == "InvalidLiquid":
                out.append(C("EInv"))
            elif k == "EOI":
                out.append(C("EEOI"))
            elif k == "Expression":
                ok = probes.get(e["text"])
                good = good and ok is not None
                out.append(C("EExp", bool(ok)))
            else:
                name, noargs = e["name"], e["nargs"] == 0
                aok = True
                if name in PLAIN or name in WRAP:
                    a, b = WRAP.get(name, ("", ""))
                    aok = probes.get(a + e["text"] + b)
                    good = good and aok is not None
                kw = "KPlain" if name in PLAIN else KW.get(name, "KOther")
                kinds[kw] = kinds.get(kw, 0) + 1
                out.append(C("ETag", C(kw), bool(aok), noargs))
        if good:
            irs.append(R("mkB", out, Nv(outcome[t])))
            keys.append(t)
    okd, drv, dout, ddt = lv.build_driver()
    run.obligation(okd, "extraction of the model and driver build", dout[-3000:])
    failing = []
    if okd:
        failing, errors = lv.run_driver(drv, "block_check", [lv.to_sexp(x) for x in irs], tag="C01blk")
        run.obligation(not errors, "correspondence suite C01/blocks evaluated by the extracted model", json.dumps(errors)[:3000])
        rnd = random.Random(seed)
        idx = sorted(set(failing[:20]) | set(rnd.sample(range(len(irs)), min(len(irs), 100 if tier == "quick" else 400))))
        cfail, cproblems = lv.run_coq_cases("C01blk", BHEADER, [lv.to_coq(irs[i]) for i in idx], check_fn="block_check", shard_size=50)
        run.checker_cmds.append("coqc cases_*.v (Eval vm_compute in failing block_check cases) on a sample")
        run.obligation(not cproblems and sorted(idx[j] for j in cfail) == sorted(i for i in failing if i in set(idx)),
                       "extracted driver agrees with vm_compute inside Coq on %d sampled cases (block_check)" % len(idx), json.dumps(cproblems)[:2000])
    for i in failing[:5]:
        run.broken.append({"obligation": "correspondence C01/blocks: the block-parser model and parse() disagree on the class of outcome", "input": {"text": keys[i], "implementation": ["template", "error", "panic"][outcome[keys[i]]]}})
    run.obligation(okd and not failing, "correspondence C01/blocks: model outcome class == parse() outcome class on every text", "%d disagreements of %d" % (len(failing), len(irs)))
    classes = {"template": sum(1 for t in keys if outcome[t] == 0), "error": sum(1 for t in keys if outcome[t] == 1), "panic": sum(1 for t in keys if outcome[t] == 2)}
    return {"evaluations": len(irs), "disagreements": len(failing), "tag_kinds": kinds, "probes": len(plist), "classes": classes}


def gen(tier, seed):
    rnd = random.Random(seed)
    texts = {}

    def add(t, why):
        texts.setdefault(t, why)
    n = 4 if tier == "thorough" else 3
    for k in range(1, n + 1):
        alpha = LEX if k <= 2 else CORE if k == 3 else CORE4
        for combo in itertools.product(alpha, repeat=k):
            add(" ".join(combo), "exhaustive lexeme sequences (length %d)" % k)
            if k <= 2:
                add("".join(combo), "exhaustive lexeme sequences, unspaced (length %d)" % k)
    for _ in range(3000 if tier == "quick" else 60000):
        add(rnd.choice([" ", ""]).join(rnd.choice(LEX) for _ in range(rnd.randint(4, 14))), "random token soup")
    allow = ("assign", "capture", "inc", "dec", "for", "if", "read", "text", "break", "continue", "cycle", "ifchanged", "tablerow")
    for _ in range(150 if tier == "quick" else 2500):
        src = tpl.body_text(progen.Gen(rnd, partial_names=[], allow=allow).program(size=4, depth=3))
        add(src, "well-formed template")
        for _ in range(8):
            i = rnd.randrange(len(src))
            m = rnd.choice(["del", "dup", "swap", "cut"])
            if m == "del":
                mt = src[:i] + src[i + 1:]
            elif m == "dup":
                mt = src[:i] + src[i] + src[i:]
            elif m == "swap" and i + 1 < len(src):
                mt = src[:i] + src[i + 1] + src[i] + src[i + 2:]
            else:
                mt = src[:i]
            add(mt, "character mutation of a well-formed template")
    for d in (1, 2, 8, 32):
        for opener, closer in (("{% if x %}", "{% endif %}"), ("{% for i in a %}", "{% endfor %}"), ("{% comment %}", "{% endcomment %}"), ("{% capture c %}", "{% endcapture %}"), ("{% case x %}{% when 1 %}", "{% endcase %}")):
            add(opener * d + "t" + closer * d, "nesting")
            add(opener * d + "t" + closer * (d - 1), "nesting, one unclosed")
            add(opener * d + "{{ bad " + closer * d, "nesting with an invalid token")
            add("{% comment %}" + opener * d, "unclosed blocks inside a comment")
            add("{% comment %}" + opener * d + "{{ bad " + closer * d + "{% endcomment %}", "invalid token in blocks inside a comment")
    for t, w in block_texts(tier, seed).items():
        add(t, w)
    # an invalid token after an element that ended on the same line: parse_pair re-parses the line prefix + the rest
    for a, b, c, d in itertools.product(['{% assign z = "', "{% assign z = '", '{{ "', "{{ '", '{% if "'], ["{{ 'a", '{{ "a', "{% if 'a", "{{ x | append: 'a", "x", "é{{ 'a"],
                                        ['" %}', "' %}", '" }}', "' }}"], ["{{ b' }}", '{{ b" }}', "{{ b' | upcase }}", "{% if b' %}", "{{ 'c", "{% b' %}{{ 'x' }}", "{{ b }"]):
        add(a + "\n" + b + c + d, "invalid token after a multi-line element")
        add("t\n" + b + c + d, "invalid token after a multi-line element")
    # every rejection path with a long non-ASCII payload at every byte alignment: whatever a message quotes or shortens must stay on a character boundary
    for schema in ERR_SCHEMAS:
        for ch in ("é", "日", "\U0001F600"):
            for k in (range(0, 70) if tier == "thorough" else list(range(0, 9)) + list(range(12, 70, 1 if ch == "é" else 3))):
                add(schema.replace("P", "a" * k + ch * 12), "rejection with a long non-ASCII payload")
    # every argument position of every tag / block / filter call filled with every kind of expression (literals of all kinds incl. nil / empty / blank, paths, ranges, keywords, junk)
    for schema in ARG_SCHEMAS:
        k = schema.count("S")
        if k == 1:
            fills = [(a,) for a in ARG_POOL]
        elif k == 2:
            fills = list(itertools.product(ARG_POOL, repeat=2)) if tier == "thorough" else [(a, b) for a in ARG_POOL for b in ARG_POOL if a == b or a in ARG_CORE or b in ARG_CORE]
        else:
            fills = [tuple(a if j == i else "x" for j in range(k)) for i in range(k) for a in ARG_POOL] + [tuple(a for _ in range(k)) for a in ARG_POOL]
        for f in fills:
            parts = schema.split("S")
            add("".join(x + (f[i] if i < len(f) else "") for i, x in enumerate(parts)), "tag argument grid")
    for t in MUST_FAIL:
        add(t, "must be rejected")
    for t in MUST_PARSE:
        add(t, "must be accepted")
    cases = [{"id": i, "text": t, "why": w} for i, (t, w) in enumerate(texts.items())]
    dist = {"exhaustive": True, "lexemes": len(LEX)}
    for c in cases:
        dist[c["why"]] = dist.get(c["why"], 0) + 1
    return cases, dist


def main(tier, seed):
    run = lv.Run(PROP, tier, seed)
    run.trusted = lv.COMMON_TRUSTED + TRUSTED
    lv.standard_proof_phase(run, PROP, TARGETS, thorough=(tier == "thorough"))
    ok, binp, out, dt = lv.build_harness("debug")
    run.checker_cmds.append("cargo build --offline (harness over /repo)")
    if not ok:
        run.obligation(False, "harness build against /repo", out[-3000:])
        return run.finish()
    cases, dist = gen(tier, seed)
    evaluations, nontriv, samples = 0, set(), []
    outcome = {}
    must_fail, must_parse = set(MUST_FAIL), set(MUST_PARSE)
    for config in ("stdlib", "all", "empty"):
        sub = cases if config == "stdlib" else [c for c in cases if c["why"] in ("must be rejected", "must be accepted", "random token soup", "invalid token after a multi-line element", "character mutation of a well-formed template", "nesting", "unclosed blocks inside a comment")
                                                  or c["why"].startswith("exhaustive lexeme sequences (length 2") or c["why"].startswith("exhaustive lexeme sequences (length 1")]
        reqs = [{"id": c["id"], "kind": "parse", "config": config, "tpl": c["text"]} for c in sub]
        resps, problems = lv.run_harness(binp, reqs, tag="C01" + config, timeout=900)
        for pb in problems:
            c = next((c for c in sub if c["id"] == pb["first_unanswered"]), None)
            run.violations.append({"what": "the parser did not return (process died or ran past the time limit)", "input": {"text": c and c["text"], "config": config}, "observed": pb["tail"]})
        for c in sub:
            r = resps.get(c["id"])
            if r is None:
                continue
            evaluations += 1
            inp = {"text": c["text"], "config": config}
            if config == "stdlib":
                outcome[c["text"]] = 2 if "panic" in r else 1 if "parse_err" in r else 0
            if "panic" in r:
                run.violations.append({"what": "parsing panicked", "input": inp, "observed": r["panic"]})
                continue
            if "parse_err" in r:
                if not r["parse_err"].strip():
                    run.violations.append({"what": "a rejected text carries no message", "input": inp})
                nontriv.add(c["text"])
                if config != "empty" and c["text"] in must_parse:
                    run.violations.append({"what": "a text of the language was rejected", "input": inp, "observed": r["parse_err"]})
            elif r.get("parsed"):
                if "{" in c["text"]:
                    nontriv.add(c["text"])
                if c["text"] in must_fail:
                    run.violations.append({"what": "a text the language rejects was accepted silently", "input": inp})
            else:
                run.violations.append({"what": "unexpected answer", "input": inp, "observed": r})
            if len(samples) < 3 and c["why"] == "random token soup":
                samples.append({"request": {"text": c["text"], "config": config}, "implementation": r})
    # the grammar model on the same texts
    heavy = ("exhaustive lexeme sequences (length 3", "exhaustive lexeme sequences (length 4", "exhaustive element sequences", "random nesting of blocks", "rejection with a long", "tag argument grid")
    lex_texts = [c["text"] for c in cases if not c["why"].startswith(heavy)]
    block_texts_ = [c["text"] for c in cases if c["why"].startswith(heavy[2:4])]
    rnd = random.Random(seed)
    have = set(lex_texts)
    rest = [c["text"] for c in cases if c["text"] not in have and len(c["text"]) < 120]
    lex_texts += rnd.sample(rest, min(len(rest), 4000 if tier == "quick" else 40000))
    st = c03.lex_suite(run, binp, lex_texts, "C01", tier, seed)
    dist["pair_stream_compared"] = st["evaluations"]
    bt = block_suite(run, binp, lex_texts + block_texts_, outcome, tier, seed)
    dist["block_machinery_compared"] = bt["evaluations"]
    dist["block_machinery_tag_kinds"] = bt["tag_kinds"]
    dist["block_machinery_element_probes"] = bt["probes"]
    dist["block_machinery_outcome_classes"] = bt["classes"]
    st["evaluations"] += bt["evaluations"]
    st["disagreements"] += bt["disagreements"]
    run.coverage.update({"evaluations": evaluations + st["evaluations"], "distinct_nontrivial": len(nontriv), "rule": RULE, "samples": samples,
                         "traces_validated_against_impl": evaluations + st["evaluations"], "disagreements_checked": st["disagreements"], "exhaustive": True, "input_distribution": dist})
    return run.finish()
