(* Proofs about model/Filters_math.v (property C15). *)
From Coq Require Import SpecFloat.
From LV Require Import Base Value Filters_math.
Open Scope Z_scope.

Definition i64 (z : Z) : Prop := - 2 ^ 63 <= z <= 2 ^ 63 - 1.
Lemma in_i64_iff z : in_i64 z = true <-> i64 z.
Proof. unfold in_i64, i64, i64_min, i64_max. rewrite andb_true_iff, !Z.leb_le. tauto. Qed.
Lemma checked_some z r : checked z = Some r -> r = z /\ i64 r.
Proof. unfold checked. destruct (in_i64 z) eqn:E; [|discriminate]. intro H; inversion H; subst. split; [reflexivity|apply in_i64_iff; exact E]. Qed.
Lemma checked_none z : checked z = None -> ~ i64 z.
Proof. unfold checked. destruct (in_i64 z) eqn:E; [discriminate|]. intros _ H. apply in_i64_iff in H. congruence. Qed.

Section P.
Variable O : oracle.
Notation mf := (math_filter O).
Definition int (z : Z) := VScalar (SInt z).
Definition flt (f : spec_float) := VScalar (SFloat f).

(* plus / minus / times on integer operands: the mathematical result when it fits, otherwise
   the IEEE result of the operands converted to doubles — never a wrapped integer *)
Theorem plus_exact a b : mf FPlus (int a) [int b] =
  if in_i64 (a + b) then Ok (int (a + b)) else Ok (flt (f_add (f_of_Z a) (f_of_Z b))).
Proof. unfold math_filter, num2, checked; simpl. destruct (in_i64 (a + b)); reflexivity. Qed.
Theorem minus_exact a b : mf FMinus (int a) [int b] =
  if in_i64 (a - b) then Ok (int (a - b)) else Ok (flt (f_sub (f_of_Z a) (f_of_Z b))).
Proof. unfold math_filter, num2, checked; simpl. destruct (in_i64 (a - b)); reflexivity. Qed.
Theorem times_exact a b : mf FTimes (int a) [int b] =
  if in_i64 (a * b) then Ok (int (a * b)) else Ok (flt (f_mul (f_of_Z a) (f_of_Z b))).
Proof. unfold math_filter, num2, checked; simpl. destruct (in_i64 (a * b)); reflexivity. Qed.
Theorem abs_exact a : mf FAbs (int a) [] =
  if in_i64 (Z.abs a) then Ok (int (Z.abs a)) else Ok (flt (f_abs (f_of_Z a))).
Proof. unfold math_filter, checked; simpl. destruct (in_i64 (Z.abs a)); reflexivity. Qed.
Theorem at_least_exact a b : mf FAtLeast (int a) [int b] = Ok (int (Z.max a b)).
Proof. reflexivity. Qed.
Theorem at_most_exact a b : mf FAtMost (int a) [int b] = Ok (int (Z.min a b)).
Proof. reflexivity. Qed.
(* an integer result is always the mathematical one and always in range *)
Corollary integer_results_never_wrap f a b r : i64 a -> i64 b ->
  (f = FPlus \/ f = FMinus \/ f = FTimes) -> mf f (int a) [int b] = Ok (int r) ->
  r = (match f with FPlus => a + b | FMinus => a - b | _ => a * b end) /\ i64 r.
Proof.
  intros Ha Hb Hf H. destruct Hf as [ -> | [ -> | -> ] ];
    [rewrite plus_exact in H|rewrite minus_exact in H|rewrite times_exact in H];
    match type of H with (if in_i64 ?z then _ else _) = _ => destruct (in_i64 z) eqn:E end;
    inversion H; subst; split; try reflexivity; apply in_i64_iff; assumption.
Qed.

(* integer division: truncated quotient and remainder; dividend = q * divisor + r, |r| < |divisor| *)
Theorem div_mod_law a b : b <> 0 -> i64 a -> i64 b -> (a, b) <> (- 2 ^ 63, -1) ->
  mf FDividedBy (int a) [int b] = Ok (int (Z.quot a b)) /\
  mf FModulo (int a) [int b] = Ok (int (Z.rem a b)) /\
  a = Z.quot a b * b + Z.rem a b /\ Z.abs (Z.rem a b) < Z.abs b /\ i64 (Z.quot a b) /\ i64 (Z.rem a b).
Proof.
  intros Hb Ia Ib Hm.
  assert (Hz : (b =? 0) = false) by (apply Z.eqb_neq; exact Hb).
  assert (Hq : i64 (Z.quot a b)).
  { unfold i64 in *. assert (Z.abs (Z.quot a b) <= Z.abs a).
    { rewrite <- Z.quot_abs by exact Hb. apply Z.quot_le_upper_bound; [lia|]. nia. }
    destruct (Z.eq_dec b (-1)) as [->|Hb1].
    - change (Z.quot a (-1)) with (Z.quot a (- (1))). rewrite Z.quot_opp_r, Z.quot_1_r by lia. assert (a <> - 2 ^ 63) by (intro; subst; apply Hm; reflexivity). lia.
    - destruct (Z.eq_dec b 1) as [->|Hb2]; [rewrite Z.quot_1_r; lia|].
      assert (Z.abs (Z.quot a b) * 2 <= Z.abs a).
      { rewrite <- Z.quot_abs by exact Hb. pose proof (Z.quot_rem' (Z.abs a) (Z.abs b)).
        pose proof (Z.rem_nonneg (Z.abs a) (Z.abs b) ltac:(lia) ltac:(lia)).
        assert (0 <= Z.quot (Z.abs a) (Z.abs b)) by (apply Z.quot_pos; lia). nia. }
      lia. }
  assert (Hr : Z.abs (Z.rem a b) < Z.abs b) by (apply Z.rem_bound_abs; exact Hb).
  assert (Hr' : i64 (Z.rem a b)) by (unfold i64 in *; lia).
  repeat split; try assumption; try (unfold i64 in *; lia).
  - unfold math_filter, num2, zero_operand, checked; simpl. rewrite Hz. rewrite (proj2 (in_i64_iff _) Hq). reflexivity.
  - unfold math_filter, num2, zero_operand; simpl. rewrite Hz. reflexivity.
  - pose proof (Z.quot_rem' a b). lia.
Qed.
(* the one quotient that does not fit continues in floating point; its remainder is 0 *)
Theorem div_min_minus_one :
  mf FDividedBy (int (- 2 ^ 63)) [int (-1)] = Ok (flt (f_div (f_of_Z (- 2 ^ 63)) (f_of_Z (-1)))) /\
  mf FModulo (int (- 2 ^ 63)) [int (-1)] = Ok (int 0).
Proof. split; reflexivity. Qed.
(* division by zero is an error, for integer, float and numeric-string zeros alike *)
Theorem div_by_zero_is_error input o : zero_operand O o = true ->
  (exists c, mf FDividedBy (VScalar input) [VScalar o] = Err c) /\ (exists c, mf FModulo (VScalar input) [VScalar o] = Err c).
Proof. intro H. unfold math_filter; simpl. rewrite H. split; eexists; reflexivity. Qed.
Example zero_operands_are_zero :
  zero_operand O (SInt 0) = true /\ zero_operand O (SFloat (S754_zero false)) = true /\ zero_operand O (SFloat (S754_zero true)) = true /\
  zero_operand O (SStr [48%N]) = true.
Proof. repeat split; reflexivity. Qed.

(* with a float operand the result is the IEEE-754 binary64 operation *)
Theorem float_path_is_ieee x y :
  mf FPlus (flt x) [flt y] = Ok (flt (SFadd 53 1024 x y)) /\
  mf FMinus (flt x) [flt y] = Ok (flt (SFsub 53 1024 x y)) /\
  mf FTimes (flt x) [flt y] = Ok (flt (SFmul 53 1024 x y)) /\
  (f_is_zero y = false -> mf FDividedBy (flt x) [flt y] = Ok (flt (SFdiv 53 1024 x y))).
Proof.
  repeat split; try reflexivity. intro H. unfold math_filter, zero_operand; simpl. rewrite H. reflexivity.
Qed.
Theorem mixed_path_is_ieee a y :
  mf FPlus (int a) [flt y] = Ok (flt (SFadd 53 1024 (f_of_Z a) y)) /\
  mf FTimes (flt y) [int a] = Ok (flt (SFmul 53 1024 y (f_of_Z a))).
Proof. split; reflexivity. Qed.
End P.

(* ---- floor / ceil / round of the exact dyadic value v * 2^e, without real numbers ---- *)
Lemma pow_pos k : 0 <= k -> 0 < 2 ^ k. Proof. intro; apply Z.pow_pos_nonneg; lia. Qed.

Theorem floor_spec v e : e < 0 -> let k := 2 ^ (- e) in let z := floor_d v e in z * k <= v < (z + 1) * k.
Proof.
  intros He k z. unfold z, floor_d. destruct (Z.leb_spec 0 e); [lia|]. fold k.
  assert (0 < k) by (apply pow_pos; lia).
  pose proof (Z.div_mod v k ltac:(lia)). pose proof (Z.mod_pos_bound v k ltac:(lia)). nia.
Qed.
Theorem ceil_spec v e : e < 0 -> let k := 2 ^ (- e) in let z := ceil_d v e in (z - 1) * k < v <= z * k.
Proof.
  intros He k z. unfold z, ceil_d. pose proof (floor_spec (- v) e He) as H. cbv zeta in H. fold k in H. nia.
Qed.
Theorem round_spec v e : e < 0 -> let k := 2 ^ (- e) in let z := round_d v e in
  2 * Z.abs (z * k - v) <= k /\ (2 * Z.abs (z * k - v) = k -> Z.abs v < Z.abs z * k).
Proof.
  intros He k z. unfold z, round_d. destruct (Z.leb_spec 0 e); [lia|]. fold k.
  assert (Hk : 0 < k) by (apply pow_pos; lia).
  set (a := Z.abs v). set (q := (2 * a + k) / (2 * k)).
  assert (Ha : 0 <= a) by (unfold a; lia).
  pose proof (Z.div_mod (2 * a + k) (2 * k) ltac:(lia)) as D. pose proof (Z.mod_pos_bound (2 * a + k) (2 * k) ltac:(lia)) as M.
  fold q in D. set (r := (2 * a + k) mod (2 * k)) in *.
  assert (Hq : 0 <= q) by (unfold q; apply Z.div_pos; lia).
  clearbody r q. clearbody k.
  destruct (Z.sgn_spec v) as [[Hv S]|[[Hv S]|[Hv S]]]; rewrite S; unfold a in *.
  - rewrite Z.abs_eq in * by lia. rewrite Z.mul_1_l.
    assert (Eq : 2 * (q * k - v) = k - r) by (replace (2 * k * q) with (2 * (q * k)) in D by ring; lia).
    split; [lia|]. intro T. assert (r = 0) by lia. rewrite Z.abs_eq by lia. lia.
  - subst v. replace (0 * q * k - 0) with 0 by ring. change (Z.abs 0) with 0.
    split; [lia|]. intro T. lia.
  - rewrite Z.abs_neq in * by lia.
    assert (Eq : 2 * (-1 * q * k - v) = r - k) by (replace (2 * k * q) with (2 * (q * k)) in D by ring; replace (-1 * q * k) with (- (q * k)) by ring; lia).
    split; [lia|]. intro T. assert (r = 0) by lia.
    replace (-1 * q) with (- q) by lia. rewrite Z.abs_opp. rewrite (Z.abs_eq q) by lia. lia.
Qed.
(* for e >= 0 the double is an integer already *)
Theorem integral_when_nonneg_exp v e : 0 <= e -> floor_d v e = v * 2 ^ e /\ ceil_d v e = v * 2 ^ e /\ round_d v e = v * 2 ^ e.
Proof.
  intro He. unfold ceil_d, floor_d, round_d. destruct (Z.leb_spec 0 e); [|lia]. repeat split; ring.
Qed.

(* the filters return exactly these integers for every finite double within the 64-bit range *)
Section F.
Variable O : oracle.
Theorem floor_ceil_round_filters s m e :
  let x := S754_finite s m e in let v := signed s m in
  math_filter O FFloor (VScalar (SFloat x)) [] = Ok (VScalar (SInt (clamp_i64 (floor_d v e)))) /\
  math_filter O FCeil (VScalar (SFloat x)) [] = Ok (VScalar (SInt (clamp_i64 (ceil_d v e)))) /\
  math_filter O FRound (VScalar (SFloat x)) [] = Ok (VScalar (SInt (clamp_i64 (round_d v e)))).
Proof. repeat split; reflexivity. Qed.
Theorem clamp_id z : i64 z -> clamp_i64 z = z.
Proof.
  unfold i64, clamp_i64, i64_min, i64_max. intro H.
  destruct (Z.ltb_spec z (- 2 ^ 63)); [lia|]. destruct (Z.ltb_spec (2 ^ 63 - 1) z); [lia|]. reflexivity.
Qed.
(* specials: NaN to 0, infinities saturate, zeros to 0 — never a crash *)
Theorem rounding_specials :
  math_filter O FFloor (VScalar (SFloat S754_nan)) [] = Ok (VScalar (SInt 0)) /\
  math_filter O FCeil (VScalar (SFloat (S754_infinity false))) [] = Ok (VScalar (SInt (2 ^ 63 - 1))) /\
  math_filter O FRound (VScalar (SFloat (S754_infinity true))) [] = Ok (VScalar (SInt (- 2 ^ 63))) /\
  math_filter O FRound (VScalar (SFloat (S754_zero true))) [] = Ok (VScalar (SInt 0)).
Proof. repeat split; reflexivity. Qed.
End F.

(* numeric strings behave like the numbers they spell *)
From LV Require Import DecimalProofs.
Section S.
Variable O : oracle.
Definition nstr (z : Z) := VScalar (SStr (show_Z z)).
Theorem numeric_strings_as_numbers a b : i64 a -> i64 b ->
  to_integer (SStr (show_Z a)) = Some a /\
  (in_i64 (a + b) = true -> math_filter O FPlus (nstr a) [nstr b] = Ok (VScalar (SInt (a + b)))) /\
  (in_i64 (a - b) = true -> math_filter O FMinus (nstr a) [nstr b] = Ok (VScalar (SInt (a - b)))) /\
  (in_i64 (a * b) = true -> math_filter O FTimes (nstr a) [VScalar (SInt b)] = Ok (VScalar (SInt (a * b)))) /\
  math_filter O FAtLeast (nstr a) [nstr b] = Ok (VScalar (SInt (Z.max a b))) /\
  math_filter O FModulo (VScalar (SInt a)) [nstr b] = math_filter O FModulo (VScalar (SInt a)) [VScalar (SInt b)].
Proof.
  intros Ia Ib. apply in_i64_iff in Ia, Ib.
  pose proof (parse_show_Z a Ia) as Pa. pose proof (parse_show_Z b Ib) as Pb.
  repeat split; try (intro H); unfold math_filter, num2, zero_operand, checked, nstr; simpl; rewrite ?Pa, ?Pb, ?H; reflexivity.
Qed.
End S.
