(* Correspondence checker for C15: one math filter applied to one input. *)
From LV Require Import Corr Filters_math.

Record c15case := mkC15 {
  c15_f : mathf; c15_input : value; c15_args : list value;
  c15_parses : list (str * option spec_float);     (* f64::from_str as observed *)
  c15_expected : outcome value;
}.
Definition c15_check (c : c15case) : bool :=
  outcome_same value_same
    (outcome_of (math_filter (table_oracle [] (c15_parses c)) (c15_f c) (c15_input c) (c15_args c)))
    (c15_expected c).
