(* C17 — Dates: parse/print round-trips and strftime directives mean what they say.
   Statements only; proofs in proofs/DateProofs.v.  The meaning of each directive is the model's
   [directive] table (model/Strftime.v), compared on every boundary timestamp with the
   implementation and with an independent reference (Python's datetime) by tools/props/c17.py. *)
From LV Require Import Base Value Strftime DateProofs.

(* ---- the civil calendar the directives are computed from ---- *)
Theorem epoch : date_days (mkDate 1970 1 1) = 0%Z /\ wd_mon0 (mkDate 1970 1 1) = 3%Z.
Proof. exact DateProofs.epoch_is_day_zero_and_a_thursday. Qed.
(* consecutive civil dates (month lengths, leap years by the 4/100/400 rule) are consecutive day
   numbers — for every year, not a table of years *)
Theorem consecutive_days : forall d, valid_date d = true -> date_days (next_day d) = (date_days d + 1)%Z.
Proof. exact DateProofs.date_days_next. Qed.
Theorem next_day_is_a_date : forall d, valid_date d = true -> valid_date (next_day d) = true.
Proof. exact DateProofs.next_day_valid. Qed.
Theorem weekday_advances : forall d, valid_date d = true -> wd_mon0 (next_day d) = ((wd_mon0 d + 1) mod 7)%Z.
Proof. exact DateProofs.weekday_next. Qed.
Theorem day_of_year_first_last : forall y,
  ordinal (mkDate y 1 1) = 1%Z /\ ordinal (mkDate y 12 31) = (if is_leap y then 366 else 365)%Z.
Proof. exact DateProofs.ordinal_first_last. Qed.
Theorem day_of_year_advances : forall d, valid_date d = true -> (d_month d <> 12 \/ d_day d <> 31)%Z ->
  ordinal (next_day d) = (ordinal d + 1)%Z.
Proof. exact DateProofs.ordinal_next. Qed.
Theorem week_numbers_in_range : forall d, valid_date d = true ->
  (0 <= sunday_week d <= 53 /\ 0 <= monday_week d <= 53 /\ 1 <= snd (iso_year_week d) <= 53)%Z.
Proof. exact DateProofs.week_ranges. Qed.

(* ISO 8601 (%G %g %V): the week-year of a day is the civil year that contains the Thursday of its week, and
   the week number counts the Thursdays of that year — for every date of every year *)
Theorem iso_week_is_the_thursday_rule : forall d, valid_date d = true ->
  let T := (date_days d - wd_mon0 d + 3)%Z in
  let Y := fst (iso_year_week d) in
  (jan1 Y <= T < jan1 (Y + 1))%Z /\ snd (iso_year_week d) = ((T - jan1 Y) / 7 + 1)%Z.
Proof. exact DateProofs.iso_week_is_the_thursday_rule. Qed.
Theorem day_number_of_ordinal : forall d, valid_date d = true -> date_days d = (jan1 (d_year d) + ordinal d - 1)%Z.
Proof. exact DateProofs.days_of_ordinal. Qed.
Theorem year_lengths : forall y, jan1 (y + 1) = (jan1 y + year_len y)%Z.
Proof. exact DateProofs.jan1_next. Qed.

(* ---- equality and ordering are chronological, whatever the offsets ---- *)
Theorem order_is_chronological : forall a b,
  scalar_cmp (SDateTime a) (SDateTime b) = Some (Z.compare (dt_instant a) (dt_instant b)) /\
  scalar_eq (SDateTime a) (SDateTime b) = Z.eqb (dt_instant a) (dt_instant b).
Proof. exact DateProofs.datetime_order_is_chronological. Qed.
Theorem same_instant_any_offset : forall a b, dt_instant a = dt_instant b ->
  scalar_cmp (SDateTime a) (SDateTime b) = Some Eq /\ scalar_eq (SDateTime a) (SDateTime b) = true.
Proof. exact DateProofs.offset_does_not_matter. Qed.
Theorem instant_of_components : forall t, dt_instant t = (unix_ts t * 1000000000 + dt_nano t)%Z.
Proof. exact DateProofs.instant_of_components. Qed.

(* ---- the interpreter: total, compositional, unknown directives echoed, malformed formats errors ---- *)
Theorem strftime_total : forall t fmt, (exists o, strftime t fmt = Ok o) \/ strftime t fmt = Err EInvalidArgument.
Proof. exact DateProofs.strftime_total. Qed.
Theorem literal_text_is_copied : forall t c rest, c <> 37%N ->
  strftime t (c :: rest) = (do o <- strftime t rest; Ok (c :: o)).
Proof. exact DateProofs.strftime_literal_char. Qed.
Theorem directive_then_rest : forall t l s r, after_percent t l = Some (s, r) ->
  strftime t (37%N :: l) = (do o <- strftime t r; Ok (s ++ o)).
Proof. exact DateProofs.strftime_directive. Qed.
Theorem malformed_is_an_error : forall t l, after_percent t l = None -> strftime t (37%N :: l) = Err EInvalidArgument.
Proof. exact DateProofs.strftime_malformed. Qed.
Theorem trailing_percent_is_an_error : forall t, strftime t [37%N] = Err EInvalidArgument.
Proof. exact DateProofs.trailing_percent_is_error. Qed.
Theorem unknown_directive_echoed : forall t c r, existsb (N.eqb c) known_chars = false ->
  after_percent t (c :: r) = Some ([37%N; c], r).
Proof. exact DateProofs.unknown_directive_echoed. Qed.
Theorem non_ascii_directive_echoed : forall t c r, (128 <= c)%N -> after_percent t (c :: r) = Some ([37%N; c], r).
Proof. exact DateProofs.non_ascii_directive_echoed. Qed.

(* ---- numbers and fractional seconds ---- *)
Theorem numeric_directive_denotes : forall width v w, (0 <= v)%Z ->
  let out := fmt_numeric flags0 width v w in
  parse_digits out 0%Z = Some v /\
  length out = Nat.max (match width with Some x => x | None => w end) (length (show_Z v)).
Proof. exact DateProofs.numeric_directive_denotes. Qed.
Theorem fraction_directive : forall ns n, (0 <= ns < 1000000000)%Z -> 1 <= n ->
  length (fmt_fraction ns n) = n /\
  parse_digits (fmt_fraction ns (Nat.min n 9)) 0%Z = Some (ns / 10 ^ Z.of_nat (9 - Nat.min n 9))%Z /\
  fmt_fraction ns n = fmt_fraction ns (Nat.min n 9) ++ rep 48%N (n - 9).
Proof. exact DateProofs.fraction_directive. Qed.

(* ---- the default printed form parsed back: every printable date-time, sub-seconds included
   (the fraction is printed as nine digits with the trailing zeros removed and scaled back) ---- *)
Theorem display_parse_roundtrip : forall t, printable t -> parse_default (show_datetime t) = Some t.
Proof. exact DateProofs.display_parse_roundtrip. Qed.
Theorem fraction_digits_scale_back : forall ns, (0 < ns < 1000000000)%Z ->
  let a := strip_trailing 48%N (pad_left 48%N 9 (show_Z ns)) in
  forallb is_digit a = true /\ 1 <= length a <= 9 /\ scale9 (firstn 9 a) = ns.
Proof. exact DateProofs.fraction_digits. Qed.

(* non-vacuity: the test fixture of strftime.rs, 5 ms through %L, a leap day, a non-ASCII directive *)
Example c17_nonvacuous :
  let t := mkDT (mkDate 2024 2 29) 7 56 37 5000000 21600 in
  printable t /\ show_datetime t = [50;48;50;52;45;48;50;45;50;57;32;48;55;58;53;54;58;51;55;46;48;48;53;32;43;48;54;48;48]%N /\
  strftime t [37;76]%N = Ok [48;48;53]%N /\                                   (* %L -> 005 *)
  strftime t [37;106;32;37;97;32;37;86]%N = Ok [48;54;48;32;84;104;117;32;48;57]%N /\   (* %j %a %V -> 060 Thu 09 *)
  strftime t [37;233;33]%N = Ok [37;233;33]%N /\                               (* %é! echoed *)
  strftime t [37;45]%N = Err EInvalidArgument /\
  valid_date (next_day (mkDate 2024 2 28)) = true /\ next_day (mkDate 2024 2 28) = mkDate 2024 2 29.
Proof.
  split; [|vm_compute; repeat split; reflexivity].
  split; [vm_compute; reflexivity|]. split; [cbn; lia|]. exists 6%Z, 0%Z. cbn. lia.
Qed.

Print Assumptions epoch.
Print Assumptions consecutive_days.
Print Assumptions next_day_is_a_date.
Print Assumptions weekday_advances.
Print Assumptions day_of_year_first_last.
Print Assumptions day_of_year_advances.
Print Assumptions week_numbers_in_range.
Print Assumptions iso_week_is_the_thursday_rule.
Print Assumptions day_number_of_ordinal.
Print Assumptions year_lengths.
Print Assumptions order_is_chronological.
Print Assumptions same_instant_any_offset.
Print Assumptions instant_of_components.
Print Assumptions strftime_total.
Print Assumptions literal_text_is_copied.
Print Assumptions directive_then_rest.
Print Assumptions malformed_is_an_error.
Print Assumptions trailing_percent_is_an_error.
Print Assumptions unknown_directive_echoed.
Print Assumptions non_ascii_directive_echoed.
Print Assumptions numeric_directive_denotes.
Print Assumptions fraction_directive.
Print Assumptions display_parse_roundtrip.
Print Assumptions fraction_digits_scale_back.
