"""C01 — parsing is total: any text yields a template or an error, never a crash."""
import itertools, json, random
from props import tpl, progen, c03
import lv

PROP = "C01"
TARGETS = ["props/C01.vo", "corr/Lexcorr.vo"]
TRUSTED = [
    "coq/gen/Grammar.v is generated from grammar.pest on every run; model/Peg.v models the pest runtime (validated by the pair-stream correspondence on every enumerated text); "
    "the recursive-descent code of parser.rs and of the tag/block parse() methods above the pair stream is not modelled: its panic freedom is explored (catch_unwind, process exit status and a wall-clock limit on every enumerated text), not proved",
    "termination of pest on the generated grammar is not proved in general (the theorem is stated for every evaluation that does not run out of fuel; the correspondence runs never did)",
]
RULE = ("every sequence of up to 3 (thorough: 4) lexemes over a 70-lexeme alphabet — delimiters with and without trim markers, every stdlib tag/block keyword with its end/else/when/elsif forms, operators, literals incl. 20-digit integers, signs, both quote styles and "
        "unterminated quotes, identifiers, non-ASCII text, tabs, stray braces; random token soups up to 14 lexemes; character-level delete/duplicate/transpose mutations of generated well-formed templates; nesting up to depth 32; "
        "parser configurations stdlib, stdlib+jekyll+shopify+extra, empty; a list of texts the language rejects, each of which must be an error with a message; non-trivial = the text is rejected or contains markup")

LEX = ["{{", "}}", "{%", "%}", "{{-", "-}}", "{%-", "-%}", " ", "\t", "\n", "x", "y.z", "a[0]", "é", "'s'", '"d"', "'", '"', "1", "-1", "1.5", "99999999999999999999", "-99999999999999999999", "+", "-", "..", "(1..3)", "(", ")",
       "|", ":", ",", "=", "==", "!=", "<>", "<", ">", "<=", ">=", "contains", "and", "or", "true", "nil", "empty", "blank",
       "if", "elsif", "else", "endif", "unless", "endunless", "case", "when", "endcase", "for", "in", "endfor", "break", "continue", "tablerow", "endtablerow", "cols:", "limit:", "offset:", "reversed",
       "assign", "capture", "endcapture", "increment", "decrement", "cycle", "raw", "endraw", "comment", "endcomment", "ifchanged", "endifchanged", "include", "render", "with", "as", "upcase", "plus: 1", "{", "}", "%", "foo"]
CORE = ["{{", "}}", "{%", "%}", "{%-", "-}}", " ", "x", "'s'", "'", "1", "99999999999999999999", "|", ":", "==", "if", "else", "endif", "for", "in", "endfor", "case", "when", "endcase", "raw", "endraw", "comment", "endcomment",
        "assign", "=", "capture", "endcapture", "cycle", "tablerow", "endtablerow", "include", "elsif", "upcase", "é", "\t", "(1..3)", "break", "ifchanged", "increment", "render"]

CORE4 = ["{{", "}}", "{%", "%}", "{%-", " ", "x", "'", "99999999999999999999", "|", "if", "else", "endif", "for", "endfor", "raw", "endraw", "comment", "endcomment", "case", "when", "é"]

MUST_FAIL = ["{% unknown_tag %}", "{{ x | no_such_filter }}", "{{ x | upcase: 1 }}", "{{ x | plus }}", "{{ x | plus: 1, 2 }}", "{{ x | slice }}", "{% if x %}", "{% if x %}a{% endfor %}", "{% endif %}", "{% else %}", "{% elsif x %}", "{% when 1 %}",
             "{% for %}", "{% for x %}", "{% for x in %}{% endfor %}", "{% for x in y %}", "{% case %}{% endcase %}", "{% case x %}", "{% capture %}{% endcapture %}", "{% capture x %}", "{% raw %}", "{% comment %}", "{% tablerow x in y %}",
             "{{ 99999999999999999999 }}", "{{ -99999999999999999999 }}", "{% assign x = 99999999999999999999 %}", "{% if 99999999999999999999 %}{% endif %}", "{% for i in (1..99999999999999999999) %}{% endfor %}",
             "{{ 'unterminated }}", '{{ "unterminated }}', "{{", "{%", "{{ x", "{% if", "{{ }}", "{% %}", "{{ x }", "{% assign %}", "{% assign x %}", "{% assign x = %}", "{% assign = 1 %}", "{% increment %}", "{% cycle %}", "{% cycle a: %}",
             "{% include %}", "{% render %}", "{% if x == %}{% endif %}", "{% if == 1 %}{% endif %}", "{% if x and %}{% endif %}", "{% unless %}{% endunless %}", "{% if x %}{% else %}{% else x %}{% endif %}", "{% endraw %}", "{% endcomment %}",
             "{% for x in y limit %}{% endfor %}", "{% for x in y limit: %}{% endfor %}", "{% tablerow x in y cols %}{% endtablerow %}", "{% if x %}{% endif x %}", "{% raw x %}{% endraw %}", "{% comment %}{% if x %}", "{% comment %}{% raw %}{% endcomment %}",
             "{{ x | }}", "{{ | upcase }}", "{{ x || upcase }}", "{{ x.y. }}", "{{ x[ }}", "{{ x[] }}", "{{ x..y }}", "{{ (1..3) }}", "{{ 1.. }}", "{% ifchanged %}", "{% break x %}", "{% continue 1 %}"]
MUST_PARSE = ["", "plain", "}}", "%}", "{ {", "{{ x }}", "{{ x | upcase }}", "{% if x %}{% endif %}", "{% case x %}{% else %}{% endcase %}", "{% case x %}{% endcase %}", "{% comment %}{{ bad {% endcomment %}", "{% raw %}{{ {% endraw %}",
              "{% comment %}{% if x %}{{ bad {% endif %}{% endcomment %}", "{% comment %}{% unknown %}{% endcomment %}", "{{ 9223372036854775807 }}", "{{ -9223372036854775808 }}", "{%\tif x\t%}{%\tendif\t%}", "{{ x['a'][0].b }}",
              "{% for i in (1..3) reversed limit:1 offset:1 %}{% else %}{% endfor %}", "{% tablerow i in x cols:2 %}{% endtablerow %}", "{% cycle 'a': 1, 2 %}", "{% ifchanged %}{% endifchanged %}", "{% break %}", "{% continue %}"]


def gen(tier, seed):
    rnd = random.Random(seed)
    texts = {}

    def add(t, why):
        texts.setdefault(t, why)
    n = 4 if tier == "thorough" else 3
    for k in range(1, n + 1):
        alpha = LEX if k <= 2 else CORE if k == 3 else CORE4
        for combo in itertools.product(alpha, repeat=k):
            add(" ".join(combo), "exhaustive lexeme sequences (length %d)" % k)
            if k <= 2:
                add("".join(combo), "exhaustive lexeme sequences, unspaced (length %d)" % k)
    for _ in range(3000 if tier == "quick" else 60000):
        add(rnd.choice([" ", ""]).join(rnd.choice(LEX) for _ in range(rnd.randint(4, 14))), "random token soup")
    allow = ("assign", "capture", "inc", "dec", "for", "if", "read", "text", "break", "continue", "cycle", "ifchanged", "tablerow")
    for _ in range(150 if tier == "quick" else 2500):
        src = tpl.body_text(progen.Gen(rnd, partial_names=[], allow=allow).program(size=4, depth=3))
        add(src, "well-formed template")
        for _ in range(8):
            i = rnd.randrange(len(src))
            m = rnd.choice(["del", "dup", "swap", "cut"])
            if m == "del":
                mt = src[:i] + src[i + 1:]
            elif m == "dup":
                mt = src[:i] + src[i] + src[i:]
            elif m == "swap" and i + 1 < len(src):
                mt = src[:i] + src[i + 1] + src[i] + src[i + 2:]
            else:
                mt = src[:i]
            add(mt, "character mutation of a well-formed template")
    for d in (1, 2, 8, 32):
        for opener, closer in (("{% if x %}", "{% endif %}"), ("{% for i in a %}", "{% endfor %}"), ("{% comment %}", "{% endcomment %}"), ("{% capture c %}", "{% endcapture %}"), ("{% case x %}{% when 1 %}", "{% endcase %}")):
            add(opener * d + "t" + closer * d, "nesting")
            add(opener * d + "t" + closer * (d - 1), "nesting, one unclosed")
            add(opener * d + "{{ bad " + closer * d, "nesting with an invalid token")
            add("{% comment %}" + opener * d, "unclosed blocks inside a comment")
            add("{% comment %}" + opener * d + "{{ bad " + closer * d + "{% endcomment %}", "invalid token in blocks inside a comment")
    for t in MUST_FAIL:
        add(t, "must be rejected")
    for t in MUST_PARSE:
        add(t, "must be accepted")
    cases = [{"id": i, "text": t, "why": w} for i, (t, w) in enumerate(texts.items())]
    dist = {"exhaustive": True, "lexemes": len(LEX)}
    for c in cases:
        dist[c["why"]] = dist.get(c["why"], 0) + 1
    return cases, dist


def main(tier, seed):
    run = lv.Run(PROP, tier, seed)
    run.trusted = lv.COMMON_TRUSTED + TRUSTED
    lv.standard_proof_phase(run, PROP, TARGETS, thorough=(tier == "thorough"))
    ok, binp, out, dt = lv.build_harness("debug")
    run.checker_cmds.append("cargo build --offline (harness over /repo)")
    if not ok:
        run.obligation(False, "harness build against /repo", out[-3000:])
        return run.finish()
    cases, dist = gen(tier, seed)
    evaluations, nontriv, samples = 0, set(), []
    must_fail, must_parse = set(MUST_FAIL), set(MUST_PARSE)
    for config in ("stdlib", "all", "empty"):
        sub = cases if config == "stdlib" else [c for c in cases if c["why"] in ("must be rejected", "must be accepted", "random token soup", "character mutation of a well-formed template", "nesting", "unclosed blocks inside a comment")
                                                  or c["why"].startswith("exhaustive lexeme sequences (length 2") or c["why"].startswith("exhaustive lexeme sequences (length 1")]
        reqs = [{"id": c["id"], "kind": "parse", "config": config, "tpl": c["text"]} for c in sub]
        resps, problems = lv.run_harness(binp, reqs, tag="C01" + config, timeout=900)
        for pb in problems:
            c = next((c for c in sub if c["id"] == pb["first_unanswered"]), None)
            run.violations.append({"what": "the parser did not return (process died or ran past the time limit)", "input": {"text": c and c["text"], "config": config}, "observed": pb["tail"]})
        for c in sub:
            r = resps.get(c["id"])
            if r is None:
                continue
            evaluations += 1
            inp = {"text": c["text"], "config": config}
            if "panic" in r:
                run.violations.append({"what": "parsing panicked", "input": inp, "observed": r["panic"]})
                continue
            if "parse_err" in r:
                if not r["parse_err"].strip():
                    run.violations.append({"what": "a rejected text carries no message", "input": inp})
                nontriv.add(c["text"])
                if config != "empty" and c["text"] in must_parse:
                    run.violations.append({"what": "a text of the language was rejected", "input": inp, "observed": r["parse_err"]})
            elif r.get("parsed"):
                if "{" in c["text"]:
                    nontriv.add(c["text"])
                if c["text"] in must_fail:
                    run.violations.append({"what": "a text the language rejects was accepted silently", "input": inp})
            else:
                run.violations.append({"what": "unexpected answer", "input": inp, "observed": r})
            if len(samples) < 3 and c["why"] == "random token soup":
                samples.append({"request": {"text": c["text"], "config": config}, "implementation": r})
    # the grammar model on the same texts
    lex_texts = [c["text"] for c in cases if not c["why"].startswith("exhaustive lexeme sequences (length 3") and not c["why"].startswith("exhaustive lexeme sequences (length 4")]
    rnd = random.Random(seed)
    rest = [c["text"] for c in cases if c["text"] not in set(lex_texts)]
    lex_texts += rnd.sample(rest, min(len(rest), 4000 if tier == "quick" else 40000))
    st = c03.lex_suite(run, binp, lex_texts, "C01", tier, seed)
    dist["pair_stream_compared"] = st["evaluations"]
    run.coverage.update({"evaluations": evaluations + st["evaluations"], "distinct_nontrivial": len(nontriv), "rule": RULE, "samples": samples,
                         "traces_validated_against_impl": evaluations + st["evaluations"], "disagreements_checked": st["disagreements"], "exhaustive": True, "input_distribution": dist})
    return run.finish()
