(* Proofs about model/Filters_seq.v — the string part (property C13). *)
From LV Require Import Base Value Filters_seq BaseLemmas HtmlProofs.

(* ---- split / join / replace ---- *)
Lemma split_go_nonempty p s cur k : split_go p s cur k <> [].
Proof.
  revert cur k; induction s as [|c t IH]; intros cur k; simpl; [discriminate|].
  destruct k; [destruct (prefixb p (c :: t)); [discriminate|apply IH]|apply IH].
Qed.
Lemma join_cons sep x l : l <> [] -> join_str sep (x :: l) = x ++ sep ++ join_str sep l.
Proof. destruct l; [congruence|reflexivity]. Qed.
Lemma prefixb_length p s : prefixb p s = true -> length p <= length s.
Proof.
  revert s; induction p as [|a p IH]; intros s H; simpl in *; [lia|].
  destruct s as [|b s]; [discriminate|]. apply andb_prop in H as [_ H]. specialize (IH _ H). simpl. lia.
Qed.

Lemma split_go_join sep : sep <> [] -> forall s cur k, k <= length s ->
  join_str sep (split_go sep s cur k) = rev cur ++ skipn k s.
Proof.
  intros Hsep. induction s as [|c t IH]; intros cur k Hk.
  - simpl in Hk. assert (k = 0) by lia. subst. simpl. rewrite app_nil_r. reflexivity.
  - destruct k as [|k]; cbn [split_go].
    + destruct (prefixb sep (c :: t)) eqn:E.
      * rewrite join_cons by apply split_go_nonempty.
        pose proof (prefixb_length _ _ E) as L. simpl in L.
        rewrite IH by (destruct sep; [congruence|simpl in *; lia]).
        cbn [rev app skipn]. f_equal.
        pose proof (prefixb_firstn sep (c :: t) E) as Es.
        destruct sep as [|a sep']; [congruence|]. cbn [length Nat.sub] in *. rewrite Nat.sub_0_r.
        cbn [skipn] in Es. exact (eq_sym Es).
      * rewrite IH by lia. simpl. rewrite <- app_assoc. reflexivity.
    + simpl in Hk. rewrite IH by lia. reflexivity.
Qed.
(* split then join on the same non-empty separator is the identity *)
Theorem split_join_id sep s : sep <> [] -> join_str sep (split_str sep s) = s.
Proof.
  intro H. unfold split_str. destruct sep as [|a sep']; [congruence|].
  rewrite split_go_join by (try discriminate; lia). reflexivity.
Qed.

Lemma replace_go_split a b : a <> [] -> forall s cur k, k <= length s ->
  join_str b (split_go a s cur k) = rev cur ++ replace_go a b s k.
Proof.
  intros Ha. induction s as [|c t IH]; intros cur k Hk.
  - simpl in Hk. assert (k = 0) by lia. subst. simpl. rewrite app_nil_r. reflexivity.
  - destruct k as [|k]; cbn [split_go replace_go].
    + destruct (prefixb a (c :: t)) eqn:E.
      * rewrite join_cons by apply split_go_nonempty.
        pose proof (prefixb_length _ _ E) as L. simpl in L.
        rewrite IH by (destruct a; [congruence|simpl in *; lia]). reflexivity.
      * rewrite IH by lia. simpl. rewrite <- app_assoc. reflexivity.
    + simpl in Hk. rewrite IH by lia. reflexivity.
Qed.
(* replace = split on the pattern, join with the replacement *)
Theorem replace_via_split a b s : a <> [] -> replace_str a b s = join_str b (split_str a s).
Proof.
  intro H. unfold replace_str, split_str. destruct a as [|x a']; [congruence|].
  rewrite replace_go_split by (try discriminate; lia). reflexivity.
Qed.

(* ---- strip = lstrip after rstrip ---- *)
Lemma trim_start_nil_iff s : trim_start s = [] <-> forallb is_whitespace s = true.
Proof.
  induction s as [|c t IH]; simpl; [tauto|]. destruct (is_whitespace c); simpl; [exact IH|]. split; discriminate.
Qed.
Lemma trim_start_app a b : trim_start (a ++ b) = match trim_start a with [] => trim_start b | x => x ++ b end.
Proof.
  induction a as [|c a IH]; simpl; [reflexivity|]. destruct (is_whitespace c); [exact IH|reflexivity].
Qed.
Lemma trim_end_cons c t : trim_end (c :: t) =
  match trim_end t with [] => if is_whitespace c then [] else [c] | x => c :: x end.
Proof.
  unfold trim_end. simpl rev. rewrite trim_start_app.
  destruct (trim_start (rev t)) as [|y l] eqn:E.
  - simpl. destruct (is_whitespace c); reflexivity.
  - rewrite rev_app_distr. change (rev [c]) with [c]. cbn [app].
    destruct (rev (y :: l)) eqn:R; [|reflexivity].
    apply (f_equal (@length _)) in R. rewrite rev_length in R. discriminate.
Qed.
Lemma trim_end_nil_iff s : trim_end s = [] <-> forallb is_whitespace s = true.
Proof.
  unfold trim_end. split; intro H.
  - assert (trim_start (rev s) = []) by (destruct (trim_start (rev s)); [reflexivity|]; apply (f_equal (@length _)) in H; rewrite rev_length in H; discriminate).
    apply trim_start_nil_iff in H0. rewrite forallb_forall in *. intros x Hx. apply H0. apply in_rev in Hx. exact Hx.
  - assert (trim_start (rev s) = []) as ->; [|reflexivity]. apply trim_start_nil_iff.
    rewrite forallb_forall in *. intros x Hx. apply H. apply in_rev. exact Hx.
Qed.
Theorem strip_is_lstrip_rstrip s : trim s = trim_start (trim_end s).
Proof.
  unfold trim. induction s as [|c t IH]; [reflexivity|].
  rewrite trim_end_cons. simpl trim_start at 1. destruct (is_whitespace c) eqn:W.
  - destruct (trim_end t) as [|y l] eqn:E.
    + simpl. apply trim_end_nil_iff in E. apply trim_start_nil_iff in E. rewrite E. reflexivity.
    + rewrite IH. simpl. rewrite W. reflexivity.
  - rewrite trim_end_cons. rewrite W. destruct (trim_end t); simpl; rewrite W; reflexivity.
Qed.
(* lstrip / rstrip remove only whitespace from their side *)
Theorem lstrip_suffix s : exists w, s = w ++ trim_start s /\ forallb is_whitespace w = true /\
  (match trim_start s with c :: _ => is_whitespace c = false | [] => True end).
Proof.
  induction s as [|c t IHs]; [exists nil; simpl; auto|]. destruct IHs as [w [E [W N]]]. simpl. destruct (is_whitespace c) eqn:H.
  - exists (c :: w). simpl. rewrite H, W. split; [f_equal; exact E|auto].
  - exists nil. simpl. auto.
Qed.

(* ---- slice ---- *)
Section Slice.
Context {A : Type}.
Theorem slice_contiguous off len (l : list A) : (1 <= len)%Z ->
  exists pre post, l = pre ++ slice_list off len l ++ post /\ (Z.of_nat (length (slice_list off len l)) <= len)%Z.
Proof.
  intro Hl. unfold slice_list.
  set (vlen := Z.of_nat (length l)). set (off1 := Z.min off vlen).
  set (off2 := if (off1 <? 0)%Z then (off1 + vlen)%Z else off1).
  destruct (Z.ltb_spec off2 0) as [Hneg|Hpos].
  - exists [], l. simpl. split; [reflexivity|lia].
  - set (len2 := if (vlen <? sat_add off2 len)%Z then (vlen - off2)%Z else len).
    exists (firstn (Z.to_nat off2) l), (skipn (Z.to_nat len2) (skipn (Z.to_nat off2) l)).
    split; [rewrite firstn_skipn, firstn_skipn; reflexivity|].
    assert (len2 <= len)%Z.
    { unfold len2. destruct (Z.ltb_spec vlen (sat_add off2 len)) as [H|H]; [|lia].
      unfold sat_add in H. destruct (Z.ltb_spec i64_max (off2 + len)); [unfold i64_max in *; lia|].
      destruct (Z.ltb_spec (off2 + len) i64_min); [unfold i64_min in *; lia|lia]. }
    pose proof (firstn_le_length (Z.to_nat len2) (skipn (Z.to_nat off2) l)).
    rewrite firstn_length. lia.
Qed.
(* the piece is the one the documentation describes *)
Theorem slice_spec off len (l : list A) : (1 <= len)%Z -> (len <= i64_max)%Z ->
  let n := Z.of_nat (length l) in
  slice_list off len l =
    if (n <? off)%Z then []
    else if (0 <=? off)%Z then firstn (Z.to_nat len) (skipn (Z.to_nat off) l)
    else if (- n <=? off)%Z then firstn (Z.to_nat len) (skipn (Z.to_nat (n + off)) l)
    else [].
Proof.
  intros Hl Hm n. unfold slice_list. fold n.
  assert (Hn : (0 <= n)%Z) by (unfold n; lia).
  assert (cap : forall o, (0 <= o <= n)%Z ->
     firstn (Z.to_nat (if (n <? sat_add o len)%Z then (n - o)%Z else len)) (skipn (Z.to_nat o) l) =
     firstn (Z.to_nat len) (skipn (Z.to_nat o) l)).
  { intros o Ho. destruct (Z.ltb_spec n (sat_add o len)) as [H|H]; [|reflexivity].
    assert (length (skipn (Z.to_nat o) l) = Z.to_nat (n - o)) by (rewrite skipn_length; unfold n; lia).
    rewrite firstn_all2 by lia. symmetry. apply firstn_all2.
    unfold sat_add in H. destruct (Z.ltb_spec i64_max (o + len)); [unfold i64_max in *; lia|].
    destruct (Z.ltb_spec (o + len) i64_min); [unfold i64_min in *; lia|]. lia. }
  destruct (Z.ltb_spec n off) as [H1|H1].
  - rewrite Z.min_r by lia. destruct (Z.ltb_spec n 0); [lia|]. destruct (Z.ltb_spec n 0); [lia|].
    rewrite cap by lia. rewrite skipn_all2 by (unfold n; lia). destruct (Z.to_nat len); reflexivity.
  - rewrite Z.min_l by lia. destruct (Z.leb_spec 0 off) as [H2|H2].
    + destruct (Z.ltb_spec off 0); [lia|]. destruct (Z.ltb_spec off 0); [lia|]. apply cap; lia.
    + destruct (Z.ltb_spec off 0); [|lia]. destruct (Z.leb_spec (- n) off) as [H3|H3].
      * destruct (Z.ltb_spec (off + n) 0); [lia|]. rewrite (Z.add_comm n off). apply cap; lia.
      * destruct (Z.ltb_spec (off + n) 0); [reflexivity|lia].
Qed.
End Slice.

(* ---- the filters ---- *)
Section F.
Variable O : oracle.
Notation sf := (seq_filter O).
Definition vint (z : Z) := VScalar (SInt z).

Theorem size_counts_chars s : sf QSize (sstr s) [] = Ok (vint (Z.of_nat (length s))).
Proof. reflexivity. Qed.
Theorem append_spec s a : sf QAppend (sstr s) [sstr a] = Ok (sstr (s ++ a)).
Proof. reflexivity. Qed.
Theorem prepend_spec s a : sf QPrepend (sstr s) [sstr a] = Ok (sstr (a ++ s)).
Proof. reflexivity. Qed.
Theorem remove_is_replace_nil s a : sf QRemove (sstr s) [sstr a] = sf QReplace (sstr s) [sstr a; sstr []].
Proof. reflexivity. Qed.
Theorem replace_filter_via_split s a b : a <> [] ->
  sf QReplace (sstr s) [sstr a; sstr b] = Ok (sstr (join_str b (split_str a s))).
Proof. intro H. simpl. rewrite replace_via_split by exact H. reflexivity. Qed.
Theorem split_join_filters s sep : sep <> [] -> s <> [] ->
  eval_chain O (sstr s) [(QSplit, [sstr sep]); (QJoin, [sstr sep])] = Ok (sstr s).
Proof.
  intros Hs Hn. destruct s as [|c t]; [congruence|].
  cbn [eval_chain]. unfold seq_filter.
  change (to_kstr O (sstr (c :: t))) with (c :: t). change (arg_str O (sstr sep)) with sep.
  cbn [bind]. change (to_kstr O (sstr (c :: t))) with (c :: t).
  rewrite map_map. change (fun x : str => to_kstr O (sstr x)) with (fun x : str => x). rewrite map_id.
  change (arg_str O (sstr sep)) with sep. rewrite split_join_id by exact Hs. reflexivity.
Qed.
Theorem strip_filters s : sf QStrip (sstr s) [] = Ok (sstr (trim_start (trim_end s))) /\
  eval_chain O (sstr s) [(QRstrip, []); (QLstrip, [])] = sf QStrip (sstr s) [].
Proof. split; simpl; rewrite strip_is_lstrip_rstrip; reflexivity. Qed.
Theorem replace_first_spec s a b : sf QReplaceFirst (sstr s) [sstr a; sstr b] =
  Ok (sstr (match find_first a s [] with Some (x, y) => x ++ b ++ y | None => s end)).
Proof. reflexivity. Qed.
Lemma br_is_replace s : flat_map (fun c => if N.eqb c 10 then k_br else [c]) s = replace_str [10%N] k_br s.
Proof.
  unfold replace_str. induction s as [|c t IH]; [reflexivity|].
  cbn [flat_map replace_go prefixb length Nat.sub]. rewrite IH.
  replace (N.eqb 10 c && true) with (N.eqb c 10) by (rewrite andb_true_r; apply N.eqb_sym).
  destruct (N.eqb c 10); reflexivity.
Qed.
(* newline_to_br: every line feed becomes "<br />" followed by that line feed; equivalently the lines joined by "<br />\n" *)
Theorem newline_to_br_spec s :
  sf QNewlineToBr (sstr s) [] = Ok (sstr (replace_str [10%N] k_br s)) /\
  replace_str [10%N] k_br s = join_str k_br (split_str [10%N] s).
Proof.
  split; [rewrite <- br_is_replace; reflexivity | apply replace_via_split; discriminate].
Qed.
Theorem strip_newlines_spec s : sf QStripNewlines (sstr s) [] = Ok (sstr (filter (fun c => negb (N.eqb c 10 || N.eqb c 13)) s)).
Proof. reflexivity. Qed.
Theorem case_filters_map_the_oracle s :
  sf QUpcase (sstr s) [] = Ok (sstr (flat_map (upper_c O) s)) /\ sf QDowncase (sstr s) [] = Ok (sstr (flat_map (lower_c O) s)) /\
  sf QCapitalize (sstr s) [] = Ok (sstr (match s with [] => [] | c :: t => upper_c O c ++ t end)).
Proof. repeat split; reflexivity. Qed.
Theorem first_last_char s : sf QFirst (sstr s) [] = Ok (sstr (firstn 1 s)) /\
  sf QLast (sstr s) [] = Ok (sstr (match rev s with c :: _ => [c] | [] => [] end)).
Proof. split; reflexivity. Qed.
Theorem default_spec v d : sf QDefault v [d] = Ok (if query_state v DefaultValue then d else v).
Proof. reflexivity. Qed.

(* slice on strings and arrays: a contiguous piece of at most the requested length *)
Theorem slice_filter_contiguous s off len : (1 <= len)%Z ->
  exists pre piece post, sf QSlice (sstr s) [vint off; vint len] = Ok (sstr piece) /\ s = pre ++ piece ++ post /\
                         (Z.of_nat (length piece) <= len)%Z.
Proof.
  intro H. destruct (slice_contiguous off len s H) as [pre [post [E L]]].
  exists pre, (slice_list off len s), post. split; [|split; assumption].
  unfold seq_filter. cbn. destruct (Z.ltb_spec len 1); [lia|reflexivity].
Qed.
Theorem slice_nonpositive_length_is_error s off len : (len < 1)%Z -> sf QSlice (sstr s) [vint off; vint len] = Err EInvalidArgument.
Proof. intro H. unfold seq_filter. cbn. destruct (Z.ltb_spec len 1); [reflexivity|lia]. Qed.

(* truncate: unchanged when it fits; otherwise at most n - |ellipsis| clusters of the input followed
   by the ellipsis *)
Theorem truncate_spec s n e : (0 <= n)%Z ->
  sf QTruncate (sstr s) [vint n; sstr e] =
    if (n <? Z.of_nat (length s))%Z then Ok (sstr (concat (firstn (Z.to_nat n - length e) (graphemes O s)) ++ e))
    else Ok (sstr s).
Proof. intro H. unfold seq_filter. cbn. destruct (Z.ltb_spec n 0); [lia|reflexivity]. Qed.
(* when every cluster is one character the truncated string has at most max(n, |ellipsis|) characters *)
Theorem truncate_bound s n e : (0 <= n)%Z -> graphemes O s = map (fun c => [c]) s ->
  exists r, sf QTruncate (sstr s) [vint n; sstr e] = Ok (sstr r) /\ length r <= Nat.max (Z.to_nat n) (length e) \/
            (exists r, sf QTruncate (sstr s) [vint n; sstr e] = Ok (sstr r) /\ r = s /\ (Z.of_nat (length s) <= n)%Z).
Proof.
  intros Hn Hg. rewrite truncate_spec by exact Hn. destruct (Z.ltb_spec n (Z.of_nat (length s))) as [H|H].
  - eexists. left. split; [reflexivity|]. rewrite Hg, app_length.
    assert (G : forall (l : str) k, length (concat (firstn k (map (fun c => [c]) l))) <= k).
    { induction l as [|c t IH]; intros [|k]; simpl; try lia. specialize (IH k). lia. }
    specialize (G s (Z.to_nat n - length e)).
    unfold str, char in *. destruct (Nat.max_spec (Z.to_nat n) (length e)) as [[? ->]|[? ->]]; lia.
  - exists s. right. exists s. auto.
Qed.
Theorem truncatewords_spec s n e : (0 <= n)%Z ->
  sf QTruncateWords (sstr s) [vint n; sstr e] =
    let wl := split_str [32%N] s in
    if (n <? Z.of_nat (length wl))%Z then Ok (sstr (join_str [32%N] (firstn (Z.to_nat n) wl) ++ e)) else Ok (sstr s).
Proof. intro H. unfold seq_filter. cbn. destruct (Z.ltb_spec n 0); [lia|reflexivity]. Qed.

(* the result of a filter chain is the left-to-right composition of its filters *)
Theorem chain_is_fold v fs gs : eval_chain O v (fs ++ gs) = bind (eval_chain O v fs) (fun r => eval_chain O r gs).
Proof.
  revert v; induction fs as [|[f a] fs IH]; intro v; [reflexivity|]. simpl.
  destruct (seq_filter O f v a); simpl; try reflexivity. apply IH.
Qed.
End F.
