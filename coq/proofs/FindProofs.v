(* FindProofs.v — variable paths (model/find.rs, array/mod.rs convert_index, runtime/variable.rs)
   and the printing of literals: the lemmas behind props/C07.v. *)
From LV Require Import Base Value Stack Eval BaseLemmas StackProofs DecimalProofs.
Require Import ZifyBool ZifyNat ZifyN.

(* ---- arrays: zero-based, negative indices count from the end, nothing else resolves ---- *)
Definition norm_index (n : nat) (i : Z) : option nat :=
  if ((0 <=? i) && (i <? Z.of_nat n))%Z then Some (Z.to_nat i)
  else if ((- Z.of_nat n <=? i) && (i <? 0))%Z then Some (Z.to_nat (Z.of_nat n + i))
  else None.

Lemma nth_error_none_ge {A} (l : list A) j : length l <= j -> nth_error l j = None.
Proof. intro H. apply nth_error_None. exact H. Qed.

Theorem arr_get_spec l i :
  arr_get l i = match norm_index (length l) i with Some j => nth_error l j | None => None end.
Proof.
  unfold arr_get, norm_index.
  destruct (0 <=? i)%Z eqn:H0; cbn [andb].
  - replace (i <? 0)%Z with false by lia.
    destruct (i <? Z.of_nat (length l))%Z eqn:H1; [reflexivity|].
    replace ((- Z.of_nat (length l) <=? i)%Z && false) with false by (destruct (- Z.of_nat (length l) <=? i)%Z; reflexivity).
    apply nth_error_none_ge. lia.
  - destruct (- Z.of_nat (length l) <=? i)%Z eqn:H1; cbn [andb].
    + replace (i <? 0)%Z with true by lia. replace (Z.of_nat (length l) + i <? 0)%Z with false by lia. reflexivity.
    + replace (Z.of_nat (length l) + i <? 0)%Z with true by lia. reflexivity.
Qed.

Theorem arr_get_nonneg l j : arr_get l (Z.of_nat j) = nth_error l j.
Proof.
  unfold arr_get. replace (0 <=? Z.of_nat j)%Z with true by lia.
  replace (Z.of_nat j <? 0)%Z with false by lia. rewrite Nat2Z.id. reflexivity.
Qed.

Lemma nth_error_rev {A} (l : list A) j : j < length l -> nth_error (rev l) j = nth_error l (length l - S j).
Proof.
  intro H. destruct (nth_error l (length l - S j)) eqn:E.
  - pose proof (nth_error_nth l (length l - S j) a E) as Hn.
    rewrite <- Hn. rewrite <- rev_nth by exact H. apply nth_error_nth'. rewrite rev_length. exact H.
  - apply nth_error_None in E. lia.
Qed.

(* index -1 is the last element, -2 the one before, ..., -len the first *)
Theorem arr_get_neg l j : j < length l -> arr_get l (- Z.of_nat (S j)) = nth_error (rev l) j.
Proof.
  intro H. rewrite nth_error_rev by exact H. unfold arr_get.
  replace (0 <=? - Z.of_nat (S j))%Z with false by lia.
  replace (Z.of_nat (length l) + - Z.of_nat (S j) <? 0)%Z with false by lia.
  f_equal. lia.
Qed.

Theorem arr_get_in_range l i :
  arr_get l i <> None <-> (- Z.of_nat (length l) <= i < Z.of_nat (length l))%Z.
Proof.
  rewrite arr_get_spec. unfold norm_index.
  destruct ((0 <=? i)%Z && (i <? Z.of_nat (length l))%Z) eqn:H0.
  - split; [lia|]. intros _. apply nth_error_Some. lia.
  - destruct ((- Z.of_nat (length l) <=? i)%Z && (i <? 0)%Z) eqn:H1.
    + split; [lia|]. intros _. apply nth_error_Some. lia.
    + split; [congruence|lia].
Qed.

(* an index outside [-len, len) never yields a neighbouring element *)
Theorem arr_get_out_of_range l i :
  (i < - Z.of_nat (length l) \/ Z.of_nat (length l) <= i)%Z -> arr_get l i = None.
Proof.
  intro H. destruct (arr_get l i) eqn:E; [|reflexivity].
  assert (arr_get l i <> None) as Hn by congruence. apply arr_get_in_range in Hn. lia.
Qed.

Section F.
Variable O : oracle.
Local Notation augmented_get := (augmented_get O).
Local Notation try_find := (try_find O).
Local Notation find := (find O).
Local Notation kstr := (scalar_kstr O).

(* ---- one step ---- *)
Theorem array_integer_index l idx i : to_integer idx = Some i -> augmented_get (VArray l) idx = arr_get l i.
Proof. intro H. cbn [Value.augmented_get]. rewrite H. reflexivity. Qed.

Lemma str_eqb_eq (a b : str) : str_eqb a b = true -> a = b.
Proof. destruct (str_eqb_spec a b); congruence. Qed.

Theorem array_first l idx : to_integer idx = None -> kstr idx = k_first ->
  augmented_get (VArray l) idx = hd_error l.
Proof.
  intros H K. cbn [Value.augmented_get]. rewrite H, K. rewrite str_eqb_refl.
  unfold arr_get. cbn. destruct l; reflexivity.
Qed.

Lemma last_nth_error {A} (l : list A) : nth_error l (length l - 1) = hd_error (rev l).
Proof.
  destruct l as [|a l]; [reflexivity|].
  assert (0 < length (a :: l)) as H by (cbn; lia).
  pose proof (nth_error_rev (a :: l) 0 H) as E. replace (length (a :: l) - 1) with (length (a :: l) - 1) by reflexivity.
  rewrite <- E. destruct (rev (a :: l)); reflexivity.
Qed.

Theorem array_last l idx : to_integer idx = None -> kstr idx = k_last ->
  augmented_get (VArray l) idx = hd_error (rev l).
Proof.
  intros H K. cbn [Value.augmented_get]. rewrite H, K.
  replace (str_eqb k_last k_first) with false by (vm_compute; reflexivity). rewrite str_eqb_refl.
  destruct l as [|a l]; [reflexivity|].
  change (-1)%Z with (- Z.of_nat 1)%Z. rewrite arr_get_neg by (cbn; lia).
  destruct (rev (a :: l)); reflexivity.
Qed.

Theorem array_size l idx : to_integer idx = None -> kstr idx = k_size ->
  augmented_get (VArray l) idx = Some (VScalar (SInt (Z.of_nat (length l)))).
Proof.
  intros H K. cbn [Value.augmented_get]. rewrite H, K.
  replace (str_eqb k_size k_first) with false by (vm_compute; reflexivity).
  replace (str_eqb k_size k_last) with false by (vm_compute; reflexivity). rewrite str_eqb_refl. reflexivity.
Qed.

Theorem array_other l idx : to_integer idx = None ->
  kstr idx <> k_first -> kstr idx <> k_last -> kstr idx <> k_size -> augmented_get (VArray l) idx = None.
Proof.
  intros H K1 K2 K3. cbn [Value.augmented_get]. rewrite H.
  destruct (str_eqb (kstr idx) k_first) eqn:E1; [apply str_eqb_eq in E1; contradiction|].
  destruct (str_eqb (kstr idx) k_last) eqn:E2; [apply str_eqb_eq in E2; contradiction|].
  destruct (str_eqb (kstr idx) k_size) eqn:E3; [apply str_eqb_eq in E3; contradiction|]. reflexivity.
Qed.

(* an object's own member wins over the overlay, whatever its name *)
Theorem object_own_key kvs idx x : lookup (kstr idx) kvs = Some x -> augmented_get (VObject kvs) idx = Some x.
Proof. intro H. cbn [Value.augmented_get]. rewrite H. reflexivity. Qed.

Theorem object_size kvs idx : lookup (kstr idx) kvs = None -> kstr idx = k_size ->
  augmented_get (VObject kvs) idx = Some (VScalar (SInt (Z.of_nat (length kvs)))).
Proof. intros H K. cbn [Value.augmented_get]. rewrite H, K, str_eqb_refl. reflexivity. Qed.

Theorem object_missing kvs idx : lookup (kstr idx) kvs = None -> kstr idx <> k_size ->
  augmented_get (VObject kvs) idx = None.
Proof.
  intros H K. cbn [Value.augmented_get]. rewrite H.
  destruct (str_eqb (kstr idx) k_size) eqn:E; [apply str_eqb_eq in E; contradiction|reflexivity].
Qed.

Theorem scalar_step s idx :
  augmented_get (VScalar s) idx =
  if str_eqb (kstr idx) k_size then Some (VScalar (SInt (Z.of_nat (length (kstr s))))) else None.
Proof. reflexivity. Qed.

Theorem nil_has_no_members idx : augmented_get VNil idx = None.
Proof. reflexivity. Qed.

(* ---- paths are resolved step by step ---- *)
Theorem try_find_step v i p :
  try_find v (i :: p) = match augmented_get v i with Some c => try_find c p | None => None end.
Proof. reflexivity. Qed.

Theorem try_find_app v p q :
  try_find v (p ++ q) = match try_find v p with Some c => try_find c q | None => None end.
Proof.
  revert v; induction p as [|i p IH]; intro v; [reflexivity|].
  cbn [app Value.try_find]. destruct (augmented_get v i); [apply IH|reflexivity].
Qed.

(* a missing step anywhere makes every longer path missing *)
Theorem missing_stays_missing v p q : try_find v p = None -> try_find v (p ++ q) = None.
Proof. intro H. rewrite try_find_app, H. reflexivity. Qed.

Theorem find_ok_iff v p r : find v p = Ok r <-> try_find v p = Some r.
Proof.
  unfold Value.find. destruct (try_find v p) eqn:E.
  - split; intro H; inversion H; reflexivity.
  - split; [|discriminate]. destruct (any_prefix_resolves O v p (length p - 1)); discriminate.
Qed.

Theorem find_missing_fails v p : try_find v p = None ->
  find v p = Err EUnknownIndex \/ find v p = Panic site_find_should_have_errored.
Proof.
  intro H. unfold Value.find. rewrite H.
  destruct (any_prefix_resolves O v p (length p - 1)); [left|right]; reflexivity.
Qed.

(* ---- the output tag: the value printed, or a failure that writes nothing ---- *)
Variable ps : pstore.
Variable rec : template -> est -> sink -> out.

Fixpoint eval_indices (l : list expr) (s : est) : res (list scalar) :=
  match l with
  | [] => Ok []
  | i :: t => do v <- eval_expr O i s;
              match v with
              | VScalar x => do r <- eval_indices t s; Ok (x :: r)
              | _ => Err EOther
              end
  end.

Lemma eval_var_unfold root idx s :
  eval_expr O (EVar root idx) s = (do p <- eval_indices idx s; Stack.get O (root :: p) (fr s)).
Proof.
  cbn [eval_expr].
  match goal with |- (do p <- ?a; _) = (do p <- ?b; _) => assert (a = b) as -> end; [|reflexivity].
  induction idx as [|i t IH]; [reflexivity|].
  cbn [eval_indices]. destruct (eval_expr O i s) as [v| | |]; try reflexivity.
  destruct v; try reflexivity. cbn [bind] in *. rewrite IH. reflexivity.
Qed.

(* a path whose indices evaluate to scalars and that resolves prints exactly the value found *)
Theorem output_resolved root idx s k p v :
  eval_indices idx s = Ok p -> Stack.try_get O (root :: p) (fr s) = Some v ->
  rnode O ps rec (NOutput (EVar root idx, [])) s k = write_str s k (Value.render O v).
Proof.
  intros Hp Hv. cbn [rnode]. unfold eval_chain_e. cbn [fst snd]. rewrite eval_var_unfold, Hp. cbn [bind].
  apply (get_try_get_agree O) in Hv. rewrite Hv. reflexivity.
Qed.

(* if any step does not exist, the output tag fails: no `Done`, nothing written, state untouched *)
Theorem output_missing_fails root idx s k p :
  eval_indices idx s = Ok p -> Stack.try_get O (root :: p) (fr s) = None ->
  exists c, rnode O ps rec (NOutput (EVar root idx, [])) s k = (OFail c, s, k).
Proof.
  intros Hp Hv. cbn [rnode]. unfold eval_chain_e. cbn [fst snd]. rewrite eval_var_unfold, Hp. cbn [bind].
  destruct (Stack.get O (root :: p) (fr s)) as [v|c|n|] eqn:E.
  - apply (get_try_get_agree O) in E. congruence.
  - exists c. reflexivity.
  - pose proof (get_never_panics O (root :: p) (fr s)) as [Hn _]. rewrite E in Hn. discriminate.
  - pose proof (get_never_panics O (root :: p) (fr s)) as [_ Hn]. contradiction.
Qed.

(* an index that is not a scalar (an array, an object, nil) is an error, not a lookup *)
Theorem output_bad_index_fails root idx s k c :
  eval_indices idx s = Err c -> rnode O ps rec (NOutput (EVar root idx, [])) s k = (OFail c, s, k).
Proof.
  intros Hp. cbn [rnode]. unfold eval_chain_e. cbn [fst snd]. rewrite eval_var_unfold, Hp. reflexivity.
Qed.

(* ---- literals print as the value they denote ---- *)
Theorem literal_prints v s k :
  rnode O ps rec (NOutput (ELit v, [])) s k = write_str s k (Value.render O v).
Proof. reflexivity. Qed.

Theorem integer_numeral_roundtrip z : in_i64 z = true ->
  parse_i64 (show_Z z) = Some z /\ Value.render O (VScalar (SInt z)) = show_Z z.
Proof. intro H. split; [apply parse_show_Z; exact H|reflexivity]. Qed.

(* only numerals of the 64-bit range are converted: anything wider is rejected, never wrapped *)
Definition go_i64 (neg : bool) (ds : str) : option Z :=
  match ds with
  | [] => None
  | _ => match parse_digits ds 0%Z with
         | Some z => let z' := if neg then (- z)%Z else z in if in_i64 z' then Some z' else None
         | None => None
         end
  end.
Lemma parse_i64_go t :
  parse_i64 t = match t with 45%N :: r => go_i64 true r | 43%N :: r => go_i64 false r | _ => go_i64 false t end.
Proof. reflexivity. Qed.
Theorem parse_i64_in_range t z : parse_i64 t = Some z -> in_i64 z = true.
Proof.
  rewrite parse_i64_go.
  assert (Hgo : forall b ds, go_i64 b ds = Some z -> in_i64 z = true).
  { intros b ds. unfold go_i64. destruct ds as [|c ds]; [discriminate|].
    destruct (parse_digits (c :: ds) 0%Z) as [w|]; [|discriminate]. cbv zeta.
    destruct (in_i64 (if b then (- w)%Z else w)) eqn:E; [|discriminate].
    intro H. inversion H. subst. exact E. }
  destruct t as [|c t]; [apply Hgo|].
  destruct c as [|q]; [apply Hgo|].
  do 7 (destruct q as [q|q|]; try apply Hgo).
Qed.

Theorem string_bool_nil_literals x b :
  Value.render O (VScalar (SStr x)) = x /\ Value.render O (VScalar (SBool b)) = show_bool b /\ Value.render O VNil = [].
Proof. repeat split. Qed.
End F.
