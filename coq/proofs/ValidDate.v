(* ValidDate.v — the date filter keeps text valid: whatever strftime writes is ASCII (numerals, names, signs, padding)
   or a piece of the format itself. *)
From LV Require Import Base Value Utf8 Strftime Filters_date BaseLemmas DateProofs ValidProofs.
From Coq Require Import Lia.

Definition ascii (s : str) : bool := forallb (fun c => (c <? 128)%N) s.
Lemma ascii_app a b : ascii (a ++ b) = ascii a && ascii b. Proof. apply forallb_app. Qed.
Lemma ascii_sv s : ascii s = true -> sv s = true.
Proof.
  unfold ascii, sv. induction s as [|c t IH]; [reflexivity|]. cbn [forallb]. intro H. apply andb_true_iff in H as [H1 H2].
  rewrite IH by exact H2. unfold valid_char. apply N.ltb_lt in H1. replace (c <? 55296)%N with true by (symmetry; apply N.ltb_lt; lia). reflexivity.
Qed.
Lemma ascii_rep c n : (c <? 128)%N = true -> ascii (rep c n) = true.
Proof. intro H. unfold rep. induction n; [reflexivity|]. cbn [repeat ascii forallb]. rewrite H. exact IHn. Qed.
Lemma ascii_digits s : forallb is_digit s = true -> ascii s = true.
Proof.
  induction s as [|c t IH]; [reflexivity|]. cbn [forallb ascii]. intro H. apply andb_true_iff in H as [H1 H2]. fold (ascii t). rewrite (IH H2).
  unfold is_digit in H1. apply andb_true_iff in H1 as [_ H1]. apply N.leb_le in H1. replace (c <? 128)%N with true by (symmetry; apply N.ltb_lt; lia). reflexivity.
Qed.
Lemma ascii_show_Z z : ascii (show_Z z) = true.
Proof.
  destruct z as [|p|p]; [reflexivity| |]; cbn [show_Z].
  - apply ascii_digits. unfold show_N. apply digits_all. reflexivity.
  - cbn [ascii forallb]. apply (ascii_digits (show_N (Npos p))). unfold show_N. apply digits_all. reflexivity.
Qed.
Lemma ascii_pad_left c w s : (c <? 128)%N = true -> ascii s = true -> ascii (pad_left c w s) = true.
Proof. intros Hc Hs. rewrite pad_left_spec, ascii_app, Hs, (ascii_rep c _ Hc). reflexivity. Qed.
Lemma ascii_padz w z : ascii (padz w z) = true.
Proof. unfold padz. destruct (z <? 0)%Z; [cbn [ascii forallb]; fold (ascii (pad_left 48%N w (show_Z (- z))))|]; rewrite ascii_pad_left; auto using ascii_show_Z. Qed.
Lemma ascii_firstn n s : ascii s = true -> ascii (firstn n s) = true.
Proof. revert s. induction n; intros [|c t] H; try reflexivity. cbn [firstn ascii forallb] in *. apply andb_true_iff in H as [H1 H2]. rewrite H1. apply IHn, H2. Qed.
Lemma ascii_upper_ok s : ascii s = true -> ascii (ascii_upper s) = true.
Proof.
  unfold ascii_upper, ascii. induction s as [|c t IH]; [reflexivity|]. cbn [map forallb]. intro H. apply andb_true_iff in H as [H1 H2]. rewrite (IH H2).
  destruct ((97 <=? c)%N && (c <=? 122)%N) eqn:E; [|rewrite H1; reflexivity].
  apply andb_true_iff in E as [E1 E2]. apply N.leb_le in E1, E2. replace (c - 32 <? 128)%N with true by (symmetry; apply N.ltb_lt; lia). reflexivity.
Qed.
Lemma month_name_ascii m : ascii (month_name m) = true.
Proof.
  unfold month_name. assert (F : forallb ascii month_names = true) by (vm_compute; reflexivity).
  destruct (nth_in_or_default (Z.to_nat (m - 1)) month_names []) as [H | ->]; [|reflexivity].
  rewrite forallb_forall in F. apply F, H.
Qed.
Lemma weekday_name_ascii w : ascii (weekday_name w) = true.
Proof.
  unfold weekday_name. assert (F : forallb ascii weekday_names = true) by (vm_compute; reflexivity).
  destruct (nth_in_or_default (Z.to_nat w) weekday_names []) as [H | ->]; [|reflexivity].
  rewrite forallb_forall in F. apply F, H.
Qed.

Lemma fmt_numeric_ascii f w v p : ascii (fmt_numeric f w v p) = true.
Proof.
  unfold fmt_numeric. destruct (use_pad f).
  - rewrite !ascii_app, ascii_show_Z. destruct (pst f); cbn [pstyle_eqb andb]; destruct (v <? 0)%Z; cbn [andb negb];
      rewrite ?ascii_rep by reflexivity; reflexivity.
  - rewrite ascii_app, ascii_show_Z. destruct (v <? 0)%Z; reflexivity.
Qed.
Lemma alpha_padc_ascii f : (alpha_padc f <? 128)%N = true. Proof. unfold alpha_padc. destruct (pst f); reflexivity. Qed.
Lemma fmt_alpha_ascii f w s : ascii s = true -> ascii (fmt_alpha f w s) = true.
Proof.
  intro H. unfold fmt_alpha.
  assert (A : ascii ((match w with Some w0 => if use_pad f then rep (alpha_padc f) (sat_sub w0 (length s)) else [] | None => [] end) ++ s) = true).
  { rewrite ascii_app, H. destruct w as [w0|]; [destruct (use_pad f); [rewrite ascii_rep by apply alpha_padc_ascii|]|]; reflexivity. }
  destruct (cas_default (cas f)); [exact A|apply ascii_upper_ok, A].
Qed.
Lemma fmt_comp_ascii f w n s : ascii s = true -> ascii (fmt_comp f w n s) = true.
Proof.
  intro H. unfold fmt_comp.
  assert (A : ascii ((match w with Some w0 => rep (alpha_padc f) (sat_sub w0 n) | None => [] end) ++ s) = true).
  { rewrite ascii_app, H. destruct w as [w0|]; [rewrite ascii_rep by apply alpha_padc_ascii|]; reflexivity. }
  destruct (cas_default (cas f)); [exact A|apply ascii_upper_ok, A].
Qed.
Lemma fmt_literal_ascii f w c : (c <? 128)%N = true -> ascii (fmt_literal f w c) = true.
Proof.
  intro H. unfold fmt_literal. rewrite ascii_app. cbn [ascii forallb]. rewrite H.
  destruct w as [w0|]; [destruct (use_pad f); [rewrite ascii_rep by apply alpha_padc_ascii|]|]; reflexivity.
Qed.
Lemma fmt_fraction_ascii ns n : ascii (fmt_fraction ns n) = true.
Proof. unfold fmt_fraction. rewrite ascii_app, ascii_pad_left, ascii_rep; auto using ascii_show_Z. Qed.
Lemma fmt_offset_ascii f w off a b : ascii (fmt_offset f w off a b) = true.
Proof.
  unfold fmt_offset. cbv zeta. rewrite !ascii_app. repeat (apply andb_true_iff; split).
  - destruct (negb (pstyle_eqb (pst f) PSpace)).
    + cbn [ascii forallb]. apply andb_true_iff. split; [destruct (off <? 0)%Z; reflexivity|].
      apply (ascii_pad_left 48%N); auto using ascii_show_Z.
    + apply ascii_pad_left; [reflexivity|]. cbn [ascii forallb]. apply andb_true_iff. split; [destruct (Z.quot off 3600 <? 0)%Z; reflexivity|apply ascii_show_Z].
  - destruct a; reflexivity.
  - apply ascii_padz.
  - destruct b; [|reflexivity]. cbn [ascii forallb]. apply (ascii_padz 2).
Qed.

(* one directive: what it writes is ASCII, what it echoes and what it leaves is part of the format *)
Definition dir_ok (x : dres * str * str) : Prop :=
  match x with
  | (DOut s, r, e) => ascii s = true /\ sv r = true /\ sv e = true
  | (DUnknown, r, e) => sv r = true /\ sv e = true
  | (DErr, _, _) => True
  end.
Ltac bits x := let p := fresh "p" in destruct x as [|p]; [|do 8 (try destruct p as [p|p|])].
Ltac asc := repeat first
  [ reflexivity
  | apply ascii_padz | apply ascii_show_Z | apply month_name_ascii | apply weekday_name_ascii
  | (unfold pad2; apply ascii_padz)
  | (unfold rpad2; apply ascii_pad_left; [reflexivity|apply ascii_show_Z])
  | apply ascii_firstn
  | (rewrite ascii_app; apply andb_true_iff; split)
  | match goal with |- ascii (if ?b then _ else _) = true => destruct b end ].
Ltac out_ok Hr := cbn [dir_ok]; split; [first [apply fmt_numeric_ascii | apply fmt_offset_ascii | apply fmt_fraction_ascii
   | apply fmt_literal_ascii; reflexivity
   | apply fmt_alpha_ascii; asc
   | apply ascii_upper_ok, fmt_comp_ascii; asc
   | apply fmt_comp_ascii; asc]
   | split; [exact Hr|reflexivity]].
Lemma colon_ok t f w rest : sv rest = true ->
  dir_ok (match rest with
    | 122%N :: r => (DOut (fmt_offset f w (dt_off t) true false), r, [122%N])
    | 58%N :: 122%N :: r => (DOut (fmt_offset f w (dt_off t) true true), r, [58;122]%N)
    | 58%N :: x :: r => (DUnknown, r, [58%N; x])
    | 58%N :: [] => (DUnknown, [], [58%N])
    | x :: r => (DUnknown, r, [x])
    | [] => (DUnknown, [], [])
    end).
Proof.
  intro H. destruct rest as [|x r]; [split; reflexivity|].
  rewrite sv_cons in H. apply andb_true_iff in H as [Hx Hr].
  assert (U : dir_ok (DUnknown, r, [x])) by (split; [exact Hr|rewrite sv_cons, Hx; reflexivity]).
  bits x; try exact U; try (cbn [dir_ok]; split; [apply fmt_offset_ascii|split; [exact Hr|reflexivity]]).
  (* x = 58 *)
  destruct r as [|y r']; [split; reflexivity|].
  rewrite sv_cons in Hr. apply andb_true_iff in Hr as [Hy Hr'].
  assert (U2 : dir_ok (DUnknown, r', [58%N; y])) by (split; [exact Hr'|rewrite !sv_cons, Hy; reflexivity]).
  bits y; try exact U2; cbn [dir_ok]; split; [apply fmt_offset_ascii|split; [exact Hr'|reflexivity]].
Qed.
Lemma directive_ok t f w c rest : sv rest = true -> dir_ok (directive t f w c rest).
Proof.
  intro Hr. unfold directive. cbv zeta.
  repeat match goal with |- dir_ok (if ?b then _ else _) => destruct b; [try (out_ok Hr; fail)|] end.
  all: try (out_ok Hr; fail).
  all: try (apply colon_ok; exact Hr).
  all: try (split; [exact Hr|reflexivity]).
Qed.

Lemma eat_flags_sv : forall l f seen f' seen' l1, sv l = true -> sv seen = true ->
  eat_flags l f seen = Some (f', seen', l1) -> sv seen' = true /\ sv l1 = true.
Proof.
  induction l as [|c t IH]; intros f seen f' seen' l1 Hl Hs E; [discriminate|].
  pose proof Hl as Hl0. rewrite sv_cons in Hl. apply andb_true_iff in Hl as [Hc Ht].
  assert (Hsc : sv (seen ++ [c]) = true) by (rewrite sv_app, Hs, sv_cons, Hc; reflexivity).
  cbn [eat_flags] in E.
  repeat match type of E with (if ?b then _ else _) = _ => destruct b; [eapply IH; eassumption|] end.
  inversion E; subst. split; assumption.
Qed.
Lemma span_digits_sv l : forall a b, sv l = true -> span_digits l = (a, b) -> sv a = true /\ sv b = true.
Proof.
  induction l as [|c t IH]; intros a b Hl E; cbn [span_digits] in E; [inversion E; split; reflexivity|].
  pose proof Hl as Hl0. rewrite sv_cons in Hl. apply andb_true_iff in Hl as [Hc Ht].
  destruct (is_digit c); [|inversion E; subst; split; [reflexivity|exact Hl0]].
  destruct (span_digits t) as [a' b'] eqn:E'. injection E as Ea Eb. subst a b. destruct (IH a' b' Ht eq_refl) as [Ha Hb].
  split; [rewrite sv_cons, Hc, Ha; reflexivity|exact Hb].
Qed.
Lemma after_percent_sv t l s r : sv l = true -> after_percent t l = Some (s, r) -> sv s = true /\ sv r = true.
Proof.
  intros Hl E. unfold after_percent in E.
  destruct (eat_flags l flags0 []) as [[[f seen] l1]|] eqn:Ef; [|discriminate].
  destruct (eat_flags_sv l flags0 [] f seen l1 Hl eq_refl Ef) as [Hseen Hl1].
  destruct (span_digits l1) as [ds l2] eqn:Ed. destruct (span_digits_sv _ _ _ Hl1 Ed) as [Hds Hl2].
  match type of E with match ?wd with _ => _ end = _ => destruct wd as [w|]; [|discriminate] end.
  destruct l2 as [|c0 l3]; [discriminate|].
  pose proof Hl2 as Hl2'. rewrite sv_cons in Hl2'. apply andb_true_iff in Hl2' as [Hc0 Hl3].
  assert (Fin : forall c rest cs, sv rest = true -> sv cs = true ->
     match directive t f w c rest with
     | (DOut s0, r0, _) => Some (s0, r0)
     | (DUnknown, r0, extra) => Some (c_pct :: seen ++ ds ++ cs ++ extra, r0)
     | (DErr, _, _) => None
     end = Some (s, r) -> sv s = true /\ sv r = true).
  { intros c rest cs Hrest Hcs E0. pose proof (directive_ok t f w c rest Hrest) as D.
    destruct (directive t f w c rest) as [[[s0| |] r0] e0]; cbn [dir_ok] in D; [| |discriminate].
    - destruct D as (A & B & _). inversion E0; subst. split; [apply ascii_sv, A|exact B].
    - destruct D as (B & C). inversion E0; subst. split; [|exact B].
      rewrite sv_cons, !sv_app, Hseen, Hds, Hcs, C. reflexivity. }
  cbv zeta in E. destruct ((c0 =? 69)%N || (c0 =? 79)%N).
  - destruct l3 as [|c1 l4]; [discriminate|]. pose proof Hl3 as Hl3'. rewrite sv_cons in Hl3'. apply andb_true_iff in Hl3' as [Hc1 Hl4].
    eapply Fin; [exact Hl4| |exact E]. rewrite !sv_cons, Hc0, Hc1. reflexivity.
  - eapply Fin; [exact Hl3| |exact E]. rewrite sv_cons, Hc0. reflexivity.
Qed.
Lemma strftime_fuel_sv t : forall fuel l o, sv l = true -> strftime_fuel fuel t l = Ok o -> sv o = true.
Proof.
  induction fuel as [|fu IH]; intros l o Hl E; [discriminate|]. cbn [strftime_fuel] in E.
  destruct l as [|c r]; [inversion E; reflexivity|].
  pose proof Hl as Hl0. rewrite sv_cons in Hl. apply andb_true_iff in Hl as [Hc Hr].
  destruct (c =? 37)%N.
  - destruct (after_percent t r) as [[s r']|] eqn:Ea; [|discriminate].
    destruct (after_percent_sv _ _ _ _ Hr Ea) as [Hs Hr'].
    destruct (strftime_fuel fu t r') as [o'| | |] eqn:Eo; cbn [bind] in E; try discriminate.
    inversion E; subst. rewrite sv_app, Hs, (IH _ _ Hr' Eo). reflexivity.
  - destruct (strftime_fuel fu t r) as [o'| | |] eqn:Eo; cbn [bind] in E; try discriminate.
    inversion E; subst. rewrite sv_cons, Hc, (IH _ _ Hr Eo). reflexivity.
Qed.
Theorem strftime_sv t fmt o : sv fmt = true -> strftime t fmt = Ok o -> sv o = true.
Proof. unfold strftime. apply strftime_fuel_sv. Qed.

