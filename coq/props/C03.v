(* C03 — Literal text is preserved; trim markers, raw and comment do exactly their job.
   Statements only; proofs in proofs/PegProofs.v, about coq/gen/Grammar.v — the grammar as generated
   from crates/core/src/parser/grammar.pest on this run — under the pest semantics of model/Peg.v.

   PARTIAL.  Proved, for the generated grammar and every text:
     - which characters are whitespace to it, and that the whitespace star — the only thing a trim
       marker on a delimiter adds to it (the start rules put a whitespace star before the marked
       opening delimiter, the end rules after the marked closing one) and what separates a
       delimiter from its content — consumes exactly the maximal run of space, tab, LF, CR and
       nothing else, in every atomicity mode in which the grammar uses it;
     - a text that contains no brace is exactly ONE Raw element spanning all of it followed by EOI
       (no_markup_is_one_raw): with parser.rs's `Raw -> Text(span)` and Text::render_to's plain
       write this is "a template without markup renders to itself"; the empty text has no element.
   Not proved (decided by the structural oracle and the pair-stream correspondence of
   tools/props/c03.py on every generated template): the same for texts with stray single braces
   (a brace not followed by a brace or percent sign), that Raw is in general the maximal markup-free
   text, the span recovery of raw blocks and the discarding of comments. *)
From LV Require Import Base Peg Grammar PegProofs.

Theorem whitespace_rule : forall fuel la s pos, 6 <= fuel ->
  ev liquid_grammar liquid_ws fuel Atomic la (PRef r_WHITESPACE) s pos =
  Some (match s with
        | c :: r => if (c =? 13)%N then match r with 10%N :: r' => Some (r', pos + 2, []) | _ => Some (r, pos + 1, []) end
                    else if is_ws c then Some (r, pos + 1, []) else None
        | [] => None
        end).
Proof. exact PegProofs.ws_rule_one. Qed.
Theorem whitespace_run_exact : forall la s pos fuel, 8 + length s <= fuel ->
  ev liquid_grammar liquid_ws fuel Atomic la (PStar (PRef r_WHITESPACE)) s pos =
  Some (Some (drop_ws s, pos + count_ws s, [])).
Proof. exact PegProofs.ws_star_exact. Qed.
(* drop_ws removes a prefix made of whitespace only, and what remains does not start with whitespace *)
Theorem drop_ws_is_the_maximal_run : forall s,
  exists w, s = w ++ drop_ws s /\ forallb is_ws w = true /\ ws_head (drop_ws s) = false /\ length w = count_ws s.
Proof. exact PegProofs.drop_ws_spec. Qed.

Theorem whitespace_run_exact_any_mode : forall at_ la s pos fuel, at_ <> NonAtomic -> 8 + length s <= fuel ->
  ev liquid_grammar liquid_ws fuel at_ la (PStar (PRef r_WHITESPACE)) s pos =
  Some (Some (drop_ws s, pos + count_ws s, [])).
Proof. exact PegProofs.ws_star_any. Qed.
(* a template without markup: one Raw element covering the whole text, then EOI *)
Theorem no_markup_is_one_raw : forall c t fuel, no_brace (c :: t) = true -> 40 + length t <= fuel ->
  parse liquid_grammar liquid_ws fuel r_LaxLiquidFile (c :: t) =
  Some (Some ([], S (length t),
              [mkTok r_LaxLiquidFile 0 (S (length t)); mkTok r_Raw 0 (S (length t)); mkTok eoi_id (S (length t)) (S (length t))])).
Proof. exact PegProofs.no_markup_is_one_raw. Qed.
Theorem empty_text_is_no_element : forall fuel, 40 <= fuel ->
  parse liquid_grammar liquid_ws fuel r_LaxLiquidFile [] = Some (Some ([], 0, [mkTok r_LaxLiquidFile 0 0; mkTok eoi_id 0 0])).
Proof. exact PegProofs.empty_text_is_no_element. Qed.
(* a start delimiter cannot match where no brace follows (so neither an output tag nor a tag can start) *)
Theorem no_delimiter_without_brace : forall which at_ la s pos fuel, which = r_TagStart \/ which = r_ExpressionStart ->
  at_ <> NonAtomic -> no_brace s = true -> 12 + length s <= fuel ->
  ev liquid_grammar liquid_ws fuel at_ la (PRef which) s pos = Some None.
Proof. exact PegProofs.start_fails. Qed.

(* non-vacuity: "a \t\r\n{{- 1 -}}\n b" lexes to Raw "a", the output tag from 1 to 15, Raw "b": both
   whitespace runs, tab and CRLF included, belong to the trimmed tag *)
Example c03_nonvacuous :
  match parse liquid_grammar liquid_ws 300 r_LaxLiquidFile [97;32;9;13;10;123;123;45;32;49;32;45;125;125;10;32;98]%N with
  | Some (Some (_, _, ts)) =>
      map (fun t => (t_rule t, t_start t, t_end t)) (filter (fun t => Nat.eqb (t_rule t) r_Raw || Nat.eqb (t_rule t) r_Expression) ts)
      = [(r_Raw, 0, 1); (r_Expression, 1, 16); (r_Raw, 16, 17)]
  | _ => False
  end.
Proof. vm_compute. reflexivity. Qed.

Print Assumptions whitespace_rule.
Print Assumptions whitespace_run_exact.
Print Assumptions drop_ws_is_the_maximal_run.
Print Assumptions whitespace_run_exact_any_mode.
Print Assumptions no_markup_is_one_raw.
Print Assumptions empty_text_is_no_element.
Print Assumptions no_delimiter_without_brace.
