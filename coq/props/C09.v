(* C09 — Rendering is repeatable: no state survives from one render into another.
   Statements only; proofs in proofs/StoreProofs.v.  A render (model: Eval.render_top) builds its
   runtime — registers, counters, assigned variables — from the data alone (Template::render_to
   builds a new runtime per call), so the only state that can survive is the parser's lazy partial
   cache; the theorems say that cache never changes what a lookup answers. *)
From LV Require Import Base Value Stack Eval Partials StoreProofs.

Section C09.
Variable src tmpl : Type.
Variable compile : src -> res tmpl.
(* the invariant: the cache holds nothing but compile results of the sources *)
Theorem lazy_memo_inv : forall s c n, cache_inv src tmpl compile s c ->
  fst (lazy_get src tmpl compile s c n) = ondemand_get src tmpl compile s n /\
  cache_inv src tmpl compile s (snd (lazy_get src tmpl compile s c n)).
Proof. exact (StoreProofs.lazy_get_inv src tmpl compile). Qed.
(* after ANY history of store accesses (any number of renders of any templates with any data,
   successful or failed), a partial lookup answers as on a fresh parser *)
Theorem history_independent : forall s history c0, cache_inv src tmpl compile s c0 -> forall n,
  fst (lazy_get src tmpl compile s (snd (lazy_run src tmpl compile s c0 history)) n) = ondemand_get src tmpl compile s n.
Proof. exact (StoreProofs.history_independent src tmpl compile). Qed.
Theorem repeat_same : forall s c n, cache_inv src tmpl compile s c ->
  let (r1, c1) := lazy_get src tmpl compile s c n in fst (lazy_get src tmpl compile s c1 n) = r1.
Proof. exact (StoreProofs.repeat_same src tmpl compile). Qed.
End C09.
(* the runtime of a render is a function of the data alone: nothing is carried over *)
Theorem fresh_runtime_per_render : forall data,
  est_build data = mkEst [FGlobal []; FPlain data; FIndex []] [regs0].
Proof. reflexivity. Qed.
Theorem render_is_a_function : forall O ps depth t data k1 k2, k1 = k2 ->
  render_top O ps depth t data k1 = render_top O ps depth t data k2.
Proof. intros; subst; reflexivity. Qed.

Example c09_nonvacuous :
  let compile := fun (t : nat) => if Nat.eqb t 0 then Err EParse else Ok t in
  let s := [([112%N], 5); ([98%N], 0)] in
  cache_inv nat nat compile s [([98%N], Err EParse)] /\
  fst (lazy_get nat nat compile s [([98%N], Err EParse)] [98%N]) = Err EParse /\
  fst (lazy_get nat nat compile s [] [112%N]) = Ok 5.
Proof. split; [|split; reflexivity]. intros n r H. simpl in H. destruct (str_eqb n [98%N]) eqn:E; [|discriminate].
  inversion H; subst. exists 0. split; [|reflexivity]. simpl. 
  destruct (BaseLemmas.str_eqb_spec n [98%N]); [subst; reflexivity|discriminate]. Qed.

Print Assumptions lazy_memo_inv.
Print Assumptions history_independent.
Print Assumptions repeat_same.
Print Assumptions fresh_runtime_per_render.
Print Assumptions render_is_a_function.
