(* C08 — include shares the caller's scope; render isolates the partial.
   Statements only; proofs in proofs/IsoProofs.v (built on the generic invariant of GenInv.v). *)
From LV Require Import Base Value Stack Eval StackProofs ShapeProofs GenInv IsoProofs NonInterf.

(* include = the partial's body inlined in the caller's runtime, with one more frame for the
   arguments which is popped afterwards: the partial sees and rebinds the caller's variables (its
   assigns land in the caller's global layer, C04), its arguments are visible only inside, and a
   break in it is a break for the caller (the registers are shared) *)
Theorem include_is_inline : forall O ps rec p args s k pv a body,
  eval_expr O p s = Ok (VScalar pv) -> eval_args O args s [] = Ok a -> ps (to_kstr O (VScalar pv)) = Ok body ->
  rnode O ps rec (NInclude p args) s k = match rec body (push_plain a s) k with (o, s', k') => (o, pop_plain s', k') end.
Proof. exact IsoProofs.include_is_inline. Qed.
(* render runs the partial in isolation: it starts from only its explicit arguments ... *)
Theorem render_view_closed : forall O p a q q' g,
  try_get O p (FGlobal g :: FSandbox a :: q) = try_get O p (FGlobal g :: FSandbox a :: q').
Proof. exact IsoProofs.render_view_closed. Qed.
(* ... and nothing it does reaches the caller: for EVERY partial body (any template, any nesting of
   further includes and renders), afterwards the caller's registers — pending break/continue, cycle
   positions, ifchanged memory — are exactly what they were, and every frame of the caller is unchanged
   except for the contents of the counter layer (counters are shared by all layers, C18) *)
Theorem render_isolates : forall O ps d p args s k, wfr s ->
  match rnode O ps (render O ps d) (NRender p None args) s k with
  | (_, s', _) => rg s' = rg s /\ strict (fr s) (fr s')
  end.
Proof. exact IsoProofs.render_isolates. Qed.
(* the two invariants behind it, for every template and nesting depth *)
Theorem registers_inner_only : forall O ps d l, GSH RA (render O ps d l).
Proof. exact IsoProofs.registers_inner_only. Qed.
Theorem frames_below_global_kept : forall O ps d l, GSH RB (render O ps d l).
Proof. exact IsoProofs.frames_below_global_kept. Qed.
(* ... and, conversely, nothing of the caller reaches it: observational non-interference.  Two callers whose
   partial name and evaluated arguments coincide and whose counters (shared by every layer) are equal get the
   SAME bytes and the same success/failure from the partial — whatever else their scopes, assigned
   variables, loop frames, caller data, pending interrupts, cycle positions and ifchanged memories hold;
   for every partial body, any nesting of includes and renders inside it, any sink budget *)
Theorem render_output_depends_on_arguments_only : forall O ps d p args s1 s2 k,
  eval_expr O p s1 = eval_expr O p s2 -> eval_args O args s1 [] = eval_args O args s2 [] ->
  ixobj (fr s1) = ixobj (fr s2) ->
  match rnode O ps (render O ps d) (NRender p None args) s1 k, rnode O ps (render O ps d) (NRender p None args) s2 k with
  | (o1, _, k1), (o2, _, k2) => o1 = o2 /\ k1 = k2
  end.
Proof. exact NonInterf.render_noninterference. Qed.
(* the for-form evaluates its arguments again for every item, in the caller's runtime as the previous items left
   it (their increments are visible to an argument that names a counter): stated for arguments whose value does
   not depend on the runtime *)
Theorem render_for_output_depends_on_arguments_only : forall O ps d p rng x args s1 s2 k,
  eval_expr O p s1 = eval_expr O p s2 -> eval_range O rng s1 = eval_range O rng s2 -> (forall t1 t2, eval_args O args t1 [] = eval_args O args t2 []) ->
  ixobj (fr s1) = ixobj (fr s2) ->
  match rnode O ps (render O ps d) (NRender p (Some (rng, x)) args) s1 k, rnode O ps (render O ps d) (NRender p (Some (rng, x)) args) s2 k with
  | (o1, _, k1), (o2, _, k2) => o1 = o2 /\ k1 = k2
  end.
Proof. exact NonInterf.render_for_noninterference. Qed.
(* ... and for arbitrary arguments: it suffices that the argument expressions cannot tell the two callers apart, now and
   after the partial has moved the shared counters (frames related by `strict` differ in counter contents only) *)
Theorem render_for_output_general : forall O ps d p rng x args s1 s2 k, wfr s1 -> wfr s2 ->
  eval_expr O p s1 = eval_expr O p s2 -> eval_range O rng s1 = eval_range O rng s2 ->
  (forall t1 t2, strict (fr s1) (fr t1) -> strict (fr s2) (fr t2) -> ixobj (fr t1) = ixobj (fr t2) ->
     eval_args O args t1 [] = eval_args O args t2 []) ->
  ixobj (fr s1) = ixobj (fr s2) ->
  match rnode O ps (render O ps d) (NRender p (Some (rng, x)) args) s1 k, rnode O ps (render O ps d) (NRender p (Some (rng, x)) args) s2 k with
  | (o1, _, k1), (o2, _, k2) => o1 = o2 /\ k1 = k2
  end.
Proof. exact NonInterf.render_for_noninterference_gen. Qed.
(* the two-run invariant behind both: runtimes that agree above a sandbox (frames, the sandbox's own data,
   the registers pushed since) and on the counters stay so under every template, with equal outcome and sink *)
Theorem indistinguishable_runtimes_stay_so : forall O ps d l, G2 (render O ps d l).
Proof. exact NonInterf.G2_render. Qed.

(* a missing or broken partial is an error of the tag that names it, when executed — never a crash *)
Theorem missing_partial_is_error : forall O ps rec p args s k pv a c,
  eval_expr O p s = Ok (VScalar pv) -> eval_args O args s [] = Ok a -> ps (to_kstr O (VScalar pv)) = Err c ->
  rnode O ps rec (NInclude p args) s k = (OFail c, s, k).
Proof. exact IsoProofs.missing_partial_is_error. Qed.

(* non-vacuity: a rendered partial that assigns, breaks and cycles leaves the caller's state alone,
   while the same partial included changes it *)
Example c08_nonvacuous :
  let a := [97%N] in let p := [112%N] in
  let body := [NAssign a (ELit (VScalar (SInt 9)), []); NCycle [99%N] [ELit (VScalar (SInt 1)); ELit (VScalar (SInt 2))]; NBreak] in
  let ps := fun n => if str_eqb n p then Ok body else Err EPartialMissing in
  let s := est_build [(a, VScalar (SInt 1))] in
  match rnode no_oracle_v ps (render no_oracle_v ps 2) (NRender (ELit (VScalar (SStr p))) None []) s sink0,
        rnode no_oracle_v ps (render no_oracle_v ps 2) (NInclude (ELit (VScalar (SStr p))) []) s sink0 with
  | (o1, s1, _), (o2, s2, _) => s1 = s /\ interrupted s2 = true /\ try_get no_oracle_v [SStr a] (fr s2) = Some (VScalar (SInt 9))
  end.
Proof. vm_compute. repeat split; reflexivity. Qed.

(* non-vacuity of non-interference: two callers that differ in data, assigned variables and pending
   interrupt render the partial `{% if a %}A{% else %}-{% endif %}{{ v }}{% increment n %}` with argument v identically
   (a is the caller's and invisible: both print -50) *)
Example c08_ni_nonvacuous :
  let a := [97%N] in let v := [118%N] in let nn := [110%N] in let p := [112%N] in
  let body := [NIf true (CExists (EVar (SStr a) [])) [NText [65%N]] (Some [NText [45%N]]); NOutput (EVar (SStr v) [], []); NIncrement nn] in
  let ps := fun n => if str_eqb n p then Ok body else Err EPartialMissing in
  let s1 := est_build [(a, VScalar (SInt 1))] in
  let s2 := set_regs (mkRegs (Some Brk) [] (Some [120%N])) (est_build [(a, VScalar (SInt 2)); (v, VScalar (SInt 7))]) in
  let tag := NRender (ELit (VScalar (SStr p))) None [(v, ELit (VScalar (SInt 5)))] in
  s1 <> s2 /\
  match rnode no_oracle_v ps (render no_oracle_v ps 2) tag s1 sink0, rnode no_oracle_v ps (render no_oracle_v ps 2) tag s2 sink0 with
  | (o1, _, k1), (o2, _, k2) => o1 = o2 /\ k1 = k2 /\ acc k1 <> []
  end.
Proof. split; [discriminate|]. vm_compute. repeat split; try reflexivity; discriminate. Qed.

Print Assumptions render_output_depends_on_arguments_only.
Print Assumptions render_for_output_depends_on_arguments_only.
Print Assumptions render_for_output_general.
Print Assumptions indistinguishable_runtimes_stay_so.
Print Assumptions include_is_inline.
Print Assumptions render_view_closed.
Print Assumptions render_isolates.
Print Assumptions registers_inner_only.
Print Assumptions frames_below_global_kept.
Print Assumptions missing_partial_is_error.
