(* TreeProofs.v — (1) the pair tree flattens to the pair stream of Peg.ev; (2) the children analysis of
   PegTree.abs is sound for every grammar: a pair's children are as many and of the rules the analysis says;
   (3) for liquid's grammar: the child shapes parser.rs relies on at its expect/unreachable sites. *)
From LV Require Import Base Peg PegTree.
From Coq Require Import Lia.

(* ---------------- (1) flattening ---------------- *)
Lemma flat_node k cs : flat (TNode k cs) = k :: flats cs.
Proof. cbn [flat]. f_equal. Qed.
Lemma flats_app a b : flats (a ++ b) = flats a ++ flats b.
Proof. induction a as [|x a IH]; [reflexivity|]. cbn [app flats]. rewrite IH, app_assoc. reflexivity. Qed.

Definition flat_res (r : fres) : pres :=
  match r with
  | None => None
  | Some None => Some None
  | Some (Some (s, p, F)) => Some (Some (s, p, flats F))
  end.

Section Flat.
Variable g : grammar.
Variable ws : option nat.
Theorem ev_flat : forall f at_ la e s pos, ev g ws f at_ la e s pos = flat_res (evf g ws f at_ la e s pos).
Proof.
  induction f as [|f IH]; intros at_ la e s pos; [reflexivity|].
  assert (Hskip : forall s pos,
     match at_, ws with NonAtomic, Some w => ev g ws f Atomic la (PStar (PRef w)) s pos | _, _ => Some (Some (s, pos, [])) end =
     flat_res (match at_, ws with NonAtomic, Some w => evf g ws f Atomic la (PStar (PRef w)) s pos | _, _ => Some (Some (s, pos, [])) end)).
  { intros s0 p0. destruct at_; try reflexivity. destruct ws; [apply IH|reflexivity]. }
  destruct e; cbn [ev evf].
  - destruct (strip_prefix s0 s); reflexivity.
  - destruct s as [|c r]; [reflexivity|]. destruct ((a <=? c)%N && (c <=? b)%N); reflexivity.
  - destruct s; reflexivity.
  - destruct (Nat.eqb pos 0); reflexivity.
  - destruct s; [|reflexivity]. destruct (la || atom_eqb at_ Atomic); reflexivity.
  - destruct (nth_error g n) as [r|]; [|reflexivity].
    replace (match r_mod r with MAtomic => Atomic | MCompound => Compound | MNonAtomic => NonAtomic | _ => at_ end) with (mode_of (r_mod r) at_) by (destruct (r_mod r); reflexivity).
    replace (match r_mod r with MSilent => true | _ => false end) with (is_silent (r_mod r)) by (destruct (r_mod r); reflexivity).
    rewrite IH. destruct (evf g ws f (mode_of (r_mod r) at_) la (r_body r) s pos) as [[[[s' p'] F]|]|]; cbn [flat_res]; try reflexivity.
    destruct (negb la && negb (atom_eqb at_ Atomic) && negb (is_silent (r_mod r))); [|reflexivity].
    cbn [flats]. rewrite flat_node, app_nil_r. reflexivity.
  - rewrite IH. destruct (evf g ws f at_ la e1 s pos) as [[[[s1 p1] t1]|]|]; cbn [flat_res]; try reflexivity.
    rewrite Hskip.
    match goal with |- context [flat_res ?x] => destruct x as [[[[s2 p2] t2]|]|]; cbn [flat_res]; try reflexivity end.
    rewrite IH. destruct (evf g ws f at_ la e2 s2 p2) as [[[[s3 p3] t3]|]|]; cbn [flat_res]; try reflexivity.
    rewrite flats_app. reflexivity.
  - rewrite IH. destruct (evf g ws f at_ la e1 s pos) as [[[[s1 p1] t1]|]|]; cbn [flat_res]; try reflexivity. apply IH.
  - rewrite IH. destruct (evf g ws f at_ la (PPlus e) s pos) as [[[[s1 p1] t1]|]|]; cbn [flat_res]; reflexivity.
  - rewrite IH. destruct (evf g ws f at_ la e s pos) as [[[[s1 p1] t1]|]|]; cbn [flat_res]; try reflexivity.
    rewrite Hskip.
    match goal with |- context [flat_res ?x] => destruct x as [[[[s2 p2] t2]|]|]; cbn [flat_res]; try reflexivity end.
    rewrite IH. destruct (evf g ws f at_ la (PPlus e) s2 p2) as [[[[s3 p3] t3]|]|]; cbn [flat_res]; try reflexivity.
    rewrite flats_app. reflexivity.
  - rewrite IH. destruct (evf g ws f at_ la e s pos) as [[[[s1 p1] t1]|]|]; cbn [flat_res]; reflexivity.
  - rewrite IH. destruct (evf g ws f at_ true e s pos) as [[[[s1 p1] t1]|]|]; cbn [flat_res]; reflexivity.
Qed.
End Flat.

(* ---------------- (2) the children analysis is sound ---------------- *)
Fixpoint sat_pos (p : list (list nat)) (r : list nat) (roots : list nat) : Prop :=
  match roots with
  | [] => True
  | x :: xs => match p with
               | [] => mem x r = true /\ sat_pos [] r xs
               | q :: p' => mem x q = true /\ sat_pos p' r xs
               end
  end.
Definition sat (A : fabs) (roots : list nat) : Prop :=
  lo A <= length roots /\ (match hi A with Some h => length roots <= h | None => True end) /\
  sat_pos (pre A) (rest A) roots.
Definition sub (a b : list nat) : Prop := forall x, mem x a = true -> mem x b = true.

Lemma mem_cons x y l : mem x (y :: l) = Nat.eqb x y || mem x l.
Proof. reflexivity. Qed.
Lemma mem_union x a b : mem x (union a b) = mem x a || mem x b.
Proof.
  induction a as [|y a IH]; [reflexivity|]. cbn [union]. destruct (mem y b) eqn:E.
  - rewrite IH, mem_cons. destruct (Nat.eqb x y) eqn:Exy; [|reflexivity].
    apply Nat.eqb_eq in Exy. subst. rewrite E. destruct (mem y a); reflexivity.
  - rewrite !mem_cons, IH. destruct (Nat.eqb x y); reflexivity.
Qed.
Lemma sub_refl a : sub a a. Proof. intros x H; exact H. Qed.
Lemma sub_union_l a b : sub a (union a b). Proof. intros x H. rewrite mem_union, H. reflexivity. Qed.
Lemma sub_union_r a b : sub b (union a b). Proof. intros x H. rewrite mem_union, H. apply orb_true_r. Qed.
Lemma sub_trans a b c : sub a b -> sub b c -> sub a c. Proof. intros H1 H2 x H. auto. Qed.
Lemma sub_union_lub a b c : sub a c -> sub b c -> sub (union a b) c.
Proof. intros H1 H2 x H. rewrite mem_union in H. apply orb_true_iff in H. destruct H; auto. Qed.

Lemma sub_rest_all A : sub (rest A) (all_of A).
Proof. unfold all_of. induction (pre A) as [|p ps IH]; [apply sub_refl|]. cbn [fold_right]. eapply sub_trans; [exact IH|apply sub_union_r]. Qed.
Lemma sub_pre_all A p : In p (pre A) -> sub p (all_of A).
Proof.
  unfold all_of. induction (pre A) as [|q ps IH]; [intros []|]. intros [->|H]; cbn [fold_right].
  - apply sub_union_l.
  - eapply sub_trans; [exact (IH H)|apply sub_union_r].
Qed.

(* everything a position-wise description allows is in any set that contains all its sets *)
Lemma sat_pos_forall p r U roots : (forall q, In q p -> sub q U) -> sub r U -> sat_pos p r roots -> Forall (fun x => mem x U = true) roots.
Proof.
  revert p. induction roots as [|x xs IH]; intros p Hp Hr H; [constructor|].
  cbn [sat_pos] in H. destruct p as [|q p'].
  - destruct H as [H1 H2]. constructor; [apply Hr, H1|]. apply (IH []); [intros q []|exact Hr|exact H2].
  - destruct H as [H1 H2]. constructor; [apply (Hp q (or_introl eq_refl)), H1|]. apply (IH p'); [|exact Hr|exact H2]. intros q' Hq. apply Hp. right. exact Hq.
Qed.
Lemma sat_all A roots : sat A roots -> Forall (fun x => mem x (all_of A) = true) roots.
Proof. intros (_ & _ & H). eapply sat_pos_forall; [| |exact H]. - intros q Hq. apply sub_pre_all, Hq. - apply sub_rest_all. Qed.
Lemma forall_sat_pos_nil U roots : Forall (fun x => mem x U = true) roots -> sat_pos [] U roots.
Proof. induction 1 as [|x xs Hx _ IH]; [exact I|]. cbn [sat_pos]. split; assumption. Qed.

Lemma sat_empty : sat a_empty []. Proof. unfold sat; cbn. repeat split; auto. Qed.
Lemma sat_single n : sat (a_single n) [n].
Proof. unfold sat; cbn. rewrite Nat.eqb_refl. repeat split; auto. Qed.

(* sequence *)
Lemma sat_pos_padded_exact y pB rB rA : sat_pos pB rB y -> forall x pA, sat_pos pA rA x ->
  sat_pos (padded (length x) pA rA ++ pB) rB (x ++ y).
Proof.
  intros Hy. induction x as [|a x IH]; intros pA Hx; [exact Hy|].
  cbn [length padded app]. cbn [sat_pos] in Hx. destruct pA as [|q pA']; destruct Hx as [H1 H2]; cbn [app sat_pos]; (split; [exact H1|]); apply IH; exact H2.
Qed.
Lemma sat_pos_padded_general U rA : forall n x pA z, sat_pos pA rA x -> n <= length x ->
  Forall (fun r => mem r U = true) (x ++ z) -> sat_pos (padded n pA rA) U (x ++ z).
Proof.
  induction n as [|n IH]; intros x pA z Hx Hn Hall.
  - cbn [padded]. apply forall_sat_pos_nil, Hall.
  - destruct x as [|a x]; [cbn in Hn; lia|]. cbn [app] in *. inversion Hall as [|? ? Ha Hall']; subst.
    cbn [sat_pos] in Hx. cbn [length] in Hn.
    destruct pA as [|q pA']; destruct Hx as [H1 H2]; cbn [padded sat_pos]; (split; [exact H1|]); apply IH; auto; lia.
Qed.
Lemma forall_app_mem U (x y : list nat) : Forall (fun r => mem r U = true) x -> Forall (fun r => mem r U = true) y -> Forall (fun r => mem r U = true) (x ++ y).
Proof. intros; apply Forall_app; split; assumption. Qed.
Lemma forall_mem_sub U V (x : list nat) : sub U V -> Forall (fun r => mem r U = true) x -> Forall (fun r => mem r V = true) x.
Proof. intros HS H. eapply Forall_impl; [|exact H]. intros a Ha. apply HS, Ha. Qed.

Lemma sat_seq A B x y : sat A x -> sat B y -> sat (a_seq A B) (x ++ y).
Proof.
  intros HA HB. pose proof (sat_all _ _ HA) as AllA. pose proof (sat_all _ _ HB) as AllB.
  destruct HA as (A1 & A2 & A3). destruct HB as (B1 & B2 & B3).
  unfold a_seq. destruct (exact A) eqn:E.
  - unfold exact in E. destruct (hi A) as [h|] eqn:Eh; [|discriminate]. apply Nat.eqb_eq in E. subst h.
    assert (Hlen : length x = lo A) by lia.
    unfold sat; cbn [lo hi pre rest]. rewrite app_length. split; [lia|]. split.
    + unfold hi_add. destruct (hi B); [lia|exact I].
    + rewrite <- Hlen. apply sat_pos_padded_exact; assumption.
  - unfold sat; cbn [lo hi pre rest]. rewrite app_length. split; [lia|]. split.
    + unfold hi_add. destruct (hi A), (hi B); try exact I; lia.
    + apply sat_pos_padded_general; [exact A3|lia|].
      apply forall_app_mem; [eapply forall_mem_sub; [apply sub_union_l|exact AllA]|eapply forall_mem_sub; [apply sub_union_r|exact AllB]].
Qed.

(* choice *)
Lemma sat_pos_nil_sub r r' x : sub r r' -> sat_pos [] r x -> sat_pos [] r' x.
Proof. intro HS. induction x as [|a x IH]; [auto|]. cbn [sat_pos]. intros [H1 H2]. split; auto. Qed.
Lemma sat_pos_zip_l rp rq : forall x n p q, length p <= n -> sat_pos p rp x -> sat_pos (zip_union n p q rp rq) (union rp rq) x.
Proof.
  induction x as [|a x IH]; intros n p q Hn H; [exact I|].
  destruct n as [|n].
  - destruct p; [|cbn in Hn; lia]. cbn [zip_union]. eapply sat_pos_nil_sub; [apply sub_union_l|exact H].
  - cbn [zip_union sat_pos]. cbn [sat_pos] in H. destruct p as [|p0 p']; destruct H as [H1 H2].
    + split; [apply sub_union_l, H1|]. apply IH; [cbn; lia|exact H2].
    + split; [apply sub_union_l, H1|]. apply IH; [cbn in *; lia|exact H2].
Qed.
Lemma sat_pos_zip_r rp rq : forall x n p q, length q <= n -> sat_pos q rq x -> sat_pos (zip_union n p q rp rq) (union rp rq) x.
Proof.
  induction x as [|a x IH]; intros n p q Hn H; [exact I|].
  destruct n as [|n].
  - destruct q; [|cbn in Hn; lia]. cbn [zip_union]. eapply sat_pos_nil_sub; [apply sub_union_r|exact H].
  - cbn [zip_union sat_pos]. cbn [sat_pos] in H. destruct q as [|q0 q']; destruct H as [H1 H2].
    + split; [apply sub_union_r, H1|]. apply IH; [cbn; lia|exact H2].
    + split; [apply sub_union_r, H1|]. apply IH; [cbn in *; lia|exact H2].
Qed.
Lemma sat_alt_l A B x : sat A x -> sat (a_alt A B) x.
Proof.
  intros (A1 & A2 & A3). unfold sat, a_alt; cbn [lo hi pre rest]. split; [lia|]. split.
  - unfold hi_max. destruct (hi A), (hi B); try exact I. lia.
  - apply sat_pos_zip_l; [lia|exact A3].
Qed.
Lemma sat_alt_r A B x : sat B x -> sat (a_alt A B) x.
Proof.
  intros (A1 & A2 & A3). unfold sat, a_alt; cbn [lo hi pre rest]. split; [lia|]. split.
  - unfold hi_max. destruct (hi A), (hi B); try exact I. lia.
  - apply sat_pos_zip_r; [lia|exact A3].
Qed.

(* repetition *)
Lemma sat_star_nil A : sat (a_star A) [].
Proof. unfold sat, a_star; cbn. repeat split; auto. destruct (hi A) as [[|h]|]; auto. Qed.
Lemma all_of_star A : all_of (a_star A) = all_of A. Proof. reflexivity. Qed.
Lemma padded_sub U : forall n p r q, (forall q', In q' p -> sub q' U) -> sub r U -> In q (padded n p r) -> sub q U.
Proof.
  induction n as [|n IH]; intros p r q Hp Hr H; [destruct H|].
  destruct p as [|p0 p']; cbn [padded] in H; destruct H as [<-|H].
  - exact Hr.
  - apply (IH [] r q); [intros q' []|exact Hr|exact H].
  - apply Hp. left. reflexivity.
  - apply (IH p' r q); [|exact Hr|exact H]. intros q' Hq'. apply Hp. right. exact Hq'.
Qed.
Lemma sat_plus_star A x : sat (a_plus A) x -> sat (a_star A) x.
Proof.
  intros H. assert (Hall : Forall (fun r => mem r (all_of A) = true) x).
  { destruct H as (_ & _ & H). unfold a_plus, a_seq in H. destruct (exact A); cbn [pre rest] in H.
    - eapply sat_pos_forall; [| |exact H].
      + intros q Hq. apply in_app_or in Hq. destruct Hq as [Hq|[]]. eapply padded_sub; [| |exact Hq]; [intros; apply sub_pre_all; assumption|apply sub_rest_all].
      + cbn. apply sub_refl.
    - eapply sat_pos_forall; [| |exact H].
      + intros q Hq. eapply padded_sub; [| |exact Hq]; [intros; apply sub_pre_all; assumption|apply sub_rest_all].
      + rewrite all_of_star. apply sub_union_lub; apply sub_refl. }
  unfold sat, a_star; cbn [lo hi pre rest]. split; [lia|]. split; [|apply forall_sat_pos_nil, Hall].
  destruct (hi A) as [[|h]|] eqn:Eh; auto.
  destruct H as (_ & H & _). unfold a_plus, a_seq in H. destruct (exact A); cbn [hi a_star] in H; rewrite !Eh in H; cbn in H; exact H.
Qed.
Lemma sat_plus_one A x : sat A x -> sat (a_plus A) x.
Proof. intro H. rewrite <- (app_nil_r x). apply sat_seq; [exact H|apply sat_star_nil]. Qed.
Lemma sat_plus_more A x y : sat A x -> sat (a_plus A) y -> sat (a_plus A) (x ++ y).
Proof. intros H1 H2. apply sat_seq; [exact H1|apply sat_plus_star, H2]. Qed.

Definition roots (F : list ttree) : list nat := map root F.
Lemma roots_app a b : roots (a ++ b) = roots a ++ roots b. Proof. apply map_app. Qed.

Section Sound.
Variable g : grammar.
Variable ws : option nat.
Notation evf' := (evf g ws).

Lemma abs_plus K at_ a A : abs g K at_ a = Some A -> abs g (S K) at_ (PPlus a) = Some (a_plus A).
Proof. intro H. cbn [abs]. rewrite H. reflexivity. Qed.

Theorem abs_sound : forall f at_ e s pos s' p' F, evf' f at_ false e s pos = Some (Some (s', p', F)) ->
  forall K A, abs g K at_ e = Some A -> sat A (roots F).
Proof.
  induction f as [|f IH]; intros at_ e s pos s' p' F H K A HA; [discriminate|].
  destruct K as [|K]; [discriminate|].
  destruct e; cbn [evf] in H; cbn [abs] in HA.
  - (* PLit *) destruct (strip_prefix s0 s); inversion H; inversion HA; subst. apply sat_empty.
  - destruct s as [|c r]; [discriminate|]. destruct ((a <=? c)%N && (c <=? b)%N); inversion H; inversion HA; subst. apply sat_empty.
  - destruct s; inversion H; inversion HA; subst. apply sat_empty.
  - destruct (Nat.eqb pos 0); inversion H; inversion HA; subst. apply sat_empty.
  - (* PEoi *) destruct s; [|discriminate]. cbn [orb] in H. inversion H; inversion HA; subst.
    destruct (atom_eqb at_ Atomic); [apply sat_empty|apply sat_single].
  - (* PRef *) destruct (nth_error g n) as [r|]; [|discriminate].
    cbn [negb andb] in H.
    destruct (evf' f (mode_of (r_mod r) at_) false (r_body r) s pos) as [[[[s1 p1] ts]|]|] eqn:E; try discriminate.
    inversion H; subst. clear H.
    destruct (negb (atom_eqb at_ Atomic) && negb (is_silent (r_mod r))).
    + inversion HA; subst. apply sat_single.
    + eapply IH; eassumption.
  - (* PSeq *)
    destruct (evf' f at_ false e1 s pos) as [[[[s1 p1] t1]|]|] eqn:E1; try discriminate.
    match type of H with match ?x with _ => _ end = _ => destruct x as [[[[s2 p2] t2]|]|]; try discriminate end.
    destruct (evf' f at_ false e2 s2 p2) as [[[[s3 p3] t3]|]|] eqn:E2; try discriminate.
    inversion H; subst. clear H.
    destruct (abs g K at_ e1) as [A1|] eqn:HA1; [|discriminate]. destruct (abs g K at_ e2) as [A2|] eqn:HA2; [|discriminate].
    inversion HA; subst. rewrite roots_app. apply sat_seq; eapply IH; eassumption.
  - (* PAlt *)
    destruct (abs g K at_ e1) as [A1|] eqn:HA1; [|discriminate]. destruct (abs g K at_ e2) as [A2|] eqn:HA2; [|discriminate].
    inversion HA; subst.
    destruct (evf' f at_ false e1 s pos) as [[[[s1 p1] t1]|]|] eqn:E1; try discriminate.
    + inversion H; subst. apply sat_alt_l. eapply IH; eassumption.
    + apply sat_alt_r. eapply IH; eassumption.
  - (* PStar *)
    destruct (abs g K at_ e) as [A1|] eqn:HA1; [|discriminate]. inversion HA; subst.
    destruct (evf' f at_ false (PPlus e) s pos) as [[[[s1 p1] t1]|]|] eqn:E1; try discriminate.
    + inversion H; subst. apply sat_plus_star. eapply IH; [exact E1|]. apply abs_plus, HA1.
    + inversion H; subst. apply sat_star_nil.
  - (* PPlus *)
    destruct (abs g K at_ e) as [A1|] eqn:HA1; [|discriminate]. inversion HA; subst.
    destruct (evf' f at_ false e s pos) as [[[[s1 p1] t1]|]|] eqn:E1; try discriminate.
    assert (S1 : sat A1 (roots t1)) by (eapply IH; eassumption).
    match type of H with match ?x with _ => _ end = _ => destruct x as [[[[s2 p2] t2]|]|]; try discriminate end.
    + destruct (evf' f at_ false (PPlus e) s2 p2) as [[[[s3 p3] t3]|]|] eqn:E3; try discriminate.
      * inversion H; subst. rewrite roots_app. apply sat_plus_more; [exact S1|]. eapply IH; [exact E3|]. apply abs_plus, HA1.
      * inversion H; subst. apply sat_plus_one, S1.
    + inversion H; subst. apply sat_plus_one, S1.
  - (* POpt *)
    destruct (abs g K at_ e) as [A1|] eqn:HA1; [|discriminate]. inversion HA; subst.
    destruct (evf' f at_ false e s pos) as [[[[s1 p1] t1]|]|] eqn:E1; try discriminate.
    + inversion H; subst. apply sat_alt_l. eapply IH; eassumption.
    + inversion H; subst. apply sat_alt_r, sat_empty.
  - (* PNot *)
    destruct (evf' f at_ true e s pos) as [[[[s1 p1] t1]|]|]; try discriminate.
    inversion H; inversion HA; subst. apply sat_empty.
Qed.

(* every pair of the tree, at every depth, was produced in some non-atomic mode and has the children the
   analysis allows for its rule in that mode *)
Definition local_ok (K : nat) (k : tok) (cs : list ttree) : Prop :=
  exists m, m <> Atomic /\ match child_abs g K m (t_rule k) with Some A => sat A (roots cs) | None => True end.
Fixpoint wf_tree (K : nat) (t : ttree) : Prop :=
  match t with TNode k cs =>
    local_ok K k cs /\
    (fix all (l : list ttree) : Prop := match l with [] => True | c :: l' => wf_tree K c /\ all l' end) cs
  end.
Fixpoint wf_forest (K : nat) (F : list ttree) : Prop :=
  match F with [] => True | c :: F' => wf_tree K c /\ wf_forest K F' end.
Lemma wf_tree_unfold K k cs : wf_tree K (TNode k cs) <-> local_ok K k cs /\ wf_forest K cs.
Proof.
  cbn [wf_tree]. assert (E : forall l, (fix all (l : list ttree) : Prop := match l with [] => True | c :: l' => wf_tree K c /\ all l' end) l <-> wf_forest K l).
  { intros l. induction l as [|c l IH]; [reflexivity|]. cbn [wf_forest]. rewrite IH. reflexivity. }
  rewrite E. reflexivity.
Qed.
Lemma wf_forest_app K a b : wf_forest K a -> wf_forest K b -> wf_forest K (a ++ b).
Proof. induction a as [|x a IH]; [auto|]. cbn [app wf_forest]. intros [H1 H2] Hb. split; auto. Qed.

Hypothesis eoi_free : length g <= eoi_id.

Theorem wf_sound K : forall f at_ e s pos s' p' F, evf' f at_ false e s pos = Some (Some (s', p', F)) -> wf_forest K F.
Proof.
  induction f as [|f IH]; intros at_ e s pos s' p' F H; [discriminate|].
  destruct e; cbn [evf] in H.
  - destruct (strip_prefix s0 s); inversion H; subst. exact I.
  - destruct s as [|c r]; [discriminate|]. destruct ((a <=? c)%N && (c <=? b)%N); inversion H; subst. exact I.
  - destruct s; inversion H; subst. exact I.
  - destruct (Nat.eqb pos 0); inversion H; subst. exact I.
  - destruct s; [|discriminate]. cbn [orb] in H. inversion H; subst. destruct (atom_eqb at_ Atomic) eqn:Ea; [exact I|].
    cbn [wf_forest]. split; [|exact I]. apply wf_tree_unfold. split; [|exact I]. exists at_. cbn [t_rule].
    assert (Hn : nth_error g eoi_id = None) by (apply nth_error_None; exact eoi_free).
    unfold child_abs. rewrite Hn. split; [intros ->; discriminate|apply sat_empty].
  - destruct (nth_error g n) as [r|] eqn:En; [|discriminate]. cbn [negb andb] in H.
    destruct (evf' f (mode_of (r_mod r) at_) false (r_body r) s pos) as [[[[s1 p1] ts]|]|] eqn:E; try discriminate.
    inversion H; subst. clear H. pose proof (IH _ _ _ _ _ _ _ E) as Hts.
    destruct (negb (atom_eqb at_ Atomic) && negb (is_silent (r_mod r))) eqn:Em; [|exact Hts].
    cbn [wf_forest]. split; [|exact I]. apply wf_tree_unfold. split; [|exact Hts]. exists at_. cbn [t_rule].
    split; [intros ->; discriminate|]. unfold child_abs. rewrite En.
    destruct (abs g K (mode_of (r_mod r) at_) (r_body r)) as [A|] eqn:HA; [|exact I]. eapply abs_sound; eassumption.
  - destruct (evf' f at_ false e1 s pos) as [[[[s1 p1] t1]|]|] eqn:E1; try discriminate.
    match type of H with match ?x with _ => _ end = _ => destruct x as [[[[s2 p2] t2]|]|]; try discriminate end.
    destruct (evf' f at_ false e2 s2 p2) as [[[[s3 p3] t3]|]|] eqn:E2; try discriminate.
    inversion H; subst. apply wf_forest_app; eapply IH; eassumption.
  - destruct (evf' f at_ false e1 s pos) as [[[[s1 p1] t1]|]|] eqn:E1; try discriminate.
    + inversion H; subst. eapply IH; eassumption.
    + eapply IH; eassumption.
  - destruct (evf' f at_ false (PPlus e) s pos) as [[[[s1 p1] t1]|]|] eqn:E1; try discriminate.
    + inversion H; subst. eapply IH; eassumption.
    + inversion H; subst. exact I.
  - destruct (evf' f at_ false e s pos) as [[[[s1 p1] t1]|]|] eqn:E1; try discriminate.
    pose proof (IH _ _ _ _ _ _ _ E1) as W1.
    match type of H with match ?x with _ => _ end = _ => destruct x as [[[[s2 p2] t2]|]|]; try discriminate end.
    + destruct (evf' f at_ false (PPlus e) s2 p2) as [[[[s3 p3] t3]|]|] eqn:E3; try discriminate.
      * inversion H; subst. apply wf_forest_app; [exact W1|]. eapply IH; eassumption.
      * inversion H; subst. exact W1.
    + inversion H; subst. exact W1.
  - destruct (evf' f at_ false e s pos) as [[[[s1 p1] t1]|]|] eqn:E1; try discriminate.
    + inversion H; subst. eapply IH; eassumption.
    + inversion H; subst. exact I.
  - destruct (evf' f at_ true e s pos) as [[[[s1 p1] t1]|]|]; try discriminate. inversion H; subst. exact I.
Qed.
End Sound.
