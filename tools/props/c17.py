"""C17 — dates: parse/print round-trips and strftime directives mean what they say."""
import datetime as pydt, itertools, json, random
from props import tpl
from lv import C, R, S, P, Opt, Zv
import lv

PROP = "C17"
TARGETS = ["props/C17.vo", "corr/C17corr.vo"]
HEADER = "From LV Require Import Corr Strftime C17corr.\n"
TRUSTED = [
    "model/Strftime.v transcribes scalar/datetime/strftime.rs (flags, width, E/O modifiers, every directive, the echo of unknown directives) and the default Display / parse form of datetime.rs; "
    "the calendar functions of the `time` crate (weekday, ordinal, sunday/monday-based week, ISO week date, unix timestamp) are modelled by the civil-calendar formulas and validated on every boundary day by the correspondence and by Python's datetime",
    "the other accepted input syntaxes of parse_date_time (time-crate format descriptions) are not modelled: they are compared with the independent reference only",
]
RULE = ("timestamps: 1-7 Jan, 25-31 Dec, 28 Feb/29 Feb/1 Mar of every year 1970..2040 and of 1, 1000, 9999 (1600 and 2000/2100 for the century rule), every hour, sub-second values 0, 1 ns, 1 us, 5 ms, 100 ms, 123456789, 999999999, offsets -12:00..+14:00 incl. :30/:45; "
        "formats: a calendar line exercising every calendar directive on every timestamp; every single directive x flag in {none,-,_,0,^,#} x width in {none,1,3,6,12} on several timestamps; composites, %%, unknown ASCII and non-ASCII directives, E/O modifiers, trailing %, "
        "width without directive, :-forms, random concatenations; Display -> from_str round trip on every timestamp; every documented input syntax with and without offset; ordering of date-times across offsets; "
        "non-trivial = a format that produces a non-empty text")

DIRECTIVES = "YCymdewuUWGgVjHkIlMSsbhBaApPFvRDxTXrc%ntLNzZ"
FLAGS = ["", "-", "_", "0", "^", "#"]
WIDTHS = ["", "1", "3", "6", "12"]
CAL_FMT = "%Y|%C|%y|%m|%d|%e|%w|%u|%U|%W|%G|%g|%V|%j|%H|%k|%I|%l|%M|%S|%s|%b|%h|%B|%a|%A|%p|%P|%F|%v|%R|%D|%x|%T|%X|%r|%c|%L|%N|%z|%Z|%:z|%::z"
OFFSETS = [-43200, -34200, -12600, -3600, 0, 3600, 12600, 19800, 20700, 31500, 34200, 45900, 50400]
NANOS = [0, 1, 1000, 5000000, 100000000, 123456789, 999999999, 50, 7000]
MONTHS = ["January", "February", "March", "April", "May", "June", "July", "August", "September", "October", "November", "December"]
DAYS = ["Monday", "Tuesday", "Wednesday", "Thursday", "Friday", "Saturday", "Sunday"]


def is_leap(y):
    return y % 4 == 0 and (y % 100 != 0 or y % 400 == 0)


def boundary_days(y):
    ds = [(1, d) for d in range(1, 8)] + [(12, d) for d in range(25, 32)] + [(2, 28), (3, 1), (6, 15)]
    if is_leap(y):
        ds.append((2, 29))
    return [(y, m, d) for m, d in ds]


# ------------------------------------------------------------------ independent reference
def ref_directive(t, ch, flag, width):
    """expected text of one directive, or None when this check leaves the combination to the model comparison"""
    y, mo, d, h, mi, s, ns, off = t
    dt = pydt.datetime(y, mo, d, h, mi, s)
    iso = dt.isocalendar()
    yday = dt.timetuple().tm_yday
    wd = dt.weekday()             # Monday = 0
    unix = (pydt.date(y, mo, d).toordinal() - pydt.date(1970, 1, 1).toordinal()) * 86400 + h * 3600 + mi * 60 + s - off
    h12 = 12 if h % 12 == 0 else h % 12
    numeric = {"Y": (y, 4, "0"), "C": (y // 100, 2, "0"), "y": (y % 100, 2, "0"), "m": (mo, 2, "0"), "d": (d, 2, "0"), "e": (d, 2, " "), "w": ((wd + 1) % 7, 0, "0"), "u": (wd + 1, 0, "0"),
               "U": (int(dt.strftime("%U")), 2, "0"), "W": (int(dt.strftime("%W")), 2, "0"), "G": (iso[0], 4, "0"), "g": (iso[0] % 100, 2, "0"), "V": (iso[1], 2, "0"), "j": (yday, 3, "0"),
               "H": (h, 2, "0"), "k": (h, 2, " "), "I": (h12, 2, "0"), "l": (h12, 2, " "), "M": (mi, 2, "0"), "S": (s, 2, "0"), "s": (unix, 0, "0")}
    alpha = {"b": MONTHS[mo - 1][:3], "h": MONTHS[mo - 1][:3], "B": MONTHS[mo - 1], "a": DAYS[wd][:3], "A": DAYS[wd]}
    hms = "%02d:%02d:%02d" % (h, mi, s)
    comp = {"F": "%04d-%02d-%02d" % (y, mo, d), "v": "%2d-%s-%04d" % (d, MONTHS[mo - 1][:3].upper(), y), "R": "%02d:%02d" % (h, mi), "D": "%02d/%02d/%02d" % (mo, d, y % 100),
            "x": "%02d/%02d/%02d" % (mo, d, y % 100), "T": hms, "X": hms, "r": "%02d:%02d:%02d %s" % (h12, mi, s, "AM" if h < 12 else "PM"),
            "c": "%s %s %2d %s %04d" % (DAYS[wd][:3], MONTHS[mo - 1][:3], d, hms, y)}
    w = int(width) if width else None
    if ch in numeric:
        v, defw, padc = numeric[ch]
        if v < 0 and (flag or width):
            return None
        if flag in ("^", "#"):
            flag = ""
        if flag == "-":
            return str(v)
        if flag == "_":
            padc = " "
        if flag == "0":
            padc = "0"
        return str(v).rjust(w if w is not None else defw, padc)
    if ch in alpha:
        sx = alpha[ch]
        if flag in ("^", "#"):
            sx = sx.upper()
        if w is not None and flag != "-":
            sx = sx.rjust(w, "0" if flag == "0" else " ")
        return sx
    if ch in ("p", "P"):
        if flag in ("^", "#"):
            return None
        sx = ("AM" if h < 12 else "PM") if ch == "p" else ("am" if h < 12 else "pm")
        if w is not None and flag != "-":
            sx = sx.rjust(w, "0" if flag == "0" else " ")
        return sx
    if ch in comp:
        if flag:
            return None
        return comp[ch].rjust(w or 0, " ")
    if ch in "%nt":
        lit = {"%": "%", "n": "\n", "t": "\t"}[ch]
        if flag in ("", "_", "^", "#"):
            return lit.rjust(w or 0, " ")
        return None
    if ch in "LN":
        if flag:
            return None
        n = w if w is not None else (3 if ch == "L" else 9)
        return ("%09d" % ns + "0" * max(0, n - 9))[:n]
    if ch in "zZ":
        if flag or width:
            return None
        sign = "-" if off < 0 else "+"
        a = abs(off)
        return "%s%02d%s%02d" % (sign, a // 3600, ":" if ch == "Z" else "", (a // 60) % 60)
    return None


def ref_format(t, fmt):
    """reference for a whole format: (text | 'ERR' | None when some piece is outside the reference)"""
    out = []
    i = 0
    n = len(fmt)
    while i < n:
        c = fmt[i]
        if c != "%":
            out.append(c)
            i += 1
            continue
        j = i + 1
        flags = ""
        while j < n and fmt[j] in "-_0^#":
            flags += fmt[j]
            j += 1
        if j >= n:
            return "ERR"
        k = j
        while k < n and fmt[k].isascii() and fmt[k].isdigit():
            k += 1
        width = fmt[j:k]
        if k >= n:
            return "ERR"
        ch = fmt[k]
        k += 1
        if ch in "EO":
            if k >= n:
                return "ERR"
            ch = fmt[k]
            k += 1
        if ch == ":":
            off = t[7]
            sign = "-" if off < 0 else "+"
            a = abs(off)
            if fmt[k:k + 1] == "z":
                if flags or width:
                    return None
                out.append("%s%02d:%02d" % (sign, a // 3600, (a // 60) % 60))
                i = k + 1
                continue
            if fmt[k:k + 2] == ":z":
                if flags or width:
                    return None
                out.append("%s%02d:%02d:%02d" % (sign, a // 3600, (a // 60) % 60, a % 60))
                i = k + 2
                continue
            # not an offset form: echoed, together with what was looked at
            look = 1 if fmt[k:k + 1] != ":" else 2
            out.append(fmt[i:min(n, k + look)])
            i = min(n, k + look)
            continue
        if ch not in DIRECTIVES:
            out.append(fmt[i:k])          # unknown directive: echoed as written
            i = k
            continue
        if width and int(width) > 2 ** 64 - 1:
            return "ERR"            # the width does not fit a machine word
        if width and int(width) > 10000:
            return None
        if len(set(flags)) > 1:
            return None
        r = ref_directive(t, ch, flags[-1:] if flags else "", width)
        if r is None:
            return None
        out.append(r)
        i = k
    return "".join(out)


def ref_display(t):
    y, mo, d, h, mi, s, ns, off = t
    frac = ("." + ("%09d" % ns).rstrip("0")) if ns else ""
    a = abs(off)
    return "%04d-%02d-%02d %02d:%02d:%02d%s %s%02d%02d" % (y, mo, d, h, mi, s, frac, "-" if off < 0 else "+", a // 3600, (a // 60) % 60)


def instant(t):
    y, mo, d, h, mi, s, ns, off = t
    return ((pydt.date(y, mo, d).toordinal() * 86400 + h * 3600 + mi * 60 + s - off) * 10 ** 9) + ns


# ------------------------------------------------------------------ generation
def dt_ir(t):
    y, mo, d, h, mi, s, ns, off = t
    return R("mkDT", R("mkDate", Zv(y), Zv(mo), Zv(d)), Zv(h), Zv(mi), Zv(s), Zv(ns), Zv(off))


def gen(tier, seed):
    rnd = random.Random(seed)
    years = list(range(1970, 2041)) + [1, 1000, 9999, 1600, 1900, 2100, 1969]
    stamps = []
    for y in years:
        for (yy, m, d) in boundary_days(y):
            stamps.append((yy, m, d, rnd.choice([0, 23, 12, rnd.randrange(24)]), rnd.choice([0, 59, 30]), rnd.choice([0, 59, 7]), rnd.choice(NANOS), rnd.choice(OFFSETS)))
    for h in range(24):
        stamps.append((2022, 11, 3, h, 56, 37, 666777888, 21600))
        stamps.append((2024, 2, 29, h, 0, 0, 5000000, -12600))
    for ns in NANOS:
        for off in OFFSETS:
            stamps.append((2001, 9, 9, 1, 46, 40, ns, off))
    if tier == "thorough":
        for _ in range(6000):
            y = rnd.choice(years + [rnd.randint(1, 9999)])
            m = rnd.randint(1, 12)
            d = rnd.randint(1, [31, 29 if is_leap(y) else 28, 31, 30, 31, 30, 31, 31, 30, 31, 30, 31][m - 1])
            stamps.append((y, m, d, rnd.randrange(24), rnd.randrange(60), rnd.randrange(60), rnd.choice(NANOS + [rnd.randrange(10 ** 9)]), rnd.choice(OFFSETS)))
    cases = []

    def add(t, fmt, why):
        cases.append({"kind": "format", "t": t, "fmt": fmt, "why": why})
    for t in stamps:
        add(t, CAL_FMT, "calendar line")
    probe = [(2022, 11, 3, 7, 56, 37, 666777888, 21600), (2000, 1, 1, 0, 0, 0, 5000000, -34200), (1999, 12, 31, 23, 59, 59, 1000, 50400), (1, 1, 1, 12, 0, 0, 1, 0), (9999, 12, 31, 13, 5, 9, 0, -43200)]
    ts3 = probe if tier == "thorough" else probe[:3]
    for ch in DIRECTIVES:
        for fl in FLAGS:
            for w in WIDTHS:
                for t in ts3:
                    add(t, "%" + fl + w + ch, "directive x flag x width")
    for t in ts3:
        for ch in DIRECTIVES:
            for fl2 in ("-0", "0-", "_0", "0_", "^#", "#^", "-^", "_^"):
                add(t, "%" + fl2 + "3" + ch, "two flags")
            add(t, "%E" + ch, "modifier")
            add(t, "%O" + ch, "modifier")
            add(t, "%-E" + ch, "modifier")
        for z in ("%:z", "%::z", "%:::z", "%:", "%::", "%:a", "%::a", "%:é", "%_:z", "%-:z", "%0:z", "%10:z", "%10::z", "%_10z", "%-10z", "%010z", "%10Z", "%_z", "%-z"):
            add(t, z, "offset forms")
        for bad in ("%", "a%", "%-", "%_0", "%5", "%05", "%E", "%O", "%-E", "%3E", "%99999999999999999999Y"):
            add(t, bad, "malformed")
        for unk in ("%q", "%J", "%é", "%√x", "%𝄞", "%-é", "%5é", "%Eé", "%!", "% ", "%1é2", "é%éé", "%f", "%i", "%K", "%Q", "%.", "%+", "%3q"):
            add(t, unk, "unknown directive")
        for lit in ("", "plain text", "é√𝄞", "100%% sure", "%%%%", "%n%t|", "%Y%%%m", "{{ %Y }}"):
            add(t, lit, "literal")
    alphabet = ["%", "%", "-", "_", "0", "^", "#", "1", "3", ":", "z", "E", "O", "é", " ", "/"] + list(DIRECTIVES)
    for _ in range(400 if tier == "quick" else 8000):
        add(rnd.choice(stamps), "".join(rnd.choice(alphabet) for _ in range(rnd.randint(1, 10))), "random concatenation")
    # input syntaxes of the parser
    for t in rnd.sample(stamps, 60 if tier == "quick" else 600) + probe:
        y, mo, d, h, mi, s, ns, off = t
        a = abs(off)
        offs = "%s%02d%02d" % ("-" if off < 0 else "+", a // 3600, (a // 60) % 60)
        hms = "%02d:%02d:%02d" % (h, mi, s)
        wd = pydt.date(y, mo, d).weekday()
        forms = [("default", "%04d-%02d-%02d %s" % (y, mo, d, hms), 0), ("subsec", "%04d-%02d-%02d %s.%s" % (y, mo, d, hms, ("%09d" % ns).rstrip("0") or "0"), ns),
                 ("day month", "%02d %s %04d %s" % (d, MONTHS[mo - 1], y, hms), 0), ("day mon", "%02d %s %04d %s" % (d, MONTHS[mo - 1][:3], y, hms), 0),
                 ("mdy", "%02d/%02d/%04d %s" % (mo, d, y, hms), 0), ("dow mon", "%s %s %d %s %04d" % (DAYS[wd][:3], MONTHS[mo - 1][:3], d, hms, y), 0)]
        for name, text, nsx in forms:
            cases.append({"kind": "parse", "text": text + " " + offs, "expect": (y, mo, d, h, mi, s, nsx, (off // 60) * 60 if off >= 0 else -((a // 60) * 60)), "why": "syntax " + name, "modelled": name in ("default", "subsec")})
            cases.append({"kind": "parse", "text": text, "expect": (y, mo, d, h, mi, s, nsx, 0), "why": "syntax " + name + " (no offset)", "modelled": False})
    for text in ["", "aaaaa", "2016-02-30 10:00:00 +0000", "2016-13-01 10:00:00 +0000", "2016-02-16 24:00:00 +0000", "2016-02-16 10:60:00 +0000", "2016-02-16 10:00:00 +0060", "2016-2-16 10:00:00 +0000",
                 "2016-02-16 10:00:00 0000", "2016-02-16 10:00:00.+0000", "2016-02-16 10:00:00. +0000", "2016-02-16 10:00:00.1234567890 +0000", "2016-02-16T10:00:00 +0000", "2016-02-16 10:00:00 +0000 ", " 2016-02-16 10:00:00 +0000",
                 "2016-02-16", "10:00:00", "2015-02-29 00:00:00 +0000", "2016-02-29 00:00:00 +0000", "1900-02-29 00:00:00 +0000", "2000-02-29 23:59:59.999999999 -1200"]:
        cases.append({"kind": "parse", "text": text, "expect": "unknown", "why": "malformed / edge text", "modelled": text != "" and not text.lstrip("+-").isdigit()})
    # ordering across offsets: pairs of the same instant and neighbours
    for _ in range(150 if tier == "quick" else 3000):
        a = rnd.choice(stamps)
        delta = rnd.choice(OFFSETS)
        ins = instant(a)
        # b: same wall-clock fields shifted so that the instants are equal, one second apart, or one nanosecond apart
        base = pydt.datetime(a[0], a[1], a[2], a[3], a[4], a[5])
        try:
            nb = base + pydt.timedelta(seconds=delta - a[7] + rnd.choice([0, 0, 1, -1, 3600]))
        except OverflowError:
            continue
        if not (1 <= nb.year <= 9999):
            continue
        b = (nb.year, nb.month, nb.day, nb.hour, nb.minute, nb.second, rnd.choice([a[6], a[6], min(999999999, a[6] + 1)]), delta)
        cases.append({"kind": "order", "a": a, "b": b, "why": "ordering across offsets"})
    for i, c in enumerate(cases):
        c["id"] = i
    dist = {"exhaustive": True, "timestamps": len(stamps)}
    for c in cases:
        dist[c["why"]] = dist.get(c["why"], 0) + 1
    return cases, dist


def dtc(t):
    return ["dtc"] + list(t)


def request(c):
    if c["kind"] == "format":
        return {"id": c["id"], "kind": "render", "tpl": "{{ t }}\n{{ t | date: f }}", "data": [["t", dtc(c["t"])], ["f", ["s", c["fmt"]]]]}
    if c["kind"] == "parse":
        return {"id": c["id"], "kind": "dateparse", "text": c["text"]}
    return {"id": c["id"], "kind": "cmp", "a": dtc(c["a"]), "b": dtc(c["b"])}


def comps(j):
    """['dt', text, y, mo, d, h, mi, s, ns, off] -> tuple"""
    return tuple(int(x) for x in j[2:10])


def main(tier, seed):
    run = lv.Run(PROP, tier, seed)
    run.trusted = lv.COMMON_TRUSTED + TRUSTED
    lv.standard_proof_phase(run, PROP, TARGETS, thorough=(tier == "thorough"))
    ok, binp, out, dt = lv.build_harness("debug")
    run.checker_cmds.append("cargo build --offline (harness over /repo)")
    if not ok:
        run.obligation(False, "harness build against /repo", out[-3000:])
        return run.finish()
    cases, dist = gen(tier, seed)
    resps, problems = lv.run_harness(binp, [request(c) for c in cases], tag="C17")
    for pb in problems:
        c = next((c for c in cases if c["id"] == pb["first_unanswered"]), None)
        run.violations.append({"what": "implementation process died", "input": c, "observed": pb["tail"]})
    suites = {"date_check": [], "dshow_check": [], "dparse_check": []}
    keys = {"date_check": [], "dshow_check": [], "dparse_check": []}
    nontriv = set()
    samples = []
    evaluations = 0
    stage2 = []
    spec_checked = 0
    for c in cases:
        r = resps.get(c["id"])
        if r is None:
            continue
        evaluations += 1
        if c["kind"] == "format":
            inp = {"timestamp": c["t"], "format": c["fmt"], "template": "{{ t | date: f }}"}
            if "panic" in r:
                run.violations.append({"what": "the date filter panicked", "input": inp, "observed": r["panic"]})
                suites["date_check"].append(R("mkD", dt_ir(c["t"]), S(c["fmt"]), C("OPanic")))
                keys["date_check"].append(c)
                continue
            shown = None
            if "ok" in r and isinstance(r["ok"], str):
                shown, _, got = r["ok"].partition("\n")
                kind = "ok"
            elif "err" in r:
                shown = (r.get("partial") or "").partition("\n")[0]
                got, kind = None, "err"
            else:
                run.violations.append({"what": "unexpected answer", "input": inp, "observed": r})
                continue
            if c["fmt"] == "":
                # an empty format returns the input unchanged (documented); nothing for the interpreter to do
                if kind != "ok" or got != shown:
                    run.violations.append({"what": "an empty format did not return the date unchanged", "input": inp, "observed": r})
                continue
            exp = ref_format(c["t"], c["fmt"])
            if exp is not None:
                spec_checked += 1
                if exp == "ERR":
                    if kind != "err":
                        run.violations.append({"what": "a malformed format was not reported as an error", "input": inp, "observed": got})
                elif kind != "ok" or got != exp:
                    run.violations.append({"what": "strftime output differs from the reference (%s)" % c["why"], "input": inp, "observed": got if kind == "ok" else r, "expected": exp})
            if kind == "ok" and got:
                nontriv.add(c["fmt"])
                if len(samples) < 3 and c["why"] != "calendar line":
                    samples.append({"request": request(c), "implementation": r})
            suites["date_check"].append(R("mkD", dt_ir(c["t"]), S(c["fmt"]), C("OOk", S(got)) if kind == "ok" else C("OErr")))
            keys["date_check"].append(c)
            if c["why"] == "calendar line":
                # Display and the round trip through from_str
                want = ref_display(c["t"])
                if shown != want:
                    run.violations.append({"what": "default printed form differs from the reference", "input": {"timestamp": c["t"]}, "observed": shown, "expected": want})
                suites["dshow_check"].append(R("mkSh", dt_ir(c["t"]), S(shown or "")))
                keys["dshow_check"].append(c)
                stage2.append({"id": len(stage2), "kind": "dateparse", "text": shown or "", "t": c["t"]})
        elif c["kind"] == "parse":
            got = comps(r["dt"]) if r.get("dt") else None
            inp = {"text": c["text"]}
            if "panic" in r:
                run.violations.append({"what": "the date parser panicked", "input": inp, "observed": r["panic"]})
                continue
            if c["expect"] != "unknown":
                if got is None or instant(got) != instant(c["expect"]) or got[7] != c["expect"][7]:
                    run.violations.append({"what": "a documented input syntax was not parsed to the instant and offset it denotes (%s)" % c["why"], "input": inp, "observed": got, "expected": c["expect"]})
                else:
                    nontriv.add(c["text"])
            if c["modelled"]:
                suites["dparse_check"].append(R("mkPD", S(c["text"]), None if got is None else ("some", dt_ir(got))))
                keys["dparse_check"].append(c)
        else:
            inp = {"a": c["a"], "b": c["b"]}
            if "panic" in r:
                run.violations.append({"what": "comparison panicked", "input": inp, "observed": r["panic"]})
                continue
            ia, ib = instant(c["a"]), instant(c["b"])
            want = "lt" if ia < ib else "gt" if ia > ib else "eq"
            ans = r.get("answers") or [{}]
            if len(ans) != 1 or ans[0].get("cmp") != want or ans[0].get("eq") != (ia == ib) or r.get("api_disagree"):
                run.violations.append({"what": "date-times are not ordered chronologically", "input": inp, "observed": r, "expected": want})
            else:
                nontriv.add(json.dumps(inp))
    # stage 2: what Display printed, parsed back
    r2, pb2 = lv.run_harness(binp, [{k: v for k, v in q.items() if k != "t"} for q in stage2], tag="C17b")
    for q in stage2:
        r = r2.get(q["id"])
        if r is None:
            continue
        evaluations += 1
        got = comps(r["dt"]) if r.get("dt") else None
        t = q["t"]
        want = t[:7] + (((t[7] // 60) * 60) if t[7] >= 0 else -((-t[7] // 60) * 60),)
        if got != want:
            run.violations.append({"what": "a date-time printed in its default form and parsed back is a different date-time", "input": {"timestamp": t, "printed": q["text"]}, "observed": got, "expected": want})
        suites["dparse_check"].append(R("mkPD", S(q["text"]), None if got is None else ("some", dt_ir(got))))
        keys["dparse_check"].append({"kind": "roundtrip", "text": q["text"]})
    okd, drv, dout, ddt = lv.build_driver()
    run.checker_cmds.append("coqc extract/Extract.v && genreaders.py && ocamlfind ocamlopt (extracted model driver)")
    run.obligation(okd, "extraction of the model and driver build", dout[-3000:])
    disagreements = 0
    for chk, irs in suites.items():
        failing = []
        if okd:
            failing, errors = lv.run_driver(drv, chk, [lv.to_sexp(t) for t in irs], tag="C17" + chk)
            run.obligation(not errors, "correspondence suite C17/%s evaluated by the extracted model" % chk, json.dumps(errors)[:3000])
            rnd = random.Random(seed)
            idx = sorted(set(failing[:30]) | set(rnd.sample(range(len(irs)), min(len(irs), 100 if tier == "quick" else 600))))
            cfail, cproblems = lv.run_coq_cases("C17" + chk, HEADER, [lv.to_coq(irs[i]) for i in idx], check_fn=chk, shard_size=50)
            run.checker_cmds.append("coqc cases_*.v (Eval vm_compute in failing %s cases) on a sample" % chk)
            run.obligation(not cproblems and sorted(idx[j] for j in cfail) == sorted(i for i in failing if i in set(idx)),
                           "extracted driver agrees with vm_compute inside Coq on %d sampled cases (%s)" % (len(idx), chk), json.dumps(cproblems)[:2000])
        disagreements += len(failing)
        for i in failing[:5]:
            c = keys[chk][i]
            run.broken.append({"obligation": "correspondence C17/%s: model and implementation disagree" % chk,
                               "input": {k: v for k, v in c.items() if k in ("t", "fmt", "text", "why")}, "implementation": resps.get(c.get("id")) if "id" in c else None})
        run.obligation(okd and not failing, "correspondence C17/%s: model == implementation on every case" % chk, "%d disagreements" % len(failing))
    dist["checked_against_independent_reference"] = spec_checked
    run.coverage.update({"evaluations": evaluations, "distinct_nontrivial": len(nontriv), "rule": RULE, "samples": samples, "traces_validated_against_impl": evaluations,
                         "disagreements_checked": disagreements, "exhaustive": True, "input_distribution": dist})
    return run.finish()
