(* Correspondence checkers for C12: a Liquid value through the three serde conversions, and Rust data
   (as a term of the serde data model) through to_value / to_object. *)
From LV Require Import Corr Serde.
Record scase := mkSC { sc_v : value; sc_to : outcome value; sc_from : outcome value; sc_json : option (outcome value) }.
Definition serde_check (c : scase) : bool :=
  outcome_same value_same (outcome_of (serde_to_value (sc_v c))) (sc_to c) &&
  outcome_same value_same (outcome_of (serde_from_value (sc_v c))) (sc_from c) &&
  match sc_json c with
  | Some j => outcome_same value_same (outcome_of (serde_json_roundtrip (sc_v c))) j
  | None => true
  end.
Record tcase := mkTC { tc_data : sd; tc_expected : outcome value }.
Definition tovalue_check (c : tcase) : bool :=
  outcome_same value_same (outcome_of (to_value_sd (tc_data c))) (tc_expected c).
(* JSON numerals / content read back as a value *)
Record ccase := mkCC { cc_content : sd; cc_expected : outcome value }.
Definition content_check (c : ccase) : bool :=
  outcome_same value_same (outcome_of (value_of_content (cc_content c))) (cc_expected c).
