(* driver: one case per line  "<checker>\t<sexp>"  ->  one answer per line: 1 | 0 | E:<why> *)
let () =
  let ic = if Array.length Sys.argv > 1 then open_in Sys.argv.(1) else stdin in
  let tbl = Hashtbl.create 64 in
  List.iter (fun (k, f) -> Hashtbl.replace tbl k f) Readers.checks;
  (try
    while true do
      let line = input_line ic in
      if String.length line > 0 then begin
        let ans =
          try
            let i = String.index line '\t' in
            let name = String.sub line 0 i in
            let body = String.sub line (i + 1) (String.length line - i - 1) in
            let f = try Hashtbl.find tbl name with Not_found -> failwith ("no checker " ^ name) in
            if f (Sexp.parse body) then "1" else "0"
          with
          | Prim.Bad m -> "E:bad input " ^ m
          | Sexp.Parse_error m -> "E:sexp " ^ m
          | Failure m -> "E:" ^ m
          | Stack_overflow -> "E:stack overflow"
          | Not_found -> "E:malformed line"
        in
        print_string ans; print_newline ()
      end
    done
  with End_of_file -> ());
  flush stdout
