"""progen.py — generators of well-formed programs over a small name alphabet (C04, C08, C09, C10, C19):
the same name is at once a caller datum, an assigned variable, a loop variable, a counter and a partial argument."""
import itertools, random
from props.tpl import lit, var, I, Sx, elsif

NAMES = ["a", "b", "c"]
DATA = [["a", ["s", "dA"]], ["b", ["a", [["i", "1"], ["i", "2"]]]], ["arr", ["a", [["s", "x"], ["s", "y"]]]]]


def read(x):
    """prints the value of x, or '-' when it is nil/undefined (never fails)"""
    return [("text", "["), ("if", True, ("ex", var(x)), [("out", (var(x), []))], [("text", "-")]), ("text", "]")]


def reads_all():
    out = [("text", "|")]
    for x in NAMES:
        out += read(x)
    return out


class Gen:
    def __init__(self, rnd, partial_names=(), allow=("assign", "capture", "inc", "dec", "for", "if", "include", "read", "text"), names=NAMES):
        self.rnd, self.partials, self.allow, self.names, self.k = rnd, list(partial_names), set(allow) | {"case", "comment", "raw"}, names, 0

    def fresh(self):
        self.k += 1
        return "v%d" % self.k

    def expr(self):
        r = self.rnd.random()
        if r < 0.5:
            return Sx(self.fresh())
        if r < 0.6:
            return I(self.rnd.randint(0, 9))
        return var(self.rnd.choice(self.names))

    def stmt(self, depth, in_loop):
        r = self.rnd
        kinds = [k for k in self.allow if not (k in ("for", "capture", "if", "ifchanged", "tablerow", "case") and depth <= 0)]
        if not in_loop:
            kinds = [k for k in kinds if k not in ("break", "continue")]
        if not self.partials:
            kinds = [k for k in kinds if k not in ("include", "render")]
        k = r.choice(sorted(kinds))
        x = r.choice(self.names)
        if k == "text":
            return [("text", r.choice([".", ",", "t", " "]))]
        if k == "read":
            return read(x)
        if k == "assign":
            e = self.expr()
            fs = [] if r.random() < 0.75 else [r.choice([("append", [Sx("+")]), ("prepend", [var(r.choice(self.names))]), ("size", []), ("default", [Sx("d")]), ("last", []), ("first", []), ("join", [Sx("/")])])]
            return [("assign", x, (e, fs))]
        if k == "comment":
            return [("comment", r.choice(["note", "{{ a }}", "{% assign a = 'zz' %}{% increment b %}", " {{ nope.x }} ", "{% if a %}{% assign c = 'zz' %}{% endif %}"]))]
        if k == "raw":
            return [("raw", r.choice(["{{ a }}", "{% assign a = 'zz' %}", "r", " {%- x -%} "]))]
        if k == "case":
            vals = lambda: [r.choice([Sx("dA"), I(1), I(2), var(r.choice(self.names)), lit(["n"]), Sx("v1")]) for _ in range(r.randint(1, 2))]
            arms = [(vals(), self.body(depth - 1, in_loop, 2)) for _ in range(r.randint(1, 3))]
            return [("case", r.choice([var(x), I(1), var("nope")]), arms, self.body(depth - 1, in_loop, 1) if r.random() < 0.5 else None)]
        if k == "capture":
            return [("capture", x, self.body(depth - 1, in_loop, 2))]
        if k == "inc":
            return [("inc", x)]
        if k == "dec":
            return [("dec", x)]
        if k == "for":
            rng = r.choice([("arr", var("arr")), ("cnt", I(1), I(r.randint(0, 3))), ("arr", var(r.choice(self.names)))])
            if rng[0] == "arr" and rng[1][1] != "arr":
                # iterate whatever the name is bound to only when it is certainly a collection: guard with the arr datum instead
                rng = ("arr", var("arr"))
            els = self.body(depth - 1, in_loop, 1) if r.random() < 0.3 else None
            lim = I(r.randint(0, 3)) if r.random() < 0.2 else None
            off = I(r.randint(0, 2)) if r.random() < 0.2 else None
            return [("for", x, rng, lim, off, r.random() < 0.2, self.body(depth - 1, True, 3), els)]
        if k == "tablerow":
            return [("tablerow", x, ("arr", var("arr")), I(r.randint(1, 2)) if r.random() < 0.5 else None, None, None, self.body(depth - 1, in_loop, 2))]
        if k == "if":
            c = r.choice([("ex", var(x)), ("bin", var(x), "==", Sx("dA")), ("ex", var("nope"))])
            els = self.body(depth - 1, in_loop, 1) if r.random() < 0.5 else None
            mode = r.random() < 0.8
            if mode and r.random() < 0.3:
                els = [elsif(r.choice([("ex", var(r.choice(self.names))), ("bin", var(x), "!=", Sx("dA")), ("ex", lit(["b", True]))]), self.body(depth - 1, in_loop, 1), els)]
            return [("if", mode, c, self.body(depth - 1, in_loop, 2), els)]
        if k == "ifchanged":
            return [("ifchanged", self.body(depth - 1, in_loop, 2))]
        if k == "cycle":
            return [("cycle", None if r.random() < 0.6 else "g", [Sx("c%d" % i) for i in range(r.randint(1, 3))])]
        if k in ("break", "continue"):
            return [("if", True, ("bin", var("forloop", "index"), "==", I(r.randint(1, 2))), [(k,)], None)] if r.random() < 0.7 else [(k,)]
        if k == "include":
            args = [(y, self.expr()) for y in r.sample(self.names, r.randint(0, 2))]
            return [("include", Sx(r.choice(self.partials)), args)]
        if k == "render":
            pname = Sx(r.choice(self.partials))
            form = r.choice([None, None, ("with", self.expr(), r.choice(self.names)), (("arr", var("arr")), r.choice(self.names)), (("cnt", I(1), I(2)), r.choice(self.names))])
            args = [(y, self.expr()) for y in r.sample(self.names, r.randint(0, 2))]
            return [("render", pname, form, args)]
        raise ValueError(k)

    def body(self, depth, in_loop, maxlen):
        out = []
        for _ in range(self.rnd.randint(1, maxlen)):
            out += self.stmt(depth, in_loop)
        return out

    def program(self, size=5, depth=3):
        out = []
        for _ in range(self.rnd.randint(1, size)):
            out += self.stmt(depth, False)
        return out + reads_all()
