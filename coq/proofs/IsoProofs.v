(* C08: render isolates the partial — what a rendered partial does never reaches the caller:
   the caller's registers (pending break/continue, cycle positions, ifchanged memory) are untouched and
   every frame of the caller is unchanged except the counter layer (counters are shared, C18). *)
From LV Require Import Base Value Stack Eval BaseLemmas StackProofs EvalInd EvalProofs ShapeProofs GenInv.

(* ---------- registers: only the innermost register set is ever written ---------- *)
Definition RA (s s' : est) : Prop := esim s s' /\ tl (rg s) = tl (rg s').
Lemma RA_refl s : RA s s. Proof. split; [apply esim_refl|reflexivity]. Qed.
Lemma RA_trans a b c : RA a b -> RA b c -> RA a c.
Proof. intros [E1 T1] [E2 T2]. split; [eapply esim_trans; eassumption|congruence]. Qed.
Lemma RA_wfr s s' : wfr s -> RA s s' -> wfr s'. Proof. intros W [E _]. eapply wfr_esim; eassumption. Qed.
Lemma RA_regs g s : wfr s -> RA s (set_regs g s).
Proof. intro W. split; [apply esim_set_regs; exact W|reflexivity]. Qed.
Lemma RA_global x v s f' : set_global x v (fr s) = Ok f' -> RA s (mkEst f' (rg s)).
Proof. intro H. split; [apply esim_frames; eapply sim_set_global; exact H|reflexivity]. Qed.
Lemma RA_index x v s f' : set_index x v (fr s) = Ok f' -> RA s (mkEst f' (rg s)).
Proof. intro H. split; [apply esim_frames; eapply sim_set_index; exact H|reflexivity]. Qed.
Lemma RA_pop_plain a s s' : RA (push_plain a s) s' -> RA s (pop_plain s').
Proof. intros [E T]. split; [apply (esim_pop_plain a); exact E|exact T]. Qed.
Lemma RA_pop_sandbox a s s' : RA (push_sandbox a s) s' -> RA s (pop_sandbox s').
Proof.
  intros [E T]. split; [apply (esim_pop_sandbox a); exact E|]. simpl in T. unfold pop_sandbox; simpl. rewrite <- T. reflexivity.
Qed.
Theorem registers_inner_only O ps : forall d l, GSH RA (render O ps d l).
Proof. apply G_render; eauto using RA_refl, RA_trans, RA_wfr, RA_regs, RA_global, RA_index, RA_pop_plain, RA_pop_sandbox. Qed.

(* ---------- frames: below a global layer nothing but counters is written ---------- *)
Inductive fstrict : frame -> frame -> Prop :=
| st_plain d : fstrict (FPlain d) (FPlain d)
| st_sand d : fstrict (FSandbox d) (FSandbox d)
| st_glob d : fstrict (FGlobal d) (FGlobal d)
| st_idx d d' : fstrict (FIndex d) (FIndex d').
Definition strict (r r' : rt) := Forall2 fstrict r r'.
Lemma fstrict_refl f : fstrict f f. Proof. destruct f; constructor. Qed.
Lemma strict_refl r : strict r r. Proof. induction r; constructor; auto using fstrict_refl. Qed.
Lemma fstrict_trans a b c : fstrict a b -> fstrict b c -> fstrict a c.
Proof. intros H1 H2; inversion H1; subst; inversion H2; subst; constructor. Qed.
Lemma strict_trans a b c : strict a b -> strict b c -> strict a c.
Proof. unfold strict. intros H; revert c; induction H; intros c H2; inversion H2; subst; constructor; eauto using fstrict_trans. Qed.

Definition RB (s s' : est) : Prop :=
  esim s s' /\
  forall top base, fr s = top ++ base -> has_global top = true ->
    exists top' base', fr s' = top' ++ base' /\ length top' = length top /\ strict base base'.

Lemma sim_app_split top base top' base' : sim (top ++ base) (top' ++ base') -> length top' = length top ->
  sim top top' /\ sim base base'.
Proof.
  revert top'; induction top as [|f top IH]; intros [|f' top'] H L; simpl in *; try discriminate; [split; [constructor|exact H]|].
  inversion H; subst. destruct (IH top') as [H1 H2]; [assumption|lia|]. split; [constructor; assumption|exact H2].
Qed.
Lemma sim_has_global a b : sim a b -> has_global a = has_global b.
Proof. induction 1 as [|x y l l' Hxy H IH]; [reflexivity|]. inversion Hxy; subst; simpl; auto. Qed.

Lemma RB_refl s : RB s s.
Proof. split; [apply esim_refl|]. intros top base E _. exists top, base. repeat split; auto using strict_refl. Qed.
Lemma RB_trans a b c : RB a b -> RB b c -> RB a c.
Proof.
  intros [E1 H1] [E2 H2]. split; [eapply esim_trans; eassumption|]. intros top base E G.
  destruct (H1 top base E G) as [top1 [base1 [F1 [L1 S1]]]].
  assert (G1 : has_global top1 = true).
  { destruct E1 as [Sm _]. rewrite E, F1 in Sm. destruct (sim_app_split _ _ _ _ Sm L1) as [St _].
    rewrite <- (sim_has_global _ _ St). exact G. }
  destruct (H2 top1 base1 F1 G1) as [top2 [base2 [F2 [L2 S2]]]].
  exists top2, base2. repeat split; [exact F2|lia|eapply strict_trans; eassumption].
Qed.
Lemma RB_wfr s s' : wfr s -> RB s s' -> wfr s'. Proof. intros W [E _]. eapply wfr_esim; eassumption. Qed.
Lemma RB_regs g s : wfr s -> RB s (set_regs g s).
Proof. intro W. split; [apply esim_set_regs; exact W|]. intros top base E _. exists top, base. simpl. repeat split; auto using strict_refl. Qed.

Lemma set_global_app x v top base f' : has_global top = true -> set_global x v (top ++ base) = Ok f' ->
  exists top', f' = top' ++ base /\ length top' = length top.
Proof.
  revert f'; induction top as [|f top IH]; intros f' G H; simpl in *; [discriminate|].
  destruct f as [d|d|d|d];
    try (destruct (set_global x v (top ++ base)) as [q| | |] eqn:E; simpl in H; try discriminate; inversion H; subst;
         destruct (IH q G eq_refl) as [top' [-> L]]; eexists (_ :: top'); split; [reflexivity|simpl; lia]).
  inversion H; subst. eexists (_ :: top). split; [reflexivity|reflexivity].
Qed.
Lemma set_index_app x v top base f' : set_index x v (top ++ base) = Ok f' ->
  exists top' base', f' = top' ++ base' /\ length top' = length top /\ strict base base'.
Proof.
  revert f'; induction top as [|f top IH]; intros f' H; simpl in *.
  - exists [], f'. repeat split. clear - H. revert f' H. induction base as [|f q IHb]; intros f' H; simpl in H; [discriminate|].
    destruct f as [d|d|d|d];
      try (destruct (set_index x v q) as [q'| | |]; simpl in H; try discriminate; inversion H; subst;
           constructor; [apply fstrict_refl|apply IHb; reflexivity]).
    inversion H; subst. constructor; [constructor|apply strict_refl].
  - destruct f as [d|d|d|d];
      try (destruct (set_index x v (top ++ base)) as [q| | |] eqn:E; simpl in H; try discriminate; inversion H; subst;
           destruct (IH q eq_refl) as [top' [base' [-> [L S]]]]; eexists (_ :: top'), base'; repeat split; [simpl; lia|exact S]).
    inversion H; subst. eexists (_ :: top), base. repeat split. apply strict_refl.
Qed.
Lemma RB_global x v s f' : set_global x v (fr s) = Ok f' -> RB s (mkEst f' (rg s)).
Proof.
  intro H. split; [apply esim_frames; eapply sim_set_global; exact H|]. intros top base E G. simpl.
  rewrite E in H. destruct (set_global_app _ _ _ _ _ G H) as [top' [-> L]]. exists top', base. repeat split; auto using strict_refl.
Qed.
Lemma RB_index x v s f' : set_index x v (fr s) = Ok f' -> RB s (mkEst f' (rg s)).
Proof.
  intro H. split; [apply esim_frames; eapply sim_set_index; exact H|]. intros top base E G. simpl.
  rewrite E in H. destruct (set_index_app _ _ _ _ _ H) as [top' [base' [-> [L S]]]]. exists top', base'. auto.
Qed.
Lemma RB_pop_plain a s s' : RB (push_plain a s) s' -> RB s (pop_plain s').
Proof.
  intros [E H]. split; [apply (esim_pop_plain a); exact E|]. intros top base Ef G.
  destruct (H (FPlain a :: top) base) as [top' [base' [F [L S]]]]; [simpl; rewrite Ef; reflexivity|exact G|].
  destruct top' as [|f top']; [simpl in L; discriminate|]. exists top', base'. simpl. rewrite F. simpl. repeat split; [simpl in L; lia|exact S].
Qed.
Lemma RB_pop_sandbox a s s' : RB (push_sandbox a s) s' -> RB s (pop_sandbox s').
Proof.
  intros [E H]. split; [apply (esim_pop_sandbox a); exact E|]. intros top base Ef G.
  destruct (H (FGlobal [] :: FSandbox a :: top) base) as [top' [base' [F [L S]]]]; [simpl; rewrite Ef; reflexivity|reflexivity|].
  destruct top' as [|f1 [|f2 top']]; simpl in L; try discriminate. exists top', base'. simpl. rewrite F. simpl. repeat split; [lia|exact S].
Qed.
Theorem frames_below_global_kept O ps : forall d l, GSH RB (render O ps d l).
Proof. apply G_render; eauto using RB_refl, RB_trans, RB_wfr, RB_regs, RB_global, RB_index, RB_pop_plain, RB_pop_sandbox. Qed.

(* ---------- the render tag ---------- *)
(* whatever the partial does (assign, capture, break, continue, cycle, ifchanged, nested include and
   render ...), after `render 'p', args` the caller's registers are exactly what they were, and its
   frames are what they were except for counter contents *)
Theorem render_isolates O ps d p args s k : wfr s ->
  match rnode O ps (render O ps d) (NRender p None args) s k with
  | (_, s', _) => rg s' = rg s /\ strict (fr s) (fr s')
  end.
Proof.
  intro W. cbn [rnode].
  destruct (eval_expr O p s) as [pv| | |]; cbn [of_res]; try (split; [reflexivity|apply strict_refl]).
  destruct pv; try (split; [reflexivity|apply strict_refl]).
  destruct (eval_args O args s []) as [a| | |]; cbn [of_res]; try (split; [reflexivity|apply strict_refl]).
  match goal with |- context [of_res ?r s k _] => destruct r as [body| | |]; cbn [of_res]; try (split; [reflexivity|apply strict_refl]) end.
  pose proof (registers_inner_only O ps d body (push_sandbox a s) k (wfr_push_sandbox _ _)) as HA.
  pose proof (frames_below_global_kept O ps d body (push_sandbox a s) k (wfr_push_sandbox _ _)) as HB.
  destruct (render O ps d body (push_sandbox a s) k) as [[o1 s1] k1].
  destruct HA as [_ TA]. destruct HB as [_ HB]. simpl in TA. split.
  - unfold pop_sandbox; simpl. rewrite <- TA. reflexivity.
  - destruct (HB [FGlobal []; FSandbox a] (fr s) eq_refl eq_refl) as [top' [base' [F [L S]]]].
    destruct top' as [|f1 [|f2 [|f3 top']]]; simpl in L; try discriminate.
    unfold pop_sandbox; simpl. rewrite F. simpl. exact S.
Qed.
(* the variable view of the partial is closed: a lookup inside the sandbox never sees the caller *)
Theorem render_view_closed O p a q q' g :
  try_get O p (FGlobal g :: FSandbox a :: q) = try_get O p (FGlobal g :: FSandbox a :: q').
Proof.
  destruct p as [|k p']; [reflexivity|]. simpl. destruct (has_key (scalar_kstr O k) g); reflexivity.
Qed.
(* include is inlining: the partial's body runs on the caller's runtime with one more frame holding
   the arguments, which is popped afterwards *)
Theorem include_is_inline O ps rec p args s k pv a body :
  eval_expr O p s = Ok (VScalar pv) -> eval_args O args s [] = Ok a -> ps (to_kstr O (VScalar pv)) = Ok body ->
  rnode O ps rec (NInclude p args) s k = match rec body (push_plain a s) k with (o, s', k') => (o, pop_plain s', k') end.
Proof. intros H1 H2 H3. cbn [rnode]. rewrite H1. cbn [of_res]. rewrite H2. cbn [of_res]. rewrite H3. reflexivity. Qed.
(* a missing or broken partial fails with an error — only when the tag is executed — never a crash *)
Theorem missing_partial_is_error O ps rec p args s k pv a c :
  eval_expr O p s = Ok (VScalar pv) -> eval_args O args s [] = Ok a -> ps (to_kstr O (VScalar pv)) = Err c ->
  rnode O ps rec (NInclude p args) s k = (OFail c, s, k).
Proof. intros H1 H2 H3. cbn [rnode]. rewrite H1. cbn [of_res]. rewrite H2. cbn [of_res]. rewrite H3. reflexivity. Qed.
