(* Filters_date.v — crates/lib/src/stdlib/filters/date.rs: the `date` filter.  The formatter is the strftime
   interpreter of Strftime.v; the conversion of a text to a date-time (DateTime::from_str: six syntaxes and unix
   timestamps) is the oracle `dparse`, a table observed from the implementation ("now"/"today" read the clock and
   are outside the model). *)
From LV Require Export Strftime.

Section D.
Variable O : oracle.
(* Scalar::to_date_time *)
Definition to_date_time (sc : scalar) : option datetime :=
  match sc with SDateTime t => Some t | SStr s => dparse O s | _ => None end.
Definition date_filter (input : value) (args : list value) : res value :=
  match args with
  | [a] =>
      let fmt := to_kstr O a in
      match input with
      | VScalar sc =>
          match to_date_time sc with
          | Some t => match fmt with
                      | [] => Ok input
                      | _ => match strftime t fmt with Ok s => Ok (VScalar (SStr s)) | _ => Err EOther end    (* "Invalid date-format string" *)
                      end
          | None => Ok input
          end
      | _ => Ok input
      end
  | _ => Err EParse          (* the parser rejects a wrong number of arguments *)
  end.
End D.
