(* C10 — A failing output sink produces an error and a clean prefix, never a panic.
   Statements only; proofs in proofs/SinkProofs.v (simulation between the run into an unbounded
   sink and the run into a sink that accepts n more bytes, composed over every construct). *)
From LV Require Import Base Value Stack Eval SinkProofs.

(* for every template, data, partial store and byte budget n: if the fault-free output is longer than n
   the render returns a sink error having accepted exactly its first n bytes (nothing is written after
   the failure); otherwise the result and the bytes are those of the fault-free run *)
Theorem sink_prefix : forall O ps depth t data n,
  match render_top O ps depth t data (mkSink [] None) with
  | (r_inf, _, k_inf) =>
      match render_top O ps depth t data (mkSink [] (Some n)) with
      | (r, _, k) =>
          (n < length (acc k_inf) -> r = OFail ESink /\ acc k = firstn n (acc k_inf)) /\
          (length (acc k_inf) <= n -> r = r_inf /\ acc k = acc k_inf)
      end
  end.
Proof. exact SinkProofs.sink_prefix. Qed.
(* the compositional form, from any runtime state and any already-accepted prefix *)
Theorem sink_simulation : forall O ps d l, SP (render O ps d l).
Proof. exact SinkProofs.SP_render. Qed.
(* the building blocks: one write, sequencing with interrupt polling, the three loops *)
Theorem write_respects_budget : forall t, SP (fun s k => write_str s k t).
Proof. exact SinkProofs.SP_write. Qed.
Theorem sequencing_respects_budget : forall f cont, SP f -> SP cont -> SP (fun s k => seq_step (f s k) cont).
Proof. exact SinkProofs.SP_seq. Qed.
Theorem for_respects_budget : forall body x len parent, SP body -> forall vs i, SP (for_loop body x len parent vs i).
Proof. exact SinkProofs.SP_for. Qed.
Theorem tablerow_respects_budget : forall body x len cols, SP body -> forall vs i, SP (tablerow_loop body x len cols vs i).
Proof. exact SinkProofs.SP_tablerow. Qed.

(* non-vacuity: a tablerow over two items with a budget that ends inside the first cell *)
Example c10_nonvacuous :
  let t := [NTableRow [120%N] (RCounted (ELit (VScalar (SInt 1))) (ELit (VScalar (SInt 2)))) None None None [NOutput (EVar (SStr [120%N]) [], [])]] in
  match render_top no_oracle_v (fun _ => Err EOther) 1 t [] (mkSink [] (Some 20)), render_top no_oracle_v (fun _ => Err EOther) 1 t [] (mkSink [] None) with
  | (r, _, k), (r', _, k') => r = OFail ESink /\ length (acc k) = 20 /\ r' = ODone /\ acc k = firstn 20 (acc k') /\ 20 < length (acc k')
  end.
Proof. vm_compute. repeat split; try reflexivity; lia. Qed.

Print Assumptions sink_prefix.
Print Assumptions sink_simulation.
Print Assumptions write_respects_budget.
Print Assumptions sequencing_respects_budget.
Print Assumptions for_respects_budget.
Print Assumptions tablerow_respects_budget.
