(* C20 — Parsers and templates can be shared across threads without changing results.
   Statements only; proofs in proofs/StoreProofs.v.  PARTIAL by nature: the theorem covers the logic
   (what the lock protects, and that every answer is a function of the sources); mutual exclusion of
   the mutex, Send/Sync soundness, poisoning and the scheduler are runtime behaviour exercised by the
   thread schedules of the check, not proved. *)
From LV Require Import Base Partials StoreProofs.

Section C20.
Variable src tmpl : Type.
Variable compile : src -> res tmpl.
(* for every number of threads, every program per thread and EVERY interleaving of their store
   accesses (each access = the critical section check-compile-insert, taken atomically), every call
   gets the answer it would get alone — including the first simultaneous use of a lazily compiled
   partial, valid or broken *)
Theorem schedule_independent : forall s sched ts c, cache_inv src tmpl compile s c ->
  Forall (fun e => snd e = ondemand_answer src tmpl compile s (snd (fst e))) (sched_run src tmpl compile s c ts sched).
Proof. exact (StoreProofs.schedule_independent src tmpl compile). Qed.
(* the invariant every atomic step preserves *)
Theorem step_preserves_inv : forall s c q, cache_inv src tmpl compile s c ->
  fst (lazy_step src tmpl compile s c q) = ondemand_answer src tmpl compile s q /\
  cache_inv src tmpl compile s (snd (lazy_step src tmpl compile s c q)).
Proof. exact (StoreProofs.lazy_step_inv src tmpl compile). Qed.
(* later use is unaffected: after any schedule the next lookup answers as on a fresh parser *)
Theorem later_use_unaffected : forall s history c0, cache_inv src tmpl compile s c0 -> forall n,
  fst (lazy_get src tmpl compile s (snd (lazy_run src tmpl compile s c0 history)) n) = ondemand_get src tmpl compile s n.
Proof. exact (StoreProofs.history_independent src tmpl compile). Qed.
End C20.

(* non-vacuity: two threads touching the same broken partial first, in both orders *)
Example c20_nonvacuous :
  let compile := fun (t : nat) => if Nat.eqb t 0 then Err EParse else Ok t in
  let s := [([98%N], 0); ([112%N], 7)] in
  let ts := [[CGet [98%N]; CGet [112%N]]; [CTryGet [98%N]; CGet [98%N]]] in
  map (fun e => snd e) (sched_run nat nat compile s [] ts [0; 1; 1; 0]) = [AGet nat (Err EParse); ATry nat None; AGet nat (Err EParse); AGet nat (Ok 7)] /\
  map (fun e => snd e) (sched_run nat nat compile s [] ts [1; 0; 0; 1]) = [ATry nat None; AGet nat (Err EParse); AGet nat (Ok 7); AGet nat (Err EParse)].
Proof. vm_compute. split; reflexivity. Qed.

Print Assumptions schedule_independent.
Print Assumptions step_preserves_inv.
Print Assumptions later_use_unaffected.
