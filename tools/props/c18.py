"""C18 — runtime stack algebra: generator, abstract specification, Coq case printer."""
import itertools, random
from lv import C, R, S, P, Opt, val_ir, obj_ir, scalar_ir, to_coq

PROP = "C18"
TARGETS = ["props/C18.vo", "corr/C18corr.vo"]
HEADER = "From LV Require Import Corr Stack C18corr.\n"
TRUSTED = [
    "model/Stack.v transcribes crates/core/src/runtime/stack.rs + RuntimeBuilder/RuntimeCore of runtime.rs; model/Value.v transcribes model/find.rs",
    "Rust types guarantee a RuntimeCore at the bottom of every stack (the model's empty list); registers are not part of C18",
]

A, B = "a", "b"
SC = ["i", "1"]
OB = ["o", [["a", ["i", "7"]]]]
SETV = [["i", "5"], ["o", [["b", ["i", "9"]]]]]


def maps():
    out = []
    for va in (None, SC, OB):
        for vb in (None, ["s", "x"], OB):
            d = []
            if va is not None:
                d.append([A, va])
            if vb is not None:
                d.append([B, vb])
            out.append(d)
    return out


MAPS = maps()
OPS = ([["plain", d] for d in MAPS] + [["sandbox", d] for d in MAPS] + [["global"], ["pop"]]
       + [["setg", k, v] for k in (A, B) for v in SETV] + [["seti", k, v] for k in (A, B) for v in SETV])
SMALL_MAPS = [MAPS[0], MAPS[4], MAPS[2], MAPS[6]]
SMALL_OPS = ([["plain", d] for d in SMALL_MAPS] + [["sandbox", d] for d in SMALL_MAPS] + [["global"], ["pop"]]
             + [["setg", A, SETV[0]], ["setg", B, SETV[1]], ["seti", A, SETV[0]], ["seti", B, SETV[1]]])

PROBES = [[], [["s", A]], [["s", B]]] + [[["s", x], ["s", y]] for x in (A, B) for y in (A, B, "size")] + [[["s", A], ["i", "0"]]]
NAMES = [A, B]


def gen(tier, seed):
    rnd = random.Random(seed)
    cases = []
    datas = [MAPS[0], MAPS[4], MAPS[8]]
    # exhaustive: every sequence of length 3 over the full operation alphabet (observations after
    # every step cover the shorter ones), over the empty base data
    for ops in itertools.product(OPS, repeat=3):
        cases.append({"data": MAPS[0], "ops": list(ops), "exh": True})
    n_exh = len(cases)
    # exhaustive length 4 / 5 over the reduced alphabet
    L = 4 if tier == "quick" else 5
    for ops in itertools.product(SMALL_OPS, repeat=L):
        if tier == "quick" and rnd.random() > 0.25:
            continue
        cases.append({"data": rnd.choice(datas), "ops": list(ops), "exh": tier != "quick"})
    # random: lengths 4..6 over the full alphabet, biased towards push so that pops have something to pop
    nrand = 3000 if tier == "quick" else 60000
    for _ in range(nrand):
        n = rnd.randint(4, 6)
        ops = []
        for _ in range(n):
            r = rnd.random()
            if r < 0.45:
                ops.append(rnd.choice(OPS[:19]))
            elif r < 0.6:
                ops.append(["pop"])
            else:
                ops.append(rnd.choice(OPS[20:]))
        cases.append({"data": rnd.choice(MAPS), "ops": ops, "exh": False})
    for i, c in enumerate(cases):
        c["id"] = i
    return cases, {"exhaustive_len3_full_alphabet": n_exh, "alphabet": len(OPS), "reduced_alphabet": len(SMALL_OPS)}


def request(c):
    return {"id": c["id"], "kind": "stack", "data": c["data"], "probes": PROBES, "names": NAMES, "ops": c["ops"]}


# ---- abstract specification: a stack of (kind, map), written from the property text ----
def nav(v, path):
    """step through a value: objects by key (size overlay), arrays by index, scalars size"""
    for s in path:
        if v is None:
            return None
        key = s[1]
        if v[0] == "o":
            m = dict((k, x) for k, x in v[1])
            if key in m:
                v = m[key]
            elif key == "size":
                v = ["i", str(len(v[1]))]
            else:
                return None
        elif v[0] == "a":
            return None
        elif v[0] in ("i", "s"):
            if key == "size":
                v = ["i", str(len(str(v[1])))]
            else:
                return None
        else:
            return None
    return v


def canon(v):
    if v is None:
        return None
    if v[0] == "o":
        return ["o", sorted([[k, canon(x)] for k, x in v[1]])]
    if v[0] == "a":
        return ["a", [canon(x) for x in v[1]]]
    return list(v)


class Abs:
    def __init__(self, data):
        self.layers = [("index", {}), ("plain", dict((k, v) for k, v in data)), ("global", {})]  # bottom .. top
        self.base = 3

    def apply(self, op):
        t = op[0]
        if t in ("plain", "sandbox"):
            self.layers.append((t, dict((k, v) for k, v in op[1])))
        elif t == "global":
            self.layers.append(("global", {}))
        elif t == "pop":
            if len(self.layers) > self.base:
                self.layers.pop()
        elif t == "setg":
            for kind, m in reversed(self.layers):
                if kind == "global":
                    m[op[1]] = op[2]
                    break
        elif t == "seti":
            for kind, m in reversed(self.layers):
                if kind == "index":
                    m[op[1]] = op[2]
                    break

    def resolve(self, name):
        for kind, m in reversed(self.layers):
            if name in m:
                return m
            if kind == "sandbox":
                return None
        return None

    def lookup(self, path):
        if not path:
            return None
        m = self.resolve(path[0][1])
        if m is None:
            return None
        return nav(["o", [[k, v] for k, v in m.items()]], path)

    def roots(self):
        out = set()
        for kind, m in reversed(self.layers):
            out |= set(m.keys())
            if kind == "sandbox":
                break
        return sorted(out)

    def counter(self, name):
        for kind, m in reversed(self.layers):
            if kind == "index":
                return m.get(name)
        return None

    def observe(self):
        tr = [canon(self.lookup(p)) for p in PROBES]
        return {"try": tr, "get": tr, "roots": self.roots(), "idx": [canon(self.counter(n)) for n in NAMES]}


def spec_check(c, resp):
    """the property evaluated on the implementation's answers; returns None or a violation dict"""
    if "panic" in resp:
        return {"what": "panic in runtime stack operation", "input": c, "observed": resp["panic"]}
    a = Abs(c["data"])
    obs = resp["obs"]
    steps = [None] + c["ops"]
    if len(obs) != len(steps):
        return {"what": "observation count", "input": c, "observed": len(obs), "expected": len(steps)}
    for i, (op, o) in enumerate(zip(steps, obs)):
        if op is not None:
            a.apply(op)
        exp = a.observe()
        got = {"try": [canon(x) for x in o["try"]], "get": [canon(x) for x in o["get"]],
               "roots": sorted(o["roots"]), "idx": [canon(x) for x in o["idx"]]}
        if got != exp:
            return {"what": "scope stack answers differ from the abstract stack of maps after step %d" % i,
                    "input": {"data": c["data"], "ops": c["ops"][:i], "probes": PROBES},
                    "observed": got, "expected": exp}
    return None


def nontrivial(c, resp):
    # a trace is non-trivial when at least one lookup resolves and at least one push happened
    return any(op[0] in ("plain", "sandbox", "global") for op in c["ops"]) and \
        any(x is not None for o in resp.get("obs", []) for x in o["try"])


# ---- the case as a term of type c18case (corr/C18corr.v) ----
CHECKER = "c18_check"


def op_ir(op):
    t = op[0]
    if t == "plain":
        return C("OpPushPlain", obj_ir(op[1]))
    if t == "sandbox":
        return C("OpPushSandbox", obj_ir(op[1]))
    if t == "global":
        return C("OpPushGlobal")
    if t == "pop":
        return C("OpPop")
    if t == "setg":
        return C("OpSetGlobal", S(op[1]), val_ir(op[2]))
    if t == "seti":
        return C("OpSetIndex", S(op[1]), val_ir(op[2]))
    raise ValueError(op)


def obs_ir(o):
    return R("mkObs", [Opt(val_ir, x) for x in o["try"]], [Opt(val_ir, x) for x in o["get"]],
             [S(k) for k in o["roots"]], [Opt(val_ir, x) for x in o["idx"]])


PROBES_IR = [[scalar_ir(x) for x in p] for p in PROBES]
NAMES_IR = [S(n) for n in NAMES]


def case_ir(c, resp):
    return R("mkCase", obj_ir(c["data"]), PROBES_IR, NAMES_IR, [op_ir(o) for o in c["ops"]], [obs_ir(o) for o in resp["obs"]])
