"""scen.py — scenarios shared by C09 (histories), C19 (compilation policies) and C20 (threads):
a parser with partial sources, a few templates with stateful constructs, a few data objects."""
import random
from props import tpl, progen
from props.tpl import lit, var, I, Sx
from props.progen import read, reads_all

BROKEN = "{% if %}oops"
ARR = ("arr", var("arr"))


def fixed_scenarios():
    S = []
    stateful = [("cycle", None, [Sx("c1"), Sx("c2"), Sx("c3")]), ("inc", "n"), ("dec", "m"), ("ifchanged", [("out", (var("a"), []))]),
                ("assign", "g", (Sx("G"), [])), ("capture", "cap", [("text", "K"), ("out", (var("a"), []))])] + read("g") + read("cap") + read("n")
    t1 = [("for", "x", ARR, None, None, False, stateful + [("text", ";")], None)] + reads_all()
    # fails midway: error raised inside a loop after a break was requested / inside capture / inside a partial
    t2 = [("for", "x", ARR, None, None, False, [("cycle", None, [Sx("c1"), Sx("c2"), Sx("c3")]), ("inc", "n"),
           ("if", True, ("bin", var("x"), "==", Sx("y")), [("break",)], None), ("assign", "g", (var("x"), []))], None),
          ("capture", "cap", [("text", "in"), ("out", (var("boom"), []))]), ("text", "never")]
    t3 = [("cycle", None, [Sx("c1"), Sx("c2"), Sx("c3")]), ("include", Sx("p"), []), ("render", Sx("q"), None, [("v", var("a"))]), ("include", Sx("bad"), []), ("text", "never")]
    # every block that renders its body into a buffer of its own, failing after the body has written something on
    # some data and succeeding on other data, with the result made visible
    t5 = [("capture", "cap", [("text", "in"), ("out", (var("boom"), []))])] + read("cap") + \
         [("ifchanged", [("text", "ic"), ("out", (var("boom"), []))]), ("text", "|"),
          ("for", "x", ARR, None, None, False, [("capture", "c2", [("out", (var("x"), [])), ("out", (var("boom"), []))])] + read("c2"), None)]
    t4 = read("g") + read("cap") + read("n") + [("cycle", None, [Sx("c1"), Sx("c2"), Sx("c3")]), ("ifchanged", [("text", "same")]), ("inc", "n")]
    partials = [("p", [("text", "<p"), ("inc", "n"), ("cycle", None, [Sx("c1"), Sx("c2"), Sx("c3")]), ("assign", "g", (Sx("pG"), [])), ("text", ">")]),
                ("q", [("text", "<q"), ("out", (var("v"), [])), ("break",), ("text", "never>")]), ("bad", BROKEN)]
    datas = [[["a", ["s", "A1"]], ["arr", ["a", [["s", "x"], ["s", "y"], ["s", "z"]]]]],
             [["a", ["s", "A2"]], ["arr", ["a", [["s", "y"]]]], ["boom", ["s", "B"]]],
             [["arr", ["a", []]]]]
    S.append({"partials": partials, "templates": [t1, t2, t3, t4, t5], "datas": datas})
    # a scenario whose partials are all fine, used more than once within a render
    partials2 = [("p", [("text", "("), ("out", (var("k"), [])), ("inc", "n"), ("text", ")")]), ("unused_bad", BROKEN)]
    u1 = [("for", "x", ARR, None, None, False, [("include", Sx("p"), [("k", var("x"))]), ("render", Sx("p"), None, [("k", var("x"))])], None), ("include", var("pn"), [("k", Sx("dyn"))])]
    u2 = [("text", "no partial here"), ("inc", "n")]
    u3 = [("if", True, ("ex", var("nope")), [("include", Sx("unused_bad"), []), ("include", Sx("missing"), [])], [("text", "dead path ok")])]
    datas2 = [[["arr", ["a", [["s", "x"], ["s", "y"]]]], ["pn", ["s", "p"]]], [["arr", ["a", []]], ["pn", ["s", "missing"]]]]
    S.append({"partials": partials2, "templates": [u1, u2, u3], "datas": datas2})
    # whatever a parsed template could memoise must depend on the data of the render: literal inputs with variable
    # arguments, conditions, cycle values, loop attributes, partial arguments — rendered with data that differ in exactly those
    w1 = [("out", (Sx("Hello, "), [("append", [var("a")])])), ("text", "|"), ("out", (I(10), [("plus", [var("n")]), ("times", [var("n")])])), ("text", "|"),
          ("assign", "t", (I(10), [("minus", [var("n")])])), ("out", (var("t"), [])), ("text", "|"), ("out", (Sx("a-b-c"), [("split", [Sx("-")]), ("join", [var("a")])]))]
    w2 = [("if", True, ("bin", I(2), "==", var("n")), [("text", "two")], [("text", "not two")]), ("text", "|"),
          ("case", var("n"), [([I(1)], [("text", "one")]), ([var("k")], [("text", "k")])], [("text", "other")]), ("text", "|"),
          ("cycle", None, [var("a"), Sx("fixed")]), ("cycle", None, [var("a"), Sx("fixed")]), ("text", "|"),
          ("for", "x", ARR, var("n"), None, False, [("out", (var("x"), []))], [("text", "none")]), ("text", "|"),
          ("for", "x", ("cnt", I(1), var("n")), None, None, False, [("out", (var("x"), []))], None), ("text", "|"),
          ("render", Sx("p"), None, [("k", var("a"))]), ("include", Sx("p"), [("k", I(7))])]
    w3 = [("out", (Sx("x"), [("append", [var("boom")])])), ("text", "never")]
    datas3 = [[["a", ["s", "Alice"]], ["n", ["i", "1"]], ["k", ["i", "2"]], ["arr", ["a", [["s", "x"], ["s", "y"], ["s", "z"]]]]],
              [["a", ["s", "Bob"]], ["n", ["i", "2"]], ["k", ["i", "2"]], ["arr", ["a", [["s", "p"], ["s", "q"]]]], ["boom", ["s", "B"]]],
              [["a", ["i", "3"]], ["n", ["i", "3"]], ["k", ["i", "3"]], ["arr", ["a", []]]]]
    S.append({"partials": partials2, "templates": [w1, w2, w3], "datas": datas3})
    return S


def random_scenario(rnd):
    allow = ("assign", "capture", "inc", "dec", "for", "if", "include", "render", "read", "text", "break", "continue", "cycle", "ifchanged")
    p3 = progen.Gen(rnd, partial_names=[], allow=allow).body(2, False, 3)
    p2 = progen.Gen(rnd, partial_names=["p3"], allow=allow).body(2, False, 3)
    p1 = progen.Gen(rnd, partial_names=["p2", "p3"], allow=allow).body(2, False, 3)
    parts = [("p1", p1), ("p2", p2), ("p3", p3)]
    r = rnd.random()
    if r < 0.25:
        i = rnd.randrange(3)
        parts[i] = (parts[i][0], BROKEN)
    elif r < 0.4:
        parts.pop(rnd.randrange(3))
    tpls = [progen.Gen(rnd, partial_names=["p1", "p2", "p3"], allow=allow).program(size=4, depth=3) for _ in range(rnd.randint(2, 3))]
    if rnd.random() < 0.5:
        tpls.append([("text", "t"), ("out", (var("undefined_name"), [])), ("text", "never")])
    datas = [progen.DATA, [["a", ["i", "7"]], ["arr", ["a", [["i", "1"]]]]]] + ([[["arr", ["a", []]]]] if rnd.random() < 0.5 else [])
    return {"partials": parts, "templates": tpls, "datas": datas}


def partials_req(sc):
    return [[n, b if isinstance(b, str) else tpl.body_text(b)] for n, b in sc["partials"]]


def same(a, b):
    """two call results are the same result (error texts are compared too: they are deterministic)"""
    return a == b


def classify(r):
    return tpl.observed(r)
