//! C12: one datum seen through every view and conversion the library offers; each view is reduced to a
//! fingerprint (kind, state answers, printed forms, structure with objects in key order).
use crate::val;
use liquid::model::{ArrayView, DateTime, Date, KString, Object, ObjectView, Scalar, State, Value, ValueCow, ValueView};
use serde_json::{json, Value as J};
use std::collections::{BTreeMap, HashMap};

/// structural dump with object entries sorted by key (construction-independent)
pub fn canon(v: &dyn ValueView) -> J {
    if let Some(s) = v.as_scalar() {
        val::scalar_to_json(&s.into_owned())
    } else if let Some(a) = v.as_array() {
        json!(["a", a.values().map(canon).collect::<Vec<_>>()])
    } else if let Some(o) = v.as_object() {
        let mut es: Vec<(String, J)> = o.iter().map(|(k, x)| (k.as_str().to_owned(), canon(x))).collect();
        es.sort_by(|a, b| a.0.cmp(&b.0));
        json!(["o", es.into_iter().map(|(k, x)| json!([k, x])).collect::<Vec<_>>()])
    } else if let Some(st) = v.as_state() {
        json!(["st", format!("{:?}", st)])
    } else if v.is_nil() {
        json!(["n"])
    } else {
        json!(["?", v.type_name()])
    }
}

fn has_multi_key_object(v: &dyn ValueView) -> bool {
    if let Some(o) = v.as_object() {
        o.size() > 1 || o.values().any(has_multi_key_object)
    } else if let Some(a) = v.as_array() {
        a.values().any(has_multi_key_object)
    } else {
        false
    }
}

pub fn fp(v: &dyn ValueView) -> J {
    let ordered = !has_multi_key_object(v);
    let mut keys: Vec<String> = v.as_object().map(|o| o.keys().map(|k| k.as_str().to_owned()).collect()).unwrap_or_default();
    keys.sort();
    let eq_states: Vec<[bool; 2]> = [State::Truthy, State::DefaultValue, State::Empty, State::Blank].iter().map(|st| {
        let lit = Value::State(*st);
        [liquid::model::ValueViewCmp::new(v) == liquid::model::ValueViewCmp::new(&lit), liquid::model::ValueViewCmp::new(&lit) == liquid::model::ValueViewCmp::new(v)]
    }).collect();
    json!({
        "type": v.type_name(),
        "truthy": v.query_state(State::Truthy), "default": v.query_state(State::DefaultValue),
        "empty": v.query_state(State::Empty), "blank": v.query_state(State::Blank),
        "eq_states": eq_states,
        "render": if ordered { json!(v.render().to_string()) } else { J::Null },
        "source": if ordered { json!(v.source().to_string()) } else { J::Null },
        "kstr": if ordered { json!(v.to_kstr().as_str()) } else { J::Null },
        "flags": [v.is_scalar(), v.is_array(), v.is_object(), v.is_state(), v.is_nil()],
        "canon": canon(v),
        "to_value": canon(&v.to_value()),
        "size": v.as_array().map(|a| a.size()).or_else(|| v.as_object().map(|o| o.size())),
        "keys": keys,
        "first_last": v.as_array().map(|a| json!([a.first().map(canon), a.last().map(canon), a.get(0).map(canon), a.get(-1).map(canon), a.contains_key(0), a.contains_key(a.size())])),
        "members": v.as_object().map(|o| {
            let mut ks: Vec<String> = o.keys().map(|k| k.as_str().to_owned()).collect();
            ks.sort();
            ks.iter().map(|k| json!([k, o.contains_key(k), o.get(k).map(canon)])).collect::<Vec<_>>()
        }),
        "missing_member": v.as_object().map(|o| json!([o.contains_key("\u{1}nope"), o.get("\u{1}nope").map(canon)])),
    })
}

fn res<T>(r: Result<T, liquid::Error>, f: impl Fn(&T) -> J) -> J {
    match r {
        Ok(x) => f(&x),
        Err(e) => json!({"error": e.to_string()}),
    }
}

pub fn run(req: &J) -> J {
    let v = val::from_json(&req["v"]);
    let mut views: Vec<(&str, J)> = Vec::new();
    views.push(("value", fp(&v)));
    views.push(("ref", fp(&&v)));
    views.push(("refref", fp(&&&v)));
    views.push(("as_view", fp(v.as_view())));
    views.push(("cow_borrowed", fp(&ValueCow::Borrowed(&v))));
    views.push(("cow_owned", fp(&ValueCow::Owned(v.clone()))));
    views.push(("cow_into_owned", fp(&ValueCow::Borrowed(&v).into_owned())));
    views.push(("cow_as_view", fp(ValueCow::Borrowed(&v).as_view())));
    views.push(("to_value", fp(&v.to_value())));
    views.push(("clone", fp(&v.clone())));
    if v.is_nil() {
        views.push(("option_none", fp(&None::<Value>)));
        views.push(("option_none_i64", fp(&None::<i64>)));
    } else {
        views.push(("option_some", fp(&Some(v.clone()))));
        views.push(("option_some_ref", fp(&Some(&v))));
    }
    match &v {
        Value::Scalar(s) => {
            views.push(("scalar", fp(s)));
            views.push(("scalar_cow", fp(&v.as_scalar().unwrap())));
            views.push(("scalar_owned", fp(&v.as_scalar().unwrap().into_owned())));
            match s.type_name() {
                "whole number" => views.push(("prim", fp(&s.to_integer().unwrap()))),
                "fractional number" => views.push(("prim", fp(&s.to_float().unwrap()))),
                "boolean" => views.push(("prim", fp(&s.to_bool().unwrap()))),
                "date time" => views.push(("prim", fp(&s.to_date_time().unwrap()))),
                "date" => views.push(("prim", fp(&s.to_date().unwrap()))),
                _ => {
                    let t = s.to_kstr().as_str().to_owned();
                    views.push(("prim", fp(&t.as_str())));
                    views.push(("prim_string", fp(&t)));
                    views.push(("prim_kstring", fp(&KString::from_ref(&t))));
                }
            }
        }
        Value::Array(a) => {
            views.push(("array", fp(a)));
            let vv: Vec<Value> = a.iter().cloned().collect();
            views.push(("vec", fp(&vv)));
            let vr: Vec<&Value> = a.iter().collect();
            views.push(("vec_of_refs", fp(&vr)));
            let vc: Vec<ValueCow<'_>> = a.iter().map(|x| ValueCow::Borrowed(x as &dyn ValueView)).collect();
            views.push(("vec_of_cows", fp(&vc)));
        }
        Value::Object(o) => {
            views.push(("object", fp(o)));
            let h: HashMap<String, Value> = o.iter().map(|(k, x)| (k.as_str().to_owned(), x.clone())).collect();
            views.push(("hashmap", fp(&h)));
            let b: BTreeMap<String, Value> = o.iter().map(|(k, x)| (k.as_str().to_owned(), x.clone())).collect();
            views.push(("btreemap", fp(&b)));
            let bk: BTreeMap<KString, &Value> = o.iter().map(|(k, x)| (k.clone(), x)).collect();
            views.push(("btreemap_kstring_refs", fp(&bk)));
            views.push(("to_object", res(liquid::model::to_object(o), |x| fp(x))));
        }
        Value::State(s) => views.push(("state", fp(s))),
        Value::Nil => {}
    }
    // serde
    views.push(("serde_to_value", res(liquid::model::to_value(&v), |x| fp(x))));
    views.push(("serde_from_value", res(liquid::model::from_value::<Value>(&v), |x| fp(x))));
    let js = serde_json::to_value(&v);
    views.push(("json", match &js { Ok(j) => j.clone(), Err(e) => json!({"error": e.to_string()}) }));
    if let Ok(j) = js {
        views.push(("serde_json_roundtrip", match serde_json::from_value::<Value>(j) { Ok(x) => fp(&x), Err(e) => json!({"error": e.to_string()}) }));
    }
    json!({"views": views.into_iter().map(|(k, x)| json!([k, x])).collect::<Vec<_>>()})
}

// ---- Rust data through serde and through the derive macros ----
#[derive(liquid::ObjectView, liquid::ValueView, serde::Serialize, serde::Deserialize, Debug, Clone, PartialEq)]
struct Inner {
    n: i64,
    label: String,
}
#[derive(liquid::ObjectView, liquid::ValueView, serde::Serialize, serde::Deserialize, Debug, Clone, PartialEq)]
struct Outer {
    flag: bool,
    int: i64,
    float: f64,
    text: String,
    ks: KString,
    opt: Option<i64>,
    opt_text: Option<String>,
    list: Vec<i64>,
    words: Vec<String>,
    inner: Inner,
    inners: Vec<Inner>,
    maybe_inner: Option<Inner>,
    map: BTreeMap<String, i64>,
    when: DateTime,
    day: Date,
}

fn i(j: &J, k: &str) -> i64 {
    j[k].as_str().map(|s| s.parse().unwrap()).or_else(|| j[k].as_i64()).unwrap_or(0)
}

pub fn derive(req: &J) -> J {
    let d = &req["d"];
    let inner = |j: &J| Inner { n: i(j, "n"), label: j["label"].as_str().unwrap_or("").to_owned() };
    let o = Outer {
        flag: d["flag"].as_bool().unwrap_or(false),
        int: i(d, "int"),
        float: f64::from_bits(d["float"].as_str().unwrap_or("0").parse().unwrap()),
        text: d["text"].as_str().unwrap_or("").to_owned(),
        ks: KString::from_ref(d["ks"].as_str().unwrap_or("")),
        opt: d["opt"].as_str().map(|s| s.parse().unwrap()),
        opt_text: d["opt_text"].as_str().map(|s| s.to_owned()),
        list: d["list"].as_array().map(|a| a.iter().map(|x| x.as_str().unwrap().parse().unwrap()).collect()).unwrap_or_default(),
        words: d["words"].as_array().map(|a| a.iter().map(|x| x.as_str().unwrap().to_owned()).collect()).unwrap_or_default(),
        inner: inner(&d["inner"]),
        inners: d["inners"].as_array().map(|a| a.iter().map(inner).collect()).unwrap_or_default(),
        maybe_inner: if d["maybe_inner"].is_null() { None } else { Some(inner(&d["maybe_inner"])) },
        map: d["map"].as_object().map(|m| m.iter().map(|(k, x)| (k.clone(), x.as_str().unwrap().parse().unwrap())).collect()).unwrap_or_default(),
        when: DateTime::from_str(d["when"].as_str().unwrap_or("2001-02-03 04:05:06 +0000")).expect("when"),
        day: Date::from_str(d["day"].as_str().unwrap_or("2001-02-03")).expect("day"),
    };
    let serde_obj = liquid::model::to_object(&o);
    let back = serde_obj.as_ref().ok().map(|x| liquid::model::from_value::<Outer>(x));
    json!({
        "derive": fp(&o),
        "derive_ref": fp(&&o),
        "derive_to_value": fp(&o.to_value()),
        "serde": res(serde_obj, |x| fp(x)),
        "serde_to_value": res(liquid::model::to_value(&o), |x| fp(x)),
        "back_equal": match back { Some(Ok(b)) => json!(b == o || (b.float.is_nan() && o.float.is_nan())), Some(Err(e)) => json!({"error": e.to_string()}), None => J::Null },
    })
}

// ---- a second struct family: shapes whose fields can all be nil / false / blank / empty at once ----
#[derive(liquid::ObjectView, liquid::ValueView, serde::Serialize, serde::Deserialize, Debug, Clone, PartialEq)]
struct Leaf {
    label: String,
}
#[derive(liquid::ObjectView, liquid::ValueView, serde::Serialize, serde::Deserialize, Debug, Clone, PartialEq)]
struct Blankish {
    text: String,
    flag: bool,
    opt: Option<String>,
    list: Vec<String>,
    nest: Option<Leaf>,
    leaf: Leaf,
}
#[derive(liquid::ObjectView, liquid::ValueView, serde::Serialize, serde::Deserialize, Debug, Clone, PartialEq)]
struct Single {
    v: Option<i64>,
}
#[derive(liquid::ObjectView, liquid::ValueView, serde::Serialize, serde::Deserialize, Debug, Clone, PartialEq)]
struct Unit {}

fn struct_views<T: ValueView + ObjectView + serde::Serialize>(o: &T) -> J {
    json!({
        "derive": fp(o),
        "derive_ref": fp(&o),
        "option_some": fp(&Some(o)),
        "cow_borrowed": fp(&ValueCow::Borrowed(o)),
        "cow_into_owned": fp(&ValueCow::Borrowed(o).into_owned()),
        "derive_to_value": fp(&o.to_value()),
        "serde_object": res(liquid::model::to_object(o), |x| fp(x)),
        "serde_to_value": res(liquid::model::to_value(o), |x| fp(x)),
    })
}

pub fn derive2(req: &J) -> J {
    let d = &req["d"];
    let st = |k: &str| d[k].as_str().unwrap_or("").to_owned();
    match req["shape"].as_str().unwrap_or("") {
        "blankish" => struct_views(&Blankish {
            text: st("text"),
            flag: d["flag"].as_bool().unwrap_or(false),
            opt: d["opt"].as_str().map(|s| s.to_owned()),
            list: d["list"].as_array().map(|a| a.iter().map(|x| x.as_str().unwrap().to_owned()).collect()).unwrap_or_default(),
            nest: d["nest"].as_str().map(|s| Leaf { label: s.to_owned() }),
            leaf: Leaf { label: st("leaf") },
        }),
        "single" => struct_views(&Single { v: d["v"].as_str().map(|s| s.parse().unwrap()) }),
        "leaf" => struct_views(&Leaf { label: st("label") }),
        _ => struct_views(&Unit {}),
    }
}

// ---- integers across the i64 / u64 boundaries ----
pub fn ints(req: &J) -> J {
    let s = req["n"].as_str().unwrap();
    let mut out = serde_json::Map::new();
    let show = |r: Result<Value, liquid::Error>| match r { Ok(v) => canon(&v), Err(e) => json!({"error": e.to_string()}) };
    if let Ok(x) = s.parse::<u64>() {
        out.insert("u64".into(), show(liquid::model::to_value(&x)));
        if let Ok(y) = u32::try_from(x) { out.insert("u32".into(), show(liquid::model::to_value(&y))); }
        if let Ok(y) = u8::try_from(x) { out.insert("u8".into(), show(liquid::model::to_value(&y))); }
        out.insert("usize".into(), show(liquid::model::to_value(&(x as usize))));
        out.insert("u128".into(), show(liquid::model::to_value(&(x as u128))));
    }
    if let Ok(x) = s.parse::<i64>() {
        out.insert("i64".into(), show(liquid::model::to_value(&x)));
        if let Ok(y) = i32::try_from(x) { out.insert("i32".into(), show(liquid::model::to_value(&y))); }
        if let Ok(y) = i8::try_from(x) { out.insert("i8".into(), show(liquid::model::to_value(&y))); }
        out.insert("i128".into(), show(liquid::model::to_value(&(x as i128))));
        // back out again as the narrower types
        let v = Value::scalar(x);
        let back = |r: Result<J, liquid::Error>| match r { Ok(j) => j, Err(e) => json!({"error": e.to_string()}) };
        out.insert("as_u8".into(), back(liquid::model::from_value::<u8>(&v).map(|y| json!(y.to_string()))));
        out.insert("as_i32".into(), back(liquid::model::from_value::<i32>(&v).map(|y| json!(y.to_string()))));
        out.insert("as_u64".into(), back(liquid::model::from_value::<u64>(&v).map(|y| json!(y.to_string()))));
        out.insert("as_i64".into(), back(liquid::model::from_value::<i64>(&v).map(|y| json!(y.to_string()))));
    }
    if let Ok(x) = s.parse::<i128>() {
        out.insert("i128_wide".into(), show(liquid::model::to_value(&x)));
    }
    // the numeral as a map KEY (MapKeySerializer prints integer keys): one entry, key = the decimal numeral
    {
        use std::collections::BTreeMap;
        macro_rules! key_of { ($t:ty, $name:expr) => {
            if let Ok(x) = s.parse::<$t>() {
                let mut m: BTreeMap<$t, i32> = BTreeMap::new();
                m.insert(x, 1);
                out.insert($name.into(), show(liquid::model::to_value(&m)));
            }
        } }
        key_of!(u64, "key_u64"); key_of!(i64, "key_i64"); key_of!(u8, "key_u8"); key_of!(i8, "key_i8");
        key_of!(u32, "key_u32"); key_of!(i32, "key_i32"); key_of!(usize, "key_usize"); key_of!(u16, "key_u16"); key_of!(i16, "key_i16");
    }
    // the same numeral read as JSON
    out.insert("json".into(), match serde_json::from_str::<Value>(s) { Ok(v) => canon(&v), Err(e) => json!({"error": e.to_string()}) });
    out.insert("json_in_object".into(), match serde_json::from_str::<Object>(&format!("{{\"k\": {}}}", s)) { Ok(v) => canon(&v), Err(e) => json!({"error": e.to_string()}) });
    let _ = Scalar::new(0i64);
    J::Object(out)
}
