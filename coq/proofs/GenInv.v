(* The evaluator preserves any relation between the state before and after that is a preorder,
   is kept by register updates, global/counter assignments and by pushing/popping scope frames.
   (The shape invariant of ShapeProofs.v is one instance; render isolation is another.) *)
From LV Require Import Base Value Stack Eval BaseLemmas StackProofs EvalInd EvalProofs ShapeProofs.

Section Generic.
Variable Rl : est -> est -> Prop.
Hypothesis Rl_refl : forall s, Rl s s.
Hypothesis Rl_trans : forall a b c, Rl a b -> Rl b c -> Rl a c.
Hypothesis Rl_wfr : forall s s', wfr s -> Rl s s' -> wfr s'.
Hypothesis Rl_regs : forall g s, wfr s -> Rl s (set_regs g s).
Hypothesis Rl_global : forall x v s f', set_global x v (fr s) = Ok f' -> Rl s (mkEst f' (rg s)).
Hypothesis Rl_index : forall x v s f', set_index x v (fr s) = Ok f' -> Rl s (mkEst f' (rg s)).
Hypothesis Rl_pop_plain : forall a s s', Rl (push_plain a s) s' -> Rl s (pop_plain s').
Hypothesis Rl_pop_sandbox : forall a s s', Rl (push_sandbox a s) s' -> Rl s (pop_sandbox s').

Definition GSH (f : est -> sink -> out) : Prop :=
  forall s k, wfr s -> match f s k with (_, s', _) => Rl s s' end.

Lemma GSH_write t : GSH (fun s k => write_str s k t).
Proof. intros s k W. unfold write_str. destruct (write k (encode t)). apply Rl_refl. Qed.

Lemma GSH_seq f cont : GSH f -> GSH cont -> GSH (fun s k => seq_step (f s k) cont).
Proof.
  intros Hf Hc s k W. specialize (Hf s k W). destruct (f s k) as [[o s1] k1]. unfold seq_step.
  destruct o; try assumption. destruct (interrupted s1); [assumption|].
  specialize (Hc s1 k1 (Rl_wfr _ _ W Hf)). destruct (cont s1 k1) as [[o2 s2] k2]. eapply Rl_trans; eassumption.
Qed.

(* a body run inside a pushed plain frame, the frame popped afterwards *)





Lemma GSH_for body x len parent : GSH body -> forall vs i, GSH (for_loop body x len parent vs i).
Proof.
  intros Hb; induction vs as [|v vs IH]; intros i s k W; [apply Rl_refl|]. rewrite for_loop_cons.
  specialize (Hb (push_plain (iter_frame x len parent i v) s) k (wfr_push_plain _ _ W)).
  destruct (body (push_plain (iter_frame x len parent i v) s) k) as [[o s1] k1].
  apply Rl_pop_plain in Hb.
  assert (W1 : wfr (pop_plain s1)) by (eapply Rl_wfr; eassumption).
  assert (E2 : Rl s (clear_intr (pop_plain s1))) by (eapply Rl_trans; [exact Hb|apply Rl_regs; exact W1]).
  destruct o; try exact Hb.
  destruct (r_intr (get_regs (pop_plain s1))) as [[|]|]; try exact E2;
    (specialize (IH (i + 1)%Z (clear_intr (pop_plain s1)) k1 (Rl_wfr _ _ W E2));
     destruct (for_loop body x len parent vs (i + 1)%Z (clear_intr (pop_plain s1)) k1) as [[o2 s2] k2];
     eapply Rl_trans; eassumption).
Qed.



Lemma GSH_tablerow body x len cols : GSH body -> forall vs i, GSH (tablerow_loop body x len cols vs i).
Proof.
  intros Hb; induction vs as [|v vs IH]; intros i s k W; [apply Rl_refl|]. cbn [tablerow_loop].
  match goal with |- context [write_str s k ?t] => destruct (write_str_cases s k t) as [k0 [E|E]]; rewrite E end; [|apply Rl_refl].
  match goal with |- context [body (push_plain ?a s) k0] =>
    specialize (Hb (push_plain a s) k0 (wfr_push_plain _ _ W)); destruct (body (push_plain a s) k0) as [[o1 s1] k1] end.
  apply Rl_pop_plain in Hb. destruct o1; try exact Hb.
  match goal with |- context [write_str (pop_plain s1) k1 ?t] => destruct (write_str_cases (pop_plain s1) k1 t) as [k2 [E2|E2]]; rewrite E2 end; [|exact Hb].
  specialize (IH (i + 1)%Z (pop_plain s1) k2 (Rl_wfr _ _ W Hb)).
  destruct (tablerow_loop body x len cols vs (i + 1)%Z (pop_plain s1) k2) as [[o3 s3] k3]. eapply Rl_trans; eassumption.
Qed.

Lemma GSH_render_for body x len base : GSH body -> forall vs i, GSH (render_for_loop body x len base vs i).
Proof.
  intros Hb; induction vs as [|v vs IH]; intros i s k W; [apply Rl_refl|]. cbn [render_for_loop].
  destruct (base s) as [b0| | |]; cbn [of_res]; try apply Rl_refl.
  match goal with |- context [body (push_sandbox ?a s) k] =>
    specialize (Hb (push_sandbox a s) k (wfr_push_sandbox _ _)); destruct (body (push_sandbox a s) k) as [[o1 s1] k1] end.
  apply Rl_pop_sandbox in Hb. destruct o1; try exact Hb.
  destruct (match r_intr (get_regs s1) with Some Brk => true | _ => false end); [exact Hb|].
  specialize (IH (i + 1)%Z (pop_sandbox s1) k1 (Rl_wfr _ _ W Hb)).
  destruct (render_for_loop body x len base vs (i + 1)%Z (pop_sandbox s1) k1) as [[o3 s3] k3]. eapply Rl_trans; eassumption.
Qed.

Section GAll.
Variable O : oracle. Variable ps : pstore.
Variable rec : template -> est -> sink -> out.
Hypothesis rec_SH : forall l, GSH (rec l).
Notation rn := (rnode O ps rec).
Notation rl := (rlist O ps rec).

Lemma GSH_rlist_of l : Forall (fun n => GSH (rn n)) l -> GSH (rl l).
Proof.
  induction 1 as [|n l Hn _ IH]; [intros s k W; apply Rl_refl|].
  exact (GSH_seq (rn n) (rl l) Hn IH).
Qed.
Lemma GSH_ropt o : optF (fun n => GSH (rn n)) o -> GSH (ropt_list O ps rec o).
Proof. destruct o as [l|]; simpl; intro H; [apply GSH_rlist_of; exact H|intros s k W; apply Rl_refl]. Qed.




Ltac of_res_tac := match goal with |- context [of_res ?r _ _ _] => destruct r; cbn [of_res]; try apply Rl_refl end.

Lemma case_any_Rl tv body (rest : out) st k : wfr st ->
  (match rest with (_, s', _) => Rl st s' end) -> GSH (rl body) -> forall l,
  match (fix any (l : list expr) : out :=
           match l with
           | [] => rest
           | a :: l' => of_res (eval_expr O a st) st k (fun av => if value_eq av tv then rl body st k else any l')
           end) l with (_, s', _) => Rl st s' end.
Proof.
  intros W Hr Hb. induction l as [|a l IH]; [exact Hr|].
  destruct (eval_expr O a st); cbn [of_res]; try apply Rl_refl.
  destruct (value_eq a0 tv); [apply Hb; exact W|exact IH].
Qed.

Theorem GSH_rnode : forall n, GSH (rn n).
Proof.
  induction n using node_ind'; intros st k W.
  - apply (GSH_write s st k W).
  - apply (GSH_write s st k W).
  - apply Rl_refl.
  - cbn [rnode]. of_res_tac. apply (GSH_write _ st k W).
  - cbn [rnode]. of_res_tac. destruct (set_global x a (fr st)) eqn:E; cbn [of_res]; try apply Rl_refl.
    eapply Rl_global; exact E.
  - rewrite rnode_capture. pose proof (GSH_rlist_of b H st sink0 W) as Hb.
    destruct (rl b st sink0) as [[o s1] kc]. destruct o; try exact Hb.
    destruct (decode (acc kc)); [|exact Hb].
    destruct (set_global x (VScalar (SStr s)) (fr s1)) eqn:E; cbn [of_res]; try exact Hb.
    eapply Rl_trans; [exact Hb|]. eapply Rl_global; exact E.
  - cbn [rnode]. match goal with |- context [write_str st k ?t] => destruct (write_str_cases st k t) as [k0 [E|E]]; rewrite E end; [|apply Rl_refl].
    match goal with |- context [set_index x ?v (fr st)] => destruct (set_index x v (fr st)) eqn:E2; cbn [of_res]; try apply Rl_refl end.
    eapply Rl_index; exact E2.
  - cbn [rnode]. match goal with |- context [write_str st k ?t] => destruct (write_str_cases st k t) as [k0 [E|E]]; rewrite E end; [|apply Rl_refl].
    match goal with |- context [set_index x ?v (fr st)] => destruct (set_index x v (fr st)) eqn:E2; cbn [of_res]; try apply Rl_refl end.
    eapply Rl_index; exact E2.
  - cbn [rnode]. of_res_tac. destruct a as [i g]. cbn [fst snd].
    pose proof (Rl_regs g st W) as Hs. destruct (nth_error vs i); [|exact Hs].
    of_res_tac; try exact Hs. pose proof (GSH_write (Value.render O a) (set_regs g st) k (Rl_wfr _ _ W Hs)) as Hw.
    destruct (write_str (set_regs g st) k (Value.render O a)) as [[o1 s1] k1]. eapply Rl_trans; eassumption.
  - rewrite rnode_if. of_res_tac. destruct (Bool.eqb a m); [apply GSH_rlist_of; assumption|apply GSH_ropt; assumption].
  - rewrite rnode_case. of_res_tac.
    induction ws as [|[args body] ws IHw]; [apply GSH_ropt; assumption|].
    inversion H as [|? ? Hb Hr]; subst. simpl in Hb.
    apply case_any_Rl; [exact W|apply IHw; assumption|apply GSH_rlist_of; assumption].
  - rewrite rnode_for. repeat of_res_tac.
    match goal with |- context [iter_array ?a ?b ?c ?d] => destruct (iter_array a b c d) eqn:Esel end; [apply GSH_ropt; assumption|].
    apply GSH_for; [apply GSH_rlist_of; assumption|exact W].
  - rewrite (ShapeProofs.rnode_tablerow O ps rec). repeat of_res_tac.
    destruct a0 as [[|p|p]|]; try apply Rl_refl; apply GSH_tablerow; try (apply GSH_rlist_of; assumption); exact W.
  - cbn [rnode]. apply Rl_regs; exact W.
  - cbn [rnode]. apply Rl_regs; exact W.
  - rewrite (ShapeProofs.rnode_ifchanged O ps rec). pose proof (GSH_rlist_of b H st sink0 W) as Hb.
    destruct (rl b st sink0) as [[o s1] kc]. destruct o; try exact Hb.
    destruct (decode (acc kc)) as [t|]; [|exact Hb]. cbv zeta.
    assert (W1 : wfr s1) by (eapply Rl_wfr; eassumption).
    match goal with |- context [set_regs ?g s1] => pose proof (Rl_regs g s1 W1) as Hs end.
    destruct (match r_changed (get_regs s1) with Some l => negb (str_eqb l t) | None => true end).
    + match goal with |- context [write_str ?s2 k t] => destruct (write_str_cases s2 k t) as [k0 [E|E]]; rewrite E end;
        eapply Rl_trans; eassumption.
    + eapply Rl_trans; eassumption.
  - cbn [rnode]. of_res_tac. destruct a0; try apply Rl_refl. repeat of_res_tac.
    pose proof (rec_SH a1 (push_plain a0 st) k (wfr_push_plain _ _ W)) as Hb.
    destruct (rec a1 (push_plain a0 st) k) as [[o1 s1] k1]. apply Rl_pop_plain in Hb. exact Hb.
  - cbn [rnode]. of_res_tac. destruct a0; try apply Rl_refl.
    destruct f as [[rng x]|].
    + of_res_tac. destruct a0 as [|v0 vs0]; [apply Rl_refl|]. repeat of_res_tac.
      apply GSH_render_for; [apply rec_SH|exact W].
    + repeat of_res_tac.
      match goal with |- context [rec ?b (push_sandbox ?a st) k] =>
        pose proof (rec_SH b (push_sandbox a st) k (wfr_push_sandbox _ _)) as Hb; destruct (rec b (push_sandbox a st) k) as [[o1 s1] k1] end.
      apply Rl_pop_sandbox in Hb. exact Hb.
Qed.
End GAll.
Theorem G_render O ps : forall d l, GSH (render O ps d l).
Proof.
  induction d as [|d IH]; intro l; [intros s k W; apply Rl_refl|].
  cbn [render]. apply GSH_rlist_of. apply Forall_forall. intros n _. apply GSH_rnode. exact IH.
Qed.
End Generic.
