(* C10: the sink-prefix theorem for the full evaluator, by simulation between the run into an
   unbounded sink and the run into a sink that accepts m more bytes. *)
From LV Require Import Base Value Stack Eval BaseLemmas EvalInd EvalProofs ShapeProofs.

Definition mk (a : list byte) (b : option nat) : sink := mkSink a b.

(* f, started with `a` already accepted: unbounded it appends some w; with budget m it behaves
   identically when |w| <= m, and otherwise fails with a sink error having accepted exactly the first
   m bytes of w *)
Definition SP (f : est -> sink -> out) : Prop :=
  forall s a m,
    match f s (mk a None) with (oi, si, ki) =>
      exists w, ki = mk (a ++ w) None /\
        match f s (mk a (Some m)) with (o, s', k') =>
          if Nat.leb (length w) m
          then o = oi /\ s' = si /\ k' = mk (a ++ w) (Some (m - length w))
          else o = OFail ESink /\ k' = mk (a ++ firstn m w) (Some 0)
        end
    end.

Lemma firstn_app_le {A} (l1 l2 : list A) m : m <= length l1 -> firstn m (l1 ++ l2) = firstn m l1.
Proof. intro H. rewrite firstn_app. replace (m - length l1) with 0 by lia. simpl. apply app_nil_r. Qed.
Lemma firstn_app_ge {A} (l1 l2 : list A) m : length l1 <= m -> firstn m (l1 ++ l2) = l1 ++ firstn (m - length l1) l2.
Proof. intro H. rewrite firstn_app. rewrite firstn_all2 by lia. reflexivity. Qed.

Lemma SP_write t : SP (fun s k => write_str s k t).
Proof.
  intros s a m. unfold write_str, write, mk; simpl. exists (encode t); split; [reflexivity|].
  destruct (Nat.leb (length (encode t)) m) eqn:E; simpl; auto.
Qed.
(* functions that do not touch the sink *)
Lemma SP_nosink (g : est -> ores * est) : SP (fun s k => (fst (g s), snd (g s), k)).
Proof.
  intros s a m. exists []. rewrite app_nil_r. split; [reflexivity|]. simpl. rewrite Nat.sub_0_r. auto.
Qed.
Lemma SP_ext f g : (forall s k, f s k = g s k) -> SP f -> SP g.
Proof. intros E H s a m. rewrite <- !E. apply H. Qed.

(* run f, then either stop with a verdict that depends on f's outcome and state only, or go on with a
   continuation; a sink failure of f is never continued *)
Definition decision := (ores * est + (est -> sink -> out) * est)%type.
Definition bindK (f : est -> sink -> out) (d : ores -> est -> decision) : est -> sink -> out :=
  fun s k => match f s k with
             | (o, s', k') => match d o s' with inl (o2, s2) => (o2, s2, k') | inr (c, s2) => c s2 k' end
             end.
Definition good_decision (d : ores -> est -> decision) : Prop :=
  (forall s', exists s2, d (OFail ESink) s' = inl (OFail ESink, s2)) /\
  (forall o s' c s2, d o s' = inr (c, s2) -> SP c).

Lemma SP_bindK f d : SP f -> good_decision d -> SP (bindK f d).
Proof.
  intros Hf [Hfail Hcont] s a m. unfold bindK. specialize (Hf s a m).
  destruct (f s (mk a None)) as [[o1 s1] k1]. destruct Hf as [w1 [-> Hf]].
  destruct (f s (mk a (Some m))) as [[o s'] k'].
  destruct (d o1 s1) as [[o2 s2]|[c s2]] eqn:D.
  - exists w1; split; [reflexivity|]. destruct (Nat.leb (length w1) m) eqn:L.
    + destruct Hf as [-> [-> ->]]. rewrite D. auto.
    + destruct Hf as [-> ->]. destruct (Hfail s') as [s3 E]. rewrite E. auto.
  - pose proof (Hcont _ _ _ _ D) as Hc. destruct (Nat.leb (length w1) m) eqn:L.
    + destruct Hf as [-> [-> ->]]. rewrite D. apply Nat.leb_le in L.
      specialize (Hc s2 (a ++ w1) (m - length w1)).
      destruct (c s2 (mk (a ++ w1) None)) as [[o3 s3] k3]. destruct Hc as [w2 [-> Hc]].
      exists (w1 ++ w2). rewrite app_assoc. split; [reflexivity|].
      destruct (c s2 (mk (a ++ w1) (Some (m - length w1)))) as [[o4 s4] k4].
      rewrite app_length. destruct (Nat.leb (length w2) (m - length w1)) eqn:L2.
      * apply Nat.leb_le in L2. replace (Nat.leb (length w1 + length w2) m) with true by (symmetry; apply Nat.leb_le; lia).
        destruct Hc as [-> [-> ->]]. repeat split. unfold mk. f_equal. f_equal. lia.
      * apply Nat.leb_gt in L2. replace (Nat.leb (length w1 + length w2) m) with false by (symmetry; apply Nat.leb_gt; lia).
        destruct Hc as [-> ->]. split; [reflexivity|]. rewrite firstn_app_ge by lia. rewrite app_assoc. reflexivity.
    + destruct Hf as [-> ->]. apply Nat.leb_gt in L. destruct (Hfail s') as [s3 E]. rewrite E.
      specialize (Hc s2 (a ++ w1) 0).
      destruct (c s2 (mk (a ++ w1) None)) as [[o3 s3'] k3]. destruct Hc as [w2 [-> _]].
      exists (w1 ++ w2). rewrite app_assoc. split; [reflexivity|].
      rewrite app_length. replace (Nat.leb (length w1 + length w2) m) with false by (symmetry; apply Nat.leb_gt; lia).
      split; [reflexivity|]. rewrite firstn_app_le by lia. reflexivity.
Qed.

(* a function run on a transformed state (push a frame) *)
Lemma SP_pre f (h : est -> est) : SP f -> SP (fun s k => f (h s) k).
Proof. intros Hf s a m. apply (Hf (h s) a m). Qed.

(* sequencing with interrupt polling *)
Definition seq_dec (cont : est -> sink -> out) : ores -> est -> decision :=
  fun o s' => match o with ODone => if interrupted s' then inl (ODone, s') else inr (cont, s') | _ => inl (o, s') end.
Lemma seq_as_bindK f cont s k : seq_step (f s k) cont = bindK f (seq_dec cont) s k.
Proof. unfold seq_step, bindK, seq_dec. destruct (f s k) as [[o s'] k']. destruct o; try reflexivity. destruct (interrupted s'); reflexivity. Qed.
Lemma SP_seq f cont : SP f -> SP cont -> SP (fun s k => seq_step (f s k) cont).
Proof.
  intros Hf Hc. eapply SP_ext; [intros s k; symmetry; apply seq_as_bindK|]. apply SP_bindK; [exact Hf|].
  split; [intros s'; eexists; reflexivity|]. intros o s' c s2 D. unfold seq_dec in D.
  destruct o; try discriminate. destruct (interrupted s'); inversion D; subst; exact Hc.
Qed.

Lemma SP_for body x len parent : SP body -> forall vs i, SP (for_loop body x len parent vs i).
Proof.
  intros Hb. induction vs as [|v vs IH]; intro i.
  - apply (SP_nosink (fun s => (ODone, s))).
  - eapply SP_ext with (f := bindK (fun s k => body (push_plain (iter_frame x len parent i v) s) k)
      (fun o s' => match o with
                   | ODone => match r_intr (get_regs (pop_plain s')) with
                              | Some Brk => inl (ODone, clear_intr (pop_plain s'))
                              | _ => inr (for_loop body x len parent vs (i + 1)%Z, clear_intr (pop_plain s'))
                              end
                   | _ => inl (o, pop_plain s') end)).
    + intros s k. rewrite for_loop_cons. unfold bindK. destruct (body _ k) as [[o s'] k']. destruct o; try reflexivity.
      destruct (r_intr (get_regs (pop_plain s'))) as [[|]|]; reflexivity.
    + apply SP_bindK; [apply (SP_pre body _ Hb)|]. split; [intros s'; eexists; reflexivity|].
      intros o s' c s2 D. destruct o; try discriminate.
      destruct (r_intr (get_regs (pop_plain s'))) as [[|]|]; inversion D; subst; apply IH.
Qed.

(* run f; on success go on with c on the post-processed state; any failure is returned as it is *)
Definition okthen (f : est -> sink -> out) (post : est -> est) (c : est -> sink -> out) : est -> sink -> out :=
  bindK f (fun o s' => match o with ODone => inr (c, post s') | _ => inl (o, post s') end).
Lemma SP_okthen f post c : SP f -> SP c -> SP (okthen f post c).
Proof.
  intros Hf Hc. apply SP_bindK; [exact Hf|]. split; [intros s'; eexists; reflexivity|].
  intros o s' c' s2 D. destruct o; inversion D; subst; exact Hc.
Qed.
Lemma okthen_eq f post c s k : okthen f post c s k =
  match f s k with (ODone, s', k') => c (post s') k' | (o, s', k') => (o, post s', k') end.
Proof. unfold okthen, bindK. destruct (f s k) as [[o s'] k']. destruct o; reflexivity. Qed.
Lemma SP_ret o : SP (fun s k => (o, s, k)).
Proof. apply (SP_nosink (fun s => (o, s))). Qed.

Lemma SP_tablerow body x len cols : SP body -> forall vs i, SP (tablerow_loop body x len cols vs i).
Proof.
  intros Hb. induction vs as [|v vs IH]; intro i; [apply (SP_ret ODone)|].
  set (col := (i mod cols)%Z). set (row := (i / cols)%Z).
  set (w1 := (if (col =? 0)%Z then [60;116;114;32;99;108;97;115;115;61;34;114;111;119]%N ++ show_Z (row + 1) ++ [34;62]%N else [])
              ++ [60;116;100;32;99;108;97;115;115;61;34;99;111;108]%N ++ show_Z (col + 1) ++ [34;62]%N).
  set (w2 := [60;47;116;100;62]%N ++ (if ((col =? cols - 1)%Z || (i =? len - 1)%Z) then [60;47;116;114;62]%N else [])).
  eapply SP_ext with (f :=
    okthen (fun s k => write_str s k w1) (fun s => s)
      (okthen (fun s k => body (push_plain (loop_frame k_tablerow (tablerow_obj i len col cols) x v) s) k) pop_plain
         (okthen (fun s k => write_str s k w2) (fun s => s) (tablerow_loop body x len cols vs (i + 1)%Z)))).
  - intros s k. cbn [tablerow_loop]. fold col row. fold w1.
    rewrite okthen_eq. destruct (write_str_cases s k w1) as [k1 [E|E]]; rewrite E; [|reflexivity].
    rewrite okthen_eq. destruct (body _ k1) as [[o1 s1] k2]. destruct o1; try reflexivity.
    rewrite okthen_eq. fold w2. destruct (write_str_cases (pop_plain s1) k2 w2) as [k3 [E2|E2]]; rewrite E2; reflexivity.
  - apply SP_okthen; [apply SP_write|]. apply SP_okthen; [apply (SP_pre body _ Hb)|].
    apply SP_okthen; [apply SP_write|apply IH].
Qed.

(* a choice that depends on the state only *)
Lemma SP_choice {A} (g : est -> res A) (F : A -> est -> sink -> out) :
  (forall b, SP (F b)) -> SP (fun s k => of_res (g s) s k (fun b => F b s k)).
Proof.
  intros H s a m. destruct (g s) as [b| | |]; cbn [of_res]; [apply H| | |];
    (exists []; rewrite app_nil_r; split; [reflexivity|]; simpl; rewrite Nat.sub_0_r; auto).
Qed.
Lemma SP_render_for body x len base : SP body -> forall vs i, SP (render_for_loop body x len base vs i).
Proof.
  intros Hb. induction vs as [|v vs IH]; intro i; [apply (SP_ret ODone)|].
  eapply SP_ext with (f := fun s k => of_res (base s) s k (fun b0 =>
    bindK (fun s k => body (push_sandbox (upsert x v (upsert k_forloop (forloop_obj i len None) b0)) s) k)
      (fun o s' => match o with
                   | ODone => if (match r_intr (get_regs s') with Some Brk => true | _ => false end)
                              then inl (ODone, pop_sandbox s') else inr (render_for_loop body x len base vs (i + 1)%Z, pop_sandbox s')
                   | _ => inl (o, pop_sandbox s') end) s k)).
  - intros s k. cbn [render_for_loop]. destruct (base s) as [b0| | |]; cbn [of_res]; try reflexivity.
    unfold bindK. destruct (body _ k) as [[o s'] k']. destruct o; try reflexivity.
    destruct (match r_intr (get_regs s') with Some Brk => true | _ => false end); reflexivity.
  - apply (SP_choice base). intro b0.
    apply SP_bindK; [apply (SP_pre body _ Hb)|]. split; [intros s'; eexists; reflexivity|].
    intros o s' c s2 D. destruct o; try discriminate.
    destruct (match r_intr (get_regs s') with Some Brk => true | _ => false end); inversion D; subst; apply IH.
Qed.

(* running a body into a private, unbounded buffer never touches the sink *)
Lemma SP_private (g : est -> sink -> out) (h : ores -> est -> sink -> ores * est + (est -> sink -> out) * est) :
  (forall o s' kc c s2, h o s' kc = inr (c, s2) -> SP c) ->
  SP (fun s k => match g s sink0 with (o, s', kc) => match h o s' kc with inl (o2, s2) => (o2, s2, k) | inr (c, s2) => c s2 k end end).
Proof.
  intros Hc s a m. destruct (g s sink0) as [[o s'] kc]. destruct (h o s' kc) as [[o2 s2]|[c s2]] eqn:E.
  - exists []. rewrite app_nil_r. split; [reflexivity|]. simpl. rewrite Nat.sub_0_r. auto.
  - apply (Hc _ _ _ _ _ E s2 a m).
Qed.

(* ---- the same notions for a fixed starting state ---- *)
Definition SPk (g : sink -> out) : Prop := SP (fun _ k => g k).
Lemma SP_pointwise f : (forall s, SPk (f s)) -> SP f.
Proof. intros H s a m. apply (H s s a m). Qed.
Lemma SPk_of_SP f s : SP f -> SPk (f s).
Proof. intros H s0 a m. apply (H s a m). Qed.
Lemma SPk_ret o s' : SPk (fun k => (o, s', k)).
Proof. apply (SP_nosink (fun _ => (o, s'))). Qed.
Lemma SPk_write s t : SPk (fun k => write_str s k t).
Proof. intros s0 a m. apply (SP_write t s a m). Qed.
Lemma SPk_ext g h : (forall k, g k = h k) -> SPk g -> SPk h.
Proof. intros E H. unfold SPk in *. apply (SP_ext (fun _ k => g k) (fun _ k => h k)); [intros s k; apply E|exact H]. Qed.
Lemma SPk_bind g d : SPk g -> good_decision d ->
  SPk (fun k => match g k with (o, s', k') => match d o s' with inl (o2, s2) => (o2, s2, k') | inr (c, s2) => c s2 k' end end).
Proof. intros Hg Hd. exact (SP_bindK (fun _ k => g k) d Hg Hd). Qed.
(* on success continue with c (a function of the state reached), otherwise return the failure *)
Lemma SPk_okthen g (post : est -> est) c : SPk g -> SP c ->
  SPk (fun k => match g k with (ODone, s', k') => c (post s') k' | (o, s', k') => (o, post s', k') end).
Proof.
  intros Hg Hc.
  set (D := fun (o : ores) (s' : est) => match o with ODone => @inr (ores * est) _ (c, post s') | _ => inl (o, post s') end).
  apply (SPk_ext (fun k => match g k with (o, s', k') => match D o s' with inl (o2, s2) => (o2, s2, k') | inr (c, s2) => c s2 k' end end)).
  - intro k. destruct (g k) as [[o s'] k']. destruct o; reflexivity.
  - apply SPk_bind; [exact Hg|]. split; [intros s'; eexists; reflexivity|].
    intros o s' c' s2 E. unfold D in E. destruct o; inversion E; subst; exact Hc.
Qed.
Lemma SPk_private (r : out) (h : ores -> est -> sink -> ores * est + (est -> sink -> out) * est) :
  (forall o s' kc c s2, h o s' kc = inr (c, s2) -> SP c) ->
  SPk (fun k => match r with (o, s', kc) => match h o s' kc with inl (o2, s2) => (o2, s2, k) | inr (c, s2) => c s2 k end end).
Proof. intros Hc. exact (SP_private (fun _ _ => r) h Hc). Qed.

Lemma SPk_post g (h : est -> est) : SPk g -> SPk (fun k => match g k with (o, s', k') => (o, h s', k') end).
Proof.
  intro Hg. set (D := fun (o : ores) (s' : est) => @inl (ores * est) ((est -> sink -> out) * est) (o, h s')).
  apply (SPk_ext (fun k => match g k with (o, s', k') => match D o s' with inl (o2, s2) => (o2, s2, k') | inr (c, s2) => c s2 k' end end)).
  - intro k. destruct (g k) as [[o s'] k']. reflexivity.
  - apply SPk_bind; [exact Hg|]. split; [intros s'; eexists; reflexivity|]. intros o s' c s2 E. discriminate.
Qed.

Section SPAll.
Variable O : oracle. Variable ps : pstore.
Variable rec : template -> est -> sink -> out.
Hypothesis rec_SP : forall l, SP (rec l).
Notation rn := (rnode O ps rec).
Notation rl := (rlist O ps rec).

Lemma SP_rlist_of l : Forall (fun n => SP (rn n)) l -> SP (rl l).
Proof.
  induction 1 as [|n l Hn _ IH]; [apply (SP_ret ODone)|]. exact (SP_seq (rn n) (rl l) Hn IH).
Qed.
Lemma SP_ropt o : optF (fun n => SP (rn n)) o -> SP (ropt_list O ps rec o).
Proof. destruct o as [l|]; simpl; intro H; [apply SP_rlist_of; exact H|apply (SP_ret ODone)]. Qed.

Ltac res_tac := match goal with |- SPk (fun k => of_res ?r _ k _) => destruct r; cbn [of_res]; try apply SPk_ret end.

Lemma case_any_SP tv body (rest : sink -> out) st : SPk rest -> SP (rl body) -> forall l,
  SPk (fun k => (fix any (l : list expr) : out :=
           match l with
           | [] => rest k
           | a :: l' => of_res (eval_expr O a st) st k (fun av => if value_eq av tv then rl body st k else any l')
           end) l).
Proof.
  intros Hr Hb. induction l as [|a l IH]; [exact Hr|].
  destruct (eval_expr O a st); cbn [of_res]; try apply SPk_ret.
  destruct (value_eq a0 tv); [apply SPk_of_SP; exact Hb|exact IH].
Qed.

Theorem SP_rnode : forall n, SP (rn n).
Proof.
  induction n using node_ind'; apply SP_pointwise; intro st.
  - apply SPk_write.
  - apply SPk_write.
  - apply SPk_ret.
  - cbn [rnode]. res_tac. apply SPk_write.
  - cbn [rnode]. res_tac. destruct (set_global x a (fr st)); cbn [of_res]; apply SPk_ret.
  - eapply SPk_ext; [intro k; symmetry; apply rnode_capture|].
    destruct (rl b st sink0) as [[o s'] kc]. destruct o; try apply SPk_ret.
    destruct (decode (acc kc)); [|apply SPk_ret]. destruct (set_global x _ (fr s')); cbn [of_res]; apply SPk_ret.
  - cbn [rnode].
    match goal with |- SPk (fun k => match write_str st k ?t with _ => _ end) =>
      eapply SPk_ext; [|apply (SPk_okthen (fun k => write_str st k t) (fun s => s)
        (fun _ k' => of_res (set_index x (vz ((match get_index x (fr st) with Some (VScalar c) => match to_integer c with Some z => z | None => 0%Z end | _ => 0%Z end) + 1)) (fr st)) st k' (fun f' => (ODone, mkEst f' (rg st), k'))))] end.
    + intro k. destruct (write_str_cases st k (show_Z (match get_index x (fr st) with Some (VScalar c) => match to_integer c with Some z => z | None => 0%Z end | _ => 0%Z end))) as [k0 [E|E]]; rewrite E; reflexivity.
    + apply SPk_write.
    + apply SP_pointwise. intro s0. destruct (set_index x _ (fr st)); cbn [of_res]; apply SPk_ret.
  - cbn [rnode].
    match goal with |- SPk (fun k => match write_str st k ?t with _ => _ end) =>
      eapply SPk_ext; [|apply (SPk_okthen (fun k => write_str st k t) (fun s => s)
        (fun _ k' => of_res (set_index x (vz ((match get_index x (fr st) with Some (VScalar c) => match to_integer c with Some z => z | None => 0%Z end | _ => 0%Z end) - 1)) (fr st)) st k' (fun f' => (ODone, mkEst f' (rg st), k'))))] end.
    + intro k. destruct (write_str_cases st k (show_Z ((match get_index x (fr st) with Some (VScalar c) => match to_integer c with Some z => z | None => 0%Z end | _ => 0%Z end) - 1))) as [k0 [E|E]]; rewrite E; reflexivity.
    + apply SPk_write.
    + apply SP_pointwise. intro s0. destruct (set_index x _ (fr st)); cbn [of_res]; apply SPk_ret.
  - cbn [rnode]. res_tac. destruct a as [i g]. cbn [fst snd]. destruct (nth_error vs i); [|apply SPk_ret].
    res_tac. apply SPk_write.
  - eapply SPk_ext; [intro k; symmetry; apply rnode_if|]. res_tac.
    destruct (Bool.eqb a m); apply SPk_of_SP; [apply SP_rlist_of; assumption|apply SP_ropt; assumption].
  - eapply SPk_ext; [intro k; symmetry; apply rnode_case|]. res_tac.
    induction ws as [|[args body] ws IHw]; [apply SPk_of_SP; apply SP_ropt; assumption|].
    inversion H as [|? ? Hb Hr]; subst. simpl in Hb.
    apply (case_any_SP a body (fun k => (fix cases (ws0 : list (list expr * list node)) : out :=
         match ws0 with
         | [] => ropt_list O ps rec e st k
         | (args0, body0) :: ws' =>
             (fix any (l : list expr) : out :=
                match l with
                | [] => cases ws'
                | a0 :: l' => of_res (eval_expr O a0 st) st k (fun av => if value_eq av a then rl body0 st k else any l')
                end) args0
         end) ws) st); [apply IHw; assumption|apply SP_rlist_of; assumption].
  - eapply SPk_ext; [intro k; symmetry; apply rnode_for|]. repeat res_tac.
    match goal with |- context [iter_array ?a ?b ?c ?d] => destruct (iter_array a b c d) eqn:Esel end;
      apply SPk_of_SP; [apply SP_ropt; assumption|]. apply SP_for. apply SP_rlist_of; assumption.
  - eapply SPk_ext; [intro k; symmetry; apply (rnode_tablerow O ps rec)|]. repeat res_tac.
    destruct a0 as [[|p|p]|]; try apply SPk_ret; apply SPk_of_SP; apply SP_tablerow; apply SP_rlist_of; assumption.
  - apply SPk_ret.
  - apply SPk_ret.
  - eapply SPk_ext; [intro k; symmetry; apply (rnode_ifchanged O ps rec)|].
    destruct (rl b st sink0) as [[o s'] kc]. destruct o; try apply SPk_ret.
    destruct (decode (acc kc)) as [t|]; [|apply SPk_ret]. cbv zeta.
    destruct (match r_changed (get_regs s') with Some l => negb (str_eqb l t) | None => true end); [apply SPk_write|apply SPk_ret].
  - cbn [rnode]. res_tac. destruct a0; try apply SPk_ret. repeat res_tac.
    apply (SPk_post (fun k => rec a1 (push_plain a0 st) k) pop_plain). apply SPk_of_SP. apply rec_SP.
  - cbn [rnode]. res_tac. destruct a0; try apply SPk_ret.
    destruct f as [[rng x]|].
    + res_tac. destruct a0 as [|v0 vs0]; [apply SPk_ret|]. repeat res_tac.
      apply SPk_of_SP. apply SP_render_for. apply rec_SP.
    + repeat res_tac.
      match goal with |- SPk (fun k => match rec ?b (push_sandbox ?aa st) k with _ => _ end) =>
        apply (SPk_post (fun k => rec b (push_sandbox aa st) k) pop_sandbox) end. apply SPk_of_SP. apply rec_SP.
Qed.
End SPAll.

Theorem SP_render O ps : forall d l, SP (render O ps d l).
Proof.
  induction d as [|d IH]; intro l; [apply (SP_ret (OFail EOther))|].
  cbn [render]. apply SP_rlist_of. apply Forall_forall. intros n _. apply SP_rnode. exact IH.
Qed.

(* the user-facing statement: stream the same render into a sink that accepts only n bytes *)
Theorem sink_prefix O ps depth t data n :
  match render_top O ps depth t data (mkSink [] None) with
  | (r_inf, _, k_inf) =>
      match render_top O ps depth t data (mkSink [] (Some n)) with
      | (r, _, k) =>
          (n < length (acc k_inf) -> r = OFail ESink /\ acc k = firstn n (acc k_inf)) /\
          (length (acc k_inf) <= n -> r = r_inf /\ acc k = acc k_inf)
      end
  end.
Proof.
  unfold render_top. pose proof (SP_render O ps (S depth) t (est_build data) [] n) as H. unfold mk in H.
  destruct (render O ps (S depth) t (est_build data) (mkSink [] None)) as [[oi si] ki].
  destruct H as [w [-> H]]. destruct (render O ps (S depth) t (est_build data) (mkSink [] (Some n))) as [[o s'] k'].
  simpl. destruct (Nat.leb (length w) n) eqn:L.
  - apply Nat.leb_le in L. destruct H as [-> [-> ->]]. simpl. split; [intro; lia|intros _; auto].
  - apply Nat.leb_gt in L. destruct H as [-> ->]. simpl. split; [intros _; auto|intro; lia].
Qed.

