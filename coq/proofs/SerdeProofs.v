(* SerdeProofs.v — lemmas behind props/C12.v: a Liquid value through the serde conversions. *)
From Coq Require Import SpecFloat.
From LV Require Import Base Value Strftime Serde BaseLemmas ValueProofs DateProofs.

(* values with neither dates nor state markers: what serde can represent without loss *)
Fixpoint plain (v : value) : bool :=
  match v with
  | VScalar (SDateTime _) | VScalar (SDate _) | VState _ => false
  | VScalar _ | VNil => true
  | VArray l => forallb plain l
  | VObject kvs => forallb (fun kv => plain (snd kv)) kvs
  end.
(* no string in the value is the printed form of a date or date-time *)
Definition not_date_text (s : str) : bool :=
  match parse_default s, parse_date_default s with None, None => true | _, _ => false end.
Fixpoint no_date_text (v : value) : bool :=
  match v with
  | VScalar (SStr s) => not_date_text s
  | VArray l => forallb no_date_text l
  | VObject kvs => forallb (fun kv => no_date_text (snd kv)) kvs
  | _ => true
  end.

Lemma upsert_fresh {A} k (v : A) o : lookup k o = None -> upsert k v o = o ++ [(k, v)].
Proof.
  induction o as [|[y w] t IH]; cbn [lookup upsert app]; [reflexivity|].
  destruct (str_eqb k y); [discriminate|]. intro H. rewrite IH by exact H. reflexivity.
Qed.
Lemma lookup_app_none {A} k (a b : list (str * A)) : lookup k (a ++ b) = None <-> lookup k a = None /\ lookup k b = None.
Proof.
  induction a as [|[y w] t IH]; cbn [app lookup]; [tauto|].
  destruct (str_eqb k y); [split; [discriminate|intros [H _]; discriminate]|exact IH].
Qed.
Lemma lookup_none_notin {A} k (o : list (str * A)) : ~ In k (keys o) -> lookup k o = None.
Proof.
  induction o as [|[y w] t IH]; cbn [keys map fst In lookup]; [reflexivity|]. intro H.
  destruct (str_eqb_spec k y) as [->|N]; [exfalso; apply H; left; reflexivity|]. apply IH. intro X. apply H. right. exact X.
Qed.

Lemma insert_all_fresh r : forall acc, NoDup (keys acc ++ keys r) -> insert_all r acc = acc ++ r.
Proof.
  induction r as [|[k v] t IH]; intros acc N; cbn [insert_all fold_left]; [rewrite app_nil_r; reflexivity|].
  cbn [fst snd].
  assert (lookup k acc = None) as L.
  { apply lookup_none_notin. intro X. cbn [keys map fst] in N. apply NoDup_remove_2 in N. apply N. apply in_or_app. left. exact X. }
  rewrite (upsert_fresh k v acc L). fold (insert_all t (acc ++ [(k, v)])). rewrite IH; [rewrite <- app_assoc; reflexivity|].
  unfold keys in *. rewrite map_app. cbn [map fst]. rewrite <- app_assoc. cbn [app]. cbn [map fst] in N. exact N.
Qed.
Lemma mapM_cons {A B} (f : A -> res B) a t : mapM f (a :: t) = (do v <- f a; do r <- mapM f t; Ok (v :: r)).
Proof. reflexivity. Qed.
Lemma mapM_kv_cons {K A} (kf : K -> res str) (f : A -> res value) k a t :
  mapM_kv kf f ((k, a) :: t) = (do ks <- kf k; do v <- f a; do r <- mapM_kv kf f t; Ok ((ks, v) :: r)).
Proof. reflexivity. Qed.
Lemma mapM_id {A B} (f : A -> res B) (g : B -> A) l : Forall (fun x => f (g x) = Ok x) l -> mapM f (map g l) = Ok l.
Proof. induction 1 as [|x t Hx _ IH]; cbn [map]; [reflexivity|]. rewrite mapM_cons, Hx. cbn [bind]. rewrite IH. reflexivity. Qed.
Lemma mapM_kv_id {K A} (kf : K -> res str) (f : A -> res value) (h : str -> K) (g : value -> A) kvs :
  (forall k, kf (h k) = Ok k) -> Forall (fun kv => f (g (snd kv)) = Ok (snd kv)) kvs ->
  mapM_kv kf f (map (fun kv => (h (fst kv), g (snd kv))) kvs) = Ok kvs.
Proof.
  intro Hk. induction 1 as [|[k v] t Hx _ IH]; cbn [map]; [reflexivity|]. cbn [fst snd] in *.
  rewrite mapM_kv_cons, Hk, Hx. cbn [bind]. rewrite IH. reflexivity.
Qed.

Section RT.
Import ValueProofs.
(* a value without dates and state markers goes through to_value unchanged: kind, contents, order of entries *)
Theorem to_value_roundtrip v : wf v -> plain v = true -> serde_to_value v = Ok v.
Proof.
  unfold serde_to_value. induction v as [s|l IH|l IH|s|] using value_ind'; intros W Pl.
  - destruct s; try discriminate; reflexivity.
  - cbn [ser_value to_value_sd]. inversion W as [|? Wl| | |]; subst. cbn [plain] in Pl. rewrite forallb_forall in Pl.
    rewrite mapM_id; [reflexivity|]. rewrite Forall_forall in *. intros x Hx. apply IH; auto.
  - cbn [ser_value to_value_sd]. inversion W as [| |? Wn Wl| |]; subst. cbn [plain] in Pl. rewrite forallb_forall in Pl.
    unfold build_entries.
    rewrite (mapM_kv_id key_of to_value_sd DStr ser_value l (fun k => eq_refl)).
    + cbn [bind]. rewrite insert_all_fresh; [reflexivity|]. cbn [keys map app]. exact Wn.
    + rewrite Forall_forall in *. intros x Hx. apply IH; auto; try apply (Pl x Hx).
  - discriminate.
  - reflexivity.
Qed.

(* the same through from_value::<Value> and through JSON, for values none of whose strings spells a date *)
Lemma content_str s : not_date_text s = true -> value_of_content (DStr s) = Ok (VScalar (SStr s)).
Proof. unfold not_date_text. cbn [value_of_content]. destruct (parse_default s); [discriminate|]. destruct (parse_date_default s); [discriminate|]. reflexivity. Qed.
Theorem from_value_roundtrip v : wf v -> plain v = true -> no_date_text v = true ->
  wf_value v = true -> serde_from_value v = Ok v.
Proof.
  unfold serde_from_value. induction v as [s|l IH|l IH|s|] using value_ind'; intros W Pl Nd Wv.
  - destruct s; try discriminate; try reflexivity. apply content_str. exact Nd.
  - cbn [de_any value_of_content]. inversion W as [|? Wl| | |]; subst. cbn [plain no_date_text wf_value] in *.
    rewrite forallb_forall in Pl, Nd, Wv. rewrite mapM_id; [reflexivity|]. rewrite Forall_forall in *. intros x Hx. apply IH; auto.
  - cbn [de_any value_of_content]. inversion W as [| |? Wn Wl| |]; subst. cbn [plain no_date_text wf_value] in *.
    apply andb_true_iff in Wv as [_ Wv]. rewrite forallb_forall in Pl, Nd, Wv. unfold build_entries.
    rewrite (mapM_kv_id content_key value_of_content DStr de_any l (fun k => eq_refl)).
    + cbn [bind]. rewrite insert_all_fresh; [reflexivity|]. cbn [keys map app]. exact Wn.
    + rewrite Forall_forall in *. intros x Hx. apply IH; auto; first [apply (Pl x Hx)|apply (Nd x Hx)|apply (Wv x Hx)].
  - discriminate.
  - reflexivity.
Qed.
Lemma ser_de_agree v : plain v = true -> ser_value v = de_any v.
Proof.
  induction v as [sc|l IH|l IH|st|] using value_ind'; intro Pl; try reflexivity.
  - cbn [ser_value de_any]. f_equal. cbn [plain] in Pl. rewrite forallb_forall in Pl. apply map_ext_in. intros x Hx.
    rewrite Forall_forall in IH. auto.
  - cbn [ser_value de_any]. f_equal. cbn [plain] in Pl. rewrite forallb_forall in Pl. apply map_ext_in. intros x Hx.
    rewrite Forall_forall in IH. rewrite (IH x Hx (Pl x Hx)). reflexivity.
  - discriminate.
Qed.
Theorem json_roundtrip v : wf v -> plain v = true -> no_date_text v = true -> wf_value v = true -> serde_json_roundtrip v = Ok v.
Proof. intros. unfold serde_json_roundtrip. rewrite ser_de_agree by assumption. apply from_value_roundtrip; assumption. Qed.
End RT.

(* ---- integers: the same integer, a float, or a rejection; never a different integer ---- *)
Theorem unsigned_narrowing z v : to_value_sd (DU64 z) = Ok v -> v = VScalar (SInt z) /\ in_i64 z = true.
Proof. cbn [to_value_sd]. destruct (in_i64 z) eqn:E; intro H; inversion H; auto. Qed.
Theorem unsigned_too_wide_rejected z : in_i64 z = false -> to_value_sd (DU64 z) = Err EOther.
Proof. intro H. cbn [to_value_sd]. rewrite H. reflexivity. Qed.
Theorem wide_integers_rejected z : to_value_sd (DWide z) = Err EOther.
Proof. reflexivity. Qed.
Theorem json_integers z :
  value_of_content (DI64 z) = Ok (VScalar (SInt z)) /\
  value_of_content (DU64 z) = Ok (VScalar (if in_i64 z then SInt z else SFloat (f_of_Z z))).
Proof. split; reflexivity. Qed.

(* ---- dates: the recorded known finding, stated exactly ---- *)
Section Dates.
Variable O : oracle.
(* through to_value a date-time becomes the string of its printed form: same text, different kind *)
Theorem datetime_becomes_its_text t :
  serde_to_value (VScalar (SDateTime t)) = Ok (VScalar (SStr (show_datetime t))) /\
  Value.render O (VScalar (SStr (show_datetime t))) = Value.render O (VScalar (SDateTime t)) /\
  type_name (VScalar (SStr (show_datetime t))) <> type_name (VScalar (SDateTime t)).
Proof. repeat split. vm_compute. discriminate. Qed.
(* ... and a string that spells a date-time is read as one *)
Theorem text_of_a_datetime_becomes_a_datetime t : printable t -> dt_nano t = 0%Z ->
  serde_from_value (VScalar (SStr (show_datetime t))) = Ok (VScalar (SDateTime t)) /\
  serde_from_value (VScalar (SDateTime t)) = Ok (VScalar (SDateTime t)).
Proof.
  intros P N. unfold serde_from_value. cbn [de_any value_of_content].
  rewrite (DateProofs.display_parse_roundtrip_whole_seconds t P N). split; reflexivity.
Qed.
End Dates.
