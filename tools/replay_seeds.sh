#!/bin/bash
# replay_seeds.sh — apply every stored seeded change to /repo in turn, run the quick check of its property,
# undo it; prints one line per seed.  /repo must be clean.  Evidence files are refreshed on the clean tree afterwards.
cd "$(dirname "$0")/.."
git -C /repo status --short | grep -q . && { echo "/repo has uncommitted changes"; exit 2; }
for d in seeded/*/; do
  n=$(basename $d); p=${n%%-*}
  if ! git -C /repo apply --check /verif/$d/patch.diff 2>/dev/null; then echo "$n: PATCH-DOES-NOT-APPLY"; continue; fi
  git -C /repo apply /verif/$d/patch.diff
  out=$(./check $p --tier quick 2>&1 | grep -v "^KNOWN-FINDING")
  rc=$?
  git -C /repo checkout -- .
  v=$(echo "$out" | grep -c "^VIOLATION")
  nf=$(echo "$out" | grep -c "no-failing-input-found")
  echo "$n: $( [ $v -gt 0 ] && echo CAUGHT || echo MISSED ) violations_lines=$v no_failing_input=$nf :: $(echo "$out" | tail -1)"
done
python3 tools/translate.py > /dev/null
