(* minimal S-expression reader: parens and bare atoms (no quoting needed: strings travel
   as "s:<hex>,<hex>,..." atoms, numbers as [-]x<hex>) *)
type t = Atom of string | List of t list

exception Parse_error of string

let parse (s : string) : t =
  let n = String.length s in
  let pos = ref 0 in
  let rec skip () = while !pos < n && (s.[!pos] = ' ' || s.[!pos] = '\t' || s.[!pos] = '\n' || s.[!pos] = '\r') do incr pos done
  and item () : t =
    skip ();
    if !pos >= n then raise (Parse_error "unexpected end");
    if s.[!pos] = '(' then begin
      incr pos;
      let acc = ref [] in
      let fin = ref false in
      while not !fin do
        skip ();
        if !pos >= n then raise (Parse_error "unclosed paren");
        if s.[!pos] = ')' then (incr pos; fin := true) else acc := item () :: !acc
      done;
      List (List.rev !acc)
    end else if s.[!pos] = ')' then raise (Parse_error "unexpected )")
    else begin
      let st = !pos in
      while !pos < n && (match s.[!pos] with ' ' | '\t' | '\n' | '\r' | '(' | ')' -> false | _ -> true) do incr pos done;
      Atom (String.sub s st (!pos - st))
    end
  in
  let r = item () in
  skip ();
  if !pos <> n then raise (Parse_error "trailing input");
  r

let rec to_string = function
  | Atom a -> a
  | List l -> "(" ^ String.concat " " (List.map to_string l) ^ ")"
