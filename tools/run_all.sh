#!/bin/bash
# refresh every claimed check's evidence on the current tree (quick tier); prints one line per check
cd "$(dirname "$0")/.."
git -C /repo status --short | grep -q . && { echo "/repo has uncommitted changes"; exit 2; }
for p in $(python3 -c "import json;print(' '.join(c['property_id'] for c in json.load(open('MANIFEST.json'))['checks']))"); do
  ./check $p --tier ${1:-quick} 2>&1 | grep -v "^KNOWN-FINDING" | tail -1
done
python3-vt - <<'PY'
import json, jsonschema, glob
s = json.load(open('/root/.vp/EVIDENCE.schema.json'))
for f in sorted(glob.glob('evidence/C*.json')):
    e = json.load(open(f)); jsonschema.validate(e, s)
    assert e['coverage']['obligations'] == e['coverage']['discharged'], f
jsonschema.validate(json.load(open('MANIFEST.json')), json.load(open('/root/.vp/MANIFEST.schema.json')))
print("evidence + manifest valid")
PY
