(* PegProofs.v — facts about the grammar generated from grammar.pest (coq/gen/Grammar.v) under the
   pest semantics of model/Peg.v: what counts as whitespace, and that `WHITESPACE*` (what a trim
   marker and the inside of a delimiter skip) consumes exactly the maximal whitespace run. *)
From LV Require Import Base Peg Grammar.
Require Import ZifyBool ZifyNat ZifyN.

Definition is_ws (c : char) : bool := (c =? 32)%N || (c =? 9)%N || (c =? 10)%N || (c =? 13)%N.
Fixpoint drop_ws (s : str) : str := match s with c :: r => if is_ws c then drop_ws r else s | [] => [] end.
Fixpoint count_ws (s : str) : nat := match s with c :: r => if is_ws c then S (count_ws r) else 0 | [] => 0 end.

Notation evg := (ev liquid_grammar liquid_ws).

Lemma strip1 c d r : strip_prefix [c] (d :: r) = if (c =? d)%N then Some r else None.
Proof. cbn [strip_prefix]. destruct (c =? d)%N; reflexivity. Qed.

(* one-step unfoldings of the evaluator (so that proofs never unfold the whole fixpoint) *)
Section Unfold.
Variable g : grammar. Variable ws : option nat.
Lemma ev_lit f at_ la l s pos : ev g ws (S f) at_ la (PLit l) s pos =
  Some (match strip_prefix l s with Some r => Some (r, pos + length l, []) | None => None end).
Proof. reflexivity. Qed.
Lemma ev_alt f at_ la a b s pos : ev g ws (S f) at_ la (PAlt a b) s pos =
  match ev g ws f at_ la a s pos with Some None => ev g ws f at_ la b s pos | x => x end.
Proof. reflexivity. Qed.
Lemma ev_ref f at_ la n s pos : ev g ws (S f) at_ la (PRef n) s pos =
  match nth_error g n with
  | None => Some None
  | Some r =>
      let at' := match r_mod r with MAtomic => Atomic | MCompound => Compound | MNonAtomic => NonAtomic | _ => at_ end in
      let emits := negb la && negb (atom_eqb at_ Atomic) && negb (match r_mod r with MSilent => true | _ => false end) in
      match ev g ws f at' la (r_body r) s pos with
      | Some (Some (s', p', ts)) => Some (Some (s', p', if emits then mkTok n pos p' :: ts else ts))
      | x => x
      end
  end.
Proof. reflexivity. Qed.
Lemma ev_star f at_ la a s pos : ev g ws (S f) at_ la (PStar a) s pos =
  match ev g ws f at_ la (PPlus a) s pos with Some None => Some (Some (s, pos, [])) | x => x end.
Proof. reflexivity. Qed.
Lemma ev_plus_atomic f la a s pos : ev g ws (S f) Atomic la (PPlus a) s pos =
  match ev g ws f Atomic la a s pos with
  | Some (Some (s1, p1, t1)) =>
      match ev g ws f Atomic la (PPlus a) s1 p1 with
      | Some (Some (s3, p3, t3)) => Some (Some (s3, p3, t1 ++ t3))
      | Some None => Some (Some (s1, p1, t1))
      | None => None
      end
  | x => x
  end.
Proof. reflexivity. Qed.
End Unfold.

(* one application of the WHITESPACE rule (atomic context, as inside `WHITESPACE*`) *)
Lemma ws_rule_one fuel la s pos : 6 <= fuel ->
  evg fuel Atomic la (PRef r_WHITESPACE) s pos =
  Some (match s with
        | c :: r => if (c =? 13)%N then match r with 10%N :: r' => Some (r', pos + 2, []) | _ => Some (r, pos + 1, []) end
                    else if is_ws c then Some (r, pos + 1, []) else None
        | [] => None
        end).
Proof.
  intro Hf. do 6 (destruct fuel as [|fuel]; [lia|]).
  rewrite ev_ref.
  change (nth_error liquid_grammar r_WHITESPACE) with (Some (mkRule MSilent (PAlt (PLit [32]%N) (PAlt (PLit [9]%N) (PAlt (PLit [10]%N) (PAlt (PLit [13;10]%N) (PLit [13]%N))))))).
  cbn [r_mod r_body atom_eqb]. cbv zeta. replace (negb la && negb true && negb true) with false by (destruct la; reflexivity).
  rewrite !ev_alt, !ev_lit.
  destruct s as [|c r]; [reflexivity|].
  rewrite !strip1. unfold is_ws. cbn [length Nat.add].
  destruct (N.eqb_spec 32 c) as [<-|N1]; [reflexivity|].
  destruct (N.eqb_spec 9 c) as [<-|N2]; [reflexivity|].
  destruct (N.eqb_spec 10 c) as [<-|N3]; [reflexivity|].
  cbn [strip_prefix].
  destruct (N.eqb_spec 13 c) as [<-|N4].
  - cbn [N.eqb Pos.eqb orb]. destruct r as [|d r']; [reflexivity|].
    destruct (N.eqb_spec 10 d) as [<-|N5]; [reflexivity|]. 
    replace (d =? 10)%N with false by lia.
    destruct d as [|p]; [reflexivity|]. repeat (destruct p as [p|p|]; try reflexivity); exfalso; apply N5; reflexivity.
  - replace (c =? 13)%N with false by lia. replace (c =? 32)%N with false by lia. replace (c =? 9)%N with false by lia.
    replace (c =? 10)%N with false by lia. reflexivity.
Qed.

Definition ws_head (s : str) : bool := match s with c :: _ => is_ws c | [] => false end.
Lemma drop_ws_nohead s : ws_head s = false -> drop_ws s = s /\ count_ws s = 0.
Proof. destruct s as [|c r]; cbn [ws_head drop_ws count_ws]; [auto|]. intros ->. auto. Qed.

Lemma res_eq (a : str) (p p' : nat) (t : list tok) : p = p' -> Some (Some (a, p, t)) = Some (Some (a, p', t)).
Proof. intros ->. reflexivity. Qed.
Ltac fin := cbn [app]; first [reflexivity | (apply res_eq; lia)].
Lemma plus_ws la : forall n s fuel pos, length s <= n -> 7 + length s <= fuel ->
  evg fuel Atomic la (PPlus (PRef r_WHITESPACE)) s pos =
  Some (if ws_head s then Some (drop_ws s, pos + count_ws s, []) else None).
Proof.
  induction n as [|n IH]; intros s fuel pos Hn Hf.
  - destruct s; [|cbn in Hn; lia]. destruct fuel as [|f]; [lia|]. rewrite ev_plus_atomic, ws_rule_one by lia. reflexivity.
  - destruct fuel as [|f]; [lia|]. rewrite ev_plus_atomic, ws_rule_one by lia.
    destruct s as [|c r]; [reflexivity|]. cbn [length] in Hn, Hf. cbn [ws_head].
    destruct (N.eqb_spec c 13) as [->|N13].
    + change (is_ws 13%N) with true. cbn iota.
      destruct r as [|d r'].
      * rewrite (IH [] f (pos + 1)) by (cbn; lia). cbn [ws_head drop_ws count_ws is_ws]. change (is_ws 13%N) with true. cbn iota.
        fin.
      * destruct (N.eqb_spec d 10) as [->|N10].
        -- cbn [length] in Hn, Hf. rewrite (IH r' f (pos + 2)) by lia.
           cbn [drop_ws count_ws]. change (is_ws 13%N) with true. change (is_ws 10%N) with true. cbn iota.
           destruct (ws_head r') eqn:E; [fin|].
           destruct (drop_ws_nohead r' E) as [-> ->]. fin.
        -- assert (match d :: r' with 10%N :: r'0 => Some (r'0, pos + 2, @nil tok) | _ => Some (d :: r', pos + 1, []) end = Some (d :: r', pos + 1, [])) as ->.
           { destruct d as [|p]; [reflexivity|]. repeat (destruct p as [p|p|]; try reflexivity); exfalso; apply N10; reflexivity. }
           assert (Hl : length (d :: r') <= n) by (cbn [length] in *; lia).
           assert (Hl2 : 7 + length (d :: r') <= f) by (cbn [length] in *; lia).
           remember (d :: r') as rest eqn:Er. clear Er.
           rewrite (IH rest f (pos + 1)) by assumption.
           cbn [drop_ws count_ws]. change (is_ws 13%N) with true. cbn iota.
           destruct (ws_head rest) eqn:E; [fin|].
           destruct (drop_ws_nohead rest E) as [-> ->]. fin.
    + destruct (is_ws c) eqn:W; [|reflexivity].
      rewrite (IH r f (pos + 1)) by lia. cbn [drop_ws count_ws]. rewrite W.
      destruct (ws_head r) eqn:E; [fin|].
      destruct (drop_ws_nohead r E) as [-> ->]. fin.
Qed.

(* `WHITESPACE*` — what follows "{{-"/"{%-" backwards, what precedes "-}}"/"-%}" forwards, and what
   separates a delimiter from its content — consumes exactly the maximal run of space, tab, LF and
   CR characters, and nothing else *)
Theorem ws_star_exact la s pos fuel : 8 + length s <= fuel ->
  evg fuel Atomic la (PStar (PRef r_WHITESPACE)) s pos = Some (Some (drop_ws s, pos + count_ws s, [])).
Proof.
  intro Hf. destruct fuel as [|f]; [lia|]. rewrite ev_star, (plus_ws la (length s)) by lia.
  destruct (ws_head s) eqn:E; [reflexivity|]. destruct (drop_ws_nohead s E) as [-> ->]. fin.
Qed.
Theorem drop_ws_spec s : exists w, s = w ++ drop_ws s /\ forallb is_ws w = true /\ ws_head (drop_ws s) = false /\ length w = count_ws s.
Proof.
  induction s as [|c r IH]; [exists []; repeat split|]. cbn [drop_ws count_ws].
  destruct (is_ws c) eqn:W.
  - destruct IH as [w [E [F [H L]]]]. exists (c :: w). cbn [app forallb length]. rewrite W, F, <- E, L. repeat split. exact H.
  - exists []. cbn [ws_head]. rewrite W. repeat split.
Qed.

(* ---- general facts about the evaluator (any grammar) ---- *)
Section General.
Variable g : grammar. Variable ws : option nat.
Notation ev' := (ev g ws).

Definition skipf (f : nat) (at_ : atom) (la : bool) (s : str) (pos : nat) : pres :=
  match at_, ws with
  | NonAtomic, Some w => ev' f Atomic la (PStar (PRef w)) s pos
  | _, _ => Some (Some (s, pos, []))
  end.
Lemma ev_seq f at_ la a b s pos : ev' (S f) at_ la (PSeq a b) s pos =
  match ev' f at_ la a s pos with
  | Some (Some (s1, p1, t1)) =>
      match skipf f at_ la s1 p1 with
      | Some (Some (s2, p2, _)) =>
          match ev' f at_ la b s2 p2 with
          | Some (Some (s3, p3, t3)) => Some (Some (s3, p3, t1 ++ t3))
          | x => x
          end
      | x => x
      end
  | x => x
  end.
Proof. reflexivity. Qed.
Lemma ev_plus f at_ la a s pos : ev' (S f) at_ la (PPlus a) s pos =
  match ev' f at_ la a s pos with
  | Some (Some (s1, p1, t1)) =>
      match skipf f at_ la s1 p1 with
      | Some (Some (s2, p2, _)) =>
          match ev' f at_ la (PPlus a) s2 p2 with
          | Some (Some (s3, p3, t3)) => Some (Some (s3, p3, t1 ++ t3))
          | Some None => Some (Some (s1, p1, t1))
          | None => None
          end
      | Some None => Some (Some (s1, p1, t1))
      | None => None
      end
  | x => x
  end.
Proof. reflexivity. Qed.
Lemma ev_opt f at_ la a s pos : ev' (S f) at_ la (POpt a) s pos =
  match ev' f at_ la a s pos with Some None => Some (Some (s, pos, [])) | x => x end.
Proof. reflexivity. Qed.
Lemma ev_not f at_ la a s pos : ev' (S f) at_ la (PNot a) s pos =
  match ev' f at_ true a s pos with Some None => Some (Some (s, pos, [])) | Some (Some _) => Some None | None => None end.
Proof. reflexivity. Qed.
Lemma ev_leaf f at_ la e s pos :
  match e with PLit _ | PRng _ _ | PAny | PSoi | PEoi => True | _ => False end ->
  ev' (S f) at_ la e s pos = ev' 1 at_ la e s pos.
Proof. destruct e; intro X; try contradiction; reflexivity. Qed.

(* more fuel never changes an answer *)
Theorem ev_mono : forall f at_ la e s pos r, ev' f at_ la e s pos = Some r -> ev' (S f) at_ la e s pos = Some r.
Proof.
  induction f as [|f IH]; intros at_ la e s pos r H; [discriminate|].
  assert (IHs : forall at0 la0 s0 p0 r0, skipf f at0 la0 s0 p0 = Some r0 -> skipf (S f) at0 la0 s0 p0 = Some r0).
  { intros at0 la0 s0 p0 r0. unfold skipf. destruct at0, ws; try (intro X; exact X). apply IH. }
  destruct e.
  - rewrite ev_leaf in * by exact I. exact H.
  - rewrite ev_leaf in * by exact I. exact H.
  - rewrite ev_leaf in * by exact I. exact H.
  - rewrite ev_leaf in * by exact I. exact H.
  - rewrite ev_leaf in * by exact I. exact H.
  - rewrite ev_ref in *. destruct (nth_error g n) as [r0|]; [|exact H]. cbv zeta in *.
    destruct (ev' f _ la (r_body r0) s pos) as [x|] eqn:E; [|discriminate]. rewrite (IH _ _ _ _ _ _ E). exact H.
  - rewrite ev_seq in *.
    destruct (ev' f at_ la e1 s pos) as [x|] eqn:E1; [|discriminate]. rewrite (IH _ _ _ _ _ _ E1).
    destruct x as [[[s1 p1] t1]|]; [|exact H].
    destruct (skipf f at_ la s1 p1) as [y|] eqn:E2; [|discriminate]. rewrite (IHs _ _ _ _ _ E2).
    destruct y as [[[s2 p2] t2]|]; [|exact H].
    destruct (ev' f at_ la e2 s2 p2) as [z|] eqn:E3; [|discriminate]. rewrite (IH _ _ _ _ _ _ E3). exact H.
  - rewrite ev_alt in *.
    destruct (ev' f at_ la e1 s pos) as [x|] eqn:E1; [|discriminate]. rewrite (IH _ _ _ _ _ _ E1).
    destruct x; [exact H|]. apply IH. exact H.
  - rewrite ev_star in *.
    destruct (ev' f at_ la (PPlus e) s pos) as [x|] eqn:E1; [|discriminate]. rewrite (IH _ _ _ _ _ _ E1). exact H.
  - rewrite ev_plus in *.
    destruct (ev' f at_ la e s pos) as [x|] eqn:E1; [|discriminate]. rewrite (IH _ _ _ _ _ _ E1).
    destruct x as [[[s1 p1] t1]|]; [|exact H].
    destruct (skipf f at_ la s1 p1) as [y|] eqn:E2; [|discriminate]. rewrite (IHs _ _ _ _ _ E2).
    destruct y as [[[s2 p2] t2]|]; [|exact H].
    destruct (ev' f at_ la (PPlus e) s2 p2) as [z|] eqn:E3; [|discriminate]. rewrite (IH _ _ _ _ _ _ E3). exact H.
  - rewrite ev_opt in *.
    destruct (ev' f at_ la e s pos) as [x|] eqn:E1; [|discriminate]. rewrite (IH _ _ _ _ _ _ E1). exact H.
  - rewrite ev_not in *.
    destruct (ev' f at_ true e s pos) as [x|] eqn:E1; [|discriminate]. rewrite (IH _ _ _ _ _ _ E1). exact H.
Qed.
Corollary ev_mono_le f f' at_ la e s pos r : f <= f' -> ev' f at_ la e s pos = Some r -> ev' f' at_ la e s pos = Some r.
Proof. intros Hle H0. induction Hle as [|m Hm IHm]; [exact H0|]. apply ev_mono. exact IHm. Qed.

(* lookahead mode changes the pairs only: what is matched, and where it ends, is the same *)
Definition shape (r : option (str * nat * list tok)) : option (str * nat) :=
  match r with Some (s, p, _) => Some (s, p) | None => None end.
Theorem ev_la_shape : forall f at_ e s pos r, ev' f at_ true e s pos = Some r ->
  exists r', ev' f at_ false e s pos = Some r' /\ shape r' = shape r.
Proof.
  induction f as [|f IH]; intros at_ e s pos r H; [discriminate|].
  assert (IHs : forall at0 s0 p0 r0, skipf f at0 true s0 p0 = Some r0 ->
            exists r', skipf f at0 false s0 p0 = Some r' /\ shape r' = shape r0).
  { intros at0 s0 p0 r0. unfold skipf. destruct at0, ws; try (intro X; eexists; split; [exact X|reflexivity]). apply IH. }
  destruct e.
  - rewrite ev_leaf in * by exact I. eexists; split; [exact H|reflexivity].
  - rewrite ev_leaf in * by exact I. eexists; split; [exact H|reflexivity].
  - rewrite ev_leaf in * by exact I. eexists; split; [exact H|reflexivity].
  - rewrite ev_leaf in * by exact I. eexists; split; [exact H|reflexivity].
  - cbn [ev] in *. destruct s; inversion H; subst; eexists; split; reflexivity.
  - rewrite ev_ref in *. destruct (nth_error g n) as [r0|]; [|eexists; split; [exact H|reflexivity]]. cbv zeta in *.
    destruct (ev' f _ true (r_body r0) s pos) as [x|] eqn:E; [|discriminate].
    destruct (IH _ _ _ _ _ E) as [x' [E' Sx]]. rewrite E'.
    destruct x as [[[s1 p1] t1]|], x' as [[[s1' p1'] t1']|]; cbn [shape] in Sx; try discriminate; inversion H; subst.
    + inversion Sx; subst. eexists; split; reflexivity.
    + eexists; split; reflexivity.
  - rewrite ev_seq in *.
    destruct (ev' f at_ true e1 s pos) as [x|] eqn:E1; [|discriminate].
    destruct (IH _ _ _ _ _ E1) as [x' [E1' S1]]. rewrite E1'.
    destruct x as [[[s1 p1] t1]|], x' as [[[s1' p1'] t1']|]; cbn [shape] in S1; try discriminate;
      [inversion S1; subst|inversion H; subst; eexists; split; reflexivity].
    destruct (skipf f at_ true s1 p1) as [y|] eqn:E2; [|discriminate].
    destruct (IHs _ _ _ _ E2) as [y' [E2' S2]]. rewrite E2'.
    destruct y as [[[s2 p2] t2]|], y' as [[[s2' p2'] t2']|]; cbn [shape] in S2; try discriminate;
      [inversion S2; subst|inversion H; subst; eexists; split; reflexivity].
    destruct (ev' f at_ true e2 s2 p2) as [z|] eqn:E3; [|discriminate].
    destruct (IH _ _ _ _ _ E3) as [z' [E3' S3]]. rewrite E3'.
    destruct z as [[[s3 p3] t3]|], z' as [[[s3' p3'] t3']|]; cbn [shape] in S3; try discriminate; inversion H; subst;
      [inversion S3; subst|]; eexists; split; reflexivity.
  - rewrite ev_alt in *.
    destruct (ev' f at_ true e1 s pos) as [x|] eqn:E1; [|discriminate].
    destruct (IH _ _ _ _ _ E1) as [x' [E1' S1]]. rewrite E1'.
    destruct x as [[[s1 p1] t1]|], x' as [[[s1' p1'] t1']|]; cbn [shape] in S1; try discriminate.
    + inversion H; subst. eexists; split; [reflexivity|exact S1].
    + apply IH. exact H.
  - rewrite ev_star in *.
    destruct (ev' f at_ true (PPlus e) s pos) as [x|] eqn:E1; [|discriminate].
    destruct (IH _ _ _ _ _ E1) as [x' [E1' S1]]. rewrite E1'.
    destruct x as [[[s1 p1] t1]|], x' as [[[s1' p1'] t1']|]; cbn [shape] in S1; try discriminate; inversion H; subst;
      eexists; split; try reflexivity. exact S1.
  - rewrite ev_plus in *.
    destruct (ev' f at_ true e s pos) as [x|] eqn:E1; [|discriminate].
    destruct (IH _ _ _ _ _ E1) as [x' [E1' S1]]. rewrite E1'.
    destruct x as [[[s1 p1] t1]|], x' as [[[s1' p1'] t1']|]; cbn [shape] in S1; try discriminate;
      [inversion S1; subst|inversion H; subst; eexists; split; reflexivity].
    destruct (skipf f at_ true s1 p1) as [y|] eqn:E2; [|discriminate].
    destruct (IHs _ _ _ _ E2) as [y' [E2' S2]]. rewrite E2'.
    destruct y as [[[s2 p2] t2]|], y' as [[[s2' p2'] t2']|]; cbn [shape] in S2; try discriminate;
      [inversion S2; subst|inversion H; subst; eexists; split; reflexivity].
    destruct (ev' f at_ true (PPlus e) s2 p2) as [z|] eqn:E3; [|discriminate].
    destruct (IH _ _ _ _ _ E3) as [z' [E3' S3]]. rewrite E3'.
    destruct z as [[[s3 p3] t3]|], z' as [[[s3' p3'] t3']|]; cbn [shape] in S3; try discriminate; inversion H; subst;
      [inversion S3; subst|]; eexists; split; reflexivity.
  - rewrite ev_opt in *.
    destruct (ev' f at_ true e s pos) as [x|] eqn:E1; [|discriminate].
    destruct (IH _ _ _ _ _ E1) as [x' [E1' S1]]. rewrite E1'.
    destruct x as [[[s1 p1] t1]|], x' as [[[s1' p1'] t1']|]; cbn [shape] in S1; try discriminate; inversion H; subst;
      eexists; split; try reflexivity. exact S1.
  - rewrite ev_not in *. eexists; split; [exact H|reflexivity].
Qed.
End General.

(* ---- the lax top-level grammar never rejects a text ---- *)
Ltac rule_of n := let v := eval vm_compute in (nth_error liquid_grammar n) in change (nth_error liquid_grammar n) with v in *.
Ltac rules := repeat match goal with
  | |- context [nth_error liquid_grammar ?n] => rule_of n
  | H : context [nth_error liquid_grammar ?n] |- _ => rule_of n
  end.
Definition lax_item : pe := PAlt (PRef r_Element) (PRef r_InvalidLiquid).

Lemma some_none_inv {A} (x : option (option A)) (y : option (option A)) :
  match x with Some (Some p) => Some (Some p) | Some None => y | None => None end = Some None -> x = Some None /\ y = Some None.
Proof. destruct x as [[a|]|]; intro H; try discriminate; auto. Qed.

Ltac names := cbv [r_Element r_InvalidLiquid r_Expression r_Tag r_Raw r_LaxLiquidFile lax_item] in *.
Ltac inner H Hn := match type of H with match ?x with _ => _ end = _ => destruct x as [[[[? ?] ?]|]|] eqn:Hn; try discriminate end.

(* at a non-empty input, (Element | InvalidLiquid) does not fail: what is not an element is an invalid character *)
Lemma lax_item_never_fails f c s pos : evg f Compound false lax_item (c :: s) pos <> Some None.
Proof.
  intro H. names. destruct f as [|f1]; [discriminate|]. rewrite ev_alt in H.
  apply some_none_inv in H. destruct H as [HE HI].
  destruct f1 as [|f2]; [discriminate|]. rewrite ev_ref in HE, HI. rules. cbv zeta in HE, HI. cbn [r_mod r_body] in HE, HI.
  inner HE HEb. inner HI HIb. clear HE HI.
  destruct f2 as [|f3]; [discriminate|].
  rewrite ev_alt in HEb. apply some_none_inv in HEb. destruct HEb as [HX _].
  rewrite ev_seq in HIb.
  match type of HIb with match ?x with _ => _ end = _ => destruct x as [[[[s1 p1] t1]|]|] eqn:EN; [| |discriminate] end.
  - (* the lookahead succeeded without consuming: ANY then matches the character *)
    destruct f3 as [|f4]; [discriminate|]. rewrite ev_not in EN.
    match type of EN with match ?xx with _ => _ end = _ => destruct xx as [[x|]|]; try discriminate end. inversion EN; subst.
    unfold skipf in HIb. cbn in HIb. discriminate.
  - (* the lookahead found an Expression: then Element would have matched it *)
    destruct f3 as [|f4]; [discriminate|]. rewrite ev_not in EN.
    match type of EN with match ?xx with _ => _ end = _ => destruct xx as [[x|]|] eqn:EL; try discriminate end.
    destruct (ev_la_shape _ _ _ _ _ _ _ _ EL) as [r' [E' S']].
    apply (ev_mono_le _ _ f4 (S f4)) in E'; [|lia]. rewrite HX in E'. inversion E'; subst. destruct x as [[? ?] ?]; discriminate.
Qed.

Lemma lax_plus_end : forall f s pos r, evg f Compound false (PPlus lax_item) s pos = Some r ->
  match r with Some (s1, _, _) => s1 = [] | None => s = [] end.
Proof.
  induction f as [|f IH]; intros s pos r H; [discriminate|]. rewrite ev_plus in H.
  destruct (evg f Compound false lax_item s pos) as [[[[s1 p1] t1]|]|] eqn:E1; [| |discriminate].
  - unfold skipf in H. cbn iota in H.
    destruct (evg f Compound false (PPlus lax_item) s1 p1) as [[[[s3 p3] t3]|]|] eqn:E3; [| |discriminate].
    + inversion H; subst. exact (IH _ _ _ E3).
    + inversion H; subst. exact (IH _ _ _ E3).
  - inversion H; subst. destruct s as [|c s']; [reflexivity|]. exfalso. exact (lax_item_never_fails _ _ _ _ E1).
Qed.

(* parse() relies on this: `LiquidParser::parse(Rule::LaxLiquidFile, text).expect(..)` cannot meet a
   grammar failure — whenever the evaluation finishes, it finishes with a match of the whole text *)
Lemma ev_soi g ws f at_ la s pos : ev g ws (S f) at_ la PSoi s pos = Some (if Nat.eqb pos 0 then Some (s, pos, []) else None).
Proof. reflexivity. Qed.
Lemma ev_eoi_nil g ws f at_ la pos : exists ts, ev g ws (S f) at_ la PEoi [] pos = Some (Some ([], pos, ts)).
Proof. eexists. reflexivity. Qed.
Lemma ev_eoi_cons g ws f at_ la c s pos : ev g ws (S f) at_ la PEoi (c :: s) pos = Some None.
Proof. reflexivity. Qed.
Theorem lax_never_rejects fuel s : parse liquid_grammar liquid_ws fuel r_LaxLiquidFile s <> Some None.
Proof.
  unfold parse. intro H. destruct fuel as [|f1]; [discriminate|]. rewrite ev_ref in H. rules. cbv zeta in H. cbn [r_mod r_body] in H.
  inner H Hb. clear H. destruct f1 as [|f2]; [discriminate|]. rewrite ev_seq in Hb.
  destruct f2 as [|f3]; [discriminate|]. rewrite ev_soi in Hb. cbn [Nat.eqb] in Hb. unfold skipf in Hb. cbn iota in Hb.
  rewrite ev_seq in Hb. change (PAlt (PRef 5) (PRef 4)) with lax_item in Hb.
  destruct (evg f3 Compound false (PStar lax_item) s 0) as [[[[s1 p1] t1]|]|] eqn:ES; [| |discriminate].
  - assert (s1 = []) as ->.
    { destruct f3 as [|f4]; [discriminate|]. rewrite ev_star in ES.
      destruct (evg f4 Compound false (PPlus lax_item) s 0) as [[[[s2 p2] t2]|]|] eqn:EP; try discriminate.
      - inversion ES; subst. exact (lax_plus_end _ _ _ _ EP).
      - inversion ES; subst. exact (lax_plus_end _ _ _ _ EP). }
    unfold skipf in Hb. cbn iota in Hb. destruct f3 as [|f4]; [discriminate|]. destruct (ev_eoi_nil liquid_grammar liquid_ws f4 Compound false p1) as [ts E]. rewrite E in Hb. discriminate.
  - destruct f3 as [|f4]; [discriminate|]. rewrite ev_star in ES.
    destruct (evg f4 Compound false (PPlus lax_item) s 0) as [[[[s2 p2] t2]|]|]; discriminate.
Qed.
Lemma seq_eoi_rest f at_ la a s pos rest p t :
  evg f at_ la (PSeq a PEoi) s pos = Some (Some (rest, p, t)) -> rest = [].
Proof.
  destruct f as [|f]; [discriminate|]. rewrite ev_seq.
  destruct (evg f at_ la a s pos) as [[[[s1 p1] t1]|]|]; try discriminate.
  destruct (skipf liquid_grammar liquid_ws f at_ la s1 p1) as [[[[s2 p2] t2]|]|]; try discriminate.
  destruct f as [|f']; [discriminate|]. destruct s2 as [|c s2]; [|rewrite ev_eoi_cons; discriminate].
  destruct (ev_eoi_nil liquid_grammar liquid_ws f' at_ la p2) as [ts E]. rewrite E. intro H. inversion H. reflexivity.
Qed.
Theorem lax_consumes_everything fuel s rest pos ts :
  parse liquid_grammar liquid_ws fuel r_LaxLiquidFile s = Some (Some (rest, pos, ts)) -> rest = [].
Proof.
  unfold parse. intro H. destruct fuel as [|f1]; [discriminate|]. rewrite ev_ref in H. rules. cbv zeta in H. cbn [r_mod r_body] in H.
  match type of H with match ?x with _ => _ end = _ => destruct x as [[[[s0 p0] t0]|]|] eqn:Hb; try discriminate end.
  inversion H; subst. clear H.
  destruct f1 as [|f2]; [discriminate|]. rewrite ev_seq in Hb.
  match type of Hb with match ?x with _ => _ end = _ => destruct x as [[[[sa pa] ta]|]|]; try discriminate end.
  unfold skipf in Hb. cbn iota in Hb.
  match type of Hb with match ?x with _ => _ end = _ => destruct x as [[[[s1 p1] t1]|]|] eqn:E2; try discriminate end.
  inversion Hb; subst. exact (seq_eoi_rest _ _ _ _ _ _ _ _ _ E2).
Qed.

(* ---- text without a brace is one Raw element (C03: a template without markup renders to itself) ---- *)
Lemma skipf_id f at_ la s pos : at_ <> NonAtomic -> skipf liquid_grammar liquid_ws f at_ la s pos = Some (Some (s, pos, [])).
Proof. intro H. unfold skipf. destruct at_; [contradiction|reflexivity|reflexivity]. Qed.

Lemma ws_rule_one_any at_ fuel la s pos : 6 <= fuel ->
  evg fuel at_ la (PRef r_WHITESPACE) s pos =
  Some (match s with
        | c :: r => if (c =? 13)%N then match r with 10%N :: r' => Some (r', pos + 2, []) | _ => Some (r, pos + 1, []) end
                    else if is_ws c then Some (r, pos + 1, []) else None
        | [] => None
        end).
Proof.
  intro Hf. do 6 (destruct fuel as [|fuel]; [lia|]).
  rewrite ev_ref. rules. cbn [r_mod r_body]. cbv zeta.
  replace (negb la && negb (atom_eqb at_ Atomic) && negb true) with false by (destruct la, at_; reflexivity).
  rewrite !ev_alt, !ev_lit.
  destruct s as [|c r]; [reflexivity|].
  rewrite !strip1. unfold is_ws. cbn [length Nat.add].
  destruct (N.eqb_spec 32 c) as [<-|N1]; [reflexivity|].
  destruct (N.eqb_spec 9 c) as [<-|N2]; [reflexivity|].
  destruct (N.eqb_spec 10 c) as [<-|N3]; [reflexivity|].
  cbn [strip_prefix].
  destruct (N.eqb_spec 13 c) as [<-|N4].
  - cbn [N.eqb Pos.eqb orb]. destruct r as [|d r']; [reflexivity|].
    destruct (N.eqb_spec 10 d) as [<-|N5]; [reflexivity|].
    replace (d =? 10)%N with false by lia.
    destruct d as [|p]; [reflexivity|]. repeat (destruct p as [p|p|]; try reflexivity); exfalso; apply N5; reflexivity.
  - replace (c =? 13)%N with false by lia. replace (c =? 32)%N with false by lia. replace (c =? 9)%N with false by lia.
    replace (c =? 10)%N with false by lia. reflexivity.
Qed.

Lemma plus_ws_any at_ la : at_ <> NonAtomic -> forall n s fuel pos, length s <= n -> 7 + length s <= fuel ->
  evg fuel at_ la (PPlus (PRef r_WHITESPACE)) s pos =
  Some (if ws_head s then Some (drop_ws s, pos + count_ws s, []) else None).
Proof.
  intro Hat. induction n as [|n IH]; intros s fuel pos Hn Hf.
  - destruct s; [|cbn in Hn; lia]. destruct fuel as [|f]; [lia|]. rewrite ev_plus, ws_rule_one_any by lia. reflexivity.
  - destruct fuel as [|f]; [lia|]. rewrite ev_plus, ws_rule_one_any by lia.
    destruct s as [|c r]; [reflexivity|]. cbn [length] in Hn, Hf. cbn [ws_head].
    destruct (N.eqb_spec c 13) as [->|N13].
    + change (is_ws 13%N) with true. cbn iota.
      destruct r as [|d r'].
      * rewrite skipf_id by exact Hat. rewrite (IH [] f (pos + 1)) by (cbn; lia). cbn [ws_head drop_ws count_ws is_ws]. change (is_ws 13%N) with true. cbn iota.
        fin.
      * destruct (N.eqb_spec d 10) as [->|N10].
        -- cbn [length] in Hn, Hf. rewrite skipf_id by exact Hat. rewrite (IH r' f (pos + 2)) by lia.
           cbn [drop_ws count_ws]. change (is_ws 13%N) with true. change (is_ws 10%N) with true. cbn iota.
           destruct (ws_head r') eqn:E; [fin|].
           destruct (drop_ws_nohead r' E) as [-> ->]. fin.
        -- assert (match d :: r' with 10%N :: r'0 => Some (r'0, pos + 2, @nil tok) | _ => Some (d :: r', pos + 1, []) end = Some (d :: r', pos + 1, [])) as ->.
           { destruct d as [|p]; [reflexivity|]. repeat (destruct p as [p|p|]; try reflexivity); exfalso; apply N10; reflexivity. }
           assert (Hl : length (d :: r') <= n) by (cbn [length] in *; lia).
           assert (Hl2 : 7 + length (d :: r') <= f) by (cbn [length] in *; lia).
           remember (d :: r') as rest eqn:Er. clear Er.
           rewrite skipf_id by exact Hat. rewrite (IH rest f (pos + 1)) by assumption.
           cbn [drop_ws count_ws]. change (is_ws 13%N) with true. cbn iota.
           destruct (ws_head rest) eqn:E; [fin|].
           destruct (drop_ws_nohead rest E) as [-> ->]. fin.
    + destruct (is_ws c) eqn:W; [|reflexivity].
      rewrite skipf_id by exact Hat. rewrite (IH r f (pos + 1)) by lia. cbn [drop_ws count_ws]. rewrite W.
      destruct (ws_head r) eqn:E; [fin|].
      destruct (drop_ws_nohead r E) as [-> ->]. fin.
Qed.
Theorem ws_star_any at_ la s pos fuel : at_ <> NonAtomic -> 8 + length s <= fuel ->
  evg fuel at_ la (PStar (PRef r_WHITESPACE)) s pos = Some (Some (drop_ws s, pos + count_ws s, [])).
Proof.
  intros Hat Hf. destruct fuel as [|f]; [lia|]. rewrite ev_star, (plus_ws_any at_ la Hat (length s)) by lia.
  destruct (ws_head s) eqn:E; [reflexivity|]. destruct (drop_ws_nohead s E) as [-> ->]. fin.
Qed.

Definition no_brace (s : str) : bool := forallb (fun c => negb (c =? 123)%N) s.
Lemma no_brace_drop s : no_brace s = true -> no_brace (drop_ws s) = true.
Proof. induction s as [|c t IH]; [reflexivity|]. cbn [no_brace forallb drop_ws]. intro H. destruct (is_ws c); [apply andb_true_iff in H as [_ H]; auto|exact H]. Qed.
Lemma lit_brace_fails l s : no_brace s = true -> strip_prefix (123%N :: l) s = None.
Proof. destruct s as [|c t]; [reflexivity|]. cbn [no_brace forallb strip_prefix]. intro H. apply andb_true_iff in H as [H _]. destruct (N.eqb_spec 123 c) as [<-|N]; [discriminate|reflexivity]. Qed.

(* a start delimiter (with or without trim marker) does not match where no brace follows *)
Lemma start_fails (which : nat) at_ la s pos fuel : which = r_TagStart \/ which = r_ExpressionStart ->
  at_ <> NonAtomic -> no_brace s = true -> 12 + length s <= fuel -> evg fuel at_ la (PRef which) s pos = Some None.
Proof.
  intros Hw Hat Hn Hf. do 4 (destruct fuel as [|fuel]; [lia|]).
  destruct Hw as [-> | ->]; rewrite ev_ref; rules; cbn [r_mod r_body]; cbv zeta;
    rewrite ev_alt, ev_seq; (rewrite (ws_star_any _ _ s pos (S fuel)) by (try assumption; destruct at_; try discriminate; lia));
    rewrite skipf_id by exact Hat; rewrite !ev_lit; rewrite (lit_brace_fails _ _ (no_brace_drop s Hn)), (lit_brace_fails _ _ Hn); reflexivity.
Qed.

Lemma ev_any_cons g ws f at_ la c t pos : ev g ws (S f) at_ la PAny (c :: t) pos = Some (Some (t, S pos, [])).
Proof. reflexivity. Qed.
Lemma ev_any_nil g ws f at_ la pos : ev g ws (S f) at_ la PAny [] pos = Some None.
Proof. reflexivity. Qed.
Definition raw_item : pe := PSeq (PNot (PAlt (PRef r_TagStart) (PRef r_ExpressionStart))) PAny.

Lemma starts_fail at_ la s pos fuel : at_ <> NonAtomic -> no_brace s = true -> 13 + length s <= fuel ->
  evg fuel at_ la (PAlt (PRef r_TagStart) (PRef r_ExpressionStart)) s pos = Some None.
Proof.
  intros Hat Hn Hf. destruct fuel as [|f]; [lia|]. rewrite ev_alt.
  rewrite (start_fails r_TagStart at_ la s pos f (or_introl eq_refl) Hat Hn) by lia.
  apply (start_fails r_ExpressionStart at_ la s pos f (or_intror eq_refl) Hat Hn). lia.
Qed.
Lemma raw_item_cons c t pos fuel : no_brace (c :: t) = true -> 16 + length t <= fuel ->
  evg fuel Atomic false raw_item (c :: t) pos = Some (Some (t, S pos, [])).
Proof.
  intros Hn Hf. do 2 (destruct fuel as [|fuel]; [lia|]). unfold raw_item. rewrite ev_seq, ev_not.
  rewrite (starts_fail Atomic true (c :: t) pos fuel) by (try discriminate; try assumption; cbn [length]; lia).
  rewrite skipf_id by discriminate. destruct fuel as [|f]; [lia|]. rewrite ev_any_cons. reflexivity.
Qed.
Lemma raw_item_nil pos fuel : 16 <= fuel -> evg fuel Atomic false raw_item [] pos = Some None.
Proof.
  intros Hf. do 2 (destruct fuel as [|fuel]; [lia|]). unfold raw_item. rewrite ev_seq, ev_not.
  rewrite (starts_fail Atomic true [] pos fuel) by (try discriminate; try reflexivity; cbn [length]; lia).
  rewrite skipf_id by discriminate. destruct fuel as [|f]; [lia|]. rewrite ev_any_nil. reflexivity.
Qed.
Lemma raw_plus : forall t c pos fuel, no_brace (c :: t) = true -> 18 + length t <= fuel ->
  evg fuel Atomic false (PPlus raw_item) (c :: t) pos = Some (Some ([], S pos + length t, [])).
Proof.
  induction t as [|d t IH]; intros c pos fuel Hn Hf; (destruct fuel as [|f]; [lia|]); rewrite ev_plus.
  - rewrite raw_item_cons by (try assumption; cbn [length] in *; lia). rewrite skipf_id by discriminate.
    destruct f as [|f']; [lia|]. rewrite ev_plus. rewrite raw_item_nil by (cbn [length] in *; lia). cbn [length]. fin.
  - rewrite raw_item_cons by (try assumption; cbn [length] in *; lia). rewrite skipf_id by discriminate.
    assert (Hn' : no_brace (d :: t) = true) by (cbn [no_brace forallb] in *; apply andb_true_iff in Hn as [_ Hn]; exact Hn).
    rewrite (IH d (S pos) f Hn') by (cbn [length] in *; lia). cbn [length app]. apply res_eq. lia.
Qed.

Ltac rwn H := let X := fresh "X" in pose proof H as X;
  cbv [r_WHITESPACE r_TagStart r_ExpressionStart r_Expression r_Tag r_Raw r_Element r_InvalidLiquid r_LaxLiquidFile lax_item raw_item] in X;
  rewrite X; clear X.
Lemma expr_or_tag_fails (which : nat) la s pos fuel : which = r_Expression \/ which = r_Tag ->
  no_brace s = true -> 16 + length s <= fuel -> evg fuel Compound la (PRef which) s pos = Some None.
Proof.
  intros Hw Hn Hf. do 2 (destruct fuel as [|fuel]; [lia|]).
  destruct Hw as [-> | ->]; rewrite ev_ref; rules; cbn [r_mod r_body]; cbv zeta; rewrite ev_seq.
  - rwn (start_fails r_ExpressionStart Compound la s pos fuel (or_intror eq_refl) ltac:(discriminate) Hn ltac:(lia)). reflexivity.
  - rwn (start_fails r_TagStart Compound la s pos fuel (or_introl eq_refl) ltac:(discriminate) Hn ltac:(lia)). reflexivity.
Qed.
Lemma raw_matches c t pos fuel : no_brace (c :: t) = true -> 20 + length t <= fuel ->
  evg fuel Compound false (PRef r_Raw) (c :: t) pos =
  Some (Some ([], S pos + length t, [mkTok r_Raw pos (S pos + length t)])).
Proof.
  intros Hn Hf. destruct fuel as [|f]; [lia|]. rewrite ev_ref. rules. cbn [r_mod r_body atom_eqb negb andb]. cbv zeta.
  rwn (raw_plus t c pos f Hn ltac:(lia)). reflexivity.
Qed.
Lemma raw_fails_nil pos fuel : 20 <= fuel -> evg fuel Compound false (PRef r_Raw) [] pos = Some None.
Proof.
  intros Hf. do 2 (destruct fuel as [|fuel]; [lia|]). rewrite ev_ref. rules. cbn [r_mod r_body]. cbv zeta.
  rewrite ev_plus. rwn (raw_item_nil pos fuel ltac:(lia)). reflexivity.
Qed.
Lemma lax_item_text c t pos fuel : no_brace (c :: t) = true -> 24 + length t <= fuel ->
  evg fuel Compound false lax_item (c :: t) pos = Some (Some ([], S pos + length t, [mkTok r_Raw pos (S pos + length t)])).
Proof.
  intros Hn Hf. do 4 (destruct fuel as [|fuel]; [lia|]). unfold lax_item. rewrite ev_alt, ev_ref. rules. cbn [r_mod r_body]. cbv zeta.
  replace (negb false && negb (atom_eqb Compound Atomic) && negb true) with false by reflexivity.
  rewrite !ev_alt.
  rwn (expr_or_tag_fails r_Expression false (c :: t) pos (S fuel) (or_introl eq_refl) Hn ltac:(cbn [length]; lia)).
  rwn (expr_or_tag_fails r_Tag false (c :: t) pos fuel (or_intror eq_refl) Hn ltac:(cbn [length]; lia)).
  rwn (raw_matches c t pos fuel Hn ltac:(lia)). reflexivity.
Qed.
Lemma lax_item_end pos fuel : 30 <= fuel -> evg fuel Compound false lax_item [] pos = Some None.
Proof.
  intros Hf. do 4 (destruct fuel as [|fuel]; [lia|]). unfold lax_item. rewrite ev_alt, !ev_ref. rules. cbn [r_mod r_body]. cbv zeta.
  rewrite !ev_alt.
  rwn (expr_or_tag_fails r_Expression false [] pos (S fuel) (or_introl eq_refl) eq_refl ltac:(cbn [length]; lia)).
  rwn (expr_or_tag_fails r_Tag false [] pos fuel (or_intror eq_refl) eq_refl ltac:(cbn [length]; lia)).
  rwn (raw_fails_nil pos fuel ltac:(lia)).
  (* InvalidLiquid: nothing left for ANY *)
  rewrite ev_seq, ev_not.
  rwn (expr_or_tag_fails r_Expression true [] pos fuel (or_introl eq_refl) eq_refl ltac:(cbn [length]; lia)).
  rewrite skipf_id by discriminate. rewrite ev_any_nil. reflexivity.
Qed.

(* C03: a text that contains no brace is exactly one Raw element covering all of it, followed by EOI —
   parser.rs turns a Raw element into the text it spans and renders it with a plain write *)
Theorem no_markup_is_one_raw c t fuel : no_brace (c :: t) = true -> 40 + length t <= fuel ->
  parse liquid_grammar liquid_ws fuel r_LaxLiquidFile (c :: t) =
  Some (Some ([], S (length t),
              [mkTok r_LaxLiquidFile 0 (S (length t)); mkTok r_Raw 0 (S (length t)); mkTok eoi_id (S (length t)) (S (length t))])).
Proof.
  intros Hn Hf. unfold parse. do 6 (destruct fuel as [|fuel]; [lia|]).
  rewrite ev_ref. rules. cbn [r_mod r_body]. cbv zeta.
  rewrite ev_seq, ev_soi. cbn [Nat.eqb]. rewrite skipf_id by discriminate.
  rewrite ev_seq, ev_star, ev_plus.
  rwn (lax_item_text c t 0 (S fuel) Hn ltac:(lia)). rewrite skipf_id by discriminate.
  destruct fuel as [|f]; [lia|]. rewrite ev_plus. rwn (lax_item_end (S 0 + length t) (S f) ltac:(lia)).
  rewrite skipf_id by discriminate. cbn [ev atom_eqb orb app Nat.add]. reflexivity.
Qed.
Theorem empty_text_is_no_element fuel : 40 <= fuel ->
  parse liquid_grammar liquid_ws fuel r_LaxLiquidFile [] =
  Some (Some ([], 0, [mkTok r_LaxLiquidFile 0 0; mkTok eoi_id 0 0])).
Proof.
  intros Hf. unfold parse. do 6 (destruct fuel as [|fuel]; [lia|]).
  rewrite ev_ref. rules. cbn [r_mod r_body]. cbv zeta.
  rewrite ev_seq, ev_soi. cbn [Nat.eqb]. rewrite skipf_id by discriminate.
  rewrite ev_seq, ev_star, ev_plus.
  rwn (lax_item_end 0 (S fuel) ltac:(lia)).
  rewrite skipf_id by discriminate. cbn [ev atom_eqb orb app Nat.add]. reflexivity.
Qed.
