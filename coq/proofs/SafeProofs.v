(* SafeProofs.v — rendering never reaches a panic site (C02): for every well-formed template,
   every data object, every partial store and nesting depth the evaluator returns Done or a
   failure; the only panic sites it can reach are the ones listed in [allowed] (the unspecified
   sort of the known finding, and the two `String::from_utf8(..).expect` sites whose safety is the
   UTF-8 validity of what was written, see Utf8Proofs.v). *)
From LV Require Import Base Value Stack Filters_math Filters_html Filters_seq Eval BaseLemmas StackProofs
  EvalInd EvalProofs ShapeProofs FindProofs HtmlProofs.

Definition allowed (n : N) : Prop := n = site_sort_unspecified \/ n = 303%N \/ n = 304%N.
(* values computed by expressions and filters can only hit the sort site; the two from_utf8 sites belong to blocks *)
Definition rsafe {A} (r : res A) : Prop := match r with Panic n => n = site_sort_unspecified | _ => True end.
Definition osafe (o : ores) : Prop := match o with OPanicked n => allowed n | _ => True end.
(* the runtime a render starts from has a global layer and a counter layer; no construct removes them *)
Definition okst (s : est) : Prop := wfr s /\ has_global (fr s) = true /\ has_index (fr s) = true.

Lemma sim_has_global r r' : sim r r' -> has_global r' = has_global r /\ has_index r' = has_index r.
Proof.
  induction 1 as [|a b r r' Hf _ IH]; [split; reflexivity|].
  destruct IH as [IG II]. destruct Hf; cbn; auto.
Qed.
Lemma okst_esim s s' : okst s -> esim s s' -> okst s'.
Proof.
  intros [W [G I]] E. split; [eapply wfr_esim; eassumption|].
  destruct E as [E _]. destruct (sim_has_global _ _ E) as [EG EI]. rewrite EG, EI. auto.
Qed.
Lemma okst_push_plain a s : okst s -> okst (push_plain a s).
Proof. intros [W [G I]]. repeat split; assumption. Qed.
Lemma okst_push_sandbox a s : okst s -> okst (push_sandbox a s).
Proof. intros [W [G I]]. repeat split; [apply wfr_push_sandbox|exact I]. Qed.
Lemma okst_build data : okst (est_build data).
Proof. repeat split. unfold wfr. cbn. discriminate. Qed.

Lemma set_global_safe x v r : has_global r = true -> exists r', set_global x v r = Ok r'.
Proof. intro H. destruct (set_global_shape x v r H) as [r' [E _]]. eauto. Qed.
Lemma set_index_safe x v r : has_index r = true -> exists r', set_index x v r = Ok r'.
Proof. intro H. destruct (set_index_shape x v r H) as [r' [E _]]. eauto. Qed.

Definition post (st : est) (x : out) : Prop := match x with (o, s', _) => esim st s' /\ osafe o end.
Lemma post_here st o k : osafe o -> post st (o, st, k).
Proof. intro H. split; [apply esim_refl|exact H]. Qed.
Lemma post_of_res {A} (r : res A) st k f : rsafe r -> (forall a, r = Ok a -> post st (f a)) -> post st (of_res r st k f).
Proof. intros Hr Hf. destruct r; cbn [of_res]; [apply Hf; reflexivity| | |]; apply post_here; try exact I. left. exact Hr. Qed.
Lemma post_write st k t : post st (write_str st k t).
Proof. destruct (write_str_cases st k t) as [k' [E|E]]; rewrite E; apply post_here; exact I. Qed.
Lemma post_trans st s1 (x : out) : esim st s1 -> post s1 x -> post st x.
Proof. intros E. destruct x as [[o s2] k2]. intros [E2 Ho]. split; [eapply esim_trans; eassumption|exact Ho]. Qed.

Definition SF (f : est -> sink -> out) : Prop := forall s k, okst s -> post s (f s k).

Lemma SF_seq f cont : SF f -> SF cont -> SF (fun s k => seq_step (f s k) cont).
Proof.
  intros Hf Hc s k W. specialize (Hf s k W). destruct (f s k) as [[o s1] k1]. unfold seq_step.
  destruct o; try exact Hf. destruct (interrupted s1); [exact Hf|].
  destruct Hf as [E _]. eapply post_trans; [exact E|]. apply Hc. exact (okst_esim _ _ W E).
Qed.

Lemma SF_for body x len parent : SF body -> forall vs i, SF (for_loop body x len parent vs i).
Proof.
  intros Hb; induction vs as [|v vs IH]; intros i s k W; [apply post_here; exact I|]. rewrite for_loop_cons.
  specialize (Hb (push_plain (iter_frame x len parent i v) s) k (okst_push_plain _ _ W)).
  destruct (body (push_plain (iter_frame x len parent i v) s) k) as [[o s1] k1].
  destruct Hb as [Hb Ho]. apply esim_pop_plain in Hb.
  assert (W1 : okst (pop_plain s1)) by (eapply okst_esim; eassumption).
  assert (E2 : esim s (clear_intr (pop_plain s1))) by (eapply esim_trans; [exact Hb|apply esim_set_regs; apply W1]).
  destruct o; try (split; assumption).
  destruct (r_intr (get_regs (pop_plain s1))) as [[|]|]; try (split; [exact E2|exact I]);
    (eapply post_trans; [exact E2|]; apply IH; exact (okst_esim _ _ W E2)).
Qed.

Lemma SF_tablerow body x len cols : SF body -> forall vs i, SF (tablerow_loop body x len cols vs i).
Proof.
  intros Hb; induction vs as [|v vs IH]; intros i s k W; [apply post_here; exact I|]. cbn [tablerow_loop].
  match goal with |- context [write_str s k ?t] => destruct (write_str_cases s k t) as [k0 [E|E]]; rewrite E end; [|apply post_here; exact I].
  match goal with |- context [body (push_plain ?a s) k0] =>
    specialize (Hb (push_plain a s) k0 (okst_push_plain _ _ W)); destruct (body (push_plain a s) k0) as [[o1 s1] k1] end.
  destruct Hb as [Hb Ho]. apply esim_pop_plain in Hb. destruct o1; try (split; assumption).
  match goal with |- context [write_str (pop_plain s1) k1 ?t] => destruct (write_str_cases (pop_plain s1) k1 t) as [k2 [E2|E2]]; rewrite E2 end;
    [|split; [exact Hb|exact I]].
  eapply post_trans; [exact Hb|]. apply IH. exact (okst_esim _ _ W Hb).
Qed.

Lemma SF_render_for body x len base : SF body -> (forall s, rsafe (base s)) -> forall vs i, SF (render_for_loop body x len base vs i).
Proof.
  intros Hb Hbase; induction vs as [|v vs IH]; intros i s k W; [apply post_here; exact I|]. cbn [render_for_loop].
  apply post_of_res; [apply Hbase|]. intros b0 _.
  match goal with |- context [body (push_sandbox ?a s) k] =>
    specialize (Hb (push_sandbox a s) k (okst_push_sandbox _ _ W)); destruct (body (push_sandbox a s) k) as [[o1 s1] k1] end.
  destruct Hb as [Hb Ho]. apply esim_pop_sandbox in Hb. destruct o1; try (split; assumption).
  destruct (match r_intr (get_regs s1) with Some Brk => true | _ => false end); [split; assumption|].
  eapply post_trans; [exact Hb|]. apply IH. exact (okst_esim _ _ W Hb).
Qed.

(* ---- well-formed templates: what the parser guarantees (a cycle tag has at least one value) ---- *)
Inductive OptForall (P : node -> Prop) : option (list node) -> Prop :=
| of_none : OptForall P None
| of_some l : Forall P l -> OptForall P (Some l).
Inductive nwf : node -> Prop :=
| wf_text s : nwf (NText s) | wf_raw s : nwf (NRaw s) | wf_comment : nwf NComment
| wf_out fc : nwf (NOutput fc) | wf_assign x fc : nwf (NAssign x fc)
| wf_capture x b : Forall nwf b -> nwf (NCapture x b)
| wf_inc x : nwf (NIncrement x) | wf_dec x : nwf (NDecrement x)
| wf_cycle n vs : vs <> [] -> nwf (NCycle n vs)
| wf_if m c t e : Forall nwf t -> OptForall nwf e -> nwf (NIf m c t e)
| wf_case tg ws e : Forall (fun w => Forall nwf (snd w)) ws -> OptForall nwf e -> nwf (NCase tg ws e)
| wf_for x r l o rv b e : Forall nwf b -> OptForall nwf e -> nwf (NFor x r l o rv b e)
| wf_table x r c l o b : Forall nwf b -> nwf (NTableRow x r c l o b)
| wf_break : nwf NBreak | wf_cont : nwf NContinue
| wf_ifch b : Forall nwf b -> nwf (NIfChanged b)
| wf_incl p a : nwf (NInclude p a)
| wf_render p f a : nwf (NRender p f a).
Definition twf (t : template) : Prop := Forall nwf t.

Section Safe.
Variable O : oracle.

(* ---- expressions, filters, conditions never panic (outside the allowed sort site) ---- *)
Section ExprInd.
Variable P : expr -> Prop.
Hypothesis Hl : forall v, P (ELit v).
Hypothesis Hv : forall r idx, Forall P idx -> P (EVar r idx).
Fixpoint expr_ind' (e : expr) : P e :=
  match e with
  | ELit v => Hl v
  | EVar r idx => Hv r idx ((fix fl (l : list expr) : Forall P l :=
                               match l with [] => Forall_nil _ | x :: t => Forall_cons _ (expr_ind' x) (fl t) end) idx)
  end.
End ExprInd.

Lemma eval_indices_np idx s : Forall (fun e => not_panic (eval_expr O e s) = true) idx -> not_panic (eval_indices O idx s) = true.
Proof.
  induction 1 as [|e t He _ IH]; [reflexivity|]. cbn [eval_indices].
  destruct (eval_expr O e s) as [v| | |]; try reflexivity; try discriminate.
  cbn [bind]. destruct v; try reflexivity. destruct (eval_indices O t s); try reflexivity; discriminate.
Qed.
Lemma eval_expr_np e s : not_panic (eval_expr O e s) = true.
Proof.
  induction e as [v|r idx IH] using expr_ind'; [reflexivity|]. rewrite eval_var_unfold.
  pose proof (eval_indices_np idx s IH) as Hi.
  destruct (eval_indices O idx s) as [p| | |]; try reflexivity; try discriminate. cbn [bind].
  apply (get_never_panics O).
Qed.
Lemma np_rsafe {A} (r : res A) : not_panic r = true -> rsafe r.
Proof. destruct r; try discriminate; intros _; exact I. Qed.
Lemma eval_expr_safe e s : rsafe (eval_expr O e s).
Proof. apply np_rsafe, eval_expr_np. Qed.

Lemma rsafe_bind {A B} (r : res A) (f : A -> res B) : rsafe r -> (forall a, r = Ok a -> rsafe (f a)) -> rsafe (do x <- r; f x).
Proof. intros Hr Hf. destruct r; cbn [bind]; auto. Qed.

Lemma eval_exprs_safe l s : rsafe (eval_exprs O l s).
Proof.
  induction l as [|e t IH]; [exact I|]. cbn [eval_exprs].
  apply rsafe_bind; [apply eval_expr_safe|]. intros v _. apply rsafe_bind; [exact IH|]. intros; exact I.
Qed.

Ltac dm := match goal with
  | |- context [match ?x with _ => _ end] =>
      lazymatch x with context [match _ with _ => _ end] => fail | _ => destruct x end
  end.
Lemma math_filter_np f v args : not_panic (math_filter O f v args) = true.
Proof.
  unfold math_filter, num2, as_scalar.
  destruct f; destruct args as [|a [|b args]]; try reflexivity; repeat (dm; try reflexivity).
Qed.
Lemma html_filter_np f v : not_panic (html_filter O f v) = true.
Proof. destruct (html_filter_total O f v) as [[r E]|[c E]]; rewrite E; reflexivity. Qed.
Lemma sort_by_safe {A} (cmp : A -> A -> comparison) l : rsafe (sort_by cmp l).
Proof. unfold sort_by. destruct (total_preorder_on cmp l); [exact I|reflexivity]. Qed.
Lemma arg_int_np v : not_panic (arg_int v) = true.
Proof. unfold arg_int. repeat (dm; try reflexivity). Qed.
Lemma opt_int_safe d a : rsafe (opt_int d a).
Proof. destruct a; [apply np_rsafe, arg_int_np|exact I]. Qed.

Ltac safe_leaf := first [exact I | apply sort_by_safe | apply opt_int_safe
                        | (apply rsafe_bind; [first [apply sort_by_safe | apply opt_int_safe]|intros ? _]) ].
Lemma seq_filter_safe f v args : rsafe (seq_filter O f v args).
Proof.
  unfold seq_filter.
  destruct f; destruct args as [|a [|b [|c args]]]; try exact I;
    repeat first [progress safe_leaf | dm].
Qed.
Lemma apply_filter_safe f v args : rsafe (apply_filter O f v args).
Proof.
  destruct f; cbn [apply_filter].
  - apply np_rsafe, math_filter_np.
  - destruct args; [apply np_rsafe, html_filter_np|exact I].
  - apply seq_filter_safe.
  - (* the date filter: a value or an error, whatever the format *)
    unfold date_filter. destruct args as [|a [|b args']]; try exact I.
    destruct v; try exact I. destruct (to_date_time O s); try exact I.
    destruct (to_kstr O a); try exact I. destruct (Strftime.strftime d (c :: s0)); exact I.
  - (* the jekyll / shopify filters: list surgery and text concatenation *)
    unfold extra_filter. destruct f; destruct args as [|a [|b [|c args']]]; try exact I; destruct v; try exact I.
    + destruct l; exact I.
    + destruct l; exact I.
    + destruct (to_integer s); exact I.
Qed.
Lemma apply_filters_safe fs s : forall v, rsafe (apply_filters O v fs s).
Proof.
  induction fs as [|[f args] t IH]; intro v; [exact I|]. cbn [apply_filters].
  apply rsafe_bind; [apply eval_exprs_safe|]. intros a _.
  apply rsafe_bind; [apply apply_filter_safe|]. intros r _. apply IH.
Qed.
Lemma eval_chain_e_safe fc s : rsafe (eval_chain_e O fc s).
Proof. unfold eval_chain_e. apply rsafe_bind; [apply eval_expr_safe|]. intros v _. apply apply_filters_safe. Qed.
Lemma eval_cond_safe c s : rsafe (eval_cond O c s).
Proof.
  induction c as [l o r|l|a IHa b IHb|a IHa b IHb]; cbn [eval_cond].
  - apply rsafe_bind; [apply eval_expr_safe|]. intros x _. apply rsafe_bind; [apply eval_expr_safe|]. intros y _.
    destruct o; cbn [eval_cmp]; try exact I. unfold contains_check. destruct x; exact I.
  - exact I.
  - apply rsafe_bind; [exact IHa|]. intros [|] _; [exact IHb|exact I].
  - apply rsafe_bind; [exact IHa|]. intros [|] _; [exact I|exact IHb].
Qed.
Lemma attr_usize_safe a s : rsafe (attr_usize O a s).
Proof.
  destruct a as [e|]; [|exact I]. cbn [attr_usize]. apply rsafe_bind; [apply eval_expr_safe|].
  intros v _. destruct v; try exact I. destruct (to_integer s0); exact I.
Qed.
Lemma int_arg_safe e s : rsafe (int_arg O e s).
Proof.
  unfold int_arg. apply rsafe_bind; [apply eval_expr_safe|].
  intros v _. destruct v; try exact I. destruct (to_integer s0); exact I.
Qed.
Lemma eval_range_safe r s : rsafe (eval_range O r s).
Proof.
  destruct r; cbn [eval_range].
  - apply rsafe_bind; [apply eval_expr_safe|]. intros v _. destruct v; exact I.
  - apply rsafe_bind; [apply int_arg_safe|]. intros x _. apply rsafe_bind; [apply int_arg_safe|]. intros; exact I.
Qed.
Lemma eval_args_safe args s : forall acc, rsafe (eval_args O args s acc).
Proof.
  induction args as [|[x e] t IH]; intro acc; [exact I|]. cbn [eval_args].
  destruct (try_eval_expr O e s); [apply IH|exact I].
Qed.
Lemma cycle_step_safe name max g : max <> 0 -> rsafe (cycle_step name max g).
Proof. destruct max; [congruence|intros _; exact I]. Qed.
End Safe.

Section SAll.
Variable O : oracle. Variable ps : pstore.
Variable rec : template -> est -> sink -> out.
Hypothesis ps_ok : forall name, match ps name with Ok b => twf b | Panic _ => False | _ => True end.
Hypothesis rec_SF : forall l, twf l -> SF (rec l).
Notation rn := (rnode O ps rec).
Notation rl := (rlist O ps rec).

Lemma ps_safe name : rsafe (ps name).
Proof. specialize (ps_ok name). destruct (ps name); try exact I. contradiction. Qed.
Lemma ps_twf name b : ps name = Ok b -> twf b.
Proof. intro E. specialize (ps_ok name). rewrite E in ps_ok. exact ps_ok. Qed.

Definition lookup2 (name : str) : res template := match ps name with Ok b => Ok b | _ => ps (name ++ k_dot_liquid) end.
Lemma lookup2_ok name : rsafe (lookup2 name) /\ forall body, lookup2 name = Ok body -> twf body.
Proof.
  unfold lookup2. pose proof (ps_safe name). pose proof (ps_safe (name ++ k_dot_liquid)).
  pose proof (ps_twf name). pose proof (ps_twf (name ++ k_dot_liquid)).
  destruct (ps name) as [b0| | |] eqn:E0; try (split; [exact H0|exact H2]).
  split; [exact I|]. intros body E. inversion E; subst. apply H1. reflexivity.
Qed.

Lemma SF_rlist_of l : Forall (fun n => SF (rn n)) l -> SF (rl l).
Proof.
  induction 1 as [|n l Hn _ IH]; [intros s k W; apply post_here; exact I|].
  exact (SF_seq (rn n) (rl l) Hn IH).
Qed.
Lemma Forall_mp {A} (P Q : A -> Prop) l : Forall (fun x => P x -> Q x) l -> Forall P l -> Forall Q l.
Proof. induction 1; intro H'; inversion H'; subst; constructor; auto. Qed.
Lemma SF_ropt o : optF (fun n => nwf n -> SF (rn n)) o -> OptForall nwf o -> SF (ropt_list O ps rec o).
Proof.
  destruct o as [l|]; simpl; intros H W; [|intros s k _; apply post_here; exact I].
  inversion W; subst. apply SF_rlist_of. eapply Forall_mp; eassumption.
Qed.

Lemma case_any_post tv body (rest : out) st k : okst st -> post st rest -> SF (rl body) -> forall l,
  post st ((fix any (l : list expr) : out :=
           match l with
           | [] => rest
           | a :: l' => of_res (eval_expr O a st) st k (fun av => if value_eq av tv then rl body st k else any l')
           end) l).
Proof.
  intros W Hr Hb. induction l as [|a l IH]; [exact Hr|].
  apply post_of_res; [apply eval_expr_safe|]. intros av _.
  destruct (value_eq av tv); [apply Hb; exact W|exact IH].
Qed.

Theorem SF_rnode : forall n, nwf n -> SF (rn n).
Proof.
  induction n using node_ind'; intros Hwf st k W; pose proof W as [Wr [WG WI]].
  - apply post_write.
  - apply post_write.
  - apply post_here; exact I.
  - cbn [rnode]. apply post_of_res; [apply eval_chain_e_safe|]. intros v _. apply post_write.
  - cbn [rnode]. apply post_of_res; [apply eval_chain_e_safe|]. intros v _.
    destruct (set_global_safe x v (fr st) WG) as [f' E]. rewrite E. cbn [of_res].
    split; [apply esim_frames; eapply sim_set_global; exact E|exact I].
  - rewrite rnode_capture. inversion Hwf; subst.
    pose proof (SF_rlist_of b (Forall_mp _ _ _ H H1) st sink0 W) as Hb.
    destruct (rl b st sink0) as [[o s1] kc]. destruct Hb as [Hb Ho]. destruct o; try (split; assumption).
    destruct (decode (acc kc)); [|split; [exact Hb|right; left; reflexivity]].
    pose proof (okst_esim _ _ W Hb) as [_ [G1 _]].
    destruct (set_global_safe x (VScalar (SStr s)) (fr s1) G1) as [f' E]. rewrite E. cbn [of_res].
    split; [|exact I]. eapply esim_trans; [exact Hb|]. apply esim_frames. eapply sim_set_global; exact E.
  - cbn [rnode]. match goal with |- context [write_str st k ?t] => destruct (write_str_cases st k t) as [k0 [E|E]]; rewrite E end; [|apply post_here; exact I].
    match goal with |- context [set_index x ?v (fr st)] => destruct (set_index_safe x v (fr st) WI) as [f' E2]; rewrite E2 end. cbn [of_res].
    split; [apply esim_frames; eapply sim_set_index; exact E2|exact I].
  - cbn [rnode]. match goal with |- context [write_str st k ?t] => destruct (write_str_cases st k t) as [k0 [E|E]]; rewrite E end; [|apply post_here; exact I].
    match goal with |- context [set_index x ?v (fr st)] => destruct (set_index_safe x v (fr st) WI) as [f' E2]; rewrite E2 end. cbn [of_res].
    split; [apply esim_frames; eapply sim_set_index; exact E2|exact I].
  - cbn [rnode]. inversion Hwf; subst. apply post_of_res; [apply cycle_step_safe; destruct vs; [congruence|discriminate]|].
    intros [i g] _. cbn [fst snd]. pose proof (esim_set_regs g st Wr) as Hs.
    destruct (nth_error vs i); [|split; [exact Hs|exact I]].
    eapply post_trans; [exact Hs|]. apply post_of_res; [apply eval_expr_safe|]. intros v _. apply post_write.
  - rewrite rnode_if. inversion Hwf; subst. apply post_of_res; [apply eval_cond_safe|]. intros b _.
    destruct (Bool.eqb b m); [apply SF_rlist_of; [eapply Forall_mp; eassumption|exact W]|apply SF_ropt; assumption].
  - rewrite rnode_case. inversion Hwf as [| | | | | | | | | |? ? ? Hws He| | | | | | |]; subst.
    apply post_of_res; [apply eval_expr_safe|]. intros tv _. clear Hwf.
    induction ws as [|[args body] ws IHw]; [apply SF_ropt; assumption|].
    inversion H as [|? ? Hb Hr]; subst. inversion Hws as [|? ? Hb' Hr']; subst. simpl in Hb, Hb'.
    apply case_any_post; [exact W|apply IHw; assumption|apply SF_rlist_of; eapply Forall_mp; eassumption].
  - rewrite rnode_for. inversion Hwf; subst.
    apply post_of_res; [apply eval_range_safe|]. intros arr _.
    apply post_of_res; [apply attr_usize_safe|]. intros lim _.
    apply post_of_res; [apply attr_usize_safe|]. intros off _. cbv zeta.
    match goal with |- context [iter_array ?a ?b ?c ?d] => destruct (iter_array a b c d) eqn:Esel end; [apply SF_ropt; assumption|].
    apply SF_for; [apply SF_rlist_of; eapply Forall_mp; eassumption|exact W].
  - rewrite (ShapeProofs.rnode_tablerow O ps rec). inversion Hwf; subst.
    apply post_of_res; [apply eval_range_safe|]. intros arr _.
    apply post_of_res; [apply attr_usize_safe|]. intros cs _.
    apply post_of_res; [apply attr_usize_safe|]. intros lim _.
    apply post_of_res; [apply attr_usize_safe|]. intros off _. cbv zeta.
    destruct cs as [[|p|p]|]; try (apply post_here; exact I);
      (apply SF_tablerow; [apply SF_rlist_of; eapply Forall_mp; eassumption|exact W]).
  - cbn [rnode]. split; [apply esim_set_regs; exact Wr|exact I].
  - cbn [rnode]. split; [apply esim_set_regs; exact Wr|exact I].
  - rewrite (ShapeProofs.rnode_ifchanged O ps rec). inversion Hwf; subst.
    pose proof (SF_rlist_of b (Forall_mp _ _ _ H H1) st sink0 W) as Hb.
    destruct (rl b st sink0) as [[o s1] kc]. destruct Hb as [Hb Ho]. destruct o; try (split; assumption).
    destruct (decode (acc kc)) as [t|]; [|split; [exact Hb|right; right; reflexivity]]. cbv zeta.
    pose proof (okst_esim _ _ W Hb) as [W1 _].
    match goal with |- context [set_regs ?g s1] => pose proof (esim_set_regs g s1 W1) as Hs end.
    destruct (match r_changed (get_regs s1) with Some l => negb (str_eqb l t) | None => true end).
    + eapply post_trans; [eapply esim_trans; eassumption|]. apply post_write.
    + split; [eapply esim_trans; eassumption|exact I].
  - cbn [rnode]. apply post_of_res; [apply eval_expr_safe|]. intros pv _.
    destruct pv; try (apply post_here; exact I).
    apply post_of_res; [apply eval_args_safe|]. intros ar _.
    apply post_of_res; [apply ps_safe|]. intros body Eb.
    pose proof (rec_SF body (ps_twf _ _ Eb) (push_plain ar st) k (okst_push_plain _ _ W)) as Hb.
    destruct (rec body (push_plain ar st) k) as [[o1 s1] k1]. destruct Hb as [Hb Ho].
    apply esim_pop_plain in Hb. split; assumption.
  - cbn [rnode]. apply post_of_res; [apply eval_expr_safe|]. intros pv _.
    destruct pv; try (apply post_here; exact I).
    cbv zeta. match goal with |- context [ps (?n ++ k_dot_liquid)] => fold (lookup2 n); pose proof (lookup2_ok n) as [Hl1 Hl2] end.
    destruct f as [[rng x]|].
    + apply post_of_res; [apply eval_range_safe|]. intros arr _.
      destruct arr as [|v0 vs0]; [apply post_here; exact I|].
      apply post_of_res; [apply eval_args_safe|]. intros ar _.
      apply post_of_res; [exact Hl1|]. intros body Eb.
      apply SF_render_for; [apply rec_SF; apply Hl2; exact Eb|intro s0; apply eval_args_safe|exact W].
    + apply post_of_res; [apply eval_args_safe|]. intros ar _.
      apply post_of_res; [exact Hl1|]. intros body Eb.
      pose proof (rec_SF body (Hl2 _ Eb) (push_sandbox ar st) k (okst_push_sandbox _ _ W)) as Hb.
      destruct (rec body (push_sandbox ar st) k) as [[o1 s1] k1]. destruct Hb as [Hb Ho].
      apply esim_pop_sandbox in Hb. split; assumption.
Qed.
End SAll.

Theorem render_safe O ps :
  (forall name, match ps name with Ok b => twf b | Panic _ => False | _ => True end) ->
  forall d l, twf l -> SF (render O ps d l).
Proof.
  intro Hps. induction d as [|d IH]; intros l Hl; [intros s k W; apply post_here; exact I|].
  cbn [render]. apply SF_rlist_of. eapply Forall_impl; [|exact Hl].
  intros n Hn. apply SF_rnode; assumption.
Qed.

(* the statement used by props/C02.v *)
Theorem render_top_no_panic O ps depth t data k :
  (forall name, match ps name with Ok b => twf b | Panic _ => False | _ => True end) -> twf t ->
  match render_top O ps depth t data k with
  | (OPanicked n, _, _) => allowed n
  | _ => True
  end.
Proof.
  intros Hps Ht. unfold render_top.
  pose proof (render_safe O ps Hps (S depth) t Ht (est_build data) k (okst_build data)) as H.
  destruct (render O ps (S depth) t (est_build data) k) as [[o s'] k']. destruct H as [_ Ho]. destruct o; auto.
Qed.

(* partial stores given by a finite table of sources: what the correspondence check instantiates *)
Definition table_store (l : list (str * option template)) : pstore :=
  fun name => match lookup name l with
              | Some (Some b) => Ok b
              | Some None => Err EParse
              | None => Err EPartialMissing
              end.
Lemma table_store_ok l : Forall (fun p => match snd p with Some b => twf b | None => True end) l ->
  forall name, match table_store l name with Ok b => twf b | Panic _ => False | _ => True end.
Proof.
  intros H name. unfold table_store. induction H as [|[k o] l Hk _ IH]; cbn [lookup]; [exact I|].
  destruct (str_eqb name k); [|exact IH]. cbn [snd] in Hk. destruct o; [exact Hk|exact I].
Qed.
