(* UTF-8: decode (encode s) = Some s for every string of Unicode scalar values. *)
From Coq Require Import ZifyN ZifyNat ZifyBool.
From LV Require Import Base Utf8.
Ltac Zify.zify_post_hook ::= Z.div_mod_to_equations.
Arguments N.add : simpl never. Arguments N.sub : simpl never. Arguments N.mul : simpl never.
Arguments N.div : simpl never. Arguments N.modulo : simpl never. Arguments N.ltb : simpl never. Arguments N.leb : simpl never.

Lemma ltb_true a b : (a < b)%N -> (a <? b)%N = true. Proof. intro; apply N.ltb_lt; assumption. Qed.
Lemma ltb_false a b : (b <= a)%N -> (a <? b)%N = false. Proof. intro; apply N.ltb_ge; assumption. Qed.
Lemma leb_true a b : (a <= b)%N -> (a <=? b)%N = true. Proof. intro; apply N.leb_le; assumption. Qed.

Lemma is_cont_128 x : (x < 64)%N -> is_cont (128 + x)%N = true.
Proof. intro H. unfold is_cont. rewrite leb_true, ltb_true by lia. reflexivity. Qed.

Open Scope N_scope.
Lemma decode_one_encode c r : valid_char c = true -> decode_one (encode_char c ++ r) = Some (c, r).
Proof.
  intro V. unfold valid_char in V. unfold encode_char.
  destruct (N.ltb_spec c 128) as [H1|H1].
  - simpl. rewrite ltb_true by lia. reflexivity.
  - destruct (N.ltb_spec c 2048) as [H2|H2].
    + cbn [app decode_one].
      assert (c / 64 < 32)%N by lia. assert (c mod 64 < 64)%N by lia.
      rewrite (ltb_false (192 + c / 64) 128), (ltb_false (192 + c / 64) 192), (ltb_true (192 + c / 64) 224) by lia.
      rewrite is_cont_128 by lia.
      replace ((192 + c / 64 - 192) * 64 + (128 + c mod 64 - 128))%N with c by lia.
      rewrite leb_true by lia. reflexivity.
    + destruct (N.ltb_spec c 65536) as [H3|H3].
      * cbn [app decode_one].
        assert (c / 4096 < 16)%N by lia. assert ((c / 64) mod 64 < 64)%N by lia. assert (c mod 64 < 64)%N by lia.
        rewrite (ltb_false (224 + c / 4096) 128), (ltb_false (224 + c / 4096) 192), (ltb_false (224 + c / 4096) 224),
          (ltb_true (224 + c / 4096) 240) by lia.
        rewrite !is_cont_128 by lia.
        replace ((224 + c / 4096 - 224) * 4096 + (128 + (c / 64) mod 64 - 128) * 64 + (128 + c mod 64 - 128))%N with c by lia.
        rewrite leb_true by lia. unfold valid_char. rewrite V. reflexivity.
      * cbn [app decode_one].
        assert (Hc : (c < 1114112)%N) by (destruct (N.ltb_spec c 55296); [lia|]; destruct (N.leb_spec 57344 c); simpl in V; [apply N.ltb_lt; exact V|discriminate]).
        assert (c / 262144 < 5)%N by lia. assert ((c / 4096) mod 64 < 64)%N by lia.
        assert ((c / 64) mod 64 < 64)%N by lia. assert (c mod 64 < 64)%N by lia.
        rewrite (ltb_false (240 + c / 262144) 128), (ltb_false (240 + c / 262144) 192), (ltb_false (240 + c / 262144) 224),
          (ltb_false (240 + c / 262144) 240), (ltb_true (240 + c / 262144) 248) by lia.
        rewrite !is_cont_128 by lia.
        replace ((240 + c / 262144 - 240) * 262144 + (128 + (c / 4096) mod 64 - 128) * 4096 + (128 + (c / 64) mod 64 - 128) * 64 + (128 + c mod 64 - 128))%N with c by lia.
        rewrite leb_true, ltb_true by lia. reflexivity.
Qed.

Close Scope N_scope.
Lemma encode_char_length c : 1 <= length (encode_char c) <= 4.
Proof. unfold encode_char. destruct (c <? 128)%N, (c <? 2048)%N, (c <? 65536)%N; simpl; lia. Qed.
Lemma encode_char_nonempty c : encode_char c <> [].
Proof. pose proof (encode_char_length c). destruct (encode_char c); simpl in *; [lia|discriminate]. Qed.

(* fuel monotonicity makes the statement simple: decode is defined with exactly enough fuel *)
Lemma decode_fuel_mono f : forall bs s, decode_fuel f bs = Some s -> forall g, f <= g -> decode_fuel g bs = Some s.
Proof.
  induction f as [|f IH]; intros bs s H g Hg.
  - destruct bs; simpl in H; [|discriminate]. inversion H. destruct g; reflexivity.
  - destruct bs as [|b bs']; [simpl in H; inversion H; destruct g; reflexivity|].
    destruct g as [|g]; [lia|]. cbn [decode_fuel] in *.
    destruct (decode_one (b :: bs')) as [[c r]|]; [|discriminate].
    destruct (decode_fuel f r) as [t|] eqn:E; [|discriminate]. rewrite (IH _ _ E g) by lia. exact H.
Qed.

Theorem decode_encode s : forallb valid_char s = true -> decode (encode s) = Some s.
Proof.
  intro V. unfold decode.
  assert (G : forall fuel, length (encode s) <= fuel -> decode_fuel fuel (encode s) = Some s).
  { induction s as [|c s IH]; intros fuel Hf; [destruct fuel; reflexivity|].
    simpl in V. apply andb_prop in V as [Vc Vs]. simpl encode in *. rewrite app_length in Hf.
    pose proof (encode_char_length c).
    destruct fuel as [|fuel]; [lia|].
    destruct (encode_char c ++ encode s) as [|b bs] eqn:E; [destruct (encode_char c) eqn:E2; [simpl in *; lia|discriminate]|].
    cbn [decode_fuel]. rewrite <- E. rewrite (decode_one_encode c (encode s) Vc).
    rewrite (IH Vs fuel) by lia. reflexivity. }
  apply G. lia.
Qed.
