(* C03 — Literal text is preserved; trim markers, raw and comment do exactly their job.
   Statements only; proofs in proofs/PegProofs.v, about coq/gen/Grammar.v — the grammar as generated
   from crates/core/src/parser/grammar.pest on this run — under the pest semantics of model/Peg.v.

   PARTIAL.  Proved: which characters are whitespace to the grammar, and that the whitespace star — the
   only thing a trim marker on a delimiter adds to it (the start rules put a whitespace star before
   the marked opening delimiter, the end rules after the marked closing one) and what separates a
   delimiter from its content —
   consumes exactly the maximal run of space, tab, LF, CR and nothing else.
   Not proved (decided by the structural oracle and the pair-stream correspondence of
   tools/props/c03.py on every generated template): that Raw is the maximal markup-free text, that
   text is emitted byte-for-byte, the span recovery of raw blocks and the discarding of comments. *)
From LV Require Import Base Peg Grammar PegProofs.

Theorem whitespace_rule : forall fuel la s pos, 6 <= fuel ->
  ev liquid_grammar liquid_ws fuel Atomic la (PRef r_WHITESPACE) s pos =
  Some (match s with
        | c :: r => if (c =? 13)%N then match r with 10%N :: r' => Some (r', pos + 2, []) | _ => Some (r, pos + 1, []) end
                    else if is_ws c then Some (r, pos + 1, []) else None
        | [] => None
        end).
Proof. exact PegProofs.ws_rule_one. Qed.
Theorem whitespace_run_exact : forall la s pos fuel, 8 + length s <= fuel ->
  ev liquid_grammar liquid_ws fuel Atomic la (PStar (PRef r_WHITESPACE)) s pos =
  Some (Some (drop_ws s, pos + count_ws s, [])).
Proof. exact PegProofs.ws_star_exact. Qed.
(* drop_ws removes a prefix made of whitespace only, and what remains does not start with whitespace *)
Theorem drop_ws_is_the_maximal_run : forall s,
  exists w, s = w ++ drop_ws s /\ forallb is_ws w = true /\ ws_head (drop_ws s) = false /\ length w = count_ws s.
Proof. exact PegProofs.drop_ws_spec. Qed.

(* non-vacuity: "a \t\r\n{{- 1 -}}\n b" lexes to Raw "a", the output tag from 1 to 15, Raw "b": both
   whitespace runs, tab and CRLF included, belong to the trimmed tag *)
Example c03_nonvacuous :
  match parse liquid_grammar liquid_ws 300 r_LaxLiquidFile [97;32;9;13;10;123;123;45;32;49;32;45;125;125;10;32;98]%N with
  | Some (Some (_, _, ts)) =>
      map (fun t => (t_rule t, t_start t, t_end t)) (filter (fun t => Nat.eqb (t_rule t) r_Raw || Nat.eqb (t_rule t) r_Expression) ts)
      = [(r_Raw, 0, 1); (r_Expression, 1, 16); (r_Raw, 16, 17)]
  | _ => False
  end.
Proof. vm_compute. reflexivity. Qed.

Print Assumptions whitespace_rule.
Print Assumptions whitespace_run_exact.
Print Assumptions drop_ws_is_the_maximal_run.
