(* C18 — Scope layers compose predictably (runtime stack algebra).
   Statements only: each theorem is closed by `exact` of a lemma of proofs/StackProofs.v. *)
From LV Require Import Base Value Stack StackProofs.

Section C18.
Variable O : oracle.

(* the failing and the optional form of lookup always agree *)
Theorem get_try_get_agree : forall p r v, get O p r = Ok v <-> try_get O p r = Some v.
Proof. exact (StackProofs.get_try_get_agree O). Qed.
Theorem get_ok_or_err : forall p r,
  (exists v, get O p r = Ok v /\ try_get O p r = Some v) \/ (exists c, get O p r = Err c /\ try_get O p r = None).
Proof. exact (StackProofs.get_ok_or_err O). Qed.

(* refinement: a lookup is answered by the first layer, innermost first and stopping at a
   sandbox, that defines the name *)
Theorem try_get_refines_spec : forall p r, try_get O p r = spec_try_get O p r.
Proof. exact (StackProofs.try_get_refines_spec O). Qed.

(* the list of root names is exactly the set of top-level names that resolve *)
Theorem roots_exact : forall k r, In k (roots r) <-> try_get O [SStr k] r <> None.
Proof. exact (StackProofs.roots_exact O). Qed.

(* a layer answers for the names it defines and is transparent for every other name *)
Theorem plain_transparent : forall k p d q, has_key (scalar_kstr O k) d = false ->
  try_get O (k :: p) (FPlain d :: q) = try_get O (k :: p) q /\ get O (k :: p) (FPlain d :: q) = get O (k :: p) q.
Proof. exact (StackProofs.plain_transparent O). Qed.
Theorem plain_answers : forall k p d q, has_key (scalar_kstr O k) d = true ->
  try_get O (k :: p) (FPlain d :: q) = try_find O (VObject d) (k :: p).
Proof. exact (StackProofs.plain_answers O). Qed.

(* a sandboxed scope hides every outer name *)
Theorem sandbox_hides_all : forall p d q q',
  try_get O p (FSandbox d :: q) = try_get O p (FSandbox d :: q') /\
  get O p (FSandbox d :: q) = get O p (FSandbox d :: q') /\
  roots (FSandbox d :: q) = roots (FSandbox d :: q').
Proof. exact (StackProofs.sandbox_hides_all O). Qed.

(* a global assignment made at any depth lands in the nearest enclosing global layer ... *)
Theorem set_global_nearest : forall k v r a d b, through r = Some (a, d, b) ->
  set_global k v r = Ok (a ++ FGlobal (upsert k v d) :: b) /\ Forall not_global a.
Proof. exact StackProofs.set_global_nearest. Qed.
(* ... is seen by every scope above it that does not itself define the name ... *)
Theorem assign_visible : forall k v a d b, Forall (plain_without k) a ->
  try_get O [SStr k] (a ++ FGlobal (upsert k v d) :: b) = Some v.
Proof. exact (StackProofs.assign_visible O). Qed.
(* ... and leaves every other name alone *)
Theorem assign_other_names : forall k v j p r r', scalar_kstr O j <> k -> set_global k v r = Ok r' ->
  try_get O (j :: p) r' = try_get O (j :: p) r.
Proof. exact (StackProofs.assign_other_names O). Qed.

(* once a layer is dropped the underlying runtime answers as before plus the global
   assignments made meanwhile *)
Theorem pop_restores : forall k v f q r', not_global f -> set_global k v (f :: q) = Ok r' ->
  exists q', r' = f :: q' /\ set_global k v q = Ok q'.
Proof. exact StackProofs.pop_restores. Qed.

(* counters are shared by all layers *)
Theorem counters_shared : forall k v a d b, Forall not_index a ->
  set_index k v (a ++ FIndex d :: b) = Ok (a ++ FIndex (upsert k v d) :: b) /\
  get_index k (a ++ FIndex (upsert k v d) :: b) = Some v.
Proof. exact StackProofs.counters_shared. Qed.

(* no operation sequence over a builder-made runtime reaches RuntimeCore's unreachable!() *)
Theorem builder_runtime_safe : forall data ops,
  exists s', run (runtime_build data, 0) ops = Ok s' /\ base_ok s'.
Proof. exact StackProofs.builder_runtime_safe. Qed.
Theorem get_never_panics : forall p r, not_panic (get O p r) = true /\ get O p r <> OutOfFuel.
Proof. exact (StackProofs.get_never_panics O). Qed.
End C18.

(* non-vacuity: a concrete stack with a sandbox between two global layers *)
Example c18_nonvacuous :
  let a := [97%N] in let b := [98%N] in
  let r := [FPlain [(b, VNil)]; FGlobal []; FSandbox [(a, VScalar (SInt 1))]; FGlobal []; FPlain []; FIndex []] in
  through r = Some ([FPlain [(b, VNil)]], [], [FSandbox [(a, VScalar (SInt 1))]; FGlobal []; FPlain []; FIndex []])
  /\ Forall (plain_without a) [FPlain [(b, VNil)]].
Proof. split; [reflexivity|repeat constructor]. Qed.

Print Assumptions get_try_get_agree.
Print Assumptions get_ok_or_err.
Print Assumptions try_get_refines_spec.
Print Assumptions roots_exact.
Print Assumptions plain_transparent.
Print Assumptions plain_answers.
Print Assumptions sandbox_hides_all.
Print Assumptions set_global_nearest.
Print Assumptions assign_visible.
Print Assumptions assign_other_names.
Print Assumptions pop_restores.
Print Assumptions counters_shared.
Print Assumptions builder_runtime_safe.
Print Assumptions get_never_panics.
