(* Induction principle for templates (nested through lists, options and pairs) and the
   unfolding equations of the evaluator's local fixpoints. *)
From LV Require Import Base Value Stack Eval.

Definition optF (P : node -> Prop) (o : option (list node)) : Prop :=
  match o with Some l => Forall P l | None => True end.

Section Ind.
Variable P : node -> Prop.
Hypothesis Htext : forall s, P (NText s).
Hypothesis Hraw : forall s, P (NRaw s).
Hypothesis Hcomment : P NComment.
Hypothesis Hout : forall fc, P (NOutput fc).
Hypothesis Hassign : forall x fc, P (NAssign x fc).
Hypothesis Hcapture : forall x b, Forall P b -> P (NCapture x b).
Hypothesis Hinc : forall x, P (NIncrement x).
Hypothesis Hdec : forall x, P (NDecrement x).
Hypothesis Hcycle : forall n vs, P (NCycle n vs).
Hypothesis Hif : forall m c t e, Forall P t -> optF P e -> P (NIf m c t e).
Hypothesis Hcase : forall tg ws e, Forall (fun w => Forall P (snd w)) ws -> optF P e -> P (NCase tg ws e).
Hypothesis Hfor : forall x r l o rv b e, Forall P b -> optF P e -> P (NFor x r l o rv b e).
Hypothesis Htable : forall x r c l o b, Forall P b -> P (NTableRow x r c l o b).
Hypothesis Hbreak : P NBreak.
Hypothesis Hcont : P NContinue.
Hypothesis Hifch : forall b, Forall P b -> P (NIfChanged b).
Hypothesis Hincl : forall p a, P (NInclude p a).
Hypothesis Hrender : forall p f a, P (NRender p f a).

Fixpoint node_ind' (n : node) : P n :=
  let fl := fix fl (l : list node) : Forall P l :=
      match l with [] => Forall_nil _ | x :: t => Forall_cons _ (node_ind' x) (fl t) end in
  let fo := fun (o : option (list node)) => match o return optF P o with Some l => fl l | None => I end in
  match n with
  | NText s => Htext s | NRaw s => Hraw s | NComment => Hcomment
  | NOutput fc => Hout fc | NAssign x fc => Hassign x fc
  | NCapture x b => Hcapture x b (fl b)
  | NIncrement x => Hinc x | NDecrement x => Hdec x | NCycle nm vs => Hcycle nm vs
  | NIf m c t e => Hif m c t e (fl t) (fo e)
  | NCase tg ws e =>
      Hcase tg ws e
        ((fix fw (ws : list (list expr * list node)) : Forall (fun w => Forall P (snd w)) ws :=
            match ws with [] => Forall_nil _ | w :: t => Forall_cons _ (fl (snd w)) (fw t) end) ws)
        (fo e)
  | NFor x r l o rv b e => Hfor x r l o rv b e (fl b) (fo e)
  | NTableRow x r c l o b => Htable x r c l o b (fl b)
  | NBreak => Hbreak | NContinue => Hcont
  | NIfChanged b => Hifch b (fl b)
  | NInclude p a => Hincl p a
  | NRender p f a => Hrender p f a
  end.
End Ind.
