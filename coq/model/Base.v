(* Base.v — shared basic definitions of the model: strings as code-point lists,
   the outcome type, association lists.  Definitions only. *)
From Coq Require Export List ZArith NArith Bool Lia.
Export ListNotations.

(* A Rust &str / String / KString: the list of its Unicode scalar values. *)
Definition char := N.
Definition str := list char.

Fixpoint str_eqb (a b : str) : bool :=
  match a, b with
  | [], [] => true
  | x :: a', y :: b' => N.eqb x y && str_eqb a' b'
  | _, _ => false
  end.

(* Lexicographic comparison by code point = Rust's str Ord (UTF-8 byte order
   coincides with code-point order). *)
Fixpoint str_cmp (a b : str) : comparison :=
  match a, b with
  | [], [] => Eq
  | [], _ :: _ => Lt
  | _ :: _, [] => Gt
  | x :: a', y :: b' => match N.compare x y with Eq => str_cmp a' b' | c => c end
  end.

(* Every way a modelled Rust computation can end. *)
Inductive err_class :=
| EParse | EUnknownVariable | EUnknownIndex | EInvalidInput | EInvalidArgument
| EDivByZero | EPartialMissing | ESink | EOther.

Inductive res (A : Type) :=
| Ok (a : A)
| Err (c : err_class)
| Panic (site : N)       (* an expect/unwrap/panic!/overflow/index site of the Rust code *)
| OutOfFuel.
Arguments Ok {A} a.
Arguments Err {A} c.
Arguments Panic {A} site.
Arguments OutOfFuel {A}.

Definition bind {A B} (r : res A) (f : A -> res B) : res B :=
  match r with Ok a => f a | Err c => Err c | Panic s => Panic s | OutOfFuel => OutOfFuel end.
Notation "'do' x <- r ; k" := (bind r (fun x => k)) (at level 200, x pattern, r at level 100, k at level 200).

Definition is_ok {A} (r : res A) := match r with Ok _ => true | _ => false end.
Definition is_err {A} (r : res A) := match r with Err _ => true | _ => false end.
Definition not_panic {A} (r : res A) := match r with Panic _ => false | _ => true end.

(* Association lists keyed by strings: the model of HashMap<KString, _> with the
   iteration order made explicit. *)
Section Assoc.
Context {A : Type}.
Fixpoint lookup (k : str) (o : list (str * A)) : option A :=
  match o with
  | [] => None
  | (y, v) :: t => if str_eqb k y then Some v else lookup k t
  end.
(* HashMap::insert: replace in place or add (position of a new key is arbitrary;
   the model appends, and nothing proved depends on the position). *)
Fixpoint upsert (k : str) (v : A) (o : list (str * A)) : list (str * A) :=
  match o with
  | [] => [(k, v)]
  | (y, w) :: t => if str_eqb k y then (k, v) :: t else (y, w) :: upsert k v t
  end.
Definition keys (o : list (str * A)) : list str := map fst o.
Definition has_key (k : str) (o : list (str * A)) : bool :=
  match lookup k o with Some _ => true | None => false end.
End Assoc.

Fixpoint prefixb (p s : str) : bool :=
  match p, s with
  | [], _ => true
  | a :: p', b :: s' => N.eqb a b && prefixb p' s'
  | _ :: _, [] => false
  end.

Fixpoint mem_str (k : str) (l : list str) : bool :=
  match l with [] => false | x :: t => str_eqb k x || mem_str k t end.

(* i64 range *)
Definition i64_min : Z := (- 2 ^ 63)%Z.
Definition i64_max : Z := (2 ^ 63 - 1)%Z.
Definition in_i64 (z : Z) : bool := (i64_min <=? z)%Z && (z <=? i64_max)%Z.
(* two's-complement wrap into i64 *)
Definition wrap_i64 (z : Z) : Z := ((z + 2 ^ 63) mod 2 ^ 64 - 2 ^ 63)%Z.

(* Decimal printing of integers (Rust's Display for i64) *)
Fixpoint digits_pos_fuel (fuel : nat) (n : N) (acc : str) : str :=
  match fuel with
  | O => acc
  | S f => let acc' := (48 + n mod 10)%N :: acc in
           if (n / 10 =? 0)%N then acc' else digits_pos_fuel f (n / 10)%N acc'
  end.
Definition show_N (n : N) : str := digits_pos_fuel (S (N.to_nat (N.log2 n))) n [].
Definition show_Z (z : Z) : str :=
  match z with
  | Z0 => [48%N]
  | Zpos p => show_N (Npos p)
  | Zneg p => 45%N :: show_N (Npos p)
  end.

(* i64::from_str: optional sign, at least one ASCII digit, nothing else, in range *)
Definition is_digit (c : char) : bool := (48 <=? c)%N && (c <=? 57)%N.
Fixpoint parse_digits (s : str) (acc : Z) : option Z :=
  match s with
  | [] => Some acc
  | c :: t => if is_digit c then parse_digits t (acc * 10 + Z.of_N (c - 48))%Z else None
  end.
Definition parse_i64 (s : str) : option Z :=
  let go (neg : bool) (ds : str) :=
    match ds with
    | [] => None
    | _ => match parse_digits ds 0%Z with
           | Some z => let z' := if neg then (- z)%Z else z in
                       if in_i64 z' then Some z' else None
           | None => None
           end
    end in
  match s with
  | 45%N :: t => go true t
  | 43%N :: t => go false t
  | _ => go false s
  end.
