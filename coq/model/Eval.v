(* Eval.v — the render runtime: runtime::Template, FilterChain, Expression/Variable,
   crates/lib/src/stdlib/{tags,blocks}/*.rs, src/template.rs.  A template is a tree of
   `node`s (the Renderables the parser builds); `render` transcribes every render_to.
   Recursion is structural on the template; only partial inclusion needs fuel (`rec`). *)
From Coq Require Import SpecFloat.
From LV Require Export Value Stack Utf8 Filters_math Filters_html Filters_seq Filters_date Filters_extra.

(* ---- registers (runtime.rs Registers: InterruptRegister, CycleRegister, ChangedRegister) ---- *)
Inductive interrupt := Brk | Cont.
Record regs := mkRegs { r_intr : option interrupt; r_cycles : list (str * nat); r_changed : option str }.
Definition regs0 : regs := mkRegs None [] None.

(* the evaluation runtime: scope frames + one register set per sandbox (innermost first),
   the last one being RuntimeCore's *)
Record est := mkEst { fr : rt; rg : list regs }.
Definition get_regs (s : est) : regs := match rg s with g :: _ => g | [] => regs0 end.
Definition set_regs (g : regs) (s : est) : est := mkEst (fr s) (g :: tl (rg s)).
Definition interrupted (s : est) : bool := match r_intr (get_regs s) with Some _ => true | None => false end.
Definition push_plain (d : obj) (s : est) : est := mkEst (FPlain d :: fr s) (rg s).
Definition pop_plain (s : est) : est := mkEst (tl (fr s)) (rg s).
(* GlobalFrame::new(SandboxedStackFrame::new(runtime, root)) *)
Definition push_sandbox (d : obj) (s : est) : est := mkEst (FGlobal [] :: FSandbox d :: fr s) (regs0 :: rg s).
Definition pop_sandbox (s : est) : est := mkEst (tl (tl (fr s))) (tl (rg s)).
Definition est_build (data : obj) : est := mkEst (runtime_build data) [regs0].

(* ---- the output sink: io::Write::write_all into a sink that accepts `budget` more bytes ---- *)
Record sink := mkSink { acc : list byte; budget : option nat }.
Definition write (k : sink) (b : list byte) : sink * bool :=
  match budget k with
  | None => (mkSink (acc k ++ b) None, true)
  | Some m => if Nat.leb (length b) m then (mkSink (acc k ++ b) (Some (m - length b)), true)
              else (mkSink (acc k ++ firstn m b) (Some 0), false)
  end.
Definition sink0 : sink := mkSink [] None.

(* ---- syntax ---- *)
Inductive expr :=
| ELit (v : value)
| EVar (root : scalar) (idx : list expr).     (* Variable { variable, indexes } *)
Inductive filt := FM (f : mathf) | FH (f : htmlf) | FS (f : seqf) | FD | FX (f : extf).     (* FD: the date filter; FX: jekyll / shopify filters *)
Definition fchain := (expr * list (filt * list expr))%type.     (* FilterChain { entry, filters } *)
Inductive cmpop := OpEq | OpNe | OpLt | OpGt | OpLe | OpGe | OpContains.
Inductive cond :=
| CBin (l : expr) (o : cmpop) (r : expr)
| CExists (l : expr)
| CAnd (a b : cond)
| COr (a b : cond).
Inductive range := RArray (e : expr) | RCounted (a b : expr).
Inductive node :=
| NText (s : str) | NRaw (s : str) | NComment
| NOutput (fc : fchain)
| NAssign (x : str) (fc : fchain)
| NCapture (x : str) (body : list node)
| NIncrement (x : str) | NDecrement (x : str)
| NCycle (name : str) (vals : list expr)
| NIf (mode : bool) (c : cond) (t : list node) (e : option (list node))
| NCase (target : expr) (whens : list (list expr * list node)) (els : option (list node))
| NFor (x : str) (rng : range) (limit offset : option expr) (reversed : bool) (body : list node) (els : option (list node))
| NTableRow (x : str) (rng : range) (cols limit offset : option expr) (body : list node)
| NBreak | NContinue
| NIfChanged (body : list node)
| NInclude (p : expr) (args : list (str * expr))
| NRender (p : expr) (forr : option (range * str)) (args : list (str * expr)).
Definition template := list node.

(* partial store as the tags see it: name -> Ok body | Err (missing, or broken source) *)
Definition pstore := str -> res template.

Inductive ores := ODone | OFail (c : err_class) | OPanicked (site : N).
Definition out := (ores * est * sink)%type.
Definition fail (c : err_class) (s : est) (k : sink) : out := (OFail c, s, k).
Definition of_res {A} (r : res A) (s : est) (k : sink) (f : A -> out) : out :=
  match r with Ok a => f a | Err c => (OFail c, s, k) | Panic n => (OPanicked n, s, k) | OutOfFuel => (OFail EOther, s, k) end.

Section E.
Variable O : oracle.
Variable ps : pstore.

(* ---- expressions (runtime/expression.rs, variable.rs) ---- *)
Fixpoint eval_expr (e : expr) (s : est) : res value :=
  match e with
  | ELit v => Ok v
  | EVar root idx =>
      let path := (fix go (l : list expr) : res (list scalar) :=
                     match l with
                     | [] => Ok []
                     | i :: t => do v <- eval_expr i s;
                                 match v with
                                 | VScalar x => do r <- go t; Ok (x :: r)
                                 | _ => Err EOther          (* "Expected scalar, found ..." *)
                                 end
                     end) idx in
      do p <- path; Stack.get O (root :: p) (fr s)
  end.
Fixpoint try_eval_expr (e : expr) (s : est) : option value :=
  match e with
  | ELit v => Some v
  | EVar root idx =>
      let path := (fix go (l : list expr) : option (list scalar) :=
                     match l with
                     | [] => Some []
                     | i :: t => match try_eval_expr i s with
                                 | Some (VScalar x) => match go t with Some r => Some (x :: r) | None => None end
                                 | _ => None
                                 end
                     end) idx in
      match path with Some p => Stack.try_get O (root :: p) (fr s) | None => None end
  end.
Fixpoint eval_exprs (l : list expr) (s : est) : res (list value) :=
  match l with [] => Ok [] | e :: t => do v <- eval_expr e s; do r <- eval_exprs t s; Ok (v :: r) end.

Definition apply_filter (f : filt) (input : value) (args : list value) : res value :=
  match f with
  | FM m => math_filter O m input args
  | FH h => match args with [] => html_filter O h input | _ => Err EParse end
  | FS q => seq_filter O q input args
  | FD => date_filter O input args
  | FX x => extra_filter O x input args
  end.
(* FilterChain::evaluate *)
Fixpoint apply_filters (v : value) (fs : list (filt * list expr)) (s : est) : res value :=
  match fs with
  | [] => Ok v
  | (f, args) :: t => do a <- eval_exprs args s; do r <- apply_filter f v a; apply_filters r t s
  end.
Definition eval_chain_e (fc : fchain) (s : est) : res value :=
  do v <- eval_expr (fst fc) s; apply_filters v (snd fc) s.

(* ---- conditions (if_block.rs) ---- *)
Definition str_contains (hay needle : str) : bool :=
  (fix go (h : str) : bool := prefixb needle h || match h with [] => false | _ :: t => go t end) hay.
Definition contains_check (a b : value) : res bool :=
  match a with
  | VScalar _ => Ok (str_contains (to_kstr O a) (to_kstr O b))
  | VObject kvs => Ok (match b with VScalar _ => has_key (to_kstr O b) kvs | _ => false end)
  | VArray l => Ok (existsb (fun e => value_eq e b) l)
  | _ => Err EOther
  end.
Definition eval_cmp (o : cmpop) (a b : value) : res bool :=
  match o with
  | OpEq => Ok (value_eq a b) | OpNe => Ok (value_ne a b)
  | OpLt => Ok (v_lt a b) | OpGt => Ok (v_gt a b) | OpLe => Ok (v_le a b) | OpGe => Ok (v_ge a b)
  | OpContains => contains_check a b
  end.
Fixpoint eval_cond (c : cond) (s : est) : res bool :=
  match c with
  | CBin l o r => do a <- eval_expr l s; do b <- eval_expr r s; eval_cmp o a b
  | CExists l => Ok (truthy (match try_eval_expr l s with Some v => v | None => VNil end))
  | CAnd a b => do x <- eval_cond a s; if x then eval_cond b s else Ok false
  | COr a b => do x <- eval_cond a s; if x then Ok true else eval_cond b s
  end.

(* ---- for_block.rs helpers ---- *)
Definition attr_usize (a : option expr) (s : est) : res (option Z) :=     (* evaluate_attr; `as usize` *)
  match a with
  | None => Ok None
  | Some e => do v <- eval_expr e s;
              match v with
              | VScalar x => match to_integer x with
                             | Some z => Ok (Some (if (z <? 0)%Z then (z + 2 ^ 64)%Z else z))
                             | None => Err EOther end
              | _ => Err EOther
              end
  end.
Definition int_arg (e : expr) (s : est) : res Z :=
  do v <- eval_expr e s;
  match v with VScalar x => match to_integer x with Some z => Ok z | None => Err EOther end | _ => Err EOther end.
Fixpoint z_range (fuel : nat) (a : Z) : list value :=
  match fuel with 0%nat => [] | S f => VScalar (SInt a) :: z_range f (a + 1)%Z end.
Definition get_array (v : value) : res (list value) :=
  match v with
  | VArray l => Ok l
  | VObject kvs => Ok (map (fun kv => VArray [VScalar (SStr (fst kv)); snd kv]) kvs)
  | VState _ | VNil => Ok []
  | _ => Err EOther
  end.
Definition eval_range (r : range) (s : est) : res (list value) :=
  match r with
  | RArray e => do v <- eval_expr e s; get_array v
  | RCounted a b => do x <- int_arg a s; do y <- int_arg b s;
                    Ok (if (y <? x)%Z then [] else z_range (Z.to_nat (y - x + 1)) x)
  end.
(* iter_array (after the repair): skip `offset`, keep at most `limit` of what remains *)
Definition iter_array (l : list value) (limit : option Z) (offset : Z) (reversed : bool) : list value :=
  let n := Z.of_nat (length l) in
  let off := Z.min offset n in
  let rest := skipn (Z.to_nat off) l in
  let lim := match limit with Some x => Z.min x (n - off) | None => (n - off)%Z end in
  let sel := firstn (Z.to_nat lim) rest in
  if reversed then rev sel else sel.
Definition vbool (b : bool) := VScalar (SBool b).
Definition vz (z : Z) := VScalar (SInt z).
Definition sname (s : list N) : str := s.
Definition k_forloop : str := [102;111;114;108;111;111;112]%N.
Definition k_tablerow : str := [116;97;98;108;101;114;111;119]%N.
Definition k_length : str := [108;101;110;103;116;104]%N.
Definition k_parentloop : str := [112;97;114;101;110;116;108;111;111;112]%N.
Definition k_index0 : str := [105;110;100;101;120;48]%N.
Definition k_index : str := [105;110;100;101;120]%N.
Definition k_rindex0 : str := [114;105;110;100;101;120;48]%N.
Definition k_rindex : str := [114;105;110;100;101;120]%N.
Definition k_firstk : str := [102;105;114;115;116]%N.
Definition k_lastk : str := [108;97;115;116]%N.
Definition k_col0 : str := [99;111;108;48]%N.
Definition k_col : str := [99;111;108]%N.
Definition k_col_first : str := [99;111;108;95;102;105;114;115;116]%N.
Definition k_col_last : str := [99;111;108;95;108;97;115;116]%N.
(* ForloopObject::new(i, len).parentloop(p) *)
Definition forloop_obj (i len : Z) (parent : option value) : value :=
  VObject [(k_length, vz len); (k_parentloop, match parent with Some p => p | None => VNil end);
           (k_index0, vz i); (k_index, vz (i + 1)); (k_rindex0, vz (len - i - 1)); (k_rindex, vz (len - i));
           (k_firstk, vbool (i =? 0)%Z); (k_lastk, vbool (i =? len - 1)%Z)].
Definition tablerow_obj (i len col cols : Z) : value :=
  let last := (i =? len - 1)%Z in
  VObject [(k_length, vz len); (k_index0, vz i); (k_index, vz (i + 1)); (k_rindex0, vz (len - i - 1)); (k_rindex, vz (len - i));
           (k_firstk, vbool (i =? 0)%Z); (k_lastk, vbool last);
           (k_col0, vz col); (k_col, vz (col + 1)); (k_col_first, vbool (col =? 0)%Z);
           (k_col_last, vbool ((col =? cols - 1)%Z || last))].
Definition loop_frame (fl_key : str) (fl : value) (x : str) (v : value) : obj := upsert x v [(fl_key, fl)].

(* CycleRegister::cycle *)
Definition site_cycle_rem_zero : N := 301%N.
Definition cycle_step (name : str) (max : nat) (g : regs) : res (nat * regs) :=
  match max with
  | 0%nat => Panic site_cycle_rem_zero        (* remainder by zero: index + 1 modulo max with max = 0 *)
  | _ =>
      let i := match lookup name (r_cycles g) with Some n => n | None => 0 end in
      let g' := mkRegs (r_intr g) (upsert name (Nat.modulo (i + 1) max) (r_cycles g)) (r_changed g) in
      Ok (i, g')
  end.

Fixpoint eval_args (args : list (str * expr)) (s : est) (acc : obj) : res obj :=   (* try_evaluate, later ids win *)
  match args with
  | [] => Ok acc
  | (x, e) :: t => match try_eval_expr e s with Some v => eval_args t s (upsert x v acc) | None => Err EOther end
  end.

Definition write_str (s : est) (k : sink) (t : str) : out :=
  let (k', ok) := write k (encode t) in ((if ok then ODone else OFail ESink), s, k').

Section Step.
Variable rec : template -> est -> sink -> out.    (* bodies of partials: one nesting level down *)

(* runtime::Template::render_to: stop after the element that raised an interrupt *)
Definition seq_step (o : out) (cont : est -> sink -> out) : out :=
  match o with
  | (ODone, s', k') => if interrupted s' then (ODone, s', k') else cont s' k'
  | o => o
  end.

Definition for_loop (body : est -> sink -> out) (x : str) (len : Z) (parent : option value) :=
  fix loop (vs : list value) (i : Z) (s : est) (k : sink) {struct vs} : out :=
    match vs with
    | [] => (ODone, s, k)
    | v :: vs' =>
        match body (push_plain (loop_frame k_forloop (forloop_obj i len parent) x v) s) k with
        | (ODone, s', k') =>
            let s1 := pop_plain s' in
            let g := get_regs s1 in
            let s2 := set_regs (mkRegs None (r_cycles g) (r_changed g)) s1 in
            match r_intr g with Some Brk => (ODone, s2, k') | _ => loop vs' (i + 1)%Z s2 k' end
        | (o, s', k') => (o, pop_plain s', k')
        end
    end.
Definition tablerow_loop (body : est -> sink -> out) (x : str) (len cols : Z) :=
  fix loop (vs : list value) (i : Z) (s : est) (k : sink) {struct vs} : out :=
    match vs with
    | [] => (ODone, s, k)
    | v :: vs' =>
        let col := (i mod cols)%Z in
        let row := (i / cols)%Z in
        let tr := tablerow_obj i len col cols in
        let open_row := if (col =? 0)%Z then [60;116;114;32;99;108;97;115;115;61;34;114;111;119]%N ++ show_Z (row + 1) ++ [34;62]%N else [] in
        let w1 := open_row ++ [60;116;100;32;99;108;97;115;115;61;34;99;111;108]%N ++ show_Z (col + 1) ++ [34;62]%N in
        match write_str s k w1 with
        | (ODone, _, k1) =>
            match body (push_plain (loop_frame k_tablerow tr x v) s) k1 with
            | (ODone, s', k2) =>
                let s1 := pop_plain s' in
                let last := (i =? len - 1)%Z in
                let w2 := [60;47;116;100;62]%N ++ (if ((col =? cols - 1)%Z || last) then [60;47;116;114;62]%N else []) in
                match write_str s1 k2 w2 with
                | (ODone, _, k3) => loop vs' (i + 1)%Z s1 k3
                | o => o
                end
            | (o, s', k2) => (o, pop_plain s', k2)
            end
        | o => o
        end
    end.
(* the arguments are evaluated again for every item, in the caller's runtime as it is then (a partial can
   move the shared counters an argument reads) *)
Definition render_for_loop (body : est -> sink -> out) (x : str) (len : Z) (basef : est -> res obj) :=
  fix loop (vs : list value) (i : Z) (s : est) (k : sink) {struct vs} : out :=
    match vs with
    | [] => (ODone, s, k)
    | v :: vs' =>
        of_res (basef s) s k (fun base =>
        let root := upsert x v (upsert k_forloop (forloop_obj i len None) base) in
        match body (push_sandbox root s) k with
        | (ODone, s', k') =>
            let brk := match r_intr (get_regs s') with Some Brk => true | _ => false end in
            let s1 := pop_sandbox s' in
            if brk then (ODone, s1, k') else loop vs' (i + 1)%Z s1 k'
        | (o, s', k') => (o, pop_sandbox s', k')
        end)
    end.
Definition k_dot_liquid : str := [46;108;105;113;117;105;100]%N.
Definition site_tablerow_cols_zero : N := 302%N.

Fixpoint rnode (n : node) (s : est) (k : sink) {struct n} : out :=
  let rl := fix rl (l : list node) (s : est) (k : sink) {struct l} : out :=
      match l with [] => (ODone, s, k) | n :: l' => seq_step (rnode n s k) (rl l') end in
  let ropt := fun (o : option (list node)) (s : est) (k : sink) =>
      match o with Some l => rl l s k | None => (ODone, s, k) end in
  match n with
  | NText t | NRaw t => write_str s k t
  | NComment => (ODone, s, k)
  | NOutput fc => of_res (eval_chain_e fc s) s k (fun v => write_str s k (render O v))
  | NAssign x fc => of_res (eval_chain_e fc s) s k (fun v =>
      of_res (set_global x v (fr s)) s k (fun f' => (ODone, mkEst f' (rg s), k)))
  | NCapture x body =>
      match rl body s sink0 with
      | (ODone, s', kc) =>
          match decode (acc kc) with
          | Some t => of_res (set_global x (VScalar (SStr t)) (fr s')) s' k (fun f' => (ODone, mkEst f' (rg s'), k))
          | None => (OPanicked 303%N, s', k)          (* String::from_utf8(..).expect *)
          end
      | (o, s', _) => (o, s', k)
      end
  | NIncrement x =>
      let v := match get_index x (fr s) with Some (VScalar c) => match to_integer c with Some z => z | None => 0%Z end | _ => 0%Z end in
      match write_str s k (show_Z v) with
      | (ODone, _, k') => of_res (set_index x (vz (v + 1)) (fr s)) s k' (fun f' => (ODone, mkEst f' (rg s), k'))
      | o => o
      end
  | NDecrement x =>
      let v := match get_index x (fr s) with Some (VScalar c) => match to_integer c with Some z => z | None => 0%Z end | _ => 0%Z end in
      match write_str s k (show_Z (v - 1)) with
      | (ODone, _, k') => of_res (set_index x (vz (v - 1)) (fr s)) s k' (fun f' => (ODone, mkEst f' (rg s), k'))
      | o => o
      end
  | NCycle name vals =>
      of_res (cycle_step name (length vals) (get_regs s)) s k (fun ig =>
        let s1 := set_regs (snd ig) s in
        match nth_error vals (fst ig) with
        | None => (OFail EOther, s1, k)               (* "cycle index out of bounds" *)
        | Some e => of_res (eval_expr e s1) s1 k (fun v => write_str s1 k (render O v))
        end)
  | NIf mode c t e =>
      of_res (eval_cond c s) s k (fun b => if Bool.eqb b mode then rl t s k else ropt e s k)
  | NCase target whens els =>
      of_res (eval_expr target s) s k (fun tv =>
        (fix cases (ws : list (list expr * list node)) : out :=
           match ws with
           | [] => ropt els s k
           | (args, body) :: ws' =>
               (fix any (l : list expr) : out :=
                  match l with
                  | [] => cases ws'
                  | a :: l' => of_res (eval_expr a s) s k (fun av => if value_eq av tv then rl body s k else any l')
                  end) args
           end) whens)
  | NFor x rng limit offset reversed body els =>
      of_res (eval_range rng s) s k (fun arr =>
      of_res (attr_usize limit s) s k (fun lim =>
      of_res (attr_usize offset s) s k (fun off =>
        let sel := iter_array arr lim (match off with Some z => z | None => 0%Z end) reversed in
        match sel with
        | [] => ropt els s k
        | _ => for_loop (rl body) x (Z.of_nat (length sel)) (try_get O [SStr k_forloop] (fr s)) sel 0%Z s k
        end)))
  | NTableRow x rng cols limit offset body =>
      of_res (eval_range rng s) s k (fun arr =>
      of_res (attr_usize cols s) s k (fun cs =>
      of_res (attr_usize limit s) s k (fun lim =>
      of_res (attr_usize offset s) s k (fun off =>
        let sel := iter_array arr lim (match off with Some z => z | None => 0%Z end) false in
        let len := Z.of_nat (length sel) in
        match cs with
        | Some 0%Z => (OFail EInvalidArgument, s, k)      (* after the repair: cols:0 is an argument error *)
        | _ => tablerow_loop (rl body) x len (match cs with Some c => c | None => len end) sel 0%Z s k
        end))))
  | NBreak => let g := get_regs s in (ODone, set_regs (mkRegs (Some Brk) (r_cycles g) (r_changed g)) s, k)
  | NContinue => let g := get_regs s in (ODone, set_regs (mkRegs (Some Cont) (r_cycles g) (r_changed g)) s, k)
  | NIfChanged body =>
      match rl body s sink0 with
      | (ODone, s', kc) =>
          match decode (acc kc) with
          | None => (OPanicked 304%N, s', k)
          | Some t =>
              let g := get_regs s' in
              let changed := match r_changed g with Some l => negb (str_eqb l t) | None => true end in
              let s2 := set_regs (mkRegs (r_intr g) (r_cycles g) (Some t)) s' in
              if changed then write_str s2 k t else (ODone, s2, k)
          end
      | (o, s', _) => (o, s', k)
      end
  | NInclude p args =>
      of_res (eval_expr p s) s k (fun pv =>
        match pv with
        | VScalar _ =>
            of_res (eval_args args s []) s k (fun a =>
            of_res (ps (to_kstr O pv)) s k (fun body =>
              match rec body (push_plain a s) k with (o, s', k') => (o, pop_plain s', k') end))
        | _ => (OFail EOther, s, k)
        end)
  | NRender p forr args =>
      of_res (eval_expr p s) s k (fun pv =>
        match pv with
        | VScalar _ =>
            let name := to_kstr O pv in
            let lookup_p := match ps name with Ok b => Ok b | _ => ps (name ++ k_dot_liquid) end in
            match forr with
            | Some (rng, x) =>
                of_res (eval_range rng s) s k (fun arr =>
                  match arr with
                  | [] => (ODone, s, k)
                  | _ =>
                      (* arguments, then the partial, are looked up in every iteration: the lookup does not
                         depend on the iteration, the arguments are evaluated again by the loop *)
                      of_res (eval_args args s []) s k (fun _ =>
                      of_res lookup_p s k (fun body =>
                        render_for_loop (rec body) x (Z.of_nat (length arr)) (fun s' => eval_args args s' []) arr 0%Z s k))
                  end)
            | None =>
                of_res (eval_args args s []) s k (fun a =>
                of_res lookup_p s k (fun body =>
                  match rec body (push_sandbox a s) k with (o, s', k') => (o, pop_sandbox s', k') end))
            end
        | _ => (OFail EOther, s, k)
        end)
  end.

Fixpoint rlist (l : list node) (s : est) (k : sink) {struct l} : out :=
  match l with [] => (ODone, s, k) | n :: l' => seq_step (rnode n s k) (rlist l') end.
End Step.

(* partial nesting bounded by the fuel d (unbounded self-inclusion does not terminate in the
   implementation either) *)
Fixpoint render (d : nat) : template -> est -> sink -> out :=
  match d with
  | 0%nat => fun _ s k => (OFail EOther, s, k)
  | S d' => rlist (render d')
  end.
End E.

(* src/template.rs Template::render_to: a fresh runtime over the caller's data *)
Definition render_top (O : oracle) (ps : pstore) (depth : nat) (t : template) (data : obj) (k : sink) : out :=
  render O ps (S depth) t (est_build data) k.
