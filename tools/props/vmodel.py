"""vmodel.py — Liquid's value semantics as the properties describe them (C06, C11), written
independently of the Coq model, for use as specification oracle on the implementation's answers."""
import struct
from props.seqcommon import show_value, bits_f

SCAL = ("i", "f", "b", "s", "d", "dt")
WS = set(map(chr, list(range(9, 14)) + [32, 0x85, 0xa0, 0x1680] + list(range(0x2000, 0x200b)) + [0x2028, 0x2029, 0x202f, 0x205f, 0x3000]))   # char::is_whitespace (Unicode White_Space)


def num(v):
    return int(v[1]) if v[0] == "i" else bits_f(v[1]) if v[0] == "f" else None


def query(v, st):
    t = v[0]
    if t == "n" or t == "st":
        return st != "Truthy"
    if t == "b":
        return {"Truthy": v[1], "DefaultValue": not v[1], "Empty": False, "Blank": not v[1]}[st]
    if t == "s":
        return {"Truthy": True, "DefaultValue": v[1] == "", "Empty": v[1] == "", "Blank": all(c in WS for c in v[1])}[st]
    if t in ("a", "o"):
        return True if st == "Truthy" else len(v[1]) == 0
    return st == "Truthy"


def truthy(v):
    return query(v, "Truthy")


def veq(a, b):
    ta, tb = a[0], b[0]
    if ta == "a" and tb == "a":
        return len(a[1]) == len(b[1]) and all(veq(x, y) for x, y in zip(a[1], b[1]))
    if ta == "o" and tb == "o":
        db = dict(b[1])
        return len(a[1]) == len(b[1]) and all(k in db and veq(db[k], x) for k, x in a[1])
    if ta == "n" and tb == "n":
        return True
    if ta == "st":
        return query(b, a[1])
    if tb == "st":
        return query(a, b[1])
    if ta in SCAL and tb in SCAL:
        if ta in ("i", "f") and tb in ("i", "f"):
            return float(num(a)) == float(num(b)) if "f" in (ta, tb) else num(a) == num(b)
        if ta == tb == "b" or ta == tb == "s":
            return a[1] == b[1]
        if tb == "b":
            return b[1]
        if ta == "b":
            return a[1]
        return False
    if ta in SCAL:
        return (not a[1]) if (tb == "n" and ta == "b") else (False if tb == "n" else (a[1] if ta == "b" else False))
    if tb in SCAL:
        return (not b[1]) if (ta == "n" and tb == "b") else (False if ta == "n" else (b[1] if tb == "b" else False))
    return False


def vcmp(a, b):
    ta, tb = a[0], b[0]
    if ta in ("i", "f") and tb in ("i", "f"):
        x, y = (num(a), num(b)) if ta == tb == "i" else (float(num(a)), float(num(b)))
        if x != x or y != y:
            return None
        return (x > y) - (x < y)
    if ta == tb == "s":
        return (a[1] > b[1]) - (a[1] < b[1])
    if ta == tb == "b":
        return (a[1] > b[1]) - (a[1] < b[1])
    if ta == tb == "a":
        for x, y in zip(a[1], b[1]):
            c = vcmp(x, y)
            if c is None or c != 0:
                return c
        return (len(a[1]) > len(b[1])) - (len(a[1]) < len(b[1]))
    if ta == tb == "o":
        ea, eb = sorted(a[1]), sorted(b[1])
        for (k, x), (j, y) in zip(ea, eb):
            if k != j:
                return (k > j) - (k < j)
            c = vcmp(x, y)
            if c is None or c != 0:
                return c
        return (len(ea) > len(eb)) - (len(ea) < len(eb))
    return None


class Error(Exception):
    pass


def compare(op, a, b):
    if op == "==":
        return veq(a, b)
    if op in ("!=", "<>"):
        return not veq(a, b)
    if op == "contains":
        if a[0] in SCAL:
            return show_value(b) in show_value(a)
        if a[0] == "o":
            return b[0] in SCAL and show_value(b) in dict(a[1])
        if a[0] == "a":
            return any(veq(e, b) for e in a[1])
        raise Error("contains on " + a[0])
    c = vcmp(a, b)
    return {"<": c == -1, ">": c == 1, "<=": c in (-1, 0), ">=": c in (0, 1)}[op] if c is not None else False
