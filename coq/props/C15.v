(* C15 — Arithmetic filters are exact or fail; they never wrap or crash.
   Statements only; proofs in proofs/MathProofs.v and proofs/DecimalProofs.v. *)
From Coq Require Import SpecFloat.
From LV Require Import Base Value Filters_math MathProofs.
Open Scope Z_scope.

Section C15.
Variable O : oracle.
Notation mf := (math_filter O).

(* integer operands: the mathematical result whenever it fits in 64 bits, otherwise the
   computation continues in floating point — never a wrapped value *)
Theorem plus_exact : forall a b, mf FPlus (int a) [int b] =
  if in_i64 (a + b) then Ok (int (a + b)) else Ok (flt (f_add (f_of_Z a) (f_of_Z b))).
Proof. exact (MathProofs.plus_exact O). Qed.
Theorem minus_exact : forall a b, mf FMinus (int a) [int b] =
  if in_i64 (a - b) then Ok (int (a - b)) else Ok (flt (f_sub (f_of_Z a) (f_of_Z b))).
Proof. exact (MathProofs.minus_exact O). Qed.
Theorem times_exact : forall a b, mf FTimes (int a) [int b] =
  if in_i64 (a * b) then Ok (int (a * b)) else Ok (flt (f_mul (f_of_Z a) (f_of_Z b))).
Proof. exact (MathProofs.times_exact O). Qed.
Theorem abs_exact : forall a, mf FAbs (int a) [] =
  if in_i64 (Z.abs a) then Ok (int (Z.abs a)) else Ok (flt (f_abs (f_of_Z a))).
Proof. exact (MathProofs.abs_exact O). Qed.
Theorem at_least_exact : forall a b, mf FAtLeast (int a) [int b] = Ok (int (Z.max a b)).
Proof. exact (MathProofs.at_least_exact O). Qed.
Theorem at_most_exact : forall a b, mf FAtMost (int a) [int b] = Ok (int (Z.min a b)).
Proof. exact (MathProofs.at_most_exact O). Qed.
Theorem integer_results_never_wrap : forall f a b r, i64 a -> i64 b ->
  (f = FPlus \/ f = FMinus \/ f = FTimes) -> mf f (int a) [int b] = Ok (int r) ->
  r = (match f with FPlus => a + b | FMinus => a - b | _ => a * b end) /\ i64 r.
Proof. exact (MathProofs.integer_results_never_wrap O). Qed.

(* dividend = quotient * divisor + remainder, |remainder| < |divisor| *)
Theorem div_mod_law : forall a b, b <> 0 -> i64 a -> i64 b -> (a, b) <> (- 2 ^ 63, -1) ->
  mf FDividedBy (int a) [int b] = Ok (int (Z.quot a b)) /\
  mf FModulo (int a) [int b] = Ok (int (Z.rem a b)) /\
  a = Z.quot a b * b + Z.rem a b /\ Z.abs (Z.rem a b) < Z.abs b /\ i64 (Z.quot a b) /\ i64 (Z.rem a b).
Proof. exact (MathProofs.div_mod_law O). Qed.
Theorem div_min_minus_one :
  mf FDividedBy (int (- 2 ^ 63)) [int (-1)] = Ok (flt (f_div (f_of_Z (- 2 ^ 63)) (f_of_Z (-1)))) /\
  mf FModulo (int (- 2 ^ 63)) [int (-1)] = Ok (int 0).
Proof. exact (MathProofs.div_min_minus_one O). Qed.
Theorem div_by_zero_is_error : forall input o, zero_operand O o = true ->
  (exists c, mf FDividedBy (VScalar input) [VScalar o] = Err c) /\ (exists c, mf FModulo (VScalar input) [VScalar o] = Err c).
Proof. exact (MathProofs.div_by_zero_is_error O). Qed.

(* with a float operand the result is the IEEE double result *)
Theorem float_path_is_ieee : forall x y,
  mf FPlus (flt x) [flt y] = Ok (flt (SFadd 53 1024 x y)) /\
  mf FMinus (flt x) [flt y] = Ok (flt (SFsub 53 1024 x y)) /\
  mf FTimes (flt x) [flt y] = Ok (flt (SFmul 53 1024 x y)) /\
  (f_is_zero y = false -> mf FDividedBy (flt x) [flt y] = Ok (flt (SFdiv 53 1024 x y))).
Proof. exact (MathProofs.float_path_is_ieee O). Qed.

(* numeric strings behave like the numbers they spell *)
Theorem numeric_strings_as_numbers : forall a b, i64 a -> i64 b ->
  to_integer (SStr (show_Z a)) = Some a /\
  (in_i64 (a + b) = true -> mf FPlus (nstr a) [nstr b] = Ok (VScalar (SInt (a + b)))) /\
  (in_i64 (a - b) = true -> mf FMinus (nstr a) [nstr b] = Ok (VScalar (SInt (a - b)))) /\
  (in_i64 (a * b) = true -> mf FTimes (nstr a) [VScalar (SInt b)] = Ok (VScalar (SInt (a * b)))) /\
  mf FAtLeast (nstr a) [nstr b] = Ok (VScalar (SInt (Z.max a b))) /\
  mf FModulo (VScalar (SInt a)) [nstr b] = mf FModulo (VScalar (SInt a)) [VScalar (SInt b)].
Proof. exact (MathProofs.numeric_strings_as_numbers O). Qed.

(* ceil, floor, round on a finite double m * 2^e of sign s: the filters return the clamped
   integer part functions ... *)
Theorem floor_ceil_round_filters : forall s m e,
  let x := S754_finite s m e in let v := signed s m in
  mf FFloor (VScalar (SFloat x)) [] = Ok (VScalar (SInt (clamp_i64 (floor_d v e)))) /\
  mf FCeil (VScalar (SFloat x)) [] = Ok (VScalar (SInt (clamp_i64 (ceil_d v e)))) /\
  mf FRound (VScalar (SFloat x)) [] = Ok (VScalar (SInt (clamp_i64 (round_d v e)))).
Proof. exact (MathProofs.floor_ceil_round_filters O). Qed.
Theorem clamp_id : forall z, i64 z -> clamp_i64 z = z.
Proof. exact MathProofs.clamp_id. Qed.
End C15.

(* ... which are the neighbouring integers of the exact value v * 2^e = v / 2^k (k = -e > 0)
   in the documented direction; stated without real numbers, scaled by 2^k *)
Theorem floor_spec : forall v e, e < 0 -> let k := 2 ^ (- e) in let z := floor_d v e in z * k <= v < (z + 1) * k.
Proof. exact MathProofs.floor_spec. Qed.
Theorem ceil_spec : forall v e, e < 0 -> let k := 2 ^ (- e) in let z := ceil_d v e in (z - 1) * k < v <= z * k.
Proof. exact MathProofs.ceil_spec. Qed.
(* nearest integer; on a tie the one farther from zero *)
Theorem round_spec : forall v e, e < 0 -> let k := 2 ^ (- e) in let z := round_d v e in
  2 * Z.abs (z * k - v) <= k /\ (2 * Z.abs (z * k - v) = k -> Z.abs v < Z.abs z * k).
Proof. exact MathProofs.round_spec. Qed.
Theorem integral_when_nonneg_exp : forall v e, 0 <= e ->
  floor_d v e = v * 2 ^ e /\ ceil_d v e = v * 2 ^ e /\ round_d v e = v * 2 ^ e.
Proof. exact MathProofs.integral_when_nonneg_exp. Qed.

(* non-vacuity: 2.5 = 5 * 2^-1 rounds to 3, -2.5 to -3, floor(-2.5) = -3, ceil(-2.5) = -2;
   i64::MAX + 1 continues as the double 2^63 *)
Example c15_nonvacuous :
  round_d 5 (-1) = 3 /\ round_d (-5) (-1) = -3 /\ floor_d (-5) (-1) = -3 /\ ceil_d (-5) (-1) = -2 /\
  math_filter no_oracle_v FPlus (int (2 ^ 63 - 1)) [int 1] = Ok (flt (S754_finite false 4503599627370496 11)).
Proof. vm_compute. repeat split; reflexivity. Qed.

Print Assumptions plus_exact.
Print Assumptions minus_exact.
Print Assumptions times_exact.
Print Assumptions abs_exact.
Print Assumptions at_least_exact.
Print Assumptions at_most_exact.
Print Assumptions integer_results_never_wrap.
Print Assumptions div_mod_law.
Print Assumptions div_min_minus_one.
Print Assumptions div_by_zero_is_error.
Print Assumptions float_path_is_ieee.
Print Assumptions numeric_strings_as_numbers.
Print Assumptions floor_ceil_round_filters.
Print Assumptions clamp_id.
Print Assumptions floor_spec.
Print Assumptions ceil_spec.
Print Assumptions round_spec.
Print Assumptions integral_when_nonneg_exp.
