(* CondProofs.v — what parse_condition builds: `or` of `and`s, both grouped to the left, so that
   `x or y and z` is `x or (y and z)`; its meaning as a truth table; it never runs out of fuel. *)
From LV Require Import Base Value Stack Eval CondParse.
From Coq Require Import Lia.

(* the shape of a well-formed condition: atoms joined by `and` into groups, groups joined by `or` *)
Inductive atom := AEx (e : expr) | ABin (l : expr) (o : cmpop) (r : expr).
Definition cond_of_atom (a : atom) : cond := match a with AEx e => CExists e | ABin l o r => CBin l o r end.
Section Shape.
(* any tokens that read as the connectives / operators: their value reading does not matter in these positions *)
Variable and_t or_t : ctok.
Variable op_t : cmpop -> ctok.
Hypothesis and_cls : t_cls and_t = TAnd.
Hypothesis or_cls : t_cls or_t = TOr.
Hypothesis op_cls : forall o, t_cls (op_t o) = TOp o.
Definition pv (e : expr) : ctok := mkT (Some e) TPlain.

Definition toks_of_atom (a : atom) : list ctok :=
  match a with AEx e => [pv e] | ABin l o r => [pv l; op_t o; pv r] end.
Fixpoint toks_of_group (a : atom) (more : list atom) : list ctok :=
  match more with [] => toks_of_atom a | b :: more' => toks_of_atom a ++ and_t :: toks_of_group b more' end.
Definition cond_of_group (a : atom) (more : list atom) : cond :=
  fold_left (fun c b => CAnd c (cond_of_atom b)) more (cond_of_atom a).
Fixpoint toks_of_cond (g : atom * list atom) (more : list (atom * list atom)) : list ctok :=
  match more with
  | [] => toks_of_group (fst g) (snd g)
  | h :: more' => toks_of_group (fst g) (snd g) ++ or_t :: toks_of_cond h more'
  end.
Definition cond_of_cond (g : atom * list atom) (more : list (atom * list atom)) : cond :=
  fold_left (fun c h => COr c (cond_of_group (fst h) (snd h))) more (cond_of_group (fst g) (snd g)).

Definition not_op (l : list ctok) : Prop := match l with [] => True | t :: _ => match t_cls t with TOp _ => False | _ => True end end.
Definition not_and (l : list ctok) : Prop := match l with [] => True | t :: _ => match t_cls t with TOp _ | TAnd => False | _ => True end end.

Lemma parse_atom_ok a rest : not_op rest -> parse_atom (toks_of_atom a ++ rest) = Ok (cond_of_atom a, rest).
Proof.
  intro H. destruct a as [e|l o r]; cbn [toks_of_atom app parse_atom pv t_val t_cls cond_of_atom].
  - destruct rest as [|t rest]; [reflexivity|]. cbn in H. destruct (t_cls t); try contradiction; reflexivity.
  - rewrite op_cls. reflexivity.
Qed.
Lemma conj_loop_ok : forall more lh fuel rest, not_and rest -> length (concat (map (fun b => and_t :: toks_of_atom b) more)) < fuel ->
  conj_loop fuel lh (concat (map (fun b => and_t :: toks_of_atom b) more) ++ rest) =
  Ok (fold_left (fun c b => CAnd c (cond_of_atom b)) more lh, rest).
Proof.
  induction more as [|b more IH]; intros lh fuel rest Hr Hf.
  - cbn [map concat app fold_left]. destruct fuel as [|f]; [lia|]. cbn [conj_loop].
    destruct rest as [|t r]; [reflexivity|]. cbn in Hr. destruct (t_cls t); try contradiction; reflexivity.
  - cbn [map concat fold_left]. destruct fuel as [|f]; [cbn in Hf; lia|]. cbn [app conj_loop]. rewrite and_cls.
    rewrite <- app_assoc. rewrite parse_atom_ok.
    + cbn [bind fst snd]. apply IH; [exact Hr|]. cbn [concat map length] in Hf. rewrite app_length in Hf. cbn [length] in Hf. lia.
    + destruct more as [|b' more']; cbn [map concat app].
      * destruct rest as [|t r]; [exact I|]. cbn in Hr |- *. destruct (t_cls t); try contradiction; exact I.
      * cbn. rewrite and_cls. exact I.
Qed.
Lemma toks_of_group_flat a more : toks_of_group a more = toks_of_atom a ++ concat (map (fun b => and_t :: toks_of_atom b) more).
Proof.
  revert a. induction more as [|b more IH]; intro a; cbn [toks_of_group map concat]; [rewrite app_nil_r; reflexivity|].
  rewrite IH. reflexivity.
Qed.
Lemma parse_conj_ok a more fuel rest : not_and rest -> length (toks_of_group a more) < fuel ->
  parse_conj fuel (toks_of_group a more ++ rest) = Ok (cond_of_group a more, rest).
Proof.
  intros Hr Hf. unfold parse_conj. rewrite toks_of_group_flat in *. rewrite <- app_assoc. rewrite parse_atom_ok.
  - cbn [bind fst snd]. apply conj_loop_ok; [exact Hr|]. rewrite app_length in Hf. lia.
  - destruct more as [|b more']; cbn [map concat app].
    + destruct rest as [|t r]; [exact I|]. cbn in Hr |- *. destruct (t_cls t); try contradiction; exact I.
    + cbn. rewrite and_cls. exact I.
Qed.
Lemma disj_loop_ok : forall more lh fuel,
  length (concat (map (fun h => or_t :: toks_of_group (fst h) (snd h)) more)) < fuel ->
  disj_loop fuel lh (concat (map (fun h => or_t :: toks_of_group (fst h) (snd h)) more)) =
  Ok (fold_left (fun c h => COr c (cond_of_group (fst h) (snd h))) more lh).
Proof.
  induction more as [|h more IH]; intros lh fuel Hf.
  - destruct fuel as [|f]; [lia|]. reflexivity.
  - cbn [map concat fold_left]. destruct fuel as [|f]; [cbn in Hf; lia|]. cbn [app disj_loop]. rewrite or_cls.
    cbn [concat map length] in Hf. rewrite app_length in Hf. cbn [length] in Hf.
    rewrite parse_conj_ok; [|destruct more as [|h' more']; cbn; [exact I|rewrite or_cls; exact I]|lia].
    cbn [bind fst snd]. apply IH. lia.
Qed.
Lemma toks_of_cond_flat g more : toks_of_cond g more = toks_of_group (fst g) (snd g) ++ concat (map (fun h => or_t :: toks_of_group (fst h) (snd h)) more).
Proof.
  revert g. induction more as [|h more IH]; intro g; cbn [toks_of_cond map concat]; [rewrite app_nil_r; reflexivity|].
  rewrite IH. reflexivity.
Qed.

(* parse_condition builds exactly the or-of-ands, both grouped to the left *)
Theorem parse_condition_groups g more : parse_condition (toks_of_cond g more) = Ok (cond_of_cond g more).
Proof.
  unfold parse_condition. rewrite toks_of_cond_flat. set (tail := concat (map (fun h => or_t :: toks_of_group (fst h) (snd h)) more)).
  rewrite parse_conj_ok.
  - cbn [bind fst snd]. apply disj_loop_ok. fold tail. rewrite app_length. lia.
  - unfold tail. destruct more as [|h more']; cbn; [exact I|rewrite or_cls; exact I].
  - rewrite app_length. lia.
Qed.
(* in particular: x or y and z  is  x or (y and z);  x and y or z  is  (x and y) or z *)
Corollary or_and_grouping x y z :
  parse_condition [pv x; or_t; pv y; and_t; pv z] = Ok (COr (CExists x) (CAnd (CExists y) (CExists z))).
Proof. exact (parse_condition_groups (AEx x, []) [(AEx y, [AEx z])]). Qed.
Corollary and_or_grouping x y z :
  parse_condition [pv x; and_t; pv y; or_t; pv z] = Ok (COr (CAnd (CExists x) (CExists y)) (CExists z)).
Proof. exact (parse_condition_groups (AEx x, [AEx y]) [(AEx z, [])]). Qed.
End Shape.

(* the meaning: some group all of whose atoms hold (when every atom can be evaluated) *)
Section Meaning.
Variable O : oracle. Variable s : est.
Variable truth : atom -> bool.
Hypothesis atoms_evaluate : forall a, eval_cond O (cond_of_atom a) s = Ok (truth a).
Lemma eval_group a more : eval_cond O (cond_of_group a more) s = Ok (truth a && forallb truth more).
Proof.
  unfold cond_of_group. assert (G : forall more c b, eval_cond O c s = Ok b ->
    eval_cond O (fold_left (fun c b => CAnd c (cond_of_atom b)) more c) s = Ok (b && forallb truth more)).
  { induction more0 as [|x more0 IH]; intros c b Hc; cbn [fold_left forallb]; [rewrite andb_true_r; exact Hc|].
    rewrite (IH (CAnd c (cond_of_atom x)) (b && truth x)); [rewrite andb_assoc; reflexivity|].
    cbn [eval_cond]. rewrite Hc. cbn [bind]. destruct b; [apply atoms_evaluate|reflexivity]. }
  apply G. apply atoms_evaluate.
Qed.
Theorem condition_meaning g more :
  eval_cond O (cond_of_cond g more) s = Ok (existsb (fun h => truth (fst h) && forallb truth (snd h)) (g :: more)).
Proof.
  unfold cond_of_cond. cbn [existsb].
  assert (G : forall more c b, eval_cond O c s = Ok b ->
    eval_cond O (fold_left (fun c h => COr c (cond_of_group (fst h) (snd h))) more c) s =
    Ok (b || existsb (fun h => truth (fst h) && forallb truth (snd h)) more)).
  { induction more0 as [|x more0 IH]; intros c b Hc; cbn [fold_left existsb]; [rewrite orb_false_r; exact Hc|].
    rewrite (IH (COr c (cond_of_group (fst x) (snd x))) (b || (truth (fst x) && forallb truth (snd x)))); [rewrite orb_assoc; reflexivity|].
    cbn [eval_cond]. rewrite Hc. cbn [bind]. destruct b; [reflexivity|apply eval_group]. }
  apply G. apply eval_group.
Qed.
End Meaning.

(* the parser is total: with the fuel it gives itself it never runs out *)
Lemma parse_atom_len l c r : parse_atom l = Ok (c, r) -> length r < length l.
Proof.
  destruct l as [|t l]; [discriminate|]. cbn [parse_atom]. destruct (t_val t); [|discriminate].
  destruct l as [|t2 l2]; [intro H; inversion H; cbn; lia|].
  destruct (t_cls t2); try (intro H; inversion H; cbn; lia).
  destruct l2 as [|t3 l3]; [discriminate|]. destruct (t_val t3); [|discriminate]. intro H; inversion H; cbn; lia.
Qed.
Lemma parse_atom_nofuel l : parse_atom l <> OutOfFuel.
Proof.
  destruct l as [|t l]; [discriminate|]. cbn [parse_atom]. destruct (t_val t); [|discriminate].
  destruct l as [|t2 l2]; [discriminate|]. destruct (t_cls t2); try discriminate.
  destruct l2 as [|t3 l3]; [discriminate|]. destruct (t_val t3); discriminate.
Qed.
Lemma conj_loop_total : forall fuel lh l, length l < fuel ->
  conj_loop fuel lh l <> OutOfFuel /\ forall c r, conj_loop fuel lh l = Ok (c, r) -> length r <= length l.
Proof.
  induction fuel as [|f IH]; intros lh l Hf; [lia|]. cbn [conj_loop].
  destruct l as [|t r]; [split; [discriminate|intros c r H; inversion H; lia]|].
  destruct (t_cls t); try (split; [discriminate|intros c r0 H; inversion H; lia]).
  pose proof (parse_atom_nofuel r) as Hn. destruct (parse_atom r) as [[c1 r1]| | |] eqn:E; cbn [bind fst snd]; try (split; [discriminate|discriminate]); [|congruence].
  pose proof (parse_atom_len _ _ _ E) as L. cbn [length] in Hf.
  destruct (IH (CAnd lh c1) r1 ltac:(lia)) as [A B]. split; [exact A|]. intros c r0 H. specialize (B c r0 H). cbn [length]. lia.
Qed.
Lemma parse_conj_total fuel l : length l < fuel ->
  parse_conj fuel l <> OutOfFuel /\ forall c r, parse_conj fuel l = Ok (c, r) -> length r < length l.
Proof.
  intro Hf. unfold parse_conj. pose proof (parse_atom_nofuel l) as Hn.
  destruct (parse_atom l) as [[c1 r1]| | |] eqn:E; cbn [bind fst snd]; try (split; discriminate); [|congruence].
  pose proof (parse_atom_len _ _ _ E) as L. destruct (conj_loop_total fuel c1 r1 ltac:(lia)) as [A B].
  split; [exact A|]. intros c r H. specialize (B c r H). lia.
Qed.
Lemma disj_loop_total : forall fuel lh l, length l < fuel -> disj_loop fuel lh l <> OutOfFuel.
Proof.
  induction fuel as [|f IH]; intros lh l Hf; [lia|]. cbn [disj_loop].
  destruct l as [|t r]; [discriminate|]. destruct (t_cls t); try discriminate. cbn [length] in Hf.
  destruct (parse_conj_total f r ltac:(lia)) as [A B].
  destruct (parse_conj f r) as [[c1 r1]| | |] eqn:E; cbn [bind fst snd]; try discriminate; [|congruence].
  apply IH. specialize (B c1 r1 eq_refl). lia.
Qed.
Lemma parse_atom_nopanic l n : parse_atom l <> Panic n.
Proof.
  destruct l as [|t l]; [discriminate|]. cbn [parse_atom]. destruct (t_val t); [|discriminate].
  destruct l as [|t2 l2]; [discriminate|]. destruct (t_cls t2); try discriminate.
  destruct l2 as [|t3 l3]; [discriminate|]. destruct (t_val t3); discriminate.
Qed.
Lemma conj_loop_nopanic : forall fuel lh l n, conj_loop fuel lh l <> Panic n.
Proof.
  induction fuel as [|f IH]; intros lh l n; [discriminate|]. cbn [conj_loop]. destruct l as [|t r]; [discriminate|].
  destruct (t_cls t); try discriminate. pose proof (parse_atom_nopanic r n).
  destruct (parse_atom r) as [[c2 r2]| | |]; cbn [bind]; try discriminate; [apply IH|congruence].
Qed.
Lemma parse_conj_nopanic fuel l n : parse_conj fuel l <> Panic n.
Proof.
  unfold parse_conj. pose proof (parse_atom_nopanic l n).
  destruct (parse_atom l) as [[c2 r2]| | |]; cbn [bind]; try discriminate; [apply conj_loop_nopanic|congruence].
Qed.
Lemma disj_loop_nopanic : forall fuel lh l n, disj_loop fuel lh l <> Panic n.
Proof.
  induction fuel as [|f IH]; intros lh l n; [discriminate|]. cbn [disj_loop]. destruct l as [|t r]; [discriminate|].
  destruct (t_cls t); try discriminate. pose proof (parse_conj_nopanic f r n).
  destruct (parse_conj f r) as [[c2 r2]| | |]; cbn [bind]; try discriminate; [apply IH|congruence].
Qed.
Theorem parse_condition_total l : parse_condition l <> OutOfFuel /\ (forall n, parse_condition l <> Panic n).
Proof.
  unfold parse_condition. destruct (parse_conj_total (S (length l)) l ltac:(lia)) as [A B].
  pose proof (parse_conj_nopanic (S (length l)) l) as NP.
  destruct (parse_conj (S (length l)) l) as [[c1 r1]|c|pn|] eqn:E; cbn [bind fst snd].
  - specialize (B c1 r1 eq_refl). split; [apply disj_loop_total; lia|intro n; apply disj_loop_nopanic].
  - split; discriminate.
  - split; [discriminate|]. intros n0 H. exact (NP pn eq_refl).
  - congruence.
Qed.
