(* C11 — Value equality and ordering are coherent and construction-independent.
   Statements only; proofs in proofs/ValueProofs.v (and proofs/OrderLemmas.v). *)
From Coq Require Import Permutation.
From LV Require Import Base Value OrderLemmas ValueProofs.

(* == is symmetric (values with unique object keys and without the Truthy marker, which no
   template can produce), for every recursion budget and at the API level *)
Theorem eq_sym_fuel : forall n a b, wf a -> wf b -> veq n a b = veq n b a.
Proof. exact veq_sym. Qed.
Theorem eq_sym : forall a b, wf a -> wf b -> value_eq a b = value_eq b a.
Proof. exact value_eq_sym. Qed.
(* == is reflexive, NaN excepted *)
Theorem eq_refl_noNaN : forall a, wf a -> nonan a = true -> value_eq a a = true.
Proof. exact value_eq_refl. Qed.
(* != is the negation of == *)
Theorem ne_is_negation : forall a b, value_ne a b = negb (value_eq a b).
Proof. exact value_ne_negation. Qed.
(* < and > are duals (and so are <= and >=); no hypothesis on the values *)
Theorem cmp_dual : forall a b, value_cmp b a = option_map CompOpp (value_cmp a b).
Proof. exact value_cmp_dual. Qed.
Theorem lt_gt_dual : forall a b, v_lt a b = v_gt b a /\ v_le a b = v_ge b a.
Proof. exact ValueProofs.lt_gt_dual. Qed.
(* whenever two values are ordered, <= and >= hold exactly when < or > or == does *)
Theorem le_iff : forall a b c, wf a -> wf b -> value_cmp a b = Some c ->
  v_le a b = (v_lt a b || value_eq a b) /\ v_ge a b = (v_gt a b || value_eq a b).
Proof. exact ValueProofs.le_iff. Qed.
(* values that are equal are never strictly ordered *)
Theorem eq_not_strict : forall a b, wf a -> wf b -> value_eq a b = true -> v_lt a b = false /\ v_gt a b = false.
Proof. exact value_eq_not_strict. Qed.
Theorem cmp_eq_is_eq : forall n a b, wf a -> wf b -> vcmp n a b = Some Eq -> veq n a b = true.
Proof. exact vcmp_eq_veq. Qed.
(* the outcome depends only on the values, not on the order in which object entries are
   stored or iterated *)
Theorem construction_independent_eq_l : forall n x x' b, Permutation x x' -> veq n (VObject x) b = veq n (VObject x') b.
Proof. exact veq_perm_l. Qed.
Theorem construction_independent_eq_r : forall n a y y', NoDup (keys y) -> Permutation y y' ->
  veq n a (VObject y) = veq n a (VObject y').
Proof. exact veq_perm_r. Qed.
Theorem construction_independent_cmp : forall n x x' y y', NoDup (keys x) -> NoDup (keys y) ->
  Permutation x x' -> Permutation y y' -> vcmp n (VObject x) (VObject y) = vcmp n (VObject x') (VObject y').
Proof. exact vcmp_perm. Qed.
(* ... which the code before the repair violated *)
Theorem pinned_order_dependent_refuted : exists x x' y, Permutation x x' /\ NoDup (keys x) /\
  Pinned.vcmp0 (VObject x) (VObject y) <> Pinned.vcmp0 (VObject x') (VObject y).
Proof. exact Pinned.order_dependent_refuted. Qed.
(* the excluded marker really is excluded for a reason *)
Theorem truthy_marker_asymmetric :
  value_eq (VState Empty) (VState Truthy) = true /\ value_eq (VState Truthy) (VState Empty) = false /\
  value_eq (VState Truthy) (VState Truthy) = false.
Proof. exact ValueProofs.truthy_marker_asymmetric. Qed.

(* non-vacuity: a nested multi-key object and an int/float pair satisfy the hypotheses *)
Example c11_nonvacuous :
  let o := VObject [([97%N], VScalar (SInt 1)); ([98%N], VArray [VScalar (SStr [120%N]); VScalar (SInt 2)])] in
  wf o /\ nonan o = true /\ value_cmp o o = Some Eq /\ value_eq (VScalar (SInt 1)) (VScalar (SFloat (f_of_Z 1))) = true.
Proof. split; [apply good_wf; reflexivity|]. vm_compute. repeat split; reflexivity. Qed.

Print Assumptions eq_sym_fuel.
Print Assumptions eq_sym.
Print Assumptions eq_refl_noNaN.
Print Assumptions ne_is_negation.
Print Assumptions cmp_dual.
Print Assumptions lt_gt_dual.
Print Assumptions le_iff.
Print Assumptions eq_not_strict.
Print Assumptions cmp_eq_is_eq.
Print Assumptions construction_independent_eq_l.
Print Assumptions construction_independent_eq_r.
Print Assumptions construction_independent_cmp.
Print Assumptions pinned_order_dependent_refuted.
Print Assumptions truthy_marker_asymmetric.
