(* CondParse.v — crates/lib/src/stdlib/blocks/if_block.rs: parse_condition, parse_conjunction_chain,
   parse_atom_condition over the tag's token stream (PeekableTagTokenIter).  A token is what these
   functions ask of it: whether `expect_value` succeeds (and with which expression), and how its text
   reads (`and`, `or`, a comparison operator, anything else).  Note that `and`, `or` and `contains` are
   identifiers to the grammar: at a value position they are variables of that name. *)
From LV Require Export Eval.

Inductive tclass := TAnd | TOr | TOp (o : cmpop) | TPlain.
Record ctok := mkT { t_val : option expr; t_cls : tclass }.

(* parse_atom_condition: a value, then (if the next token reads as an operator) the operator and a value *)
Definition parse_atom (l : list ctok) : res (cond * list ctok) :=
  match l with
  | [] => Err EParse                                             (* "Value expected." *)
  | t :: r =>
      match t_val t with
      | None => Err EParse
      | Some lh =>
          match r with
          | t2 :: r2 =>
              match t_cls t2 with
              | TOp o => match r2 with
                         | [] => Err EParse
                         | t3 :: r3 => match t_val t3 with Some rh => Ok (CBin lh o rh, r3) | None => Err EParse end
                         end
              | _ => Ok (CExists lh, r)
              end
          | [] => Ok (CExists lh, [])
          end
      end
  end.
(* parse_conjunction_chain: atoms joined by `and`, grouped to the left *)
Fixpoint conj_loop (fuel : nat) (lh : cond) (l : list ctok) : res (cond * list ctok) :=
  match fuel with
  | O => OutOfFuel
  | S f =>
      match l with
      | t :: r => match t_cls t with
                  | TAnd => do a <- parse_atom r; conj_loop f (CAnd lh (fst a)) (snd a)
                  | _ => Ok (lh, l)
                  end
      | [] => Ok (lh, [])
      end
  end.
Definition parse_conj (fuel : nat) (l : list ctok) : res (cond * list ctok) :=
  do a <- parse_atom l; conj_loop fuel (fst a) (snd a).
(* parse_condition: conjunction chains joined by `or`, grouped to the left; anything else is an error *)
Fixpoint disj_loop (fuel : nat) (lh : cond) (l : list ctok) : res cond :=
  match fuel with
  | O => OutOfFuel
  | S f =>
      match l with
      | [] => Ok lh
      | t :: r => match t_cls t with
                  | TOr => do c <- parse_conj f r; disj_loop f (COr lh (fst c)) (snd c)
                  | _ => Err EParse                               (* "\"and\" or \"or\" expected." *)
                  end
      end
  end.
Definition parse_condition (l : list ctok) : res cond :=
  let fuel := S (length l) in
  do c <- parse_conj fuel l; disj_loop fuel (fst c) (snd c).
