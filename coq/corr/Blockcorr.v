(* Correspondence checker for the block machinery: the class of outcome (template / error / panic) of
   parse() on a text, from the element stream pest produced for it and the per-element verdicts of the
   argument parsers, against what the implementation's parse() did on the whole text. *)
From LV Require Import Corr BlockParse.
Record bcase := mkB { b_elems : list elem; b_expected : N }.
Definition pres_code (r : pres) : N := match r with POk => 0 | PErr => 1 | PPanic => 2 | PFuel => 3 end%N.
Definition block_check (c : bcase) : bool := N.eqb (pres_code (parse_elements (b_elems c))) (b_expected c).
