(* C05 — Loops visit exactly the selected elements, with truthful loop metadata.
   Statements only; proofs in proofs/EvalProofs.v. *)
From LV Require Import Base Value Stack Eval EvalProofs.

(* the elements selected by offset, limit and reversed *)
Theorem window_spec : forall (l : list value) (lim off : nat) (rv : bool),
  iter_array l (Some (Z.of_nat lim)) (Z.of_nat off) rv =
  (if rv then @rev value else fun x => x) (firstn lim (skipn off l)).
Proof. exact EvalProofs.window_spec. Qed.
Theorem window_spec_nolimit : forall (l : list value) (off : nat) (rv : bool),
  iter_array l None (Z.of_nat off) rv = (if rv then @rev value else fun x => x) (skipn off l).
Proof. exact EvalProofs.window_spec_nolimit. Qed.
Theorem window_sublist : forall l lim off rv x, In x (iter_array l (Some (Z.of_nat lim)) (Z.of_nat off) rv) -> In x l.
Proof. exact EvalProofs.window_sublist. Qed.

(* the forloop / tablerow fields describe the iteration truthfully *)
Theorem loop_obj_truthful : forall i n p, (0 <= i < n)%Z ->
  let o := match forloop_obj i n p with VObject kvs => kvs | _ => [] end in
  lookup k_index o = Some (vz (i + 1)) /\ lookup k_index0 o = Some (vz i) /\
  lookup k_rindex o = Some (vz (n - i)) /\ lookup k_rindex0 o = Some (vz (n - i - 1)) /\
  lookup k_firstk o = Some (vbool (i =? 0)%Z) /\ lookup k_lastk o = Some (vbool (i =? n - 1)%Z) /\
  lookup k_length o = Some (vz n) /\ lookup k_parentloop o = Some (match p with Some v => v | None => VNil end).
Proof. exact EvalProofs.loop_obj_truthful. Qed.
Theorem tablerow_obj_truthful : forall i n cols, (0 <= i < n)%Z -> (0 < cols)%Z ->
  let col := (i mod cols)%Z in
  let o := match tablerow_obj i n col cols with VObject kvs => kvs | _ => [] end in
  lookup k_col0 o = Some (vz col) /\ lookup k_col o = Some (vz (col + 1)) /\
  lookup k_col_first o = Some (vbool (col =? 0)%Z) /\
  lookup k_col_last o = Some (vbool ((col =? cols - 1)%Z || (i =? n - 1)%Z)) /\
  lookup k_index o = Some (vz (i + 1)) /\ lookup k_length o = Some (vz n) /\ (0 <= col < cols)%Z.
Proof. exact EvalProofs.tablerow_obj_truthful. Qed.

(* the for block: else exactly when nothing is selected; otherwise one iteration per selected
   element, in order, with the loop frame pushed for the body and popped afterwards; `break` ends
   this loop, `continue` (or nothing) goes on with the next element; the interrupt is consumed *)
Theorem for_block_semantics : forall O ps rec x rng limit offset reversed body els s k,
  rnode O ps rec (NFor x rng limit offset reversed body els) s k =
  of_res (eval_range O rng s) s k (fun arr =>
  of_res (attr_usize O limit s) s k (fun lim =>
  of_res (attr_usize O offset s) s k (fun off =>
    let sel := iter_array arr lim (match off with Some z => z | None => 0%Z end) reversed in
    match sel with
    | [] => ropt_list O ps rec els s k
    | _ => for_loop (rlist O ps rec body) x (Z.of_nat (length sel)) (try_get O [SStr k_forloop] (fr s)) sel 0%Z s k
    end))).
Proof. exact EvalProofs.rnode_for. Qed.
Theorem for_loop_nil : forall body x len parent i s k, for_loop body x len parent [] i s k = (ODone, s, k).
Proof. exact EvalProofs.for_loop_nil. Qed.
Theorem for_loop_cons : forall body x len parent v vs i s k,
  for_loop body x len parent (v :: vs) i s k =
  match body (push_plain (iter_frame x len parent i v) s) k with
  | (ODone, s', k') =>
      match r_intr (get_regs (pop_plain s')) with
      | Some Brk => (ODone, clear_intr (pop_plain s'), k')
      | _ => for_loop body x len parent vs (i + 1)%Z (clear_intr (pop_plain s')) k'
      end
  | (o, s', k') => (o, pop_plain s', k')
  end.
Proof. exact EvalProofs.for_loop_cons. Qed.

(* break and continue: a sequence stops after the element that raised the interrupt ... *)
Theorem sequence_stops_at_an_interrupt : forall O ps rec n l s k,
  rlist O ps rec (n :: l) s k =
  match rnode O ps rec n s k with
  | (ODone, s', k') => if interrupted s' then (ODone, s', k') else rlist O ps rec l s' k'
  | o => o
  end.
Proof. exact EvalProofs.rlist_cons. Qed.
Theorem break_stops_the_sequence : forall O ps rec l s k,
  exists s', rlist O ps rec (NBreak :: l) s k = (ODone, s', k) /\ r_intr (get_regs s') = Some Brk.
Proof. exact EvalProofs.break_stops_the_sequence. Qed.
Theorem continue_stops_the_sequence : forall O ps rec l s k,
  exists s', rlist O ps rec (NContinue :: l) s k = (ODone, s', k) /\ r_intr (get_regs s') = Some Cont.
Proof. exact EvalProofs.continue_stops_the_sequence. Qed.
(* ... the loop that ran consumes it, whatever its body is and however the iterations ended ... *)
Theorem for_loop_consumes_interrupt : forall body x len parent vs i s k s' k', vs <> [] ->
  for_loop body x len parent vs i s k = (ODone, s', k') -> interrupted s' = false.
Proof. exact EvalProofs.for_loop_consumes_interrupt. Qed.
(* ... so break ends only the innermost for: whatever follows a for block that iterated is executed,
   in the state the loop left, exactly as if no break or continue had occurred inside it *)
Theorem break_ends_only_the_innermost_for : forall O ps rec x rng limit offset reversed body els rest s k arr lim off s' k',
  eval_range O rng s = Ok arr -> attr_usize O limit s = Ok lim -> attr_usize O offset s = Ok off ->
  iter_array arr lim (match off with Some z => z | None => 0%Z end) reversed <> [] ->
  rnode O ps rec (NFor x rng limit offset reversed body els) s k = (ODone, s', k') ->
  rlist O ps rec (NFor x rng limit offset reversed body els :: rest) s k = rlist O ps rec rest s' k'.
Proof. exact EvalProofs.after_a_for_block_the_sequence_goes_on. Qed.

(* non-vacuity: limit:4 offset:3 over five elements selects the last two (the pre-repair code
   produced two extra nil iterations); reversed applies to the selection *)
Example c05_nonvacuous :
  let l := map (fun z => VScalar (SInt z)) [1; 2; 3; 4; 5]%Z in
  iter_array l (Some 4%Z) 3%Z false = map (fun z => VScalar (SInt z)) [4; 5]%Z /\
  iter_array l (Some 2%Z) 1%Z true = map (fun z => VScalar (SInt z)) [3; 2]%Z.
Proof. vm_compute. split; reflexivity. Qed.

Print Assumptions window_spec.
Print Assumptions window_spec_nolimit.
Print Assumptions window_sublist.
Print Assumptions loop_obj_truthful.
Print Assumptions tablerow_obj_truthful.
Print Assumptions for_block_semantics.
Print Assumptions for_loop_nil.
Print Assumptions for_loop_cons.
Print Assumptions sequence_stops_at_an_interrupt.
Print Assumptions break_stops_the_sequence.
Print Assumptions continue_stops_the_sequence.
Print Assumptions for_loop_consumes_interrupt.
Print Assumptions break_ends_only_the_innermost_for.
