(* Correspondence checker for the grammar: the pair stream of a start rule on a text, as pest produces it. *)
From LV Require Import Corr Peg Grammar.
Record lcase := mkL { lx_text : str; lx_rule : nat; lx_expected : option (list (nat * (nat * nat))) }.
Definition tok_same (a : tok) (b : nat * (nat * nat)) : bool :=
  Nat.eqb (t_rule a) (fst b) && Nat.eqb (t_start a) (fst (snd b)) && Nat.eqb (t_end a) (snd (snd b)).
Fixpoint toks_same (a : list tok) (b : list (nat * (nat * nat))) : bool :=
  match a, b with
  | [], [] => true
  | x :: a', y :: b' => tok_same x y && toks_same a' b'
  | _, _ => false
  end.
Definition lex_fuel (s : str) : nat := 200 + 6 * length s.
Definition lex_check (c : lcase) : bool :=
  match parse liquid_grammar liquid_ws (lex_fuel (lx_text c)) (lx_rule c) (lx_text c), lx_expected c with
  | Some (Some (_, _, ts)), Some e => toks_same ts e
  | Some None, None => true
  | _, _ => false
  end.
