"""C14 — array filters neither invent nor lose elements beyond their contract."""
import itertools, json, random
from props import seqcommon as sc
from props.seqcommon import prepare, request, observed, case_ir, show_value, ORACLE, bits_f

PROP = "C14"
TARGETS = ["props/C14.vo", "corr/Seqcorr.vo"]
HEADER = "From LV Require Import Corr Filters_seq Seqcorr.\n"
CHECKER = "seq_check"
MODEL_HANDLES_PANIC = True
PROFILES = ["debug", "release"]
TRUSTED = [
    "model/Filters_seq.v transcribes stdlib/filters/array.rs and slice.rs",
    "slice::sort_by is modelled by its contract: a stable sort when the comparator is a total preorder on the input (insertion sort; the stable sorted permutation is then unique), unspecified otherwise (std may panic) — that case is the recorded known finding sort-incomparable",
]
RULE = ("exhaustive arrays (length <=4 quick, <=5 thorough) over a pool of comparable scalars with duplicates and nils, strings differing in case, and objects with missing/nil/false properties, "
        "x every array filter; random arrays up to 60 elements in random order including mixed incomparable kinds; non-trivial = the result differs from the input")


def I_(n):
    return ["i", str(n)]


def S_(s):
    return ["s", s]


F2 = ["f", "4611686018427387904"]     # 2.0
F25 = ["f", "4612811918334230528"]    # 2.5
NIL = ["n"]
NUMS = [NIL, I_(1), I_(2), I_(3), F2, I_(-1)]
STRS = [S_("a"), S_("A"), S_("b"), S_("B"), S_("ab"), NIL]
OBJS = [["o", [["p", I_(1)]]], ["o", [["p", I_(2)]]], ["o", [["p", NIL]]], ["o", [["p", ["b", False]]]], ["o", [["q", I_(1)]]],
        ["o", [["p", I_(1)], ["q", I_(2)]]], ["o", [["p", S_("x")]]]]
MIXED = NUMS + STRS[:5] + [["b", True], ["b", False], F25, I_(10), S_("10"), S_(""), ["a", [I_(1)]], ["a", []], OBJS[0], I_(2 ** 53 + 1), ["f", "4845873199050653696"]]
UNARY = ["sort", "sort_natural", "reverse", "uniq", "compact", "first", "last", "size"]


def arrays(pool, n):
    for k in range(n + 1):
        for t in itertools.product(pool, repeat=k):
            yield ["a", list(t)]


def gen(tier, seed):
    rnd = random.Random(seed)
    L = 4 if tier == "quick" else 5
    cases = []

    def add(x, chain, why):
        cases.append({"x": x, "chain": chain, "why": why})
    for a in arrays(NUMS, L):
        for f in UNARY:
            add(a, [(f, [])], "scalars")
        add(a, [("sort", []), ("sort", [])], "idempotent")
        add(a, [("join", [S_(",")])], "scalars")
        if len(a[1]) <= 3:
            for off in range(-4, 5):
                for ln in (1, 2, 5):
                    add(a, [("slice", [I_(off), I_(ln)])], "slice")
    for a in arrays(STRS, L - 1):
        for f in ("sort", "sort_natural", "uniq"):
            add(a, [(f, [])], "case-strings")
        add(a, [("sort_natural", []), ("sort_natural", [])], "idempotent")
    for a in arrays(OBJS, 3):
        for p in ("p", "q", "zz"):
            for f in ("map", "where", "compact", "sort", "sort_natural"):
                add(a, [(f, [S_(p)])], "objects")
            for t in (I_(1), NIL, ["b", False], F2):
                add(a, [("where", [S_(p), t])], "objects")
        add(a, [("map", [NIL])], "objects")
    small = list(arrays(NUMS[:4], 2))
    for a in small:
        for b in small:
            add(a, [("concat", [b])], "concat")
    # random arrays up to 60 elements, every initial order, mixed incomparable kinds included
    nrand = 1500 if tier == "quick" else 30000
    for _ in range(nrand):
        kind = rnd.random()
        pool = NUMS if kind < 0.3 else STRS if kind < 0.45 else NUMS + [I_(rnd.randint(-50, 50)) for _ in range(8)] if kind < 0.65 else MIXED
        n = rnd.choice([0, 1, 2, 5, 10, 19, 20, 21, 22, 39, 40, 60])
        arr = [rnd.choice(pool) for _ in range(n)]
        f = rnd.choice(UNARY + ["sort", "sort", "sort_natural", "join"])
        add(["a", arr], [(f, [S_("-")] if f == "join" else [])], "random")
        if rnd.random() < 0.2:
            objs = [rnd.choice(OBJS) for _ in range(n)]
            g = rnd.choice(["sort", "sort_natural", "map", "where", "compact"])
            add(["a", objs], [(g, [S_(rnd.choice(["p", "q"]))])], "random")
    for v in ([NIL, I_(5), S_("abc"), ["b", True], OBJS[0], ["st", "Empty"]]):
        for f in UNARY + ["join", "map", "where", "concat"]:
            add(v, [(f, [S_("p")] if f in ("map", "where") else [["a", []]] if f == "concat" else [])], "confused")
    for i, c in enumerate(cases):
        c["id"] = i
    dist = {"exhaustive": True, "max_len": L}
    for c in cases:
        dist[c["why"]] = dist.get(c["why"], 0) + 1
    return cases, dist


# ---------------- Liquid equality / ordering, ported for the reference (C11's value model) ----------------
def num(v):
    return int(v[1]) if v[0] == "i" else bits_f(v[1]) if v[0] == "f" else None


def veq(a, b):
    ta, tb = a[0], b[0]
    if ta == "a" and tb == "a":
        return len(a[1]) == len(b[1]) and all(veq(x, y) for x, y in zip(a[1], b[1]))
    if ta == "o" and tb == "o":
        db = dict(b[1])
        return len(a[1]) == len(b[1]) and all(k in db and veq(db[k], x) for k, x in a[1])
    if ta == "n" and tb == "n":
        return True
    scal = ("i", "f", "b", "s", "d", "dt")
    if ta in scal and tb in scal:
        if ta in ("i", "f") and tb in ("i", "f"):
            return float(num(a)) == float(num(b)) if "f" in (ta, tb) else num(a) == num(b)
        if ta == tb == "b" or ta == tb == "s":
            return a[1] == b[1]
        if tb == "b":
            return b[1]
        if ta == "b":
            return a[1]
        return False
    if ta in scal:
        return (not a[1]) if (tb == "n" and ta == "b") else (False if tb == "n" else (a[1] if ta == "b" else False))
    if tb in scal:
        return (not b[1]) if (ta == "n" and tb == "b") else (False if ta == "n" else (b[1] if tb == "b" else False))
    return False


def vcmp(a, b):
    ta, tb = a[0], b[0]
    if ta in ("i", "f") and tb in ("i", "f"):
        x, y = (num(a), num(b)) if ta == tb == "i" else (float(num(a)), float(num(b)))
        if x != x or y != y:
            return None
        return (x > y) - (x < y)
    if ta == tb == "s":
        return (a[1] > b[1]) - (a[1] < b[1])
    if ta == tb == "b":
        return (a[1] > b[1]) - (a[1] < b[1])
    if ta == tb == "a":
        for x, y in zip(a[1], b[1]):
            c = vcmp(x, y)
            if c is None or c != 0:
                return c
        return (len(a[1]) > len(b[1])) - (len(a[1]) < len(b[1]))
    if ta == tb == "o":
        ea, eb = sorted(a[1]), sorted(b[1])
        for (k, x), (j, y) in zip(ea, eb):
            if k != j:
                return (k > j) - (k < j)
            c = vcmp(x, y)
            if c is None or c != 0:
                return c
        return (len(ea) > len(eb)) - (len(ea) < len(eb))
    return None


def nsc(a, b):
    if a[0] == "n" and b[0] == "n":
        return 0
    if a[0] == "n":
        return 1
    if b[0] == "n":
        return -1
    return vcmp(a, b)


def norm(v):
    """objects as maps: entries sorted by key (hash-map iteration order is arbitrary)"""
    if isinstance(v, list) and v and v[0] == "o":
        return ["o", sorted([[k, norm(x)] for k, x in v[1]])]
    if isinstance(v, list) and v and v[0] == "a":
        return ["a", [norm(x) for x in v[1]]]
    return v


def canon(v):
    return json.dumps(norm(v), sort_keys=True)


def as_seq(x):
    return x[1] if x[0] == "a" else [] if x[0] == "n" else [x]


def prop(v, p):
    if v[0] == "o":
        return dict(v[1]).get(p, NIL)
    return NIL


def low(s):
    return "".join(ORACLE["chars"].get(ch, (ch, ch))[1] for ch in s)


def spec_check(c, resp):
    kind, got = observed(resp)
    if kind == "ok":
        got = norm(got)
    c = dict(c, x=norm(c["x"]), chain=[(f, [norm(a) for a in args]) for f, args in c["chain"]])
    inp = {"input": c["x"], "chain": c["chain"]}
    f, args = c["chain"][0]
    x = c["x"]
    if kind == "panic":
        if f == "sort":
            seq = as_seq(x)
            keyf = (lambda v: prop(v, show_value(args[0]))) if args else (lambda v: v)
            ks = [keyf(v) for v in seq]
            if "total order" in str(got) and any(nsc(a, b) is None for a in ks for b in ks):     # only std's own detection of a non-total comparator is the recorded finding
                return {"what": "sort panicked on elements that are not mutually comparable", "input": inp, "observed": got, "key": "sort-incomparable"}
        return {"what": "array filter panicked", "input": inp, "observed": got}
    if len(c["chain"]) == 2:
        return None      # idempotence chains are judged in spec_global together with the single application
    if f in ("sort", "sort_natural"):
        seq = as_seq(x)
        if args and not all(v[0] == "o" for v in seq):
            return None if kind == "err" else {"what": "sort by property accepted non-objects", "input": inp, "observed": got}
        if kind != "ok" or got[0] != "a":
            return {"what": "sort failed", "input": inp, "observed": got}
        out = got[1]
        if sorted(map(canon, out)) != sorted(map(canon, seq)):
            return {"what": "sort result is not a permutation of its input", "input": inp, "observed": got}
        p = show_value(args[0]) if args else None
        if f == "sort":
            key = (lambda v: prop(v, p)) if args else (lambda v: v)
            cmpf = nsc
        else:
            key = (lambda v: None if (prop(v, p) if args else v)[0] == "n" else low(show_value(prop(v, p) if args else v)))
            cmpf = lambda a, b: 0 if a is None and b is None else 1 if a is None else -1 if b is None else (a > b) - (a < b)
        ks = [key(v) for v in out]
        comparable = all(cmpf(a, b) is not None for a in ks for b in ks)
        if comparable:
            for i in range(len(ks) - 1):
                if cmpf(ks[i], ks[i + 1]) > 0:
                    return {"what": "sort result is not non-decreasing (nil last)", "input": inp, "observed": got}
            # stability: equivalent elements keep their input order
            kin = [key(v) for v in seq]
            for v, k in zip(out, ks):
                pass
            for k in ks:
                a = [canon(v) for v, kk in zip(seq, kin) if cmpf(kk, k) == 0]
                b = [canon(v) for v, kk in zip(out, ks) if cmpf(kk, k) == 0]
                if a != b:
                    return {"what": "sort is not stable", "input": inp, "observed": got}
        return None
    if f == "reverse":
        if x[0] != "a":
            return None if kind == "err" else {"what": "reverse accepted a non-array", "input": inp, "observed": got}
        return None if kind == "ok" and got == ["a", x[1][::-1]] else {"what": "reverse", "input": inp, "observed": got}
    if f == "uniq":
        if x[0] != "a":
            return None if kind == "err" else {"what": "uniq accepted a non-array", "input": inp, "observed": got}
        kept = []
        for v in x[1]:
            if not any(veq(k, v) for k in kept):
                kept.append(v)
        return None if kind == "ok" and got == ["a", kept] else {"what": "uniq does not drop exactly the elements equal to an earlier kept one", "input": inp, "observed": got, "expected": kept}
    if f == "compact":
        if x[0] != "a" or (args and not all(v[0] == "o" for v in x[1])):
            return None if kind == "err" else {"what": "compact accepted bad input", "input": inp, "observed": got}
        want = [v for v in x[1] if (prop(v, show_value(args[0])) if args else v)[0] != "n"]
        return None if kind == "ok" and got == ["a", want] else {"what": "compact does not remove exactly the nils", "input": inp, "observed": got, "expected": want}
    if f == "concat":
        if x[0] != "a" or args[0][0] != "a":
            return None if kind == "err" else {"what": "concat accepted a non-array", "input": inp, "observed": got}
        return None if kind == "ok" and got == ["a", x[1] + args[0][1]] else {"what": "concat", "input": inp, "observed": got}
    if f == "map":
        if x[0] != "a":
            return None if kind == "err" else {"what": "map accepted a non-array", "input": inp, "observed": got}
        p = show_value(args[0])
        want = [dict(v[1])[p] for v in x[1] if v[0] == "o" and p in dict(v[1])]
        return None if kind == "ok" and got == ["a", want] else {"what": "map does not return exactly the properties of the objects that have it", "input": inp, "observed": got, "expected": want}
    if f == "where":
        p = show_value(args[0])
        if x[0] == "a" and not all(v[0] == "o" for v in x[1]):
            return None if kind == "ok" and got == NIL else {"what": "where on non-objects", "input": inp, "observed": got}
        if x[0] not in ("a", "o"):
            return None if kind == "err" else {"what": "where accepted a scalar", "input": inp, "observed": got}
        seq = x[1] if x[0] == "a" else [x]
        if len(args) > 1:
            want = [v for v in seq if p in dict(v[1]) and veq(args[1], dict(v[1])[p])]
        else:
            want = [v for v in seq if p in dict(v[1]) and not (dict(v[1])[p][0] == "n" or dict(v[1])[p] == ["b", False])]
        return None if kind == "ok" and got == ["a", want] else {"what": "where does not return exactly the matching objects, in order", "input": inp, "observed": got, "expected": want}
    if f in ("first", "last", "size", "join", "slice"):
        from props.c13 import ref, same, Skip
        try:
            want = ref(f, x, args)
        except Skip:
            return None
        if want[0] == "err":
            return None if kind == "err" else {"what": "%s accepted bad input" % f, "input": inp, "observed": got}
        return None if kind == "ok" and same(got, want[1]) else {"what": "%s disagrees with indexing" % f, "input": inp, "observed": got, "expected": want[1]}
    return None


def spec_global(cases, resps):
    out = []
    single = {}
    for c in cases:
        if len(c["chain"]) == 1 and c["chain"][0][0] in ("sort", "sort_natural") and not c["chain"][0][1]:
            r = resps.get(c["id"])
            if r and "ok" in r:
                single[(canon(c["x"]), c["chain"][0][0])] = r["ok"]
    for c in cases:
        if len(c["chain"]) == 2 and c["why"] == "idempotent":
            r = resps.get(c["id"])
            one = single.get((canon(c["x"]), c["chain"][0][0]))
            if r and "ok" in r and one is not None and r["ok"] != one:
                out.append({"what": "%s applied twice differs from once" % c["chain"][0][0], "input": {"input": c["x"]}, "observed": [one, r["ok"]]})
    return out


def nontrivial(c, resp):
    kind, got = observed(resp)
    return kind == "err" or (kind == "ok" and got != c["x"])
