(* C02 — Rendering is total: any template on any data yields output or an error.
   Statements only; proofs in proofs/SafeProofs.v (no panic site but 900/303/304), ValidProofs.v
   (everything written is valid UTF-8, hence not 303/304) and ValidFilters.v (filters keep text valid).

   Termination: [render_top] is a Gallina function — structural recursion on the template, on the
   item lists of loops and on the partial nesting depth — so for every template, data object,
   partial store and depth it returns an outcome: Done, a failure, or one of the explicit panic
   sites of the model (every `panic!`/`expect`/`unwrap`/arithmetic trap of the modelled Rust code
   is such a site).  The theorems below show which sites can be reached.

   PROVED (render_never_panics): for every well-formed template (a cycle tag has a value, as the
   parser guarantees) whose text, names and literals are valid characters, every data object of
   valid strings, every partial store of such templates, every nesting depth and every sink, the
   only panic site that can be reached is
     900  slice::sort_by on a comparator that is not a total preorder (the recorded known finding
          sort-incomparable; by C14.sort_by_unspecified_iff it is reached exactly on such inputs).
   In particular the two `String::from_utf8(..).expect` sites of capture / ifchanged (303, 304)
   are unreachable, because everything a render writes is the UTF-8 encoding of valid characters
   (render_output_is_utf8: what an unbounded sink received decodes, to valid text) — an invariant
   of the whole evaluation: of lookups, of every math / html / url / string / array filter and of
   the date filter, whose formatter writes ASCII or pieces of its format (ValidFilters.apply_filter_vv, ValidDate.strftime_sv), of loops, captures and partials.  "Valid character" is what a
   Rust `String` can hold, so these hypotheses are the type invariant of the inputs; the oracle
   tables (float printing, case mapping, grapheme segmentation) are assumed to return valid text
   (they are Rust strings observed from the implementation).
   render_never_panics_weaker is the same without any validity hypothesis, with 303/304 allowed.
   The `date` filter is inside the theorem: its formatter is the strftime interpreter of C17, its conversion of a
   text to a date-time is an oracle table (`dparse`; "now" / "today" read the clock and are not generated).
   Also inside: jekyll's push / pop / shift / unshift / array_to_sentence_string and shopify's pluralize (Filters_extra).
   Outside the theorem: jekyll's sort and slugify and extra's date_in_tz, which are explored on the implementation only; Rust-level panics below the
   model (allocation, stack depth). *)
From LV Require Import Base Value Stack Utf8 Filters_math Filters_html Filters_seq Eval StackProofs SafeProofs ValidProofs ValidFilters.

Theorem render_never_panics : forall O, oracle_valid O -> forall ps,
  (forall name, match ps name with Ok b => twf b /\ tvalid b | Panic _ => False | _ => True end) ->
  forall depth t data k, twf t -> tvalid t -> ov data = true ->
  match render_top O ps depth t data k with
  | (OPanicked n, _, _) => n = site_sort_unspecified
  | _ => True
  end.
Proof. exact ValidFilters.render_panic_free. Qed.
(* whatever a render emits is valid UTF-8 *)
Theorem render_output_is_utf8 : forall O, oracle_valid O -> forall ps,
  (forall name, match ps name with Ok b => twf b /\ tvalid b | Panic _ => False | _ => True end) ->
  forall depth t data, twf t -> tvalid t -> ov data = true ->
  match render_top O ps depth t data sink0 with
  | (_, _, k') => exists text, forallb valid_char text = true /\ acc k' = encode text /\ decode (acc k') = Some text
  end.
Proof. exact ValidFilters.render_output_utf8. Qed.
Theorem render_never_panics_weaker : forall O ps depth t data k,
  (forall name, match ps name with Ok b => twf b | Panic _ => False | _ => True end) -> twf t ->
  match render_top O ps depth t data k with
  | (OPanicked n, _, _) => n = site_sort_unspecified \/ n = 303%N \/ n = 304%N
  | _ => True
  end.
Proof. exact SafeProofs.render_top_no_panic. Qed.
(* every modelled filter returns valid text when given valid text *)
Theorem filters_keep_text_valid : forall O, oracle_valid O -> forall f v args r,
  vv v = true -> forallb vv args = true -> apply_filter O f v args = Ok r -> vv r = true.
Proof. exact ValidFilters.apply_filter_vv. Qed.
(* every construct keeps the invariant: a runtime with a global and a counter layer, and no panic *)
Theorem every_node_safe : forall O ps rec,
  (forall name, match ps name with Ok b => twf b | Panic _ => False | _ => True end) ->
  (forall l, twf l -> SF (rec l)) -> forall n, nwf n -> SF (rnode O ps rec n).
Proof. exact SafeProofs.SF_rnode. Qed.
(* a finite table of partial sources (valid, broken or absent) is such a store *)
Theorem table_store_ok : forall l, Forall (fun p => match snd p with Some b => twf b | None => True end) l ->
  forall name, match table_store l name with Ok b => twf b | Panic _ => False | _ => True end.
Proof. exact SafeProofs.table_store_ok. Qed.

(* filters: for every input and every argument list, of any type *)
Theorem math_filters_never_panic : forall O f v args, not_panic (math_filter O f v args) = true.
Proof. exact SafeProofs.math_filter_np. Qed.
Theorem html_filters_never_panic : forall O f v, not_panic (html_filter O f v) = true.
Proof. exact SafeProofs.html_filter_np. Qed.
Theorem string_array_filters_only_sort_site : forall O f v args,
  match seq_filter O f v args with Panic n => n = site_sort_unspecified | _ => True end.
Proof. exact SafeProofs.seq_filter_safe. Qed.
(* expressions and variable paths never panic (missing steps are errors) *)
Theorem expressions_never_panic : forall O e s, not_panic (eval_expr O e s) = true.
Proof. exact SafeProofs.eval_expr_np. Qed.
Theorem conditions_safe : forall O c s, match eval_cond O c s with Panic n => n = site_sort_unspecified | _ => True end.
Proof. exact SafeProofs.eval_cond_safe. Qed.
(* assignments and counters always find their layer *)
Theorem set_global_total : forall x v r, has_global r = true -> exists r', set_global x v r = Ok r'.
Proof. exact SafeProofs.set_global_safe. Qed.
Theorem set_index_total : forall x v r, has_index r = true -> exists r', set_index x v r = Ok r'.
Proof. exact SafeProofs.set_index_safe. Qed.
Theorem cycle_needs_a_value : forall name max g, max <> 0 -> match cycle_step name max g with Panic n => n = site_sort_unspecified | _ => True end.
Proof. exact SafeProofs.cycle_step_safe. Qed.

(* non-vacuity: a well-formed template using for, tablerow, cycle, capture, assign and a filter on
   a type-confused input renders to Done; a division by zero is a failure, not a panic *)
Example c02_nonvacuous :
  let x := [120%N] in let c := [99%N] in
  let one := ELit (VScalar (SInt 1)) in let three := ELit (VScalar (SInt 3)) in
  let t := [NFor x (RCounted one three) None None false
              [NCycle [] [ELit (VScalar (SStr [97%N])); ELit (VScalar (SStr [98%N]))];
               NCapture c [NOutput (EVar (SStr x) [], [(FM FTimes, [ELit (VScalar (SStr [50%N]))])])];
               NOutput (EVar (SStr c) [], [])] None;
            NTableRow x (RArray (ELit (VArray [VNil; VScalar (SBool true)]))) (Some one) None None [NText [46%N]]] in
  twf t /\
  (match render_top no_oracle_v (fun _ => Err EOther) 1 t [] sink0 with (o, _, _) => o = ODone end) /\
  (match render_top no_oracle_v (fun _ => Err EOther) 1 [NOutput (ELit (VScalar (SInt 1)), [(FM FDividedBy, [ELit (VScalar (SInt 0))])])] [] sink0
   with (o, _, _) => o = OFail EInvalidArgument end).
Proof.
  split; [|vm_compute; split; reflexivity].
  repeat (constructor; try discriminate).
Qed.
(* the validity hypotheses are satisfiable: the same template and the oracle without tables *)
Example c02_hypotheses_nonvacuous :
  oracle_valid no_oracle_v /\
  tvalid [NFor [120%N] (RCounted (ELit (VScalar (SInt 1))) (ELit (VScalar (SInt 3)))) None None false
            [NCycle [] [ELit (VScalar (SStr [97%N])); ELit (VScalar (SStr [233%N]))];
             NCapture [99%N] [NOutput (EVar (SStr [120%N]) [], [(FS QUpcase, [])])]] None].
Proof.
  split.
  - split; [|split; [|split]].
    + intro f. reflexivity.
    + intros c H. cbn. unfold sv. cbn [forallb]. rewrite H. reflexivity.
    + intros c H. cbn. unfold sv. cbn [forallb]. rewrite H. reflexivity.
    + intros s H. cbn. unfold sv in *. induction s as [|c t IH]; [reflexivity|]. cbn [forallb map] in *.
      apply andb_true_iff in H as [H1 H2]. rewrite H1, IH by exact H2. reflexivity.
  - repeat (constructor; try reflexivity).
Qed.

Print Assumptions render_never_panics.
Print Assumptions render_output_is_utf8.
Print Assumptions render_never_panics_weaker.
Print Assumptions filters_keep_text_valid.
Print Assumptions every_node_safe.
Print Assumptions table_store_ok.
Print Assumptions math_filters_never_panic.
Print Assumptions html_filters_never_panic.
Print Assumptions string_array_filters_only_sort_site.
Print Assumptions expressions_never_panic.
Print Assumptions conditions_safe.
Print Assumptions set_global_total.
Print Assumptions set_index_total.
Print Assumptions cycle_needs_a_value.
