#!/bin/bash
# store_seed.sh <Cnn> <short-name> [caught-by note] — copy a confirmed seed from /tmp/seed-<Cnn> to /verif/seeded and drop the worktree
P=$1; N=$2; NOTE=$3
d=/verif/seeded/$P-$N; mkdir -p $d
cp /tmp/seed-$P/patch.diff /tmp/seed-$P/demo.rs $d/
python3 - <<PY
import json,re
m=json.load(open('/tmp/seed-$P/meta.json'))
log=open('/tmp/seed-$P/confirm.log').read()
m['confirmed_by_me']={'patch_applies_to_clean_tree':'PATCH_APPLIES=yes' in log,
  'full_suite_with_change':(re.findall(r'Summary.*',log) or ['?'])[0].strip(),
  'demo_results':re.findall(r'test result.*',log),'what_i_ran':'tools/confirm_seed.sh (git apply on a clean scratch worktree; cargo nextest run --workspace; demo with the change; demo with the change stashed)'}
m['checks_result']="$NOTE"
json.dump(m,open('$d/meta.json','w'),indent=1)
PY
git -C /repo worktree remove --force /tmp/wt-$P 2>/dev/null; rm -rf /tmp/seed-$P
echo stored $d
