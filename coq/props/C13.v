(* C13 — String filters compute their documented function on every string.
   Statements only; proofs in proofs/SeqProofs.v.  Strings are lists of Unicode scalar
   values, so every length and cut below is in characters, never bytes. *)
From LV Require Import Base Value Filters_seq SeqProofs.

(* the laws of Rust's split / join / replace / trim as modelled (for every string) *)
Theorem split_join_id : forall sep s, sep <> [] -> join_str sep (split_str sep s) = s.
Proof. exact SeqProofs.split_join_id. Qed.
Theorem replace_via_split : forall a b s, a <> [] -> replace_str a b s = join_str b (split_str a s).
Proof. exact SeqProofs.replace_via_split. Qed.
Theorem strip_is_lstrip_rstrip : forall s, trim s = trim_start (trim_end s).
Proof. exact SeqProofs.strip_is_lstrip_rstrip. Qed.
Theorem lstrip_suffix : forall s, exists w, s = w ++ trim_start s /\ forallb is_whitespace w = true /\
  (match trim_start s with c :: _ => is_whitespace c = false | [] => True end).
Proof. exact SeqProofs.lstrip_suffix. Qed.
Theorem slice_contiguous : forall (A : Type) off len (l : list A), (1 <= len)%Z ->
  exists pre post, l = pre ++ slice_list off len l ++ post /\ (Z.of_nat (length (slice_list off len l)) <= len)%Z.
Proof. exact @SeqProofs.slice_contiguous. Qed.
Theorem slice_spec : forall (A : Type) off len (l : list A), (1 <= len)%Z -> (len <= i64_max)%Z ->
  let n := Z.of_nat (length l) in
  slice_list off len l =
    if (n <? off)%Z then []
    else if (0 <=? off)%Z then firstn (Z.to_nat len) (skipn (Z.to_nat off) l)
    else if (- n <=? off)%Z then firstn (Z.to_nat len) (skipn (Z.to_nat (n + off)) l)
    else [].
Proof. exact @SeqProofs.slice_spec. Qed.

Section C13.
Variable O : oracle.
Notation sf := (seq_filter O).

(* the filters, on every string *)
Theorem size_counts_chars : forall s, sf QSize (sstr s) [] = Ok (vint (Z.of_nat (length s))).
Proof. exact (SeqProofs.size_counts_chars O). Qed.
Theorem append_spec : forall s a, sf QAppend (sstr s) [sstr a] = Ok (sstr (s ++ a)).
Proof. exact (SeqProofs.append_spec O). Qed.
Theorem prepend_spec : forall s a, sf QPrepend (sstr s) [sstr a] = Ok (sstr (a ++ s)).
Proof. exact (SeqProofs.prepend_spec O). Qed.
Theorem remove_is_replace_nil : forall s a, sf QRemove (sstr s) [sstr a] = sf QReplace (sstr s) [sstr a; sstr []].
Proof. exact (SeqProofs.remove_is_replace_nil O). Qed.
Theorem replace_filter_via_split : forall s a b, a <> [] ->
  sf QReplace (sstr s) [sstr a; sstr b] = Ok (sstr (join_str b (split_str a s))).
Proof. exact (SeqProofs.replace_filter_via_split O). Qed.
Theorem replace_first_spec : forall s a b, sf QReplaceFirst (sstr s) [sstr a; sstr b] =
  Ok (sstr (match find_first a s [] with Some (x, y) => x ++ b ++ y | None => s end)).
Proof. exact (SeqProofs.replace_first_spec O). Qed.
Theorem split_join_filters : forall s sep, sep <> [] -> s <> [] ->
  eval_chain O (sstr s) [(QSplit, [sstr sep]); (QJoin, [sstr sep])] = Ok (sstr s).
Proof. exact (SeqProofs.split_join_filters O). Qed.
Theorem strip_filters : forall s, sf QStrip (sstr s) [] = Ok (sstr (trim_start (trim_end s))) /\
  eval_chain O (sstr s) [(QRstrip, []); (QLstrip, [])] = sf QStrip (sstr s) [].
Proof. exact (SeqProofs.strip_filters O). Qed.
Theorem strip_newlines_spec : forall s, sf QStripNewlines (sstr s) [] = Ok (sstr (filter (fun c => negb (N.eqb c 10 || N.eqb c 13)) s)).
Proof. exact (SeqProofs.strip_newlines_spec O). Qed.
Theorem newline_to_br_spec : forall s,
  sf QNewlineToBr (sstr s) [] = Ok (sstr (replace_str [10%N] k_br s)) /\
  replace_str [10%N] k_br s = join_str k_br (split_str [10%N] s).
Proof. exact (SeqProofs.newline_to_br_spec O). Qed.
Theorem case_filters_map_the_oracle : forall s,
  sf QUpcase (sstr s) [] = Ok (sstr (flat_map (upper_c O) s)) /\ sf QDowncase (sstr s) [] = Ok (sstr (flat_map (lower_c O) s)) /\
  sf QCapitalize (sstr s) [] = Ok (sstr (match s with [] => [] | c :: t => upper_c O c ++ t end)).
Proof. exact (SeqProofs.case_filters_map_the_oracle O). Qed.
Theorem first_last_char : forall s, sf QFirst (sstr s) [] = Ok (sstr (firstn 1 s)) /\
  sf QLast (sstr s) [] = Ok (sstr (match rev s with c :: _ => [c] | [] => [] end)).
Proof. exact (SeqProofs.first_last_char O). Qed.
Theorem default_spec : forall v d, sf QDefault v [d] = Ok (if query_state v DefaultValue then d else v).
Proof. exact (SeqProofs.default_spec O). Qed.
Theorem slice_filter_contiguous : forall s off len, (1 <= len)%Z ->
  exists pre piece post, sf QSlice (sstr s) [vint off; vint len] = Ok (sstr piece) /\ s = pre ++ piece ++ post /\
                         (Z.of_nat (length piece) <= len)%Z.
Proof. exact (SeqProofs.slice_filter_contiguous O). Qed.
Theorem slice_nonpositive_length_is_error : forall s off len, (len < 1)%Z -> sf QSlice (sstr s) [vint off; vint len] = Err EInvalidArgument.
Proof. exact (SeqProofs.slice_nonpositive_length_is_error O). Qed.
Theorem truncate_spec : forall s n e, (0 <= n)%Z ->
  sf QTruncate (sstr s) [vint n; sstr e] =
    if (n <? Z.of_nat (length s))%Z then Ok (sstr (concat (firstn (Z.to_nat n - length e) (graphemes O s)) ++ e))
    else Ok (sstr s).
Proof. exact (SeqProofs.truncate_spec O). Qed.
Theorem truncate_bound : forall s n e, (0 <= n)%Z -> graphemes O s = map (fun c => [c]) s ->
  exists r, sf QTruncate (sstr s) [vint n; sstr e] = Ok (sstr r) /\ length r <= Nat.max (Z.to_nat n) (length e) \/
            (exists r, sf QTruncate (sstr s) [vint n; sstr e] = Ok (sstr r) /\ r = s /\ (Z.of_nat (length s) <= n)%Z).
Proof. exact (SeqProofs.truncate_bound O). Qed.
Theorem truncatewords_spec : forall s n e, (0 <= n)%Z ->
  sf QTruncateWords (sstr s) [vint n; sstr e] =
    let wl := split_str [32%N] s in
    if (n <? Z.of_nat (length wl))%Z then Ok (sstr (join_str [32%N] (firstn (Z.to_nat n) wl) ++ e)) else Ok (sstr s).
Proof. exact (SeqProofs.truncatewords_spec O). Qed.
(* the result of a filter chain is the left-to-right composition of its filters *)
Theorem chain_is_fold : forall v fs gs, eval_chain O v (fs ++ gs) = bind (eval_chain O v fs) (fun r => eval_chain O r gs).
Proof. exact (SeqProofs.chain_is_fold O). Qed.
End C13.

(* non-vacuity: a non-ASCII string (e-acute, a, emoji) with a multi-character separator *)
Example c13_nonvacuous :
  let s := [233; 97; 44; 32; 128512; 44; 32]%N in let sep := [44; 32]%N in
  split_str sep s = [[233; 97]; [128512]; []]%N /\ join_str sep (split_str sep s) = s /\
  seq_filter no_oracle_v QSize (sstr s) [] = Ok (vint 7) /\
  seq_filter no_oracle_v QSlice (sstr s) [vint (-3); vint 2] = Ok (sstr [128512; 44]%N).
Proof. vm_compute. repeat split; reflexivity. Qed.

Print Assumptions split_join_id.
Print Assumptions replace_via_split.
Print Assumptions strip_is_lstrip_rstrip.
Print Assumptions lstrip_suffix.
Print Assumptions slice_contiguous.
Print Assumptions slice_spec.
Print Assumptions size_counts_chars.
Print Assumptions append_spec.
Print Assumptions prepend_spec.
Print Assumptions remove_is_replace_nil.
Print Assumptions replace_filter_via_split.
Print Assumptions replace_first_spec.
Print Assumptions split_join_filters.
Print Assumptions strip_filters.
Print Assumptions strip_newlines_spec.
Print Assumptions case_filters_map_the_oracle.
Print Assumptions first_last_char.
Print Assumptions default_spec.
Print Assumptions slice_filter_contiguous.
Print Assumptions slice_nonpositive_length_is_error.
Print Assumptions truncate_spec.
Print Assumptions truncate_bound.
Print Assumptions truncatewords_spec.
Print Assumptions chain_is_fold.
Print Assumptions newline_to_br_spec.
