(* Correspondence checker for C18: a trace of scope operations executed on the real
   runtime types, with the answers observed after every step. *)
From LV Require Import Corr Stack.

Record obs := mkObs {
  o_try : list (option value);        (* try_get per probe path *)
  o_get : list (option value);        (* get per probe path: Some v = Ok v, None = Err *)
  o_roots : list str;
  o_idx : list (option value);        (* get_index per probe name *)
}.
Record c18case := mkCase {
  c_data : obj;                       (* globals handed to RuntimeBuilder *)
  c_probes : list (list scalar);
  c_names : list str;
  c_ops : list op;
  c_obs : list obs;                   (* observed: initially and after each op *)
}.

Definition observe (c : c18case) (r : rt) : option obs :=
  let gets := map (fun p => get no_oracle p r) (c_probes c) in
  if forallb not_panic gets then
    Some (mkObs (map (fun p => try_get no_oracle p r) (c_probes c))
                (map (fun g => match g with Ok v => Some v | _ => None end) gets)
                (roots r)
                (map (fun k => get_index k r) (c_names c)))
  else None.
Definition obs_same (a b : obs) : bool :=
  list_same (opt_same value_same) (o_try a) (o_try b) &&
  list_same (opt_same value_same) (o_get a) (o_get b) &&
  set_same (o_roots a) (o_roots b) &&
  list_same (opt_same value_same) (o_idx a) (o_idx b).

Fixpoint check_steps (c : c18case) (s : rt * nat) (ops : list op) (expected : list obs) : bool :=
  match expected with
  | [] => false
  | e :: rest =>
      match observe c (fst s) with
      | None => false
      | Some o =>
          obs_same o e &&
          match ops with
          | [] => is_nil_l rest
          | o1 :: ops' => match step s o1 with Ok s' => check_steps c s' ops' rest | _ => false end
          end
      end
  end.
Definition c18_check (c : c18case) : bool :=
  check_steps c (runtime_build (c_data c), 0) (c_ops c) (c_obs c).
