//! JSON <-> liquid Value (lossless: integers as strings, floats as bit patterns)
use liquid_core::model::{DateTime, Date, Object, Scalar, State, Value, ValueView, ArrayView, ObjectView};
use serde_json::{json, Value as J};

pub fn from_json(j: &J) -> Value {
    let a = j.as_array().expect("value must be an array");
    let tag = a[0].as_str().expect("tag");
    match tag {
        "n" => Value::Nil,
        "i" => Value::scalar(a[1].as_str().unwrap().parse::<i64>().unwrap()),
        "f" => Value::scalar(f64::from_bits(a[1].as_str().unwrap().parse::<u64>().unwrap())),
        "b" => Value::scalar(a[1].as_bool().unwrap()),
        "s" => Value::scalar(a[1].as_str().unwrap().to_owned()),
        "a" => Value::Array(a[1].as_array().unwrap().iter().map(from_json).collect()),
        "o" => Value::Object(obj_from_json(&a[1])),
        "st" => Value::State(match a[1].as_str().unwrap() {
            "Truthy" => State::Truthy,
            "DefaultValue" => State::DefaultValue,
            "Empty" => State::Empty,
            "Blank" => State::Blank,
            _ => panic!("state"),
        }),
        "dt" => {
            // textual form accepted by DateTime::from_str
            Value::scalar(DateTime::from_str(a[1].as_str().unwrap()).expect("datetime"))
        }
        "dtc" => {
            // components [y, mo, d, h, mi, s, ns, offset_seconds]: built without the date parser
            let n = |i: usize| a[i].as_i64().expect("component");
            let date = time::Date::from_calendar_date(n(1) as i32, time::Month::try_from(n(2) as u8).expect("month"), n(3) as u8).expect("date");
            let t = date.with_hms_nano(n(4) as u8, n(5) as u8, n(6) as u8, n(7) as u32).expect("time");
            let off = time::UtcOffset::from_whole_seconds(n(8) as i32).expect("offset");
            let mut d = DateTime::default();
            *d = t.assume_offset(off);
            Value::scalar(d)
        }
        "d" => Value::scalar(Date::from_str(a[1].as_str().unwrap()).expect("date")),
        _ => panic!("unknown tag {}", tag),
    }
}

pub fn obj_from_json(j: &J) -> Object {
    let mut o = Object::new();
    for kv in j.as_array().expect("object entries") {
        let kv = kv.as_array().unwrap();
        o.insert(kv[0].as_str().unwrap().to_owned().into(), from_json(&kv[1]));
    }
    o
}

pub fn scalar_to_json(s: &Scalar) -> J {
    // Scalar has no public enum; discriminate via type_name
    match s.type_name() {
        "whole number" => json!(["i", s.to_integer().unwrap().to_string()]),
        "fractional number" => json!(["f", s.to_float().unwrap().to_bits().to_string()]),
        "boolean" => json!(["b", s.to_bool().unwrap()]),
        "date time" => {
            let d = s.to_date_time().unwrap();
            json!(["dt", d.to_string(), d.year(), d.month() as u8, d.day(), d.hour(), d.minute(), d.second(),
                   d.nanosecond(), d.offset().whole_seconds()])
        }
        "date" => {
            let d = s.to_date().unwrap();
            json!(["d", d.to_string(), d.year(), d.month() as u8, d.day()])
        }
        "string" => json!(["s", s.to_kstr().as_str()]),
        t => panic!("scalar type {}", t),
    }
}

/// structural dump through the view traits (objects in the iteration order exhibited)
pub fn view_to_json(v: &dyn ValueView) -> J {
    if let Some(s) = v.as_scalar() {
        scalar_to_json(&s.into_owned())
    } else if let Some(a) = v.as_array() {
        json!(["a", a.values().map(view_to_json).collect::<Vec<_>>()])
    } else if let Some(o) = v.as_object() {
        json!(["o", o.iter().map(|(k, x)| json!([k.as_str(), view_to_json(x)])).collect::<Vec<_>>()])
    } else if let Some(st) = v.as_state() {
        json!(["st", format!("{:?}", st)])
    } else if v.is_nil() {
        json!(["n"])
    } else {
        json!(["?", v.type_name()])
    }
}
