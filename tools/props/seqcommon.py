"""shared by C13 and C14: requests, oracle tables and case terms for filter chains over the string/array filters"""
import json, struct
from lv import C, R, S, P, Opt, val_ir, float_ir

CTOR = {"append": "QAppend", "prepend": "QPrepend", "upcase": "QUpcase", "downcase": "QDowncase", "capitalize": "QCapitalize",
        "strip": "QStrip", "lstrip": "QLstrip", "rstrip": "QRstrip", "strip_newlines": "QStripNewlines", "replace": "QReplace",
        "replace_first": "QReplaceFirst", "remove": "QRemove", "remove_first": "QRemoveFirst", "split": "QSplit", "join": "QJoin",
        "truncate": "QTruncate", "truncatewords": "QTruncateWords", "slice": "QSlice", "size": "QSize", "first": "QFirst", "last": "QLast",
        "newline_to_br": "QNewlineToBr", "default": "QDefault", "reverse": "QReverse", "uniq": "QUniq", "compact": "QCompact",
        "concat": "QConcat", "map": "QMap", "where": "QWhere", "sort": "QSort", "sort_natural": "QSortNatural"}

ORACLE = {"chars": {}, "graphemes": {}, "show": {}}


def bits_f(b):
    return struct.unpack("<d", struct.pack("<Q", int(b)))[0]


def walk_strings(v, out):
    if v[0] == "s":
        out.append(v[1])
    elif v[0] == "a":
        for x in v[1]:
            walk_strings(x, out)
    elif v[0] == "o":
        for k, x in v[1]:
            out.append(k)
            walk_strings(x, out)


def walk_floats(v, out):
    if v[0] == "f":
        out.append(v[1])
    elif v[0] == "a":
        for x in v[1]:
            walk_floats(x, out)
    elif v[0] == "o":
        for _, x in v[1]:
            walk_floats(x, out)


def case_values(c):
    vs = [c["x"]]
    for f, args in c["chain"]:
        vs.extend(args)
    return vs


BASE_CHARS = "truefalse0123456789-.<br />"


def prepare(cases, run):
    chars, graphs, shows = set(BASE_CHARS), set(), set()
    for c in cases:
        ss, fs = [], []
        for v in case_values(c):
            walk_strings(v, ss)
            walk_floats(v, fs)
        for s in ss:
            chars.update(s)
        shows.update(fs)
        if c["chain"] and c["chain"][0][0] == "truncate":
            graphs.add(None)     # placeholder: filled below once floats can be shown
    shows = sorted(shows - set(ORACLE["show"]))
    if shows:
        r = run([{"id": 0, "kind": "oracle", "chars": "", "graphemes": [], "show": shows, "parse": []}])[0]
        for b, s in zip(shows, r["show"]):
            ORACLE["show"][b] = s
            chars.update(s)
    graphs = {show_value(c["x"]) for c in cases if c["chain"] and c["chain"][0][0] == "truncate"}
    graphs = sorted(graphs - set(ORACLE["graphemes"]))
    # close the character set under upper/lower casing (a chain can feed one into the other)
    todo = chars - set(ORACLE["chars"])
    while todo or graphs:
        r = run([{"id": 0, "kind": "oracle", "chars": "".join(sorted(todo)), "graphemes": graphs, "show": [], "parse": []}])[0]
        new = set()
        for c, u, l in r["chars"]:
            ORACLE["chars"][c] = (u, l)
            new.update(u)
            new.update(l)
        for s, g in zip(graphs, r["graphemes"]):
            ORACLE["graphemes"][s] = g
        graphs = []
        todo = new - set(ORACLE["chars"])


def closure(chars):
    out = set(chars)
    todo = set(chars)
    while todo:
        ch = todo.pop()
        u, l = ORACLE["chars"].get(ch, (ch, ch))
        for x in u + l:
            if x not in out:
                out.add(x)
                todo.add(x)
    return out


def request(c):
    data = [["x", c["x"]]]
    parts = []
    n = 0
    for f, args in c["chain"]:
        names = []
        for a in args:
            nm = "a%d" % n
            n += 1
            data.append([nm, a])
            names.append(nm)
        parts.append(f + ((": " + ", ".join(names)) if names else ""))
    tpl = "{{ x | " + " | ".join(parts) + " | lv_dump }}"
    return {"id": c["id"], "kind": "render", "tpl": tpl, "data": data}


def observed(resp):
    if "ok" in resp:
        return ("ok", json.loads(resp["ok"]))
    if "panic" in resp:
        return ("panic", resp["panic"])
    return ("err", resp.get("err") or resp.get("parse_err"))


def case_ir(c, resp):
    kind, v = observed(resp)
    exp = C("OOk", val_ir(v)) if kind == "ok" else C("OErr") if kind == "err" else C("OPanic")
    ss, fs = [], []
    for x in case_values(c):
        walk_strings(x, ss)
        walk_floats(x, fs)
    extra = "".join(show_value(x) for x in case_values(c) if x[0] != "s")
    casing = any(f in ("upcase", "downcase", "capitalize", "sort_natural") for f, _ in c["chain"])
    chars = sorted(closure(set("".join(ss) + extra + ("<br />" if casing else "")))) if casing else []
    ups = [P(("n", ord(ch)), S(ORACLE["chars"][ch][0])) for ch in chars if ORACLE["chars"][ch][0] != ch]
    los = [P(("n", ord(ch)), S(ORACLE["chars"][ch][1])) for ch in chars if ORACLE["chars"][ch][1] != ch]
    graphs = [P(S(s), [S(g) for g in ORACLE["graphemes"][s]]) for s in sorted(set(ss)) if s in ORACLE["graphemes"] and ORACLE["graphemes"][s] != list(s)]
    shows = [P(float_ir(b), S(ORACLE["show"][b])) for b in sorted(set(fs))]
    chain = [P(C(CTOR[f]), [val_ir(a) for a in args]) for f, args in c["chain"]]
    return R("mkSeq", val_ir(c["x"]), chain, shows, ups, los, graphs, exp)


def show_value(v):
    """to_kstr / render of a value, as the documentation describes it (used by the references)"""
    t = v[0]
    if t == "s":
        return v[1]
    if t == "i":
        return v[1]
    if t == "b":
        return "true" if v[1] else "false"
    if t == "n" or t == "st":
        return ""
    if t == "f":
        return ORACLE["show"].get(v[1], "?")
    if t == "a":
        return "".join(show_value(x) for x in v[1])
    if t == "o":
        return "".join("%s%s" % (k, show_value(x)) for k, x in v[1])
    return "?"
