"""C06 — conditionals render exactly one branch, chosen by Liquid truth and comparison."""
import itertools, random
from props import tpl, vmodel
from props.tpl import lit, var, I, Sx, request, observed, prepare_floats

PROP = "C06"
TARGETS = ["props/C06.vo", "corr/Rendercorr.vo", "corr/Condcorr.vo"]
HEADER = "From LV Require Import Corr Eval Rendercorr.\n"
CHECKER = "render_check"
MODEL_HANDLES_PANIC = True
TRUSTED = [
    "model/Eval.v transcribes stdlib/blocks/if_block.rs (Condition, BinaryCondition, ExistenceCondition, contains_check, Conditional, elsif nesting), case_block.rs; model/Value.v the value model they use",
    "templates reach the model as the tree the parser builds (tools/props/tpl.py prints the tree as source and as a model term): the precedence of `and`/`or` in parse_condition is inside the loop being compared",
]
RULE = ("every operator x every ordered pair of the value pool, as literals and through variables; if/elsif chains of 1..4 arms and case/when with 1..4 arms (comma and `or` lists, duplicate arms) under all truth assignments; "
        "and/or chains up to 4 and the `or ... and` shapes; each branch prints a distinct marker; non-trivial = some condition or arm is taken; "
        "the condition parser: every token sequence of length <= 2 (a quarter of length 3 in quick) over 20 tokens (names, literals, `and`/`or`/`contains` which are also names, operators, junk), sampled sequences of length 4-5, "
        "well-formed or-of-ands with 1..4 groups of 1..3 atoms, each under 8 truth assignments (and with `and`/`or`/`contains` defined as variables)")

F = lambda x: ["f", str(__import__("struct").unpack("<Q", __import__("struct").pack("<d", x))[0])]
LITS = [["n"], ["b", True], ["b", False], ["i", "0"], ["i", "1"], ["i", "-1"], ["i", "2"], F(1.0), F(2.5), ["s", ""], ["s", " "], ["s", "1"],
        ["s", "a"], ["s", "abc"], ["s", "true"], ["s", "b c"], ["st", "Empty"], ["st", "Blank"]]
ONLYVAR = [["a", []], ["a", [["i", "1"]]], ["a", [["i", "1"], ["i", "2"]]], ["a", [["s", "a"]]], ["a", [["n"]]], ["o", []], ["o", [["a", ["i", "1"]]]],
           ["o", [["1", ["i", "1"]], ["b", ["n"]]]], F(float("nan"))]
WS_STRINGS = ["\t", "\n", " \t\n", "\r\n ", "\x0b\x0c", "\u00a0", "\u2003 ", "\u3000", "\x85", "\u1680\u2000\u200a", "\u2028\u2029", "\u202f\u205f", "\u200b", " x ", "\t.", "\ufeff", "    "]
OPS = ["==", "!=", "<>", "<", ">", "<=", ">=", "contains"]


def prepare(cases, run):
    prepare_floats(cases, run)


def gen(tier, seed):
    rnd = random.Random(seed)
    cases = []
    pool = LITS + ONLYVAR
    data = [["v%d" % i, v] for i, v in enumerate(pool) if v[0] != "st"]
    name = {i: "v%d" % i for i, v in enumerate(pool) if v[0] != "st"}

    def add(t, expect, why, d=data):
        cases.append({"tpl": t, "data": d, "expect": expect, "why": why})

    def forms(i):
        v = pool[i]
        fs = []
        if i in name:
            fs.append(var(name[i]))
        if i < len(LITS):
            fs.append(lit(v))
        return fs
    for i, a in enumerate(pool):
        for j, b in enumerate(pool):
            for op in OPS:
                exp = ("compare", op, a, b)      # evaluated in spec_check, once the float Display table is known
                for fa in forms(i):
                    for fb in forms(j):
                        if tier == "quick" and fa[0] == "lit" and fb[0] == "lit" and rnd.random() < 0.5:
                            continue
                        t = [("if", True, ("bin", fa, op, fb), [("text", "T")], [("text", "F")])]
                        add(t, exp, "operator")
        for fa in forms(i):
            add([("if", True, ("ex", fa), [("text", "T")], [("text", "F")])], "T" if vmodel.truthy(a) else "F", "truth")
            add([("if", False, ("ex", fa), [("text", "T")], [("text", "F")])], "F" if vmodel.truthy(a) else "T", "unless")
            add([("if", False, ("ex", fa), [("text", "T")], None)], "" if vmodel.truthy(a) else "T", "unless")
    # blank / empty / default answers of strings made of every kind of whitespace (and near misses), against the state literals and the other falsy-looking values
    for k, sx in enumerate(WS_STRINGS):
        a = ["s", sx]
        d = [["w", a], ["e", ["s", ""]], ["arr", ["a", []]], ["obj", ["o", []]]]
        others = [(lit(["st", "Blank"]), ["st", "Blank"]), (lit(["st", "Empty"]), ["st", "Empty"]), (lit(["n"]), ["n"]), (var("e"), ["s", ""]), (lit(["s", " "]), ["s", " "]), (lit(["b", False]), ["b", False]),
                  (var("arr"), ["a", []]), (var("obj"), ["o", []])]
        fas = [var("w")] + ([lit(a)] if "\n" not in sx and "\r" not in sx and "\u2028" not in sx and "\u2029" not in sx and "\x85" not in sx and "\x0b" not in sx and "\x0c" not in sx else [])
        for fa in fas:
            for fb, b in others:
                for op in ("==", "!=", "<>", "contains"):
                    add([("if", True, ("bin", fa, op, fb), [("text", "T")], [("text", "F")])], ("compare", op, a, b), "whitespace strings vs states", d)
                    add([("if", True, ("bin", fb, op, fa), [("text", "T")], [("text", "F")])], ("compare", op, b, a), "whitespace strings vs states", d)
            add([("if", True, ("ex", fa), [("text", "T")], [("text", "F")])], "T", "whitespace strings vs states", d)
        arms = [([lit(["st", "Blank"])], [("text", "WB")]), ([lit(["st", "Empty"])], [("text", "WE")])]
        add([("case", var("w"), arms, [("text", "E")])], "WB" if vmodel.veq(["st", "Blank"], a) else "WE" if vmodel.veq(["st", "Empty"], a) else "E", "whitespace strings vs states", d)
        add([("capture", "cw", [("text", sx)]), ("if", True, ("bin", var("cw"), "==", lit(["st", "Blank"])), [("text", "T")], [("text", "F")])], ("compare", "==", a, ["st", "Blank"]), "whitespace strings vs states", d)
    # undefined names: bare test is false, comparison is an error
    add([("if", True, ("ex", var("undefined_name")), [("text", "T")], [("text", "F")])], "F", "undefined")
    add([("if", True, ("ex", var("v3", "nope")), [("text", "T")], [("text", "F")])], "F", "undefined")
    add([("if", True, ("bin", var("undefined_name"), "==", I(1)), [("text", "T")], [("text", "F")])], ("err",), "undefined")
    add([("if", True, ("or", ("ex", var("v1")), ("bin", var("undefined_name"), "==", I(1))), [("text", "T")], [("text", "F")])], "T", "short-circuit")
    add([("if", True, ("and", ("ex", var("v2")), ("bin", var("undefined_name"), "==", I(1))), [("text", "T")], [("text", "F")])], "F", "short-circuit")
    # if / elsif chains under all truth assignments (conditions are variables c1..c4)
    for n in range(1, 5):
        for bits in itertools.product([False, True], repeat=n):
            for has_else in (False, True):
                d = [["c%d" % (i + 1), ["b", b]] for i, b in enumerate(bits)]
                node = [("text", "E")] if has_else else None
                for i in range(n - 1, 0, -1):
                    node = [tpl.elsif(("ex", var("c%d" % (i + 1))), [("text", "B%d" % (i + 1))], node)]
                t = [("text", "<"), ("if", True, ("ex", var("c1")), [("text", "B1")], node), ("text", ">")]
                first = next((i for i, b in enumerate(bits) if b), None)
                exp = "<" + ("B%d" % (first + 1) if first is not None else ("E" if has_else else "")) + ">"
                add(t, exp, "chain", d)
    # and / or chains and the grouping  x or y and z  =  x or (y and z)
    for n in range(2, 5):
        for ops in itertools.product(["and", "or"], repeat=n - 1):
            for bits in itertools.product([False, True], repeat=n):
                d = [["c%d" % (i + 1), ["b", b]] for i, b in enumerate(bits)]
                # the parser's grouping: split on `or`, each part is a conjunction
                groups, cur = [], [0]
                for i, o in enumerate(ops):
                    if o == "or":
                        groups.append(cur)
                        cur = [i + 1]
                    else:
                        cur.append(i + 1)
                groups.append(cur)
                val = any(all(bits[i] for i in g) for g in groups)

                def conj(g):
                    c = ("ex", var("c%d" % (g[0] + 1)))
                    for i in g[1:]:
                        c = ("and", c, ("ex", var("c%d" % (i + 1))))
                    return c
                c = conj(groups[0])
                for g in groups[1:]:
                    c = ("or", c, conj(g))
                add([("if", True, c, [("text", "T")], [("text", "F")])], "T" if val else "F", "and-or", d)
    # case / when
    targets = [["i", "1"], ["i", "2"], ["s", "a"], ["s", "1"], ["n"], ["b", True], F(1.0), ["s", ""]]
    whenpool = [["i", "1"], ["i", "2"], ["s", "a"], ["s", "1"], ["n"], ["b", True], F(1.0), ["st", "Empty"]]
    for tv in targets:
        for n in range(1, 5):
            for _ in range(12 if tier == "quick" else 60):
                arms = []
                for i in range(n):
                    vals = [rnd.choice(whenpool) for _ in range(rnd.randint(1, 3))]
                    arms.append(([lit(v) for v in vals], [("text", "W%d" % (i + 1))]))
                has_else = rnd.random() < 0.5
                first = next((i for i, (vals, _) in enumerate(arms) if any(vmodel.veq(v[1], tv) for v in vals)), None)
                exp = "W%d" % (first + 1) if first is not None else ("E" if has_else else "")
                t = [("case", var("t"), arms, [("text", "E")] if has_else else None)]
                add(t, exp, "case", [["t", tv]])
    # random nesting
    nrand = 200 if tier == "quick" else 4000
    for _ in range(nrand):
        a, b, c2 = rnd.random() < 0.5, rnd.random() < 0.5, rnd.random() < 0.5
        d = [["a", ["b", a]], ["b", ["b", b]], ["c", ["b", c2]]]
        inner = ("if", True, ("or", ("ex", var("b")), ("and", ("ex", var("c")), ("ex", var("a")))), [("text", "i1")], [("text", "i0")])
        t = [("if", False, ("ex", var("a")), [inner], [("case", var("b"), [([lit(["b", True])], [("text", "ct")])], [("text", "ce")])])]
        exp = ("ct" if b else "ce") if a else ("i1" if (b or (c2 and a)) else "i0")
        add(t, exp, "nested", d)
    for i, c in enumerate(cases):
        c["id"] = i
    dist = {"exhaustive": True, "pool": len(pool)}
    for c in cases:
        dist[c["why"]] = dist.get(c["why"], 0) + 1
    return cases, dist


def case_ir(c, resp):
    return tpl.case_ir(c, resp)


def spec_check(c, resp):
    cls, acc = observed(resp)
    inp = {"template": tpl.body_text(c["tpl"]), "data": [d for d in c["data"] if d[0] in tpl.body_text(c["tpl"])]}
    if cls == 2:
        return {"what": "render panicked", "input": inp, "observed": resp.get("panic")}
    if isinstance(c["expect"], tuple) and c["expect"][0] == "compare":
        try:
            c = dict(c, expect="T" if vmodel.compare(*c["expect"][1:]) else "F")
        except vmodel.Error:
            c = dict(c, expect=("err",))
    if c["expect"] == ("err",):
        return None if cls == 1 else {"what": "a comparison that cannot be evaluated did not fail", "input": inp, "observed": acc}
    if cls != 0 or acc != c["expect"]:
        return {"what": "wrong branch (%s)" % c["why"], "input": inp, "observed": acc if cls == 0 else resp, "expected": c["expect"]}
    return None


def nontrivial(c, resp):
    return observed(resp)[1] not in ("F", "", None)


# ---------------------------------------------------------------- the condition parser (parse_condition)
import types, json
from lv import C, R, P, S, Nv, obj_ir
# token text -> (value expression or None, how it reads)
CTOK = {"a": (var("a"), "TPlain"), "b": (var("b"), "TPlain"), "c": (var("c"), "TPlain"), "true": (lit(["b", True]), "TPlain"), "false": (lit(["b", False]), "TPlain"),
        "nil": (lit(["n"]), "TPlain"), "1": (lit(["i", "1"]), "TPlain"), "'a'": (lit(["s", "a"]), "TPlain"), "a.b": (var("a", lit(["s", "b"])), "TPlain"),
        "and": (var("and"), "TAnd"), "or": (var("or"), "TOr"), "contains": (var("contains"), ("TOp", "OpContains")),
        "==": (None, ("TOp", "OpEq")), "!=": (None, ("TOp", "OpNe")), "<>": (None, ("TOp", "OpNe")), "<": (None, ("TOp", "OpLt")), ">=": (None, ("TOp", "OpGe")),
        ",": (None, "TPlain"), "=": (None, "TPlain"), "(1..2)": (None, "TPlain")}
CORE_T = ["a", "b", "c", "true", "nil", "and", "or", "==", "contains", ","]


def ctok_ir(t):
    v, cls = CTOK[t]
    cl = C(cls) if isinstance(cls, str) else C(cls[0], C(cls[1]))
    return R("mkT", None if v is None else ("some", tpl.expr_ir(v)), cl)


def q_gen(tier, seed):
    rnd = random.Random(seed * 13 + 5)
    seqs = {}
    for n in (1, 2, 3):
        for combo in itertools.product(list(CTOK), repeat=n):
            if n == 3 and tier == "quick" and rnd.random() > 0.25:
                continue
            seqs.setdefault(combo, "exhaustive token sequences (length %d)" % n)
    for n in (4, 5):
        for combo in itertools.product(CORE_T, repeat=n):
            if rnd.random() < (0.03 if tier == "quick" else 0.4) / (1 if n == 4 else 6):
                seqs.setdefault(combo, "token sequences over the core alphabet (length %d)" % n)
    # well-formed: groups of atoms, with and / or at value positions as well
    atoms = [["a"], ["b"], ["c"], ["true"], ["nil"], ["a", "==", "b"], ["b", "!=", "c"], ["'a'", "contains", "'a'"], ["and"], ["or"], ["contains"], ["1", "<", "a"]]
    for _ in range(400 if tier == "quick" else 6000):
        groups = [[rnd.choice(atoms) for _ in range(rnd.randint(1, 3))] for _ in range(rnd.randint(1, 4))]
        toks = []
        for gi, g in enumerate(groups):
            if gi:
                toks.append("or")
            for ai, a in enumerate(g):
                if ai:
                    toks.append("and")
                toks += a
        seqs.setdefault(tuple(toks), "well-formed or-of-ands (1..4 groups of 1..3 atoms)")
    cases = []
    datas = []
    for a, b, c in itertools.product((True, False), repeat=3):
        datas.append([["a", ["b", a]], ["b", ["b", b]], ["c", ["b", c]], ["and", ["b", True]], ["or", ["b", False]], ["contains", ["s", "x"]]])
    datas.append([["a", ["o", [["b", ["b", True]]]]], ["b", ["n"]]])        # a.b defined; c, and, or undefined
    for toks, why in seqs.items():
        ds = datas if (why.startswith("well") or len(toks) <= 2) else rnd.sample(datas, 3)
        for d in ds:
            cases.append({"toks": list(toks), "data": d, "why": why})
    for i, c in enumerate(cases):
        c["id"] = i
    dist = {"exhaustive": True, "token_alphabet": len(CTOK)}
    for c in cases:
        dist[c["why"]] = dist.get(c["why"], 0) + 1
    return cases, dist


def q_text(c):
    return "{% if " + " ".join(c["toks"]) + " %}T{% else %}F{% endif %}"


def q_request(c):
    return {"id": c["id"], "kind": "render", "tpl": q_text(c), "data": c["data"]}


def q_code(resp):
    if "panic" in resp:
        return None
    if "parse_err" in resp:
        return 2
    if "ok" in resp:
        return 1 if resp["ok"] == "T" else 0 if resp["ok"] == "F" else None
    return 3


def q_spec_check(c, resp):
    """the property's own reading: groups of `and` joined by `or` — applied where every atom is a plain value or comparison"""
    inp = {"template": q_text(c), "data": c["data"]}
    code = q_code(resp)
    if code is None:
        return {"what": "parsing or evaluating a condition panicked / printed something else", "input": inp, "observed": resp}
    toks = c["toks"]
    if not c["why"].startswith("well") or any(t in ("and", "or", "contains") and (i == 0 or toks[i - 1] in ("and", "or")) and (i + 1 == len(toks) or toks[i + 1] in ("and", "or")) for i, t in enumerate(toks)):
        return None
    env = {k: v for k, v in c["data"]}

    def val(t):
        v = CTOK[t][0]
        if v[0] == "lit":
            return v[1]
        x = env.get(v[1])
        for i in v[2]:
            x = dict((k, w) for k, w in x[1]).get(i[1][1]) if x is not None and x[0] == "o" else None
        return x
    try:
        groups, cur, i = [], [], 0
        res = False
        gval = True
        while i < len(toks):
            if i + 2 < len(toks) + 0 and toks[i + 1] in ("==", "!=", "<>", "<", ">=", "contains") and i + 2 < len(toks):
                a, b = val(toks[i]), val(toks[i + 2])
                if a is None or b is None:
                    return None        # an undefined name inside a comparison is an error of the comparison: left to the model
                t = vmodel.compare(toks[i + 1], a, b)
                i += 3
            else:
                x = val(toks[i])
                t = x is not None and vmodel.truthy(x)
                i += 1
            gval = gval and t
            if i < len(toks):
                if toks[i] == "or":
                    res = res or gval
                    gval = True
                i += 1
        res = res or gval
    except vmodel.Error:
        return None
    if code != (1 if res else 0):
        return {"what": "a condition was not read as an `or` of `and` groups", "input": inp, "observed": resp, "expected": "T" if res else "F"}
    return None


def q_case_ir(c, resp):
    return R("mkQ", [ctok_ir(t) for t in c["toks"]], obj_ir(c["data"]), Nv(q_code(resp)))


COND = types.SimpleNamespace(PROP=PROP, SUITE="C06cond", HEADER="From LV Require Import Corr Eval CondParse Condcorr.\n", CHECKER="cond_check", gen=q_gen, request=q_request,
                             spec_check=q_spec_check, nontrivial=lambda c, r: q_code(r) in (0, 1, 3), case_ir=q_case_ir, in_model=lambda c: True)
MAIN = types.SimpleNamespace(**{k: v for k, v in globals().items() if k in ("PROP", "TARGETS", "HEADER", "CHECKER", "MODEL_HANDLES_PANIC", "TRUSTED", "RULE", "prepare", "gen", "request", "case_ir", "spec_check", "nontrivial")})


def main(tier, seed):
    import lv, lvcheck
    run = lv.Run(PROP, tier, seed)
    run.trusted = lv.COMMON_TRUSTED + TRUSTED
    lv.standard_proof_phase(run, PROP, TARGETS, thorough=(tier == "thorough"))
    a = lvcheck.generic_suite(run, MAIN, tier, seed)
    b = lvcheck.generic_suite(run, COND, tier, seed)
    run.coverage.update({"evaluations": a["evaluations"] + b["evaluations"], "distinct_nontrivial": a["nontrivial"] + b["nontrivial"], "rule": RULE,
                         "samples": a["samples"][:2] + b["samples"][:1], "traces_validated_against_impl": a["evaluations"] + b["evaluations"],
                         "disagreements_checked": a["disagreements"] + b["disagreements"], "exhaustive": True,
                         "input_distribution": {"conditionals": a["dist"], "condition_parser": b["dist"]}})
    return run.finish()
