(* Filters_extra.v — the simple filters outside the standard library: crates/lib/src/jekyll/array.rs (push, pop,
   shift, unshift, array_to_sentence_string) and crates/lib/src/shopify/pluralize.rs.  (jekyll's sort, slugify and
   date_in_tz are explored on the implementation only.) *)
From LV Require Export Value.

Inductive extf := XPush | XPop | XShift | XUnshift | XSentence | XPluralize.
Definition k_and : str := [97;110;100]%N.

Section X.
Variable O : oracle.
(* the sentence of an array: the first element as its scalar text, the others rendered, ", " between, the
   connector before the last *)
Fixpoint sentence_tail (connector : str) (l : list value) : str :=
  match l with
  | [] => []
  | [v] => [44;32]%N ++ connector ++ [32%N] ++ render O v
  | v :: t => [44;32]%N ++ render O v ++ sentence_tail connector t
  end.
Definition extra_filter (f : extf) (input : value) (args : list value) : res value :=
  match f, args with
  | XPush, [e] => match input with VArray l => Ok (VArray (l ++ [e])) | _ => Err EInvalidInput end
  | XUnshift, [e] => match input with VArray l => Ok (VArray (e :: l)) | _ => Err EInvalidInput end
  | XPop, [] => match input with VArray l => Ok (VArray (removelast l)) | _ => Err EInvalidInput end
  | XShift, [] => match input with VArray l => Ok (VArray (tl l)) | _ => Err EInvalidInput end
  | XSentence, [] | XSentence, [_] =>
      let connector := match args with [c] => to_kstr O c | _ => k_and end in
      match input with
      | VArray [] => Ok (VScalar (SStr []))
      | VArray (v :: t) => Ok (VScalar (SStr (to_kstr O v ++ sentence_tail connector t)))
      | _ => Err EInvalidInput
      end
  | XPluralize, [s; p] =>
      match input with
      | VScalar sc => match to_integer sc with Some n => Ok (if (n =? 1)%Z then s else p) | None => Err EInvalidInput end
      | _ => Err EInvalidInput
      end
  | _, _ => Err EParse
  end.
End X.
