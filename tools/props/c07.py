"""C07 — variable paths and literals denote the right value or fail loudly."""
import itertools, random, struct
from decimal import Decimal
from props import tpl, pyref, vmodel
from props.tpl import lit, var, I, Sx, observed, prepare_floats
from props.seqcommon import show_value

PROP = "C07"
TARGETS = ["props/C07.vo", "corr/Rendercorr.vo"]
HEADER = "From LV Require Import Corr Eval Rendercorr.\n"
CHECKER = "render_check"
MODEL_HANDLES_PANIC = True
TRUSTED = [
    "model/Value.v (arr_get, augmented_get, try_find, find) transcribes model/find.rs and model/array/mod.rs convert_index; model/Stack.v the layer lookup of runtime/stack.rs; model/Eval.v eval_expr transcribes runtime/variable.rs + expression.rs",
    "a literal reaches the model as the value it denotes (tools/props/tpl.py prints the numeral / quoted text for the implementation and the value for the model): the grammar's *Literal rules and parse_literal are inside the loop being compared, "
    "the model side of the numeral is the theorem parse_i64 (show_Z z) = Some z; float literals use the implementation's own f64 parser and printer as oracle tables (the shortest round-trip printer is not modelled)",
]
RULE = ("every path of length 1..4 over nested data (arrays of length 0..5 inside objects inside arrays), every index in [-len-2, len+1] written as a literal, through a variable and through a nested path; keys colliding with first/last/size, integer-like keys; "
        "integer literals at the 64-bit boundaries and a sweep, signed and zero-padded numerals, decimal literals with 1..6 fraction digits, strings in both quote styles; expected value computed by an independent step-by-step lookup; "
        "non-trivial = a path that resolves to a non-nil value or a literal that prints a non-empty text")


def F(x):
    return ["f", str(struct.unpack("<Q", struct.pack("<d", x))[0])]


def prepare(cases, run):
    prepare_floats(cases, run)


def has_multi_key_object(v):
    if v[0] == "o":
        return len(v[1]) > 1 or any(has_multi_key_object(x) for _, x in v[1])
    if v[0] == "a":
        return any(has_multi_key_object(x) for x in v[1])
    return False


def arrays(maxlen):
    return [["a", [["s", "e%d" % i] for i in range(n)]] for n in range(maxlen + 1)]


def gen(tier, seed):
    rnd = random.Random(seed)
    cases = []

    def add(t, data, why):
        cases.append({"tpl": t, "data": data, "why": why})

    def out(e):
        return [("text", "<"), ("out", (e, [])), ("text", ">")]
    # ---- arrays: every length 0..5, every index in [-len-2, len+1], three ways of writing the index
    for n in range(6):
        arr = ["a", [["s", "e%d" % i] for i in range(n)]]
        nested = ["a", [["a", [["i", str(10 * j + i)] for i in range(n)]] for j in range(2)]]
        for i in range(-n - 2, n + 2):
            data = [["a", arr], ["o", ["o", [["items", arr], ["idx", ["i", str(i)]]]]], ["i", ["i", str(i)]], ["si", ["s", str(i)]],
                    ["n", nested], ["w", ["a", [["o", [["k", arr]]]]]]]
            add(out(var("a", i)), data, "array literal index")
            add(out(var("a", var("i"))), data, "array variable index")
            add(out(var("a", var("o", "idx"))), data, "array nested-path index")
            add(out(var("o", "items", i)), data, "array inside object")
            add(out(var("a", var("si"))), data, "array integer-like string index")
            add(out(var("n", 1, i)), data, "array inside array")
            add(out(var("n", -1, var("i"))), data, "array inside array")
            add(out(var("w", 0, "k", i)), data, "array in object in array")
            add(out(var("w", var("o", "idx"), "k", 0)), data, "array in object in array")
        data = [["a", arr], ["e", ["a", [arr, ["a", []]]]], ["k", ["s", "first"]], ["z", ["s", "size"]]]
        for key in ("first", "last", "size", "length", "First", "0"):
            add(out(var("a", key)), data, "array overlay")
            add(out(var("a", Sx(key))), data, "array overlay")
            add(out(var("e", 0, key)), data, "array overlay")
            add(out(var("e", 1, key)), data, "array overlay")
            add(out(var("e", key, key)), data, "array overlay")
        add(out(var("a", var("k"))), data, "array overlay via variable")
        add(out(var("a", var("z"))), data, "array overlay via variable")
        add(out(var("a", "first", "size")), data, "size of a string")
        add(out(var("a", "size", "size")), data, "size of an integer")
    # ---- objects: real keys against the overlay names, integer-like keys, missing keys
    objs = [["o", []], ["o", [["size", ["s", "own-size"]]]], ["o", [["first", ["s", "own-first"]]]], ["o", [["a", ["i", "1"]]]],
            ["o", [["0", ["s", "zero-key"]]]], ["o", [["-1", ["s", "minus-one-key"]]]], ["o", [["a b", ["s", "spaced"]]]], ["o", [["é", ["s", "accent"]]]],
            ["o", [["a", ["i", "1"]], ["b", ["i", "2"]], ["size", ["i", "99"]]]], ["o", [["x", ["o", [["size", ["o", [["size", ["s", "deep"]]]]]]]]]]]
    keys = ["size", "first", "last", "a", "b", "0", "-1", "a b", "é", "missing", "x", ""]
    for o in objs:
        data = [["o", o], ["l", ["a", [o, o]]], ["k0", ["i", "0"]], ["km", ["i", "-1"]]]
        for k in keys:
            add(out(var("o", k)), data, "object key")
            add(out(var("o", Sx(k))), data, "object key (bracket)")
            add(out(var("l", 1, k)), data, "object in array")
            add(out(var("l", -2, Sx(k))), data, "object in array")
            for k2 in ("size", "first", "missing"):
                add(out(var("o", k, k2)), data, "object two steps")
                add(out(var("o", k, k2, "size")), data, "object three steps")
        add(out(var("o", 0)), data, "object integer index")
        add(out(var("o", -1)), data, "object integer index")
        add(out(var("o", var("k0"))), data, "object integer index")
        add(out(var("o", var("km"))), data, "object integer index")
    # ---- scalars and nil in the middle of a path; non-scalar index
    sdata = [["s", ["s", "héllo"]], ["i", ["i", "-120"]], ["b", ["b", True]], ["nothing", ["n"]], ["arr", ["a", [["i", "1"]]]], ["obj", ["o", [["k", ["i", "1"]]]]], ["e", ["s", ""]]]
    for root in ("s", "i", "b", "nothing", "e", "undefined_root"):
        for k in ("size", "first", "last", 0, -1, "x"):
            add(out(var(root, k)), sdata, "scalar step")
            add(out(var(root, k, "size")), sdata, "scalar step")
    add(out(var("arr", var("arr"))), sdata, "non-scalar index")
    add(out(var("arr", var("obj"))), sdata, "non-scalar index")
    add(out(var("arr", var("nothing"))), sdata, "non-scalar index")
    add(out(var("arr", var("undefined_root"))), sdata, "undefined index")
    add(out(var("obj", var("s"))), sdata, "missing key via variable")
    # ---- random nested data and paths of length 1..4
    nrand = 400 if tier == "quick" else 8000

    def rvalue(d):
        r = rnd.random()
        if d == 0 or r < 0.3:
            return rnd.choice([["i", str(rnd.randint(-3, 9))], ["s", rnd.choice(["", "x", "size", "é√", "0"])], ["b", True], ["n"]])
        if r < 0.65:
            return ["a", [rvalue(d - 1) for _ in range(rnd.randint(0, 5))]]
        ks = rnd.sample(["a", "b", "size", "first", "last", "0", "1", "k"], rnd.randint(0, 3))
        return ["o", [[k, rvalue(d - 1)] for k in ks]]
    for _ in range(nrand):
        root = ["o", [["r", rvalue(3)], ["i", ["i", str(rnd.randint(-4, 4))]], ["k", ["s", rnd.choice(["a", "size", "first", "0", "zz"])]]]]
        data = root[1]
        steps = []
        cur = data[0][1]
        for _ in range(rnd.randint(1, 4)):
            if cur is not None and cur[0] == "a":
                n = len(cur[1])
                c = rnd.choice(list(range(-n - 2, n + 2)) + ["first", "last", "size", var("i"), var("k")])
            elif cur is not None and cur[0] == "o":
                c = rnd.choice([k for k, _ in cur[1]] + ["size", "first", "missing", 0, var("k")])
            else:
                c = rnd.choice(["size", "first", 0, "x"])
            steps.append(c)
            try:
                iv = c if not isinstance(c, tuple) else None
                idx = (["s", iv] if isinstance(iv, str) else ["i", str(iv)]) if iv is not None else dict((k, v) for k, v in data)[c[1]]
                cur = pyref.step(cur, idx) if cur is not None else None
            except Exception:
                cur = None
        add(out(var("r", *steps)), data, "random path")
    # ---- literals
    ints = [0, 1, -1, 7, 42, -42, 2 ** 31 - 1, 2 ** 31, -2 ** 31, 2 ** 53, 2 ** 53 + 1, 2 ** 63 - 1, -2 ** 63, -2 ** 63 + 1, 2 ** 63 - 2, 10 ** 18, -10 ** 18, 999999999999999999]
    ints += [rnd.randint(-2 ** 63, 2 ** 63 - 1) for _ in range(60 if tier == "quick" else 2000)]
    ints += [s * (10 ** e + d) for e in range(19) for d in (-1, 0, 1) for s in (1, -1) if -2 ** 63 <= s * (10 ** e + d) < 2 ** 63]
    ints += [s * (2 ** e + d) for e in range(63) for d in (-1, 0, 1) for s in (1, -1)]
    for z in ints:
        add(out(lit(["i", str(z)])), [], "integer literal")
    for text in ["+0", "-0", "+5", "007", "-007", "+9223372036854775807", "0000000000000000000000001", "-00"]:
        add(out(lit(["i", text])), [], "integer literal spelling")
    decs = ["0.5", "1.0", "-1.5", "3.14159", "2.50", "0.1", "0.25", "-0.0", "100.000001", "12345.678", "0.000001", "9.999999", "+2.5", "00.5", "123456789.5", "1.10"]
    for _ in range(40 if tier == "quick" else 1500):
        decs.append("%s%d.%s" % (rnd.choice(["", "-", ""]), rnd.randint(0, 10 ** rnd.randint(1, 7)), "".join(rnd.choice("0123456789") for _ in range(rnd.randint(1, 6)))))
    for text in decs:
        bits = str(struct.unpack("<Q", struct.pack("<d", float(text)))[0])
        add(out(lit(["f", bits, text])), [], "decimal literal")
    alphabet = ["'", '"', "a", " ", "é", "√", "𝄞", "{", "}", "%", "|", ":", ",", ".", "-", "0", "\\", "\n", "\t", "{{", "}}", "{%", "%}", "nil", "<", "&"]
    strs = ["", "abc", "it's", 'say "hi"', "{{ x }}", "{% if %}", "a | upcase", "line\nbreak", "tab\there", "back\\slash", "é√𝄞", "  ", "-}}", "nil", "true", "0",
            "'hello'", "'", "''", "'a", "a'", "x'y'z'", '"hello"', '"', '""', '"a', 'a"', "'\"", " 'q' ", "'é'"]   # quotes of the other style at either end and inside
    for _ in range(60 if tier == "quick" else 1500):
        strs.append("".join(rnd.choice(alphabet) for _ in range(rnd.randint(0, 6))))
    for s in strs:
        for q in "'\"":
            if q not in s:
                add(out(lit(["s", s, q])), [], "string literal")
    for v in (["b", True], ["b", False], ["n"]):
        add(out(lit(v)), [], "boolean / nil literal")
    # literals as indices
    data = [["a", ["a", [["s", "e0"], ["s", "e1"], ["s", "e2"]]]], ["o", ["o", [["k", ["s", "v"]], ["1", ["s", "one"]]]]]]
    for e in (var("a", I(2)), var("a", I(-3)), var("a", lit(["i", "+1"])), var("a", lit(["i", "01"])), var("o", Sx("k")), var("o", lit(["s", "k", '"'])), var("o", I(1)), var("a", Sx("1")),
              var("a", lit(["b", True])), var("a", lit(["n"])), var("a", lit(F(1.0))), var("o", lit(F(1.0)))):
        add(out(e), data, "literal index")
    # the iteration order of a multi-key object is outside the property (and outside the model): such results are not printed
    def keep(c):
        try:
            _, v = expected(c)
        except Exception:
            return True
        return v is None or not has_multi_key_object(v)
    cases = [c for c in cases if keep(c)]
    for i, c in enumerate(cases):
        c["id"] = i
    dist = {"exhaustive": True}
    for c in cases:
        dist[c["why"]] = dist.get(c["why"], 0) + 1
    return cases, dist


request = tpl.request


def case_ir(c, resp):
    return tpl.case_ir(c, resp)


def plain_float(x):
    """the decimal the float denotes, as the shortest numeral that reads back as the same float, without exponent"""
    r = repr(x)
    if "e" in r or "E" in r:
        r = format(Decimal(r), "f")
    if r.endswith(".0"):
        r = r[:-2]
    return r


def show(v):
    """what a value prints as, from the property text (written for this check; floats do not go through the implementation's table)"""
    t = v[0]
    if t == "i":
        return str(int(v[1]))
    if t == "f":
        return plain_float(struct.unpack("<d", struct.pack("<Q", int(v[1])))[0])
    if t == "a":
        return "".join(show(x) for x in v[1])
    if t == "o":
        return "".join(k + show(x) for k, x in v[1])
    return show_value(v)


def expected(c):
    """('ok', text) | ('err',) from the independent step-by-step lookup"""
    e = c["tpl"][1][1][0]
    sc = pyref.Scope(c["data"])
    try:
        v = pyref.eval_expr(e, sc)
    except pyref.RenderError:
        return ("err",), None
    return ("ok", "<" + show(v) + ">"), v


def spec_check(c, resp):
    cls, acc = observed(resp)
    text = tpl.body_text(c["tpl"])
    inp = {"template": text, "data": [d for d in c["data"]]}
    if cls == 2:
        return {"what": "render panicked", "input": inp, "observed": resp.get("panic")}
    if "parse_err" in resp:
        return {"what": "a path / literal the language accepts was rejected by the parser", "input": inp, "observed": resp["parse_err"]}
    exp, v = expected(c)
    if v is not None and has_multi_key_object(v):
        return None       # iteration order of a multi-key object is not part of the property; the model comparison still runs (see case_ir)
    if exp == ("err",):
        if cls != 1:
            return {"what": "a path with a missing step printed something instead of failing (%s)" % c["why"], "input": inp, "observed": acc}
        if acc not in ("<", None):
            return {"what": "a failing output tag wrote something", "input": inp, "observed": acc}
        return None
    if cls != 0 or acc != exp[1]:
        return {"what": "wrong value (%s)" % c["why"], "input": inp, "observed": acc if cls == 0 else resp, "expected": exp[1]}
    return None


def nontrivial(c, resp):
    cls, acc = observed(resp)
    return cls == 0 and acc not in ("<>", None)
