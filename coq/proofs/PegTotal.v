(* PegTotal.v — evaluation of a pest grammar terminates: for every grammar that passes the
   well-formedness check [wf_cert] (no rule reaches itself without consuming; every repetition
   consumes), every expression over it, every text, mode and position, some amount of fuel suffices
   (and then, by ev_mono, every larger amount gives the same answer).  The check is a boolean
   computed on the generated grammar with a certificate (nullable hints and ranks) that
   tools/translate.py emits next to it. *)
From LV Require Import Base Peg PegProofs.
Require Import ZifyBool ZifyNat ZifyN.
From Coq Require Import Wf_nat.

Lemma skipf_len_gen g ws
  (Hev : forall f at_ la e s pos s' p' t, ev g ws f at_ la e s pos = Some (Some (s', p', t)) -> length s' <= length s)
  f at_ la s pos s1 p1 t1 : skipf g ws f at_ la s pos = Some (Some (s1, p1, t1)) -> length s1 <= length s.
Proof. unfold skipf. destruct at_, ws; intros X; try (inversion X; subst; lia). eapply Hev; exact X. Qed.

Lemma TMs_gen g ws at_ la s pos :
  (forall w, ws = Some w -> exists f r, ev g ws f Atomic la (PStar (PRef w)) s pos = Some r) ->
  exists f r, skipf g ws f at_ la s pos = Some r.
Proof.
  unfold skipf. destruct at_; try (intros _; exists 0; eexists; reflexivity).
  destruct ws as [w|]; [intro H; destruct (H w eq_refl) as [f [r E]]; eauto|intros _; exists 0; eexists; reflexivity].
Qed.

Section T.
Variable g : grammar. Variable ws : option nat.
Variable hint : nat -> bool.     (* may the rule succeed without consuming? (an over-approximation) *)
Variable rank : nat -> nat.      (* strictly decreases along calls made before anything is consumed *)
Variable K : nat.
Notation ev' := (ev g ws).

Definition body (n : nat) : pe := match nth_error g n with Some r => r_body r | None => PAny end.
Definition skip_pe : pe := match ws with Some w => PStar (PRef w) | None => PLit [] end.

Fixpoint me (e : pe) : bool :=
  match e with
  | PLit l => match l with [] => true | _ => false end
  | PRng _ _ | PAny => false
  | PSoi | PEoi => true
  | PRef n => hint n
  | PSeq a b => me a && me b
  | PAlt a b => me a || me b
  | PStar _ | POpt _ | PNot _ => true
  | PPlus a => me a
  end.
Fixpoint stars_ok (e : pe) : bool :=
  match e with
  | PSeq a b | PAlt a b => stars_ok a && stars_ok b
  | PStar a | PPlus a => negb (me a) && stars_ok a
  | POpt a | PNot a => stars_ok a
  | PRef n => n <? length g
  | _ => true
  end.
Definition skip_hd_ok (k : nat) : bool := match ws with Some w => rank w <? k | None => true end.
Fixpoint hd_ok (k : nat) (e : pe) : bool :=
  match e with
  | PRef n => rank n <? k
  | PSeq a b => hd_ok k a && (if me a then skip_hd_ok k && hd_ok k b else true)
  | PAlt a b => hd_ok k a && hd_ok k b
  | PStar a | PPlus a | POpt a | PNot a => hd_ok k a
  | _ => true
  end.
Definition rule_ok (n : nat) : bool :=
  implb (me (body n)) (hint n) && stars_ok (body n) && hd_ok (rank n) (body n) && (rank n <? K).
Definition wf_cert : bool :=
  forallb rule_ok (seq 0 (length g)) && stars_ok skip_pe && hd_ok K skip_pe.
Hypothesis WF : wf_cert = true.

Lemma rule_ok_n n : n < length g -> rule_ok n = true.
Proof.
  intro H. unfold wf_cert in WF. apply andb_true_iff in WF as [W _]. apply andb_true_iff in W as [W _].
  rewrite forallb_forall in W. apply W. apply in_seq. lia.
Qed.
Lemma skip_stars : stars_ok skip_pe = true.
Proof. unfold wf_cert in WF. apply andb_true_iff in WF as [W _]. apply andb_true_iff in W as [_ W]. exact W. Qed.
Lemma skip_hd : hd_ok K skip_pe = true.
Proof. unfold wf_cert in WF. apply andb_true_iff in WF as [_ W]. exact W. Qed.
Lemma skip_hd_eq k : hd_ok k skip_pe = skip_hd_ok k.
Proof. unfold skip_pe, skip_hd_ok. destruct ws; reflexivity. Qed.
Lemma nth_body n r : nth_error g n = Some r -> r_body r = body n.
Proof. intro H. unfold body. rewrite H. reflexivity. Qed.

(* results are suffixes of the input *)
Lemma strip_prefix_len l : forall s r, strip_prefix l s = Some r -> length r + length l = length s.
Proof.
  induction l as [|c l IH]; intros s r H; cbn [strip_prefix] in H; [inversion H; cbn; lia|].
  destruct s as [|d s]; [discriminate|]. destruct (N.eqb c d); [|discriminate]. apply IH in H. cbn [length]. lia.
Qed.
Definition skipf' := skipf g ws.
Lemma ev_len : forall f at_ la e s pos s' p' t, ev' f at_ la e s pos = Some (Some (s', p', t)) -> length s' <= length s.
Proof.
  induction f as [|f IH]; intros at_ la e s pos s' p' t H; [discriminate|].
  assert (IHs : forall at0 la0 s0 p0 s1 p1 t1, skipf g ws f at0 la0 s0 p0 = Some (Some (s1, p1, t1)) -> length s1 <= length s0).
  { intros at0 la0 s0 p0 s1 p1 t1. unfold skipf. destruct at0, ws; try (intro X; inversion X; subst; lia). apply IH. }
  destruct e.
  - rewrite ev_lit in H. destruct (strip_prefix s0 s) eqn:E; inversion H; subst. apply strip_prefix_len in E. lia.
  - cbn [ev] in H. destruct s as [|c r]; [discriminate|]. destruct ((a <=? c)%N && (c <=? b)%N); inversion H; subst. cbn [length]. lia.
  - cbn [ev] in H. destruct s as [|c r]; inversion H; subst. cbn [length]. lia.
  - cbn [ev] in H. destruct (Nat.eqb pos 0); inversion H; subst. lia.
  - cbn [ev] in H. destruct s; inversion H; subst. lia.
  - rewrite ev_ref in H. destruct (nth_error g n) as [r|]; [|discriminate]. cbv zeta in H.
    match type of H with match ?x with _ => _ end = _ => destruct x as [[[[s1 p1] t1]|]|] eqn:E; try discriminate end.
    inversion H; subst. eapply IH; exact E.
  - rewrite ev_seq in H.
    destruct (ev' f at_ la e1 s pos) as [[[[s1 p1] t1]|]|] eqn:E1; try discriminate.
    destruct (skipf g ws f at_ la s1 p1) as [[[[s2 p2] t2]|]|] eqn:E2; try discriminate.
    destruct (ev' f at_ la e2 s2 p2) as [[[[s3 p3] t3]|]|] eqn:E3; try discriminate. inversion H; subst.
    apply IH in E1. apply IHs in E2. apply IH in E3. lia.
  - rewrite ev_alt in H. destruct (ev' f at_ la e1 s pos) as [[[[s1 p1] t1]|]|] eqn:E1; try discriminate.
    + inversion H; subst. eapply IH; exact E1.
    + eapply IH; exact H.
  - rewrite ev_star in H. destruct (ev' f at_ la (PPlus e) s pos) as [[[[s1 p1] t1]|]|] eqn:E1; try discriminate; inversion H; subst; [eapply IH; exact E1|lia].
  - rewrite ev_plus in H. destruct (ev' f at_ la e s pos) as [[[[s1 p1] t1]|]|] eqn:E1; try discriminate.
    apply IH in E1.
    destruct (skipf g ws f at_ la s1 p1) as [[[[s2 p2] t2]|]|] eqn:E2; try discriminate; [|inversion H; subst; exact E1].
    apply IHs in E2.
    destruct (ev' f at_ la (PPlus e) s2 p2) as [[[[s3 p3] t3]|]|] eqn:E3; try discriminate; inversion H; subst; [apply IH in E3; lia|exact E1].
  - rewrite ev_opt in H. destruct (ev' f at_ la e s pos) as [[[[s1 p1] t1]|]|] eqn:E1; try discriminate; inversion H; subst; [eapply IH; exact E1|lia].
  - rewrite ev_not in H. destruct (ev' f at_ true e s pos) as [[x|]|]; try discriminate. inversion H; subst. lia.
Qed.

Lemma skipf_len f at_ la s pos s1 p1 t1 : skipf g ws f at_ la s pos = Some (Some (s1, p1, t1)) -> length s1 <= length s.
Proof. apply (skipf_len_gen g ws ev_len). Qed.

Lemma body_ok n : n < length g -> stars_ok (body n) = true /\ hd_ok (rank n) (body n) = true /\ rank n < K /\ (me (body n) = true -> hint n = true).
Proof.
  intro H. pose proof (rule_ok_n n H) as R. unfold rule_ok in R.
  apply andb_true_iff in R as [R R4]. apply andb_true_iff in R as [R R3]. apply andb_true_iff in R as [R1 R2].
  repeat split; auto; [lia|]. intro M. rewrite M in R1. exact R1.
Qed.

(* success without consumption implies the nullable flag *)
Lemma me_sound : forall f at_ la e s pos s' p' t, stars_ok e = true ->
  ev' f at_ la e s pos = Some (Some (s', p', t)) -> length s' = length s -> me e = true.
Proof.
  induction f as [|f IH]; intros at_ la e s pos s' p' t So H L; [discriminate|].
  destruct e; cbn [me stars_ok] in *; try reflexivity.
  - rewrite ev_lit in H. destruct (strip_prefix s0 s) eqn:E; inversion H; subst. apply strip_prefix_len in E. destruct s0; [reflexivity|cbn [length] in E; lia].
  - cbn [ev] in H. destruct s as [|c r]; [discriminate|]. destruct ((a <=? c)%N && (c <=? b)%N); inversion H; subst. cbn [length] in L. lia.
  - cbn [ev] in H. destruct s as [|c r]; inversion H; subst. cbn [length] in L. lia.
  - apply Nat.ltb_lt in So. rewrite ev_ref in H. destruct (nth_error g n) as [r|] eqn:En; [|discriminate]. cbv zeta in H.
    match type of H with match ?x with _ => _ end = _ => destruct x as [[[[s1 p1] t1]|]|] eqn:E; try discriminate end.
    inversion H; subst. destruct (body_ok n So) as [B1 [_ [_ B4]]]. apply B4.
    rewrite (nth_body n r En) in E. eapply IH; [exact B1|exact E|exact L].
  - apply andb_true_iff in So as [S1 S2]. rewrite ev_seq in H.
    destruct (ev' f at_ la e1 s pos) as [[[[s1 p1] t1]|]|] eqn:E1; try discriminate.
    destruct (skipf g ws f at_ la s1 p1) as [[[[s2 p2] t2]|]|] eqn:E2; try discriminate.
    destruct (ev' f at_ la e2 s2 p2) as [[[[s3 p3] t3]|]|] eqn:E3; try discriminate. inversion H; subst.
    pose proof (ev_len _ _ _ _ _ _ _ _ _ E1) as L1. pose proof (ev_len _ _ _ _ _ _ _ _ _ E3) as L3.
    pose proof (skipf_len _ _ _ _ _ _ _ _ E2) as L2.
    rewrite (IH _ _ _ _ _ _ _ _ S1 E1 ltac:(lia)), (IH _ _ _ _ _ _ _ _ S2 E3 ltac:(lia)). reflexivity.
  - apply andb_true_iff in So as [S1 S2]. rewrite ev_alt in H.
    destruct (ev' f at_ la e1 s pos) as [[[[s1 p1] t1]|]|] eqn:E1; try discriminate.
    + inversion H; subst. rewrite (IH _ _ _ _ _ _ _ _ S1 E1 L). reflexivity.
    + rewrite (IH _ _ _ _ _ _ _ _ S2 H L). apply orb_true_r.
  - apply andb_true_iff in So as [S1 S2]. rewrite ev_plus in H.
    destruct (ev' f at_ la e s pos) as [[[[s1 p1] t1]|]|] eqn:E1; try discriminate.
    pose proof (ev_len _ _ _ _ _ _ _ _ _ E1) as L1.
    assert (length s1 = length s).
    { destruct (skipf g ws f at_ la s1 p1) as [[[[s2 p2] t2]|]|] eqn:E2; try discriminate; [|inversion H; subst; lia].
      pose proof (skipf_len _ _ _ _ _ _ _ _ E2) as L2.
      destruct (ev' f at_ la (PPlus e) s2 p2) as [[[[s3 p3] t3]|]|] eqn:E3; try discriminate; inversion H; subst; [|lia].
      pose proof (ev_len _ _ _ _ _ _ _ _ _ E3). lia. }
    eapply IH; [exact S2|exact E1|assumption].
Qed.

Lemma skipf_mono_le f f' at_ la s pos r : f <= f' -> skipf g ws f at_ la s pos = Some r -> skipf g ws f' at_ la s pos = Some r.
Proof. unfold skipf. destruct at_; try (intros _ X; exact X). destruct ws; [|intros _ X; exact X]. apply ev_mono_le. Qed.
Notation mono := (ev_mono_le g ws).

Definition TM (at_ : atom) (la : bool) (e : pe) (s : str) (pos : nat) : Prop := exists f r, ev' f at_ la e s pos = Some r.
Definition TMs (at_ : atom) (la : bool) (s : str) (pos : nat) : Prop := exists f r, skipf g ws f at_ la s pos = Some r.

Lemma mk_ref at_ la n s pos : (forall r, nth_error g n = Some r ->
    TM (match r_mod r with MAtomic => Atomic | MCompound => Compound | MNonAtomic => NonAtomic | _ => at_ end) la (r_body r) s pos) ->
  TM at_ la (PRef n) s pos.
Proof.
  intro H. destruct (nth_error g n) as [r|] eqn:E.
  - destruct (H r eq_refl) as [f [x Hx]]. exists (S f). rewrite ev_ref, E. cbv zeta. rewrite Hx. destruct x as [[[s1 p1] t1]|]; eexists; reflexivity.
  - exists 1. rewrite ev_ref, E. eexists; reflexivity.
Qed.
Lemma mk_seq at_ la a b s pos : TM at_ la a s pos ->
  (forall f s1 p1 t1, ev' f at_ la a s pos = Some (Some (s1, p1, t1)) -> TMs at_ la s1 p1) ->
  (forall f s1 p1 t1 f2 s2 p2 t2, ev' f at_ la a s pos = Some (Some (s1, p1, t1)) -> skipf g ws f2 at_ la s1 p1 = Some (Some (s2, p2, t2)) -> TM at_ la b s2 p2) ->
  TM at_ la (PSeq a b) s pos.
Proof.
  intros [f1 [r1 H1]] Hs Hb. destruct r1 as [[[s1 p1] t1]|].
  - destruct (Hs _ _ _ _ H1) as [f2 [r2 H2]]. destruct r2 as [[[s2 p2] t2]|].
    + destruct (Hb _ _ _ _ _ _ _ _ H1 H2) as [f3 [r3 H3]].
      set (F := Nat.max f1 (Nat.max f2 f3)). exists (S F). rewrite ev_seq.
      rewrite (mono f1 F at_ la a s pos _ ltac:(unfold F; lia) H1), (skipf_mono_le f2 F at_ la s1 p1 _ ltac:(unfold F; lia) H2), (mono f3 F at_ la b s2 p2 _ ltac:(unfold F; lia) H3).
      destruct r3 as [[[s3 p3] t3]|]; eexists; reflexivity.
    + set (F := Nat.max f1 f2). exists (S F). rewrite ev_seq. rewrite (mono f1 F at_ la a s pos _ ltac:(unfold F; lia) H1), (skipf_mono_le f2 F at_ la s1 p1 _ ltac:(unfold F; lia) H2). eexists; reflexivity.
  - exists (S f1). rewrite ev_seq, H1. eexists; reflexivity.
Qed.
Lemma mk_alt at_ la a b s pos : TM at_ la a s pos -> TM at_ la b s pos -> TM at_ la (PAlt a b) s pos.
Proof.
  intros [f1 [r1 H1]] [f2 [r2 H2]]. set (F := Nat.max f1 f2). exists (S F). rewrite ev_alt.
  rewrite (mono f1 F at_ la a s pos _ ltac:(unfold F; lia) H1). destruct r1 as [x|]; [eexists; reflexivity|].
  rewrite (mono f2 F at_ la b s pos _ ltac:(unfold F; lia) H2). eexists; reflexivity.
Qed.
Lemma mk_opt at_ la a s pos : TM at_ la a s pos -> TM at_ la (POpt a) s pos.
Proof. intros [f1 [r1 H1]]. exists (S f1). rewrite ev_opt, H1. destruct r1; eexists; reflexivity. Qed.
Lemma mk_not at_ la a s pos : TM at_ true a s pos -> TM at_ la (PNot a) s pos.
Proof. intros [f1 [r1 H1]]. exists (S f1). rewrite ev_not, H1. destruct r1; eexists; reflexivity. Qed.
Lemma mk_star at_ la a s pos : TM at_ la (PPlus a) s pos -> TM at_ la (PStar a) s pos.
Proof. intros [f1 [r1 H1]]. exists (S f1). rewrite ev_star, H1. destruct r1; eexists; reflexivity. Qed.
Lemma mk_plus at_ la a s pos : TM at_ la a s pos ->
  (forall f s1 p1 t1, ev' f at_ la a s pos = Some (Some (s1, p1, t1)) -> TMs at_ la s1 p1) ->
  (forall f s1 p1 t1 f2 s2 p2 t2, ev' f at_ la a s pos = Some (Some (s1, p1, t1)) -> skipf g ws f2 at_ la s1 p1 = Some (Some (s2, p2, t2)) -> TM at_ la (PPlus a) s2 p2) ->
  TM at_ la (PPlus a) s pos.
Proof.
  intros [f1 [r1 H1]] Hs Hb. destruct r1 as [[[s1 p1] t1]|].
  - destruct (Hs _ _ _ _ H1) as [f2 [r2 H2]]. destruct r2 as [[[s2 p2] t2]|].
    + destruct (Hb _ _ _ _ _ _ _ _ H1 H2) as [f3 [r3 H3]].
      set (F := Nat.max f1 (Nat.max f2 f3)). exists (S F). rewrite ev_plus.
      rewrite (mono f1 F at_ la a s pos _ ltac:(unfold F; lia) H1), (skipf_mono_le f2 F at_ la s1 p1 _ ltac:(unfold F; lia) H2), (mono f3 F at_ la (PPlus a) s2 p2 _ ltac:(unfold F; lia) H3).
      destruct r3 as [[[s3 p3] t3]|]; eexists; reflexivity.
    + set (F := Nat.max f1 f2). exists (S F). rewrite ev_plus. rewrite (mono f1 F at_ la a s pos _ ltac:(unfold F; lia) H1), (skipf_mono_le f2 F at_ la s1 p1 _ ltac:(unfold F; lia) H2). eexists; reflexivity.
  - exists (S f1). rewrite ev_plus, H1. eexists; reflexivity.
Qed.

Fixpoint size (e : pe) : nat :=
  match e with
  | PSeq a b | PAlt a b => 4 + size a + size b
  | PStar a => 2 + size a
  | PPlus a | POpt a | PNot a => 1 + size a
  | _ => 1
  end.
Lemma hd_ok_K e : stars_ok e = true -> hd_ok K e = true.
Proof.
  induction e; cbn [stars_ok hd_ok]; intro H; try reflexivity; auto.
  - apply Nat.ltb_lt in H. apply Nat.ltb_lt. apply body_ok. exact H.
  - apply andb_true_iff in H as [Ha Hb]. rewrite IHe1, IHe2 by assumption. rewrite <- skip_hd_eq, skip_hd. destruct (me e1); reflexivity.
  - apply andb_true_iff in H as [Ha Hb]. rewrite IHe1, IHe2 by assumption. reflexivity.
  - apply andb_true_iff in H as [_ H]. auto.
  - apply andb_true_iff in H as [_ H]. auto.
Qed.
Lemma TMs_of at_ la s pos : TM Atomic la skip_pe s pos -> TMs at_ la s pos.
Proof.
  intros [f [r H]]. apply TMs_gen. intros w Hw.
  assert (E : skip_pe = PStar (PRef w)) by (unfold skip_pe; rewrite Hw; reflexivity). rewrite E in H. exists f, r. exact H.
Qed.

Theorem total : forall len k e s, length s = len -> stars_ok e = true -> hd_ok k e = true ->
  forall at_ la pos, TM at_ la e s pos.
Proof.
  induction len as [len IHlen] using lt_wf_ind.
  induction k as [k IHk] using lt_wf_ind.
  induction e as [e IHe] using (induction_ltof1 _ size). unfold ltof in IHe.
  intros s Hlen Hs Hh at_ la pos.
  assert (Hskip : forall s1 p1 la1, length s1 <= length s -> (length s1 = length s -> skip_hd_ok k = true) -> 3 < size e -> TMs at_ la1 s1 p1).
  { intros s1 p1 la1 L1 Hk1 Hsz. apply TMs_of.
    destruct (Nat.eq_dec (length s1) (length s)) as [Eq|Ne].
    - apply (IHe skip_pe); [unfold skip_pe; destruct ws; cbn [size]; lia|lia|apply skip_stars|rewrite skip_hd_eq; auto].
    - apply (IHlen (length s1) ltac:(lia) K skip_pe s1 eq_refl skip_stars skip_hd). }
  destruct e; cbn [stars_ok hd_ok] in Hs, Hh.
  - exists 1. eexists. reflexivity.
  - exists 1. eexists. reflexivity.
  - exists 1. eexists. reflexivity.
  - exists 1. eexists. reflexivity.
  - exists 1. eexists. reflexivity.
  - apply mk_ref. intros r En. apply Nat.ltb_lt in Hs, Hh. destruct (body_ok n Hs) as [B1 [B2 _]].
    rewrite (nth_body n r En). apply (IHk (rank n) Hh (body n) s Hlen B1 B2).
  - apply andb_true_iff in Hs as [Sa Sb]. apply andb_true_iff in Hh as [Ha Hb].
    apply mk_seq.
    + apply IHe; [cbn [size]; lia|exact Hlen|exact Sa|exact Ha].
    + intros f s1 p1 t1 E1. pose proof (ev_len _ _ _ _ _ _ _ _ _ E1) as L1.
      apply Hskip; [exact L1| |cbn [size]; lia].
      intro Eq. rewrite (me_sound _ _ _ _ _ _ _ _ _ Sa E1 Eq) in Hb. apply andb_true_iff in Hb as [Hb _]. exact Hb.
    + intros f s1 p1 t1 f2 s2 p2 t2 E1 E2. pose proof (ev_len _ _ _ _ _ _ _ _ _ E1) as L1. pose proof (skipf_len _ _ _ _ _ _ _ _ E2) as L2.
      destruct (Nat.eq_dec (length s2) (length s)) as [Eq|Ne].
      * assert (Eq1 : length s1 = length s) by lia.
        rewrite (me_sound _ _ _ _ _ _ _ _ _ Sa E1 Eq1) in Hb. apply andb_true_iff in Hb as [_ Hb].
        apply IHe; [cbn [size]; lia|lia|exact Sb|exact Hb].
      * apply (IHlen (length s2) ltac:(lia) K e2 s2 eq_refl Sb (hd_ok_K e2 Sb)).
  - apply andb_true_iff in Hs as [Sa Sb]. apply andb_true_iff in Hh as [Ha Hb].
    apply mk_alt; apply IHe; try assumption; cbn [size]; lia.
  - apply mk_star. apply IHe; [cbn [size]; lia|exact Hlen|exact Hs|exact Hh].
  - apply andb_true_iff in Hs as [Sn Sa]. apply negb_true_iff in Sn.
    apply mk_plus.
    + apply IHe; [cbn [size]; lia|exact Hlen|exact Sa|exact Hh].
    + intros f s1 p1 t1 E1. pose proof (ev_len _ _ _ _ _ _ _ _ _ E1) as L1.
      assert (length s1 <> length s) by (intro Eq; rewrite (me_sound _ _ _ _ _ _ _ _ _ Sa E1 Eq) in Sn; discriminate).
      apply TMs_of. apply (IHlen (length s1) ltac:(lia) K skip_pe s1 eq_refl skip_stars skip_hd).
    + intros f s1 p1 t1 f2 s2 p2 t2 E1 E2. pose proof (ev_len _ _ _ _ _ _ _ _ _ E1) as L1. pose proof (skipf_len _ _ _ _ _ _ _ _ E2) as L2.
      assert (length s1 <> length s) by (intro Eq; rewrite (me_sound _ _ _ _ _ _ _ _ _ Sa E1 Eq) in Sn; discriminate).
      assert (SP : stars_ok (PPlus e) = true) by (cbn [stars_ok]; rewrite Sn, Sa; reflexivity).
      apply (IHlen (length s2) ltac:(lia) K (PPlus e) s2 eq_refl SP (hd_ok_K _ SP)).
  - apply mk_opt. apply IHe; [cbn [size]; lia|exact Hlen|exact Hs|exact Hh].
  - apply mk_not. apply IHe; [cbn [size]; lia|exact Hlen|exact Hs|exact Hh].
Qed.

(* every expression over the grammar terminates on every text, from every rank *)
Corollary terminates e s at_ la pos : stars_ok e = true -> exists f r, forall f', f <= f' -> ev' f' at_ la e s pos = Some r.
Proof.
  intro Hs. destruct (total (length s) K e s eq_refl Hs (hd_ok_K e Hs) at_ la pos) as [f [r H]].
  exists f, r. intros f' Hf. eapply ev_mono_le; eassumption.
Qed.
End T.

(* ---- the grammar generated from grammar.pest ---- *)
From LV Require Import Grammar.
Definition hintf (n : nat) : bool := nth n liquid_hint false.
Definition rankf (n : nat) : nat := nth n liquid_rank 0.
Lemma liquid_wf : wf_cert liquid_grammar liquid_ws hintf rankf liquid_K = true.
Proof. vm_compute. reflexivity. Qed.

(* pest's evaluation of the lax top-level rule finishes on every text (with some fuel, hence with any larger one) ... *)
Theorem lax_parse_terminates s : exists f r, forall f', f <= f' -> parse liquid_grammar liquid_ws f' r_LaxLiquidFile s = Some r.
Proof. unfold parse. apply (terminates liquid_grammar liquid_ws hintf rankf liquid_K liquid_wf). vm_compute. reflexivity. Qed.
(* ... and, with PegProofs.lax_never_rejects, it finishes with a match of the whole text *)
Theorem lax_parse_total s : exists f, forall f', f <= f' ->
  exists pos ts, parse liquid_grammar liquid_ws f' r_LaxLiquidFile s = Some (Some ([], pos, ts)).
Proof.
  destruct (lax_parse_terminates s) as [f [r H]]. exists f. intros f' Hf. specialize (H f' Hf).
  destruct r as [[[rest pos] ts]|].
  - rewrite (lax_consumes_everything _ _ _ _ _ H) in H. eauto.
  - exfalso. exact (lax_never_rejects _ _ H).
Qed.
(* the same for every rule of the grammar, in every mode *)
Theorem every_rule_terminates n s at_ la pos : n < length liquid_grammar ->
  exists f r, forall f', f <= f' -> ev liquid_grammar liquid_ws f' at_ la (PRef n) s pos = Some r.
Proof.
  intro H. apply (terminates liquid_grammar liquid_ws hintf rankf liquid_K liquid_wf). cbn [stars_ok]. apply Nat.ltb_lt. exact H.
Qed.
