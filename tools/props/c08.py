"""C08 — include shares the caller's scope; render isolates the partial."""
import itertools, random
from props import tpl, pyref, progen
from props.tpl import lit, var, I, Sx, request, observed, prepare_floats
from props.progen import read, reads_all, NAMES, DATA

PROP = "C08"
TARGETS = ["props/C08.vo", "corr/Rendercorr.vo"]
HEADER = "From LV Require Import Corr Eval Rendercorr.\n"
CHECKER = "render_check"
MODEL_HANDLES_PANIC = True
TRUSTED = [
    "model/Eval.v transcribes stdlib/tags/include_tag.rs and render_tag.rs (with/for/key:value forms, the .liquid fallback), SandboxedStackFrame/GlobalFrame of runtime/stack.rs, partial lookup errors of partials/eager.rs",
    "the specification oracle tools/props/pyref.py implements include as inlining into the caller's scope and render as a fresh scope holding only the arguments (counters shared, C18), with break/continue as exceptions that never cross a render",
]
RULE = ("a caller and 1..3 partials (nesting <= 3, no recursion) over a shared 3-name alphabet: reads, assign, capture, increment, break/continue on both sides; include and every argument form of render, inside and outside loops; "
        "partial names literal and through variables; missing and syntactically broken partials on executed and on dead paths; non-trivial = a partial is actually executed")

BROKEN = "{% if %}oops"


def prepare(cases, run):
    prepare_floats(cases, run)


def fixed(add):
    arr = ("arr", var("arr"))
    # include: sees and rebinds the caller's variables; arguments only inside; break reaches the caller's loop
    P1 = [("p", read("a") + [("assign", "a", (Sx("pA"), [])), ("assign", "z", (Sx("pZ"), []))] + read("b"))]
    add([("assign", "b", (Sx("cB"), [])), ("include", Sx("p"), [])] + reads_all() + read("z"), P1, "include-shares")
    add([("include", Sx("p"), [("b", Sx("argB"))])] + reads_all(), P1, "include-args")
    PB = [("p", [("text", "<"), ("out", (var("x"), [])), ("if", True, ("bin", var("x"), "==", Sx("x")), [("break",)], None), ("text", ">")])]
    add([("for", "x", arr, None, None, False, [("include", Sx("p"), []), ("text", ";")], None), ("text", "|after")], PB, "include-break")
    PC = [("p", [("text", "<"), ("if", True, ("bin", var("x"), "==", Sx("x")), [("continue",)], None), ("out", (var("x"), [])), ("text", ">")])]
    add([("for", "x", arr, None, None, False, [("include", Sx("p"), []), ("text", ";")], None), ("text", "|after")], PC, "include-continue")
    # break / continue raised two includes deep, and after output inside the partial
    PN = [("outer", [("text", "("), ("include", Sx("inner"), []), ("text", "never)")]), ("inner", [("out", (var("x"), [])), ("if", True, ("bin", var("x"), "==", Sx("x")), [("break",)], [("continue",)]), ("text", "never")])]
    add([("for", "x", arr, None, None, False, [("text", "["), ("include", Sx("outer"), []), ("text", "]")], None), ("text", "|after")] + reads_all(), PN, "include-break-nested")
    add([("for", "y", arr, None, None, False, [("for", "x", arr, None, None, False, [("include", Sx("inner"), []), ("text", ";")], None), ("text", "/")], None), ("text", "|after")], PN, "include-break-nested")
    # render: only the arguments; assignments and break/continue never reach the caller
    R1 = [("r", read("a") + read("b") + read("v") + [("assign", "a", (Sx("rA"), [])), ("assign", "v", (Sx("rV"), []))] + read("a") + read("v") + [("inc", "c")])]
    for form, args in ((None, []), (None, [("v", Sx("kv"))]), (("with", var("a"), "v"), []), (("with", Sx("lit"), "v"), [("b", I(5))]),
                       ((arr, "v"), []), ((("cnt", I(1), I(3)), "v"), [("b", var("a"))])):
        add([("assign", "b", (Sx("cB"), [])), ("render", Sx("r"), form, args)] + reads_all(), R1, "render-isolates")
        add([("for", "x", arr, None, None, False, [("render", Sx("r"), form, args), ("text", ";")], None)] + reads_all(), R1, "render-in-loop")
    RB = [("r", [("text", "<"), ("out", (var("v"), [])), ("if", True, ("bin", var("v"), "==", I(2)), [("break",)], None), ("text", ">")])]
    RC = [("r", [("text", "<"), ("if", True, ("bin", var("v"), "==", I(2)), [("continue",)], None), ("out", (var("v"), [])), ("text", ">")])]
    for PP, why in ((RB, "render-break"), (RC, "render-continue")):
        add([("render", Sx("r"), (("cnt", I(1), I(3)), "v"), []), ("text", "|after")], PP, why)
        add([("for", "x", arr, None, None, False, [("render", Sx("r"), (("cnt", I(1), I(3)), "v"), []), ("text", ";")], None), ("text", "|after")], PP, why)
        add([("for", "x", arr, None, None, False, [("render", Sx("r"), None, [("v", I(2))]), ("text", ";")], None), ("text", "|after")], PP, why)
    # the for-form evaluates its arguments again for every item: an argument that names a counter sees the partial's increments
    RI = [("r", [("inc", "c"), ("text", "<"), ("out", (var("b"), [])), ("text", ">")])]
    add([("inc", "c"), ("render", Sx("r"), (("cnt", I(1), I(3)), "v"), [("b", var("c"))]), ("text", "|")] + reads_all(), RI, "render-for-args-per-item")
    add([("inc", "c"), ("render", Sx("r"), (arr, "v"), [("b", var("c")), ("a", var("c"))]), ("text", "|")] + reads_all(), RI, "render-for-args-per-item")
    RF = [("r", [("text", "("), ("out", (var("forloop", "index"), [])), ("text", "/"), ("out", (var("forloop", "length"), [])), ("text", " "),
                 ("out", (var("forloop", "first"), [])), ("out", (var("forloop", "last"), [])), ("text", ":"), ("out", (var("v"), [])), ("text", ")")])]
    for n in range(0, 4):
        add([("render", Sx("r"), (("cnt", I(1), I(n)), "v"), [])], RF, "render-forloop")
    add([("for", "x", arr, None, None, False, [("render", Sx("r"), (arr, "v"), [])], None)], RF, "render-forloop")
    # names through variables, the .liquid fallback, missing and broken partials on executed and dead paths
    P2 = [("p", [("text", "P")]), ("q.liquid", [("text", "Q")]), ("bad", BROKEN)]
    d = DATA + [["pn", ["s", "p"]], ["qn", ["s", "q"]], ["mn", ["s", "missing"]], ["bn", ["s", "bad"]], ["nn", ["i", "5"]], ["an", ["a", []]]]
    for tag in ("include", "render"):
        for nm in (Sx("p"), var("pn"), Sx("q"), var("qn"), Sx("q.liquid"), Sx("missing"), var("mn"), Sx("bad"), var("bn"), var("nn"), var("an"), var("undefined_name")):
            node = ("include", nm, []) if tag == "include" else ("render", nm, None, [])
            add([("text", "a"), node, ("text", "b")], P2, "names", d)
            add([("text", "a"), ("if", True, ("ex", var("undefined_name")), [node], [("text", "dead")]), ("text", "b")], P2, "dead-path", d)
            add([("for", "x", ("cnt", I(1), I(0)), None, None, False, [node], [("text", "empty")])], P2, "dead-path", d)
    add([("text", "a"), ("include", Sx("p"), [("k", var("undefined_name"))])], P2, "bad-argument", d)
    add([("text", "a"), ("render", Sx("p"), None, [("k", var("undefined_name"))])], P2, "bad-argument", d)
    # nesting: p includes q renders r
    N3 = [("p", [("text", "p["), ("include", Sx("q"), [("a", Sx("viaP"))]), ("text", "]")] + read("a")),
          ("q", [("text", "q[")] + read("a") + [("render", Sx("r"), None, [("a", var("a"))]), ("assign", "b", (Sx("qB"), [])), ("text", "]")]),
          ("r", [("text", "r[")] + read("a") + read("b") + [("assign", "a", (Sx("rA"), [])), ("text", "]")])]
    add([("include", Sx("p"), [])] + reads_all(), N3, "nesting")
    add([("render", Sx("p"), None, [("a", Sx("top"))])] + reads_all(), N3, "nesting")


def gen(tier, seed):
    rnd = random.Random(seed)
    cases = []

    def add(t, partials, why, data=DATA):
        cases.append({"tpl": t, "data": data, "partials": partials, "why": why})
    fixed(add)
    nrand = 1200 if tier == "quick" else 25000
    allow = ("assign", "capture", "inc", "dec", "for", "if", "include", "render", "read", "text", "break", "continue")
    for _ in range(nrand):
        # three partials: p3 is a leaf, p2 may use p3, p1 may use p2/p3 (no recursion)
        p3 = progen.Gen(rnd, partial_names=[], allow=allow).body(2, False, 3)
        p2 = progen.Gen(rnd, partial_names=["p3"], allow=allow).body(2, False, 3)
        p1 = progen.Gen(rnd, partial_names=["p2", "p3"], allow=allow).body(2, False, 3)
        parts = [("p1", p1), ("p2", p2), ("p3", p3)]
        if rnd.random() < 0.15:
            parts[rnd.randrange(3)] = (parts[0][0] if False else rnd.choice(["p1", "p2", "p3"]), BROKEN)
            parts = list(dict(parts).items())
        if rnd.random() < 0.1:
            parts = parts[:2]
        main = progen.Gen(rnd, partial_names=["p1", "p2", "p3"], allow=allow).program(size=5, depth=3)
        add(main, parts, "random")
    for i, c in enumerate(cases):
        c["id"] = i
    dist = {"exhaustive": False}
    for c in cases:
        dist[c["why"]] = dist.get(c["why"], 0) + 1
    return cases, dist


def case_ir(c, resp):
    return tpl.case_ir(c, resp)


def spec_check(c, resp):
    cls, acc = observed(resp)
    inp = {"template": tpl.body_text(c["tpl"]), "data": c["data"], "partials": [[n, b if isinstance(b, str) else tpl.body_text(b)] for n, b in c["partials"]]}
    if cls == 2:
        return {"what": "render panicked", "input": inp, "observed": resp.get("panic")}
    parts = dict((n, None if isinstance(b, str) else b) for n, b in c["partials"])
    try:
        want = pyref.run(c["tpl"], dict((k, v) for k, v in c["data"]), parts)
    except NotImplementedError:
        return None
    if want[0] == "err":
        if cls != 1:
            return {"what": "a missing / broken partial or a failing lookup on an executed path did not fail the render", "input": inp, "observed": acc}
        return None
    if cls != 0 or acc != want[1]:
        return {"what": "output differs from: include = inline in the caller's scope, render = isolated scope with only its arguments (%s)" % c["why"],
                "input": inp, "observed": acc if cls == 0 else resp, "expected": want[1]}
    return None


def nontrivial(c, resp):
    src = tpl.body_text(c["tpl"])
    return ("include" in src or "render" in src) and observed(resp)[0] == 0
