(* C01 — Parsing is total: any text yields a template or an error, never a crash.
   Statements only; proofs in proofs/PegProofs.v, proofs/PegTotal.v and proofs/BlockProofs.v.

   Two layers, as in the code.
   (1) The grammar: coq/gen/Grammar.v (regenerated from crates/core/src/parser/grammar.pest on every run,
       together with a termination certificate: which rules can match the empty text, and a rank that
       decreases along every call made before a character is consumed) under the pest semantics of
       model/Peg.v.  Proved, for every text:
       - pest's evaluation of the lax top-level rule finishes, and finishes with a match of the whole
         text (lax_parse_total) — so `LiquidParser::parse(Rule::LaxLiquidFile, ..).expect(..)` in
         parser.rs cannot fail; every rule of the grammar terminates from every position
         (every_rule_terminates); the theorem behind both is generic: any grammar with a certificate
         that the boolean checker wf_cert accepts terminates on every text (pest_terminates);
       - the semantics is a function of the text alone: more fuel never changes an answer, and
         lookahead mode changes the pair stream only, never what is matched;
       - integer literals: only numerals of the signed 64-bit range are converted (C07
         integer_conversion_in_range), the others are rejected by the guard added in the repair.
   (2) The block machinery above the pair stream: model/BlockParse.v transcribes parse(), TagBlock::next,
       escape_liquid, parse_all, assert_empty, BlockElement::parse_pair and the element loops of
       if/unless/case/for/tablerow/capture/ifchanged/comment/raw over the shared iterator, with every
       expect/assert!/panic! of that code as an explicit Panic outcome and the verdict of each element's own
       argument parser as an input bit.  Proved: for every element stream (any elements, then the EOI pest
       always appends) and every combination of those verdicts, the outcome is a template or an error —
       never a panic, and never out of fuel (blocks_never_panic).  Tied to the code by the C01/blocks
       correspondence (tools/props/c01.py: element stream and verdict bits observed on the implementation,
       outcome class of the model == outcome class of parse()).
   (3) Between the two: model/PegTree.v reads the same evaluator as a pair TREE (what `into_inner()` walks)
       and proofs/TreeProofs.v shows that its pre-order flattening is the pair stream of (1), that a static
       analysis of any grammar bounds the number and the rules of every pair's children position by position
       (children_analysis_sound), and, for liquid's grammar, that every pair anywhere in any parse tree has
       the children parser.rs takes for granted at its `.next().expect(..)` / `unreachable!()` /
       `panic!("Expected ..")` sites (children_as_expected: Tag -> [TagInner], TagInner -> Identifier then tag
       tokens, Expression -> [ExpressionInner] -> [FilterChain], FilterChain -> Value then Filters,
       Filter -> Identifier then arguments, KeywordFilterArgument -> [Identifier; Value],
       PositionalFilterArgument -> [Value], Value -> [Literal | Variable], Literal -> exactly one of the seven
       literal rules, Variable -> Identifier then Identifier | Value, Range -> [Value; Value]); the top of
       the tree is one LaxLiquidFile pair whose children are elements followed by exactly one EOI
       (lax_tree_shape), which is the stream (2) quantifies over; parse_total_composed states (1)+(2)
       together for every text.
   PARTIAL in this sense: the argument parsers of the individual tags (TagTokenIter, expect_*,
   parse_condition, the for/tablerow/cycle/include argument grammars) and the filter-chain construction
   are not modelled; their panic freedom is explored by the enumeration of tools/props/c01.py
   (catch_unwind, exit status, time limit), not proved. *)
From LV Require Import Base Peg PegTree Grammar PegProofs PegTotal BlockParse BlockProofs TreeProofs TreeShape.


Theorem lax_grammar_never_rejects : forall fuel s,
  parse liquid_grammar liquid_ws fuel r_LaxLiquidFile s <> Some None.
Proof. exact PegProofs.lax_never_rejects. Qed.
Theorem lax_grammar_consumes_everything : forall fuel s rest pos ts,
  parse liquid_grammar liquid_ws fuel r_LaxLiquidFile s = Some (Some (rest, pos, ts)) -> rest = [].
Proof. exact PegProofs.lax_consumes_everything. Qed.
(* what is not an element is an invalid character: the choice never fails before the end of the text *)
Theorem element_or_invalid : forall f c s pos,
  ev liquid_grammar liquid_ws f Compound false (PAlt (PRef r_Element) (PRef r_InvalidLiquid)) (c :: s) pos <> Some None.
Proof. exact PegProofs.lax_item_never_fails. Qed.
(* the semantics does not depend on the fuel, for any grammar *)
Theorem more_fuel_same_answer : forall g ws f f' at_ la e s pos r, f <= f' ->
  ev g ws f at_ la e s pos = Some r -> ev g ws f' at_ la e s pos = Some r.
Proof. exact PegProofs.ev_mono_le. Qed.
(* lookahead changes the pairs only *)
Theorem lookahead_matches_the_same : forall g ws f at_ e s pos r, ev g ws f at_ true e s pos = Some r ->
  exists r', ev g ws f at_ false e s pos = Some r' /\ shape r' = shape r.
Proof. exact PegProofs.ev_la_shape. Qed.


(* termination of pest, for any grammar that carries a checked certificate ... *)
Theorem pest_terminates : forall g ws hint rank K, wf_cert g ws hint rank K = true ->
  forall e s at_ la pos, stars_ok g hint e = true ->
  exists f r, forall f', f <= f' -> ev g ws f' at_ la e s pos = Some r.
Proof. exact PegTotal.terminates. Qed.
(* ... for liquid's grammar: the top-level parse finishes, matching the whole text ... *)
Theorem lax_parse_total : forall s, exists f, forall f', f <= f' ->
  exists pos ts, parse liquid_grammar liquid_ws f' r_LaxLiquidFile s = Some (Some ([], pos, ts)).
Proof. exact PegTotal.lax_parse_total. Qed.
(* ... and so does every rule, in every mode, from every position *)
Theorem every_rule_terminates : forall n s at_ la pos, n < length liquid_grammar ->
  exists f r, forall f', f <= f' -> ev liquid_grammar liquid_ws f' at_ la (PRef n) s pos = Some r.
Proof. exact PegTotal.every_rule_terminates. Qed.

(* the block machinery: a template or an error, for every element stream and every verdict of the
   argument parsers; in particular assert_empty's assertion, escape_liquid's panic! and the
   "File shouldn't end before EOI" expectation are never reached *)
Theorem blocks_never_panic : forall body, Forall (fun e => e <> EEOI) body ->
  parse_elements (body ++ [EEOI]) = POk \/ parse_elements (body ++ [EEOI]) = PErr.
Proof. exact BlockProofs.blocks_total. Qed.
(* the same for every state the loops can be in, with the fuel each needs *)
Theorem blocks_invariant : forall n,
  (forall e it, e <> EEOI -> live it = true -> efacts n it (parse_elem n e it)) /\
  (forall k, lok n (parse_all n k)) /\ (forall c, lok n (parse_if n c)) /\
  (forall k b, lok n (else_loop n k b)) /\ lok n (case_loop n) /\ lok n (comment_loop n).
Proof. exact BlockProofs.blocks_inv. Qed.

(* the pair tree and the pair stream are the same object *)
Theorem pair_tree_flattens_to_pair_stream : forall f start s,
  parse liquid_grammar liquid_ws f start s = flat_res (parse_tree liquid_grammar liquid_ws f start s).
Proof. exact TreeShape.parse_tree_flat. Qed.
(* the children analysis is sound for every grammar, rule, mode and text *)
Theorem children_analysis_sound : forall g ws f at_ e s pos s' p' F, evf g ws f at_ false e s pos = Some (Some (s', p', F)) ->
  forall K A, abs g K at_ e = Some A -> sat A (roots F).
Proof. exact TreeProofs.abs_sound. Qed.
(* every pair, at any depth of any parse tree of liquid's grammar, has the children parser.rs expects *)
Theorem children_as_expected : forall f start s rest p F t k cs,
  parse_tree liquid_grammar liquid_ws f start s = Some (Some (rest, p, F)) ->
  In t F -> within (TNode k cs) t -> children_spec (t_rule k) (roots cs).
Proof. exact TreeShape.children_as_expected. Qed.
Theorem lax_tree_shape : forall f s rest p F,
  parse_tree liquid_grammar liquid_ws f r_LaxLiquidFile s = Some (Some (rest, p, F)) ->
  exists body, F = [TNode (mkTok r_LaxLiquidFile 0 p) (body ++ [TNode (mkTok eoi_id p p) []])] /\
               Forall (fun t => In (root t) [r_Expression; r_Tag; r_Raw; r_InvalidLiquid]) body.
Proof. exact TreeShape.lax_tree_shape. Qed.
(* grammar and block machinery together, for every text: the parse finishes with one tree, its elements end
   with the only EOI, and whatever the tags are and whatever their argument parsers answer, the block
   machinery returns a template or an error *)
Theorem parse_total_composed : forall s, exists f, forall f', f <= f' ->
  exists p body,
    parse_tree liquid_grammar liquid_ws f' r_LaxLiquidFile s =
      Some (Some ([], p, [TNode (mkTok r_LaxLiquidFile 0 p) (body ++ [TNode (mkTok eoi_id p p) []])])) /\
    Forall (fun t => In (root t) [r_Expression; r_Tag; r_Raw; r_InvalidLiquid]) body /\
    forall alpha, faithful alpha ->
      parse_elements (map alpha (body ++ [TNode (mkTok eoi_id p p) []])) = POk \/
      parse_elements (map alpha (body ++ [TNode (mkTok eoi_id p p) []])) = PErr.
Proof. exact TreeShape.parse_total_composed. Qed.

(* non-vacuity of the tree theorems: the tree of {{ a.b | f: 1, k: 'v' }}{% if (1..2) %} has the nodes in question *)
Example tree_nonvacuous :
  match parse_tree liquid_grammar liquid_ws 400 r_LaxLiquidFile
          [123;123;32;97;46;98;32;124;32;102;58;32;49;44;32;107;58;32;39;118;39;32;125;125;123;37;32;105;102;32;40;49;46;46;50;41;32;37;125]%N with
  | Some (Some ([], _, [TNode _ cs])) =>
      roots cs = [r_Expression; r_Tag; eoi_id] /\
      (forall n, In n [r_Variable; r_Filter; r_KeywordFilterArgument; r_PositionalFilterArgument; r_Literal; r_Range; r_TagInner] ->
                 existsb (fun t => Nat.eqb (t_rule t) n) (flats cs) = true)
  | _ => False
  end.
Proof. vm_compute. split; [reflexivity|]. intros n H. repeat (destruct H as [<-|H]; [reflexivity|]). destruct H. Qed.

(* non-vacuity of the block theorem: streams on which the pinned code panicked
   ({% comment %}{% if x %} ; {% comment %}{% raw %}{% endcomment %} ; an invalid token in a block in a comment)
   are errors / templates here, and an unclosed block is an error *)
Example blocks_nonvacuous :
  parse_elements [ETag KComment true true; ETag KIf true false; EEOI] = PErr /\
  parse_elements [ETag KComment true true; ETag KRaw true true; ETag KEndcomment true true; EEOI] = PErr /\
  parse_elements [ETag KComment true true; ETag KIf true false; EInv; ETag KEndif true true; ETag KEndcomment true true; EEOI] = POk /\
  parse_elements [ETag KCase true false; ETag KWhen true false; ERaw; ETag KElse true true; EExp true; ETag KEndcase true true; EEOI] = POk /\
  parse_elements [ETag KFor true false; ETag KElse true false; ETag KEndfor true true; EEOI] = PErr.
Proof. vm_compute. repeat split; reflexivity. Qed.

(* non-vacuity: a text with an unterminated output tag and a 20-digit literal is matched entirely,
   with InvalidLiquid pairs, and ends with the EOI pair the block parsers rely on *)
Example c01_nonvacuous :
  match parse liquid_grammar liquid_ws 400 r_LaxLiquidFile
          [123;123;32;98;97;100;32;123;37;32;105;102;32;57;57;57;57;57;57;57;57;57;57;57;57;57;57;57;57;57;57;57;57;32;37;125]%N with
  | Some (Some (rest, pos, ts)) =>
      rest = [] /\ pos = 36 /\ existsb (fun t => Nat.eqb (t_rule t) r_InvalidLiquid) ts = true /\
      existsb (fun t => Nat.eqb (t_rule t) r_IntegerLiteral) ts = true /\
      (match rev ts with t :: _ => t_rule t = eoi_id | [] => False end)
  | _ => False
  end.
Proof. vm_compute. repeat split; reflexivity. Qed.

Print Assumptions lax_grammar_never_rejects.
Print Assumptions lax_grammar_consumes_everything.
Print Assumptions element_or_invalid.
Print Assumptions more_fuel_same_answer.
Print Assumptions lookahead_matches_the_same.
Print Assumptions pest_terminates.
Print Assumptions lax_parse_total.
Print Assumptions every_rule_terminates.
Print Assumptions blocks_never_panic.
Print Assumptions blocks_invariant.
Print Assumptions pair_tree_flattens_to_pair_stream.
Print Assumptions children_analysis_sound.
Print Assumptions children_as_expected.
Print Assumptions lax_tree_shape.
Print Assumptions parse_total_composed.
