(* C01 — Parsing is total: any text yields a template or an error, never a crash.
   Statements only; proofs in proofs/PegProofs.v, about coq/gen/Grammar.v (regenerated from
   crates/core/src/parser/grammar.pest on every run) under the pest semantics of model/Peg.v.

   PARTIAL.  Proved, for every text:
     - the lax top-level grammar never rejects: whenever its evaluation finishes it has matched, and
       it has matched the whole text — so `LiquidParser::parse(Rule::LaxLiquidFile, ..).expect(..)`
       in parser.rs cannot meet a grammar failure, and every element the block parsers see is one of
       Expression / Tag / Raw / InvalidLiquid followed by exactly one EOI;
     - the semantics is a function of the text alone: more fuel never changes an answer, and
       lookahead mode changes the pair stream only, never what is matched;
     - integer literals: only numerals of the signed 64-bit range are converted (C07
       integer_conversion_in_range), the others are rejected by the guard added in the repair.
   Not proved: that pest's evaluation of this grammar always finishes (no rule is left-recursive
   and every repetition consumes; the correspondence runs evaluate ~10^5 texts with a fuel linear
   in the length and never ran out), and the panic freedom of the recursive-descent code in
   parser.rs and the tag/block `parse` methods above the pair stream, which is explored by the
   enumeration of tools/props/c01.py (catch_unwind, exit status, time limit), not modelled. *)
From LV Require Import Base Peg Grammar PegProofs.

Theorem lax_grammar_never_rejects : forall fuel s,
  parse liquid_grammar liquid_ws fuel r_LaxLiquidFile s <> Some None.
Proof. exact PegProofs.lax_never_rejects. Qed.
Theorem lax_grammar_consumes_everything : forall fuel s rest pos ts,
  parse liquid_grammar liquid_ws fuel r_LaxLiquidFile s = Some (Some (rest, pos, ts)) -> rest = [].
Proof. exact PegProofs.lax_consumes_everything. Qed.
(* what is not an element is an invalid character: the choice never fails before the end of the text *)
Theorem element_or_invalid : forall f c s pos,
  ev liquid_grammar liquid_ws f Compound false (PAlt (PRef r_Element) (PRef r_InvalidLiquid)) (c :: s) pos <> Some None.
Proof. exact PegProofs.lax_item_never_fails. Qed.
(* the semantics does not depend on the fuel, for any grammar *)
Theorem more_fuel_same_answer : forall g ws f f' at_ la e s pos r, f <= f' ->
  ev g ws f at_ la e s pos = Some r -> ev g ws f' at_ la e s pos = Some r.
Proof. exact PegProofs.ev_mono_le. Qed.
(* lookahead changes the pairs only *)
Theorem lookahead_matches_the_same : forall g ws f at_ e s pos r, ev g ws f at_ true e s pos = Some r ->
  exists r', ev g ws f at_ false e s pos = Some r' /\ shape r' = shape r.
Proof. exact PegProofs.ev_la_shape. Qed.

(* non-vacuity: a text with an unterminated output tag and a 20-digit literal is matched entirely,
   with InvalidLiquid pairs, and ends with the EOI pair the block parsers rely on *)
Example c01_nonvacuous :
  match parse liquid_grammar liquid_ws 400 r_LaxLiquidFile
          [123;123;32;98;97;100;32;123;37;32;105;102;32;57;57;57;57;57;57;57;57;57;57;57;57;57;57;57;57;57;57;57;57;32;37;125]%N with
  | Some (Some (rest, pos, ts)) =>
      rest = [] /\ pos = 36 /\ existsb (fun t => Nat.eqb (t_rule t) r_InvalidLiquid) ts = true /\
      existsb (fun t => Nat.eqb (t_rule t) r_IntegerLiteral) ts = true /\
      (match rev ts with t :: _ => t_rule t = eoi_id | [] => False end)
  | _ => False
  end.
Proof. vm_compute. repeat split; reflexivity. Qed.

Print Assumptions lax_grammar_never_rejects.
Print Assumptions lax_grammar_consumes_everything.
Print Assumptions element_or_invalid.
Print Assumptions more_fuel_same_answer.
Print Assumptions lookahead_matches_the_same.
