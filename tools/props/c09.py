"""C09 — rendering is repeatable: no state survives from one render into another."""
import itertools, json, random
from props import tpl, scen
import lv

PROP = "C09"
TARGETS = ["props/C09.vo", "corr/Rendercorr.vo"]
HEADER = "From LV Require Import Corr Eval Rendercorr.\n"
CHECKER = "render_check"
TRUSTED = [
    "model/Partials.v transcribes partials/lazy.rs (the only state that legitimately survives a render); src/template.rs builds a fresh runtime per call, so registers, counters and the global layer live inside one call of the model's render_top",
    "whether the implementation hides other surviving state is exactly what the history streams test; iteration order of multi-key objects is excluded, as in the property",
]
RULE = ("histories r1..rk over 2-4 templates x 2-3 data objects sharing ONE parser (lazy store): exhaustive for k <= 2 (3 in thorough) and random up to k = 6, with stateful constructs (cycle, increment, ifchanged, pending break, capture, assign) "
        "and renders that fail midway (after a break in a loop, inside capture, inside a partial); every call is compared with a freshly built parser and with the model; non-trivial = a history with at least two calls whose templates differ or fail")


def main(tier, seed):
    rnd = random.Random(seed)
    run = lv.Run(PROP, tier, seed)
    run.trusted = lv.COMMON_TRUSTED + TRUSTED
    lv.standard_proof_phase(run, PROP, TARGETS, thorough=(tier == "thorough"))
    ok, binp, out, dt = lv.build_harness("debug")
    if not ok:
        run.obligation(False, "harness build against /repo", out[-3000:])
        return run.finish()
    scenarios = scen.fixed_scenarios() + [scen.random_scenario(rnd) for _ in range(12 if tier == "quick" else 150)]
    reqs = []
    K = 2 if tier == "quick" else 3
    for si, sc in enumerate(scenarios):
        pairs = [(t, d) for t in range(len(sc["templates"])) for d in range(len(sc["datas"]))]
        hs = []
        for k in range(1, K + 1):
            hs += [list(h) for h in itertools.product(pairs, repeat=k)] if (si < 2 or k <= 1 or tier != "quick") else []
        for _ in range(60 if tier == "quick" else 400):
            hs.append([rnd.choice(pairs) for _ in range(rnd.randint(2, 6))])
        for h in hs:
            reqs.append({"id": len(reqs), "kind": "history", "si": si, "partials": scen.partials_req(sc), "policy": "lazy",
                         "templates": [tpl.body_text(t) for t in sc["templates"]], "datas": sc["datas"], "calls": [list(p) for p in h]})
    resps, problems = lv.run_harness(binp, reqs, tag="C09")
    for pb in problems:
        run.violations.append({"what": "implementation process died during a history", "observed": pb["tail"]})
    seen = {}
    nontriv = 0
    calls = 0
    samples = []
    for q in reqs:
        r = resps.get(q["id"])
        if r is None:
            continue
        if "panic" in r or "build_err" in r:
            run.violations.append({"what": "panic / build failure", "input": q, "observed": r})
            continue
        if len(q["calls"]) >= 2 and len(set(map(tuple, q["calls"]))) >= 2:
            nontriv += 1
        if len(samples) < 2 and len(q["calls"]) >= 3:
            samples.append({"history": q["calls"], "templates": q["templates"], "results": r["results"][:3]})
        res = [x for x in r["results"] if "data_changed" not in x]
        for x in r["results"]:
            if "data_changed" in x:
                run.violations.append({"what": "the caller's data object was modified by a render", "input": q, "observed": x})
        for i, (call, got, fresh) in enumerate(zip(q["calls"], res, r["fresh"])):
            calls += 1
            if got != fresh:
                run.violations.append({"what": "a render after other renders differs from the same render on a freshly built parser (state leaked between renders)",
                                       "input": {"history": q["calls"][:i + 1], "templates": q["templates"], "datas": q["datas"], "partials": q["partials"]},
                                       "observed": got, "expected": fresh})
            key = (q["si"], call[0], call[1])
            if key in seen and seen[key] != got:
                run.violations.append({"what": "the same (template, data) gave two different results in two histories", "input": {"history": q["calls"], "templates": q["templates"]},
                                       "observed": got, "expected": seen[key]})
            seen.setdefault(key, got)
    # the model's history-independent prediction for every distinct (template, data)
    irs, keys = [], []
    for (si, ti, di), got in seen.items():
        sc = scenarios[si]
        c = {"tpl": sc["templates"][ti], "data": sc["datas"][di], "partials": sc["partials"]}
        irs.append(tpl.case_ir(c, got))
        keys.append((si, ti, di))
    okd, drv, dout, ddt = lv.build_driver()
    run.obligation(okd, "extraction of the model and driver build", dout[-3000:])
    failing = []
    if okd:
        failing, errors = lv.run_driver(drv, CHECKER, [lv.to_sexp(t) for t in irs], tag="C09")
        run.obligation(not errors, "correspondence suite C09 evaluated by the extracted model", json.dumps(errors)[:3000])
        idx = sorted(set(failing[:20]) | set(random.Random(seed).sample(range(len(irs)), min(len(irs), 100))))
        cfail, cproblems = lv.run_coq_cases("C09", HEADER, [lv.to_coq(irs[i]) for i in idx], check_fn=CHECKER, shard_size=50)
        run.obligation(not cproblems and sorted(idx[j] for j in cfail) == sorted(i for i in failing if i in set(idx)),
                       "extracted driver agrees with vm_compute inside Coq on %d sampled cases" % len(idx), json.dumps(cproblems)[:2000])
        for i in failing[:5]:
            si, ti, di = keys[i]
            run.broken.append({"obligation": "correspondence C09: model and implementation disagree", "input": {"template": tpl.body_text(scenarios[si]["templates"][ti]), "data": scenarios[si]["datas"][di],
                                                                                                                "partials": scen.partials_req(scenarios[si])}, "implementation": seen[keys[i]]})
    run.obligation(okd and not failing, "correspondence C09: the model's history-independent result == every call's result", "%d disagreements" % len(failing))
    run.coverage.update({"evaluations": calls, "distinct_nontrivial": nontriv, "rule": RULE, "samples": samples, "traces_validated_against_impl": len(reqs),
                         "disagreements_checked": len(failing), "exhaustive": True,
                         "input_distribution": {"scenarios": len(scenarios), "histories": len(reqs), "render_calls": calls, "distinct_template_data_pairs": len(seen)}})
    return run.finish()
