//! lvh — executes verification cases against the liquid-rust working tree in /repo.
//! Reads one JSON request per line from the file given as argv[1] (or stdin), writes one
//! JSON response per line to stdout.  Every request runs inside catch_unwind.
mod cmp;
mod lex;
mod multi;
mod oracle;
mod render;
mod stack;
mod val;
mod views;

use serde_json::{json, Value as J};
use std::io::{BufRead, Write};
use std::panic::{catch_unwind, AssertUnwindSafe};

fn dispatch(req: &J) -> J {
    match req["kind"].as_str().unwrap_or("") {
        "stack" => stack::run(req),
        "cmp" => cmp::run(req),
        "oracle" => oracle::run(req),
        "render" => render::run(req),
        "history" => multi::history(req),
        "threads" => multi::threads(req),
        "lex" => lex::run(req),
        "elements" => lex::elements(req),
        "views" => views::run(req),
        "derive" => views::derive(req),
        "derive2" => views::derive2(req),
        "ints" => views::ints(req),
        "parse" => match render::build_parser(req) {
            Err(e) => json!({"build_err": e}),
            Ok(p) => match p.parse(req["tpl"].as_str().unwrap()) {
                Ok(_) => json!({"parsed": true}),
                Err(e) => json!({"parse_err": e.to_string()}),
            },
        },
        "dateparse" => {
            // DateTime::from_str on a text: the components, or null
            match liquid_core::model::DateTime::from_str(req["text"].as_str().unwrap()) {
                Some(d) => json!({"dt": val::scalar_to_json(&liquid_core::model::Scalar::new(d))}),
                None => json!({"dt": null}),
            }
        }
        k => json!({"error": format!("unknown kind {}", k)}),
    }
}

fn main() {
    std::panic::set_hook(Box::new(|_| {}));
    let args: Vec<String> = std::env::args().collect();
    let input: Box<dyn BufRead> = if args.len() > 1 {
        Box::new(std::io::BufReader::new(std::fs::File::open(&args[1]).expect("open input")))
    } else {
        Box::new(std::io::BufReader::new(std::io::stdin()))
    };
    let stdout = std::io::stdout();
    let mut out = std::io::BufWriter::new(stdout.lock());
    for line in input.lines() {
        let line = line.expect("read");
        if line.trim().is_empty() {
            continue;
        }
        let req: J = serde_json::from_str(&line).expect("request json");
        let id = req["id"].clone();
        let mut resp = match catch_unwind(AssertUnwindSafe(|| dispatch(&req))) {
            Ok(r) => r,
            Err(e) => {
                let msg = e
                    .downcast_ref::<String>()
                    .cloned()
                    .or_else(|| e.downcast_ref::<&str>().map(|s| s.to_string()))
                    .unwrap_or_default();
                json!({"panic": msg})
            }
        };
        resp["id"] = id;
        writeln!(out, "{}", resp).unwrap();
    }
}
