(* DateProofs.v — lemmas behind props/C17.v: the civil calendar, totality of the strftime
   interpreter, the fraction directives, chronological ordering. *)
From LV Require Import Base Value Strftime BaseLemmas DecimalProofs.
Require Import ZifyBool ZifyNat ZifyN.
Ltac Zify.zify_post_hook ::= Z.div_mod_to_equations.

(* ---- the civil calendar ---- *)
Definition next_day (d : date) : date :=
  if (d_day d <? days_in_month (d_year d) (d_month d))%Z then mkDate (d_year d) (d_month d) (d_day d + 1)
  else if (d_month d <? 12)%Z then mkDate (d_year d) (d_month d + 1) 1
  else mkDate (d_year d + 1) 1 1.

Lemma is_leap_spec y : is_leap y = true <-> ((y mod 4 = 0 /\ y mod 100 <> 0) \/ y mod 400 = 0)%Z.
Proof. unfold is_leap. lia. Qed.

Lemma valid_date_month d : valid_date d = true ->
  (d_month d = 1 \/ d_month d = 2 \/ d_month d = 3 \/ d_month d = 4 \/ d_month d = 5 \/ d_month d = 6 \/
   d_month d = 7 \/ d_month d = 8 \/ d_month d = 9 \/ d_month d = 10 \/ d_month d = 11 \/ d_month d = 12)%Z.
Proof. unfold valid_date. lia. Qed.

Ltac ev t := let v := eval vm_compute in t in change t with v in *.
Ltac closed_bools :=
  repeat match goal with
  | |- context [Z.leb (Zpos ?a) (Zpos ?b)] => ev (Z.leb (Zpos a) (Zpos b))
  | |- context [Z.ltb (Zpos ?a) (Zpos ?b)] => ev (Z.ltb (Zpos a) (Zpos b))
  | |- context [Z.eqb (Zpos ?a) (Zpos ?b)] => ev (Z.eqb (Zpos a) (Zpos b))
  | H : context [Z.leb (Zpos ?a) (Zpos ?b)] |- _ => ev (Z.leb (Zpos a) (Zpos b))
  | H : context [Z.ltb (Zpos ?a) (Zpos ?b)] |- _ => ev (Z.ltb (Zpos a) (Zpos b))
  | H : context [Z.eqb (Zpos ?a) (Zpos ?b)] |- _ => ev (Z.eqb (Zpos a) (Zpos b))
  | |- context [Z.add (Zpos ?a) (Zpos ?b)] => ev (Z.add (Zpos a) (Zpos b))
  end; cbn [orb andb negb d_year d_month d_day] in *.

(* consecutive civil dates are consecutive day numbers — for every year, leap rule included *)
Theorem date_days_next d : valid_date d = true -> date_days (next_day d) = (date_days d + 1)%Z.
Proof.
  intro V. pose proof (valid_date_month d V) as M.
  destruct d as [y m dd]. cbn [d_year d_month d_day] in *.
  unfold valid_date in V. cbn [d_year d_month d_day] in V.
  unfold next_day, date_days. cbn [d_year d_month d_day].
  destruct (is_leap y) eqn:L;
  destruct M as [->|[->|[->|[->|[->|[->|[->|[->|[->|[->|[->| ->]]]]]]]]]]];
    unfold days_in_month in *; rewrite ?L in *; closed_bools;
    match goal with |- context [(dd <? ?k)%Z] => destruct (dd <? k)%Z eqn:E end;
    closed_bools; unfold days_from_civil; closed_bools;
    try (apply is_leap_spec in L);
    try (assert (~ ((y mod 4 = 0 /\ y mod 100 <> 0) \/ y mod 400 = 0)%Z) as L' by (rewrite <- is_leap_spec; congruence));
    lia.
Qed.

Theorem epoch_is_day_zero_and_a_thursday : date_days (mkDate 1970 1 1) = 0%Z /\ wd_mon0 (mkDate 1970 1 1) = 3%Z.
Proof. vm_compute. split; reflexivity. Qed.

Lemma wd_range d : (0 <= wd_mon0 d < 7)%Z.
Proof. unfold wd_mon0. lia. Qed.

(* the weekday advances by one each day, wrapping after Sunday *)
Theorem weekday_next d : valid_date d = true -> wd_mon0 (next_day d) = ((wd_mon0 d + 1) mod 7)%Z.
Proof. intro V. unfold wd_mon0. rewrite (date_days_next d V). lia. Qed.

Ltac month_cases M :=
  destruct M as [->|[->|[->|[->|[->|[->|[->|[->|[->|[->|[->| ->]]]]]]]]]]].

Theorem next_day_valid d : valid_date d = true -> valid_date (next_day d) = true.
Proof.
  intro V. pose proof (valid_date_month d V) as M. destruct d as [y m dd]. cbn [d_year d_month d_day] in *.
  unfold valid_date, next_day in *. cbn [d_year d_month d_day] in *.
  destruct (is_leap y) eqn:L; month_cases M; unfold days_in_month in *; rewrite ?L in *; closed_bools;
    match goal with |- context [(dd <? ?k)%Z] => destruct (dd <? k)%Z eqn:E end; closed_bools;
    unfold days_in_month; rewrite ?L; closed_bools; try reflexivity; try lia;
    destruct (is_leap (y + 1)); lia.
Qed.

Lemma ordinal_range d : valid_date d = true -> (1 <= ordinal d <= 366)%Z.
Proof.
  intro V. pose proof (valid_date_month d V) as M. destruct d as [y m dd]. cbn [d_year d_month d_day] in *.
  unfold valid_date, ordinal in *. cbn [d_year d_month d_day] in *.
  destruct (is_leap y) eqn:L; month_cases M; unfold days_in_month in *; rewrite ?L in *; closed_bools;
    match goal with |- context [cum_days ?k] => ev (cum_days k) end; lia.
Qed.

(* the day of the year counts up from 1 on 1 January to 365 (366 in leap years) on 31 December *)
Theorem ordinal_first_last y :
  ordinal (mkDate y 1 1) = 1%Z /\ ordinal (mkDate y 12 31) = (if is_leap y then 366 else 365)%Z.
Proof. unfold ordinal. cbn [d_year d_month d_day]. closed_bools. ev (cum_days 1). ev (cum_days 12). destruct (is_leap y); cbn [andb]; lia. Qed.
Theorem ordinal_next d : valid_date d = true -> (d_month d <> 12 \/ d_day d <> 31)%Z ->
  ordinal (next_day d) = (ordinal d + 1)%Z.
Proof.
  intros V N. pose proof (valid_date_month d V) as M. destruct d as [y m dd]. cbn [d_year d_month d_day] in *.
  unfold valid_date, ordinal, next_day in *. cbn [d_year d_month d_day] in *.
  destruct (is_leap y) eqn:L; month_cases M; unfold days_in_month in *; rewrite ?L in *; closed_bools;
    match goal with |- context [(dd <? ?k)%Z] => destruct (dd <? k)%Z eqn:E end; closed_bools; rewrite ?L;
    repeat match goal with |- context [cum_days ?k] => ev (cum_days k) end; closed_bools; lia.
Qed.

(* week numbers stay in their documented ranges *)
Theorem week_ranges d : valid_date d = true ->
  (0 <= sunday_week d <= 53 /\ 0 <= monday_week d <= 53 /\ 1 <= snd (iso_year_week d) <= 53)%Z.
Proof.
  intro V. pose proof (ordinal_range d V) as Ho. pose proof (wd_range d) as Hw.
  unfold sunday_week, monday_week, iso_year_week, wd_from_sunday, weeks_in_year.
  repeat split; try lia;
    repeat match goal with |- context [if ?b then _ else _] => destruct b eqn:? end; cbn [snd]; lia.
Qed.

(* ---- chronological order ---- *)
Theorem datetime_order_is_chronological a b :
  scalar_cmp (SDateTime a) (SDateTime b) = Some (Z.compare (dt_instant a) (dt_instant b)) /\
  scalar_eq (SDateTime a) (SDateTime b) = Z.eqb (dt_instant a) (dt_instant b).
Proof. split; reflexivity. Qed.
(* the same instant written with two offsets: shifting the local time by the offset difference *)
Theorem offset_does_not_matter a b : dt_instant a = dt_instant b ->
  scalar_cmp (SDateTime a) (SDateTime b) = Some Eq /\ scalar_eq (SDateTime a) (SDateTime b) = true.
Proof. intro H. cbn [scalar_cmp scalar_eq]. rewrite H, Z.compare_refl, Z.eqb_refl. split; reflexivity. Qed.
Theorem instant_of_components t :
  dt_instant t = (unix_ts t * 1000000000 + dt_nano t)%Z.
Proof. reflexivity. Qed.

(* ---- the interpreter is total: every format, well-formed or not, gives a text or an error ---- *)
Lemma eat_flags_len l : forall f seen f' seen' l1, eat_flags l f seen = Some (f', seen', l1) ->
  length l1 <= length l /\ l1 <> [].
Proof.
  induction l as [|c t IH]; intros f seen f' seen' l1 H; cbn [eat_flags] in H; [discriminate|].
  repeat match type of H with (if ?b then _ else _) = _ => destruct b end;
    try (apply IH in H; cbn [length]; split; [lia|tauto]).
  inversion H; subst. split; [lia|discriminate].
Qed.
Lemma span_digits_len l : forall a b, span_digits l = (a, b) -> length b <= length l.
Proof.
  induction l as [|c t IH]; intros a b H; cbn [span_digits] in H; [inversion H; cbn; lia|].
  destruct (is_digit c); [|inversion H; subst; lia].
  destruct (span_digits t) as [a' b'] eqn:E. inversion H; subst. specialize (IH _ _ eq_refl). cbn [length]. lia.
Qed.
Lemma directive_len t f w c rest : match directive t f w c rest with (_, r, _) => length r <= length rest end.
Proof.
  unfold directive.
  repeat match goal with |- context [if ?b then _ else _] =>
    lazymatch b with context [if _ then _ else _] => fail | _ => destruct b; [cbn [length]; lia|] end end.
  destruct (c =? 58)%N; [|cbn; lia].
  destruct rest as [|x r]; [cbn; lia|].
  destruct x as [|p]; [cbn [length]; lia|].
  repeat (destruct p as [p|p|]; try (cbn [length]; lia)).
  all: destruct r as [|x2 r2]; try (cbn [length]; lia).
  all: destruct x2 as [|p2]; try (cbn [length]; lia).
  all: repeat (destruct p2 as [p2|p2|]; try (cbn [length]; lia)).
Qed.
Lemma after_percent_len t l s r : after_percent t l = Some (s, r) -> length r < length l.
Proof.
  unfold after_percent. destruct (eat_flags l flags0 []) as [[[f seen] l1]|] eqn:E1; [|discriminate].
  apply eat_flags_len in E1. destruct E1 as [L1 N1].
  destruct (span_digits l1) as [ds l2] eqn:E2. pose proof (span_digits_len _ _ _ E2) as L2.
  match goal with |- match ?ww with _ => _ end = _ -> _ => destruct ww as [w|]; [|discriminate] end.
  destruct l2 as [|c0 l3]; [discriminate|]. cbn [length] in L2.
  match goal with |- match ?mm with _ => _ end = _ -> _ => destruct mm as [[[c rest] cs]|] eqn:Em; [|discriminate] end.
  assert (length rest <= length l3) as L3.
  { destruct ((c0 =? 69)%N || (c0 =? 79)%N); [destruct l3 as [|c1 l4]; [discriminate|]; inversion Em; subst; cbn [length]; lia
                                              |inversion Em; subst; lia]. }
  pose proof (directive_len t f w c rest) as Ld.
  destruct (directive t f w c rest) as [[dr r'] extra]. destruct dr; intro H; inversion H; subst; lia.
Qed.

Lemma strftime_fuel_total t : forall fuel l, length l < fuel ->
  (exists o, strftime_fuel fuel t l = Ok o) \/ strftime_fuel fuel t l = Err EInvalidArgument.
Proof.
  induction fuel as [|fu IH]; intros l H; [lia|]. cbn [strftime_fuel].
  destruct l as [|c r]; [left; eauto|]. cbn [length] in H.
  destruct (c =? 37)%N.
  - destruct (after_percent t r) as [[s r']|] eqn:E; [|right; reflexivity].
    apply after_percent_len in E. destruct (IH r' ltac:(lia)) as [[o Ho]|He]; [left|right].
    + rewrite Ho. cbn [bind]. eauto.
    + rewrite He. reflexivity.
  - destruct (IH r ltac:(lia)) as [[o Ho]|He]; [left|right].
    + rewrite Ho. cbn [bind]. eauto.
    + rewrite He. reflexivity.
Qed.
Theorem strftime_total t fmt :
  (exists o, strftime t fmt = Ok o) \/ strftime t fmt = Err EInvalidArgument.
Proof. apply strftime_fuel_total. lia. Qed.

(* text without '%' is copied; a directive's text is followed by the rest of the format's text *)
Lemma strftime_fuel_mono t : forall fuel l r, strftime_fuel fuel t l = r -> r <> OutOfFuel ->
  forall fuel', fuel <= fuel' -> strftime_fuel fuel' t l = r.
Proof.
  induction fuel as [|fu IH]; intros l r H N fuel' Hf; [cbn in H; congruence|].
  destruct fuel' as [|fu']; [lia|]. cbn [strftime_fuel] in *.
  destruct l as [|c rest]; [exact H|].
  destruct (c =? 37)%N.
  - destruct (after_percent t rest) as [[s r']|]; [|exact H].
    destruct (strftime_fuel fu t r') as [o| | |] eqn:E; cbn [bind] in H; subst r; try (exfalso; apply N; reflexivity);
      (match type of E with strftime_fuel _ _ ?x = ?v => assert (X : strftime_fuel fu' t x = v) by (apply (IH _ _ E); [discriminate|lia]); rewrite X; reflexivity end).
  - destruct (strftime_fuel fu t rest) as [o| | |] eqn:E; cbn [bind] in H; subst r; try (exfalso; apply N; reflexivity);
      (match type of E with strftime_fuel _ _ ?x = ?v => assert (X : strftime_fuel fu' t x = v) by (apply (IH _ _ E); [discriminate|lia]); rewrite X; reflexivity end).
Qed.
Lemma strftime_any_fuel t l fuel : length l < fuel -> strftime_fuel fuel t l = strftime t l.
Proof.
  intro H. unfold strftime.
  destruct (Nat.le_ge_cases fuel (S (length l))) as [Hle|Hge].
  - symmetry. apply (strftime_fuel_mono t fuel l _ eq_refl); [|exact Hle].
    destruct (strftime_fuel_total t fuel l H) as [[o Ho]|He]; congruence.
  - apply (strftime_fuel_mono t (S (length l)) l _ eq_refl); [|exact Hge].
    destruct (strftime_fuel_total t (S (length l)) l ltac:(lia)) as [[o Ho]|He]; congruence.
Qed.
Theorem strftime_literal_char t c rest : c <> 37%N ->
  strftime t (c :: rest) = (do o <- strftime t rest; Ok (c :: o)).
Proof.
  intro N. unfold strftime at 1. cbn [length strftime_fuel].
  destruct (N.eqb_spec c 37); [contradiction|]. reflexivity.
Qed.
Lemma strftime_fuel_S fu t l : strftime_fuel (S fu) t l =
  match l with
  | [] => Ok []
  | c :: r => if (c =? 37)%N
              then match after_percent t r with
                   | None => Err EInvalidArgument
                   | Some (s, r') => do o <- strftime_fuel fu t r'; Ok (s ++ o)
                   end
              else do o <- strftime_fuel fu t r; Ok (c :: o)
  end.
Proof. reflexivity. Qed.
Theorem strftime_directive t l s r : after_percent t l = Some (s, r) ->
  strftime t (37%N :: l) = (do o <- strftime t r; Ok (s ++ o)).
Proof.
  intro E. unfold strftime at 1. rewrite strftime_fuel_S. rewrite N.eqb_refl, E.
  rewrite strftime_any_fuel; [reflexivity|]. apply after_percent_len in E. cbn [length]. lia.
Qed.
Theorem strftime_malformed t l : after_percent t l = None -> strftime t (37%N :: l) = Err EInvalidArgument.
Proof. intro E. unfold strftime. rewrite strftime_fuel_S. rewrite N.eqb_refl, E. reflexivity. Qed.
(* a '%' at the very end, or followed only by flags, a width or a modifier, is malformed *)
Theorem trailing_percent_is_error t : strftime t [37%N] = Err EInvalidArgument.
Proof. reflexivity. Qed.

(* ---- unknown directives are echoed ---- *)
(* every character with a meaning after '%': flags, digits, modifiers, ':' and the directives *)
Definition known_chars : list N :=
  [45;95;48;94;35; 49;50;51;52;53;54;55;56;57; 69;79; 58;
   89;67;121;109;100;101;119;117;85;87;71;103;86;106;72;107;73;108;77;83;115;98;104;66;97;65;80;112;
   70;118;82;68;120;84;88;114;99;37;110;116;76;78;122;90]%N.
Lemma not_known c k : existsb (N.eqb c) known_chars = false -> In k known_chars -> (c =? k)%N = false.
Proof.
  intros H Hk. destruct (c =? k)%N eqn:E; [|reflexivity].
  assert (existsb (N.eqb c) known_chars = true) by (apply existsb_exists; eauto). congruence.
Qed.
Ltac in_known := cbv [known_chars In]; repeat (first [left; reflexivity | right]).
Ltac kill_eqb c H :=
  repeat match goal with
         | |- context [(c =? ?k)%N] => rewrite (not_known c k H) by in_known
         end.
Theorem unknown_directive_echoed t c r : existsb (N.eqb c) known_chars = false ->
  after_percent t (c :: r) = Some ([37%N; c], r).
Proof.
  intro H. unfold after_percent. cbn [eat_flags]. kill_eqb c H.
  cbn [span_digits]. unfold is_digit.
  assert (D : ((48 <=? c)%N && (c <=? 57)%N) = false).
  { destruct ((48 <=? c)%N && (c <=? 57)%N) eqn:E; [|reflexivity]. exfalso.
    assert (c = 48 \/ c = 49 \/ c = 50 \/ c = 51 \/ c = 52 \/ c = 53 \/ c = 54 \/ c = 55 \/ c = 56 \/ c = 57)%N as Hc by lia.
    destruct Hc as [->|[->|[->|[->|[->|[->|[->|[->|[->| ->]]]]]]]]]; vm_compute in H; discriminate. }
  rewrite D. kill_eqb c H. cbn [orb]. unfold directive. kill_eqb c H. cbn [orb]. reflexivity.
Qed.
(* in particular every non-ASCII character: the case that used to cut a character in half *)
Theorem non_ascii_directive_echoed t c r : (128 <= c)%N -> after_percent t (c :: r) = Some ([37%N; c], r).
Proof.
  intro H. apply unknown_directive_echoed.
  destruct (existsb (N.eqb c) known_chars) eqn:E; [|reflexivity]. exfalso.
  apply existsb_exists in E. destruct E as [k [Hk Ek]]. apply N.eqb_eq in Ek. subst k.
  assert (forallb (fun k => (k <? 128)%N) known_chars = true) as F by (vm_compute; reflexivity).
  rewrite forallb_forall in F. specialize (F c Hk). lia.
Qed.

(* ---- numbers and fractions ---- *)
Lemma parse_digits_app a : forall b acc, parse_digits (a ++ b) acc =
  match parse_digits a acc with Some z => parse_digits b z | None => None end.
Proof. induction a as [|c a IH]; intros b acc; cbn [app parse_digits]; [reflexivity|]. destruct (is_digit c); [apply IH|reflexivity]. Qed.
Lemma parse_digits_zeros n : parse_digits (rep 48%N n) 0%Z = Some 0%Z.
Proof. induction n as [|n IH]; [reflexivity|]. cbn [rep repeat parse_digits]. exact IH. Qed.
Lemma show_Z_nonneg_parse v : (0 <= v)%Z -> parse_digits (show_Z v) 0%Z = Some v.
Proof.
  intro H. destruct v as [|p|p]; [reflexivity| |lia].
  cbn [show_Z]. rewrite show_N_parse. reflexivity.
Qed.
(* a numeric directive without flags prints a numeral of at least the default width that denotes the value *)
Theorem numeric_directive_denotes width v w : (0 <= v)%Z ->
  let out := fmt_numeric flags0 width v w in
  parse_digits out 0%Z = Some v /\
  length out = Nat.max (match width with Some x => x | None => w end) (length (show_Z v)).
Proof.
  intros H out. unfold out, fmt_numeric, flags0. cbn [use_pad pst pstyle_eqb].
  replace (v <? 0)%Z with false by lia. cbn [andb app]. rewrite Z.abs_eq by exact H.
  unfold digits_of. rewrite Z.abs_eq by exact H. rewrite Nat.add_0_r. split.
  - rewrite parse_digits_app. unfold rep. fold (rep 48%N). rewrite parse_digits_zeros. apply show_Z_nonneg_parse. exact H.
  - rewrite app_length. unfold rep, sat_sub. rewrite repeat_length. destruct width; lia.
Qed.

Lemma pad_left_spec c : forall w s, pad_left c w s = rep c (w - length s) ++ s.
Proof.
  induction w as [|w IH]; intro s; cbn [pad_left].
  - destruct (Nat.leb 0 (length s)); reflexivity.
  - destruct (Nat.leb_spec (S w) (length s)) as [H|H].
    + replace (S w - length s) with 0 by lia. reflexivity.
    + rewrite IH. replace (S w - length s) with (S (w - length s)) by lia. reflexivity.
Qed.
Lemma digits_len f : forall n acc, length (digits_pos_fuel (S f) n acc) = ndig (S f) n + length acc.
Proof.
  induction f as [|f IH]; intros n acc; rewrite digits_S, ndig_S.
  - destruct (n / 10 =? 0)%N; cbn [length digits_pos_fuel ndig]; lia.
  - destruct (n / 10 =? 0)%N; [cbn [length]; lia|]. rewrite IH. cbn [length]. lia.
Qed.
Lemma ndig_bound f : forall n k, (n < 10 ^ N.of_nat k)%N -> 1 <= k -> ndig (S f) n <= k.
Proof.
  induction f as [|f IH]; intros n k Hn Hk; rewrite ndig_S.
  - destruct (n / 10 =? 0)%N; cbn [ndig]; lia.
  - destruct (N.eqb_spec (n / 10) 0) as [E|E]; [lia|].
    destruct k as [|[|k]]; [lia| |].
    + change (10 ^ N.of_nat 1)%N with 10%N in Hn. lia.
    + assert (ndig (S f) (n / 10) <= S k); [|lia]. apply IH; [|lia].
      rewrite (Nat2N.inj_succ (S k)), N.pow_succ_r' in Hn. lia.
Qed.
Lemma show_Z_len v k : (0 <= v < 10 ^ Z.of_nat k)%Z -> 1 <= k -> length (show_Z v) <= k.
Proof.
  intros H Hk. destruct v as [|p|p]; [cbn; lia| |lia]. cbn [show_Z]. unfold show_N.
  rewrite digits_len. cbn [length]. rewrite Nat.add_0_r. apply ndig_bound; [|exact Hk].
  assert (Z.of_N (N.pos p) < Z.of_N (10 ^ N.of_nat k))%Z; [|lia].
  rewrite N2Z.inj_pow. rewrite nat_N_Z. exact (proj2 H).
Qed.
(* %L, %3N, %6N, %N ...: exactly the requested number of digits; up to nine they are the leading
   digits of the nanosecond fraction (truncated, with their leading zeros); beyond nine, zeros *)
Theorem fraction_directive ns n : (0 <= ns < 1000000000)%Z -> 1 <= n ->
  length (fmt_fraction ns n) = n /\
  parse_digits (fmt_fraction ns (Nat.min n 9)) 0%Z = Some (ns / 10 ^ Z.of_nat (9 - Nat.min n 9))%Z /\
  fmt_fraction ns n = fmt_fraction ns (Nat.min n 9) ++ rep 48%N (n - 9).
Proof.
  intros H Hn. unfold fmt_fraction. replace (Nat.min (Nat.min n 9) 9) with (Nat.min n 9) by lia.
  set (sh := Nat.min n 9). assert (1 <= sh <= 9) as Hs by (unfold sh; lia).
  set (v := (ns / 10 ^ Z.of_nat (9 - sh))%Z).
  assert (0 <= v < 10 ^ Z.of_nat sh)%Z as Hv.
  { unfold v. assert (0 < 10 ^ Z.of_nat (9 - sh))%Z by (apply Z.pow_pos_nonneg; lia). split; [apply Z.div_pos; lia|].
    apply Z.div_lt_upper_bound; [lia|]. rewrite <- Z.pow_add_r by lia. replace (Z.of_nat (9 - sh) + Z.of_nat sh)%Z with 9%Z by lia. lia. }
  pose proof (show_Z_len v sh Hv ltac:(lia)) as Hl.
  rewrite pad_left_spec. repeat split.
  - rewrite !app_length. unfold rep. rewrite !repeat_length. unfold sh in *. lia.
  - replace (sh - sh) with 0 by lia. cbn [rep repeat app]. rewrite app_nil_r.
    rewrite parse_digits_app, parse_digits_zeros. apply show_Z_nonneg_parse. lia.
  - replace (sh - sh) with 0 by lia. cbn [rep repeat]. rewrite app_nil_r. f_equal. f_equal. unfold sh. lia.
Qed.

(* ---- the default printed form reads back as the same date-time ---- *)
Lemma digits_all f : forall n acc, forallb is_digit acc = true -> forallb is_digit (digits_pos_fuel (S f) n acc) = true.
Proof.
  induction f as [|f IH]; intros n acc Ha; rewrite digits_S.
  - destruct (n / 10 =? 0)%N; cbn [digits_pos_fuel forallb]; rewrite is_digit_48; exact Ha.
  - destruct (n / 10 =? 0)%N; [cbn [forallb]; rewrite is_digit_48; exact Ha|]. apply IH. cbn [forallb]. rewrite is_digit_48. exact Ha.
Qed.
Lemma show_Z_digits v : (0 <= v)%Z -> forallb is_digit (show_Z v) = true.
Proof. intro H. destruct v as [|p|p]; [reflexivity| |lia]. cbn [show_Z]. unfold show_N. apply digits_all. reflexivity. Qed.
Lemma forallb_rep n : forallb is_digit (rep 48%N n) = true.
Proof. induction n; [reflexivity|]. cbn [rep repeat forallb]. exact IHn. Qed.
Lemma take_num_padz n v rest : (0 <= v < 10 ^ Z.of_nat n)%Z -> 1 <= n ->
  take_num n (padz n v ++ rest) = Some (v, rest).
Proof.
  intros H Hn. unfold padz. replace (v <? 0)%Z with false by lia. rewrite pad_left_spec.
  pose proof (show_Z_len v n H Hn) as Hl.
  set (x := rep 48%N (n - length (show_Z v)) ++ show_Z v).
  assert (Lx : length x = n) by (unfold x, rep; rewrite app_length, repeat_length; lia).
  assert (F : firstn n (x ++ rest) = x) by (rewrite firstn_app, Lx, Nat.sub_diag; cbn [firstn]; rewrite app_nil_r; rewrite <- Lx; apply firstn_all).
  assert (K : skipn n (x ++ rest) = rest) by (rewrite skipn_app, Lx, Nat.sub_diag; cbn [skipn]; rewrite <- Lx, skipn_all; reflexivity).
  assert (forallb is_digit x = true) as D by (unfold x; rewrite forallb_app, forallb_rep, show_Z_digits by lia; reflexivity).
  unfold take_num. rewrite F, K, Lx, Nat.eqb_refl, D. cbn [andb].
  unfold x. rewrite parse_digits_app, parse_digits_zeros, show_Z_nonneg_parse by lia. reflexivity.
Qed.

Definition printable (t : datetime) : Prop :=
  valid_dt t = true /\ (0 <= d_year (dt_date t) <= 9999)%Z /\
  (exists h m, 0 <= h < 100 /\ 0 <= m < 60 /\ Z.abs (dt_off t) = h * 3600 + m * 60)%Z.

(* PARTIAL: proved for whole seconds; with a fractional part the printed digits are the nine-digit
   fraction with trailing zeros removed and the reader scales them back — that half is checked by
   the correspondence on every sub-second value of the generator, not proved *)
Theorem display_parse_roundtrip_whole_seconds t : printable t -> dt_nano t = 0%Z ->
  parse_default (show_datetime t) = Some t.
Proof.
  intros [V [Y [h [m [Hh [Hm Ho]]]]]] Hn.
  destruct t as [[y mo d] hh mi ss ns off]. cbn [dt_date dt_nano dt_off d_year] in *. subst ns.
  pose proof V as V0. unfold valid_dt, valid_date in V. cbn [dt_date dt_hour dt_min dt_sec dt_nano d_year d_month d_day] in V.
  assert (d <= 31)%Z as Hd by (unfold days_in_month in V; destruct (mo =? 2)%Z; [destruct (is_leap y)|destruct ((mo =? 4) || (mo =? 6) || (mo =? 9) || (mo =? 11))%Z]; lia).
  unfold show_datetime, show_date. cbn [dt_date dt_hour dt_min dt_sec dt_nano dt_off d_year d_month d_day]. cbn [Z.eqb].
  unfold parse_default. rewrite <- !app_assoc.
  rewrite take_num_padz by (change (10 ^ Z.of_nat 4)%Z with 10000%Z; lia). cbn [app expect_c]. rewrite N.eqb_refl.
  rewrite take_num_padz by (change (10 ^ Z.of_nat 2)%Z with 100%Z; lia). cbn [app expect_c]. rewrite N.eqb_refl.
  rewrite take_num_padz by (change (10 ^ Z.of_nat 2)%Z with 100%Z; lia). cbn [app expect_c]. rewrite N.eqb_refl.
  rewrite take_num_padz by (change (10 ^ Z.of_nat 2)%Z with 100%Z; lia). cbn [app expect_c]. rewrite N.eqb_refl.
  rewrite take_num_padz by (change (10 ^ Z.of_nat 2)%Z with 100%Z; lia). cbn [app expect_c]. rewrite N.eqb_refl.
  rewrite take_num_padz by (change (10 ^ Z.of_nat 2)%Z with 100%Z; lia). cbn [app expect_c].
  change (32 =? 46)%N with false. cbn iota. rewrite N.eqb_refl.
  unfold show_offset. cbn [app].
  assert (Z.abs off / 3600 = h /\ (Z.abs off / 60) mod 60 = m)%Z as [Eh Em] by lia.
  rewrite Eh, Em.
  destruct (off <? 0)%Z eqn:Sg.
  - change ((45 =? 43)%N || (45 =? 45)%N) with true. cbn iota.
    rewrite take_num_padz by (change (10 ^ Z.of_nat 2)%Z with 100%Z; lia).
    rewrite <- (app_nil_r (padz 2 m)). rewrite take_num_padz by (change (10 ^ Z.of_nat 2)%Z with 100%Z; lia).
    change (45 =? 45)%N with true. cbn iota.
    replace (-1 * (h * 3600 + m * 60))%Z with off by lia. rewrite V0. replace (m <? 60)%Z with true by lia. reflexivity.
  - change ((43 =? 43)%N || (43 =? 45)%N) with true. cbn iota.
    rewrite take_num_padz by (change (10 ^ Z.of_nat 2)%Z with 100%Z; lia).
    rewrite <- (app_nil_r (padz 2 m)). rewrite take_num_padz by (change (10 ^ Z.of_nat 2)%Z with 100%Z; lia).
    change (43 =? 45)%N with false. cbn iota.
    replace (1 * (h * 3600 + m * 60))%Z with off by lia. rewrite V0. replace (m <? 60)%Z with true by lia. reflexivity.
Qed.

(* ---- the sub-second half of the round trip ---- *)
Lemma strip_trailing_spec s : exists k, s = strip_trailing 48%N s ++ rep 48%N k.
Proof.
  induction s as [|x t [k IH]]; [exists 0; reflexivity|]. cbn [strip_trailing].
  destruct (strip_trailing 48%N t) as [|y t'] eqn:E.
  - cbn [app] in IH. destruct (N.eqb_spec x 48) as [->|N].
    + exists (S k). rewrite IH at 1. reflexivity.
    + exists k. rewrite IH at 1. reflexivity.
  - exists k. rewrite IH at 1. reflexivity.
Qed.
Lemma parse_digits_rep0 k : forall acc, parse_digits (rep 48%N k) acc = Some (acc * 10 ^ Z.of_nat k)%Z.
Proof.
  induction k as [|k IH]; intro acc; [cbn; f_equal; lia|].
  cbn [rep repeat parse_digits]. change (is_digit 48%N) with true. cbn iota. fold (rep 48%N k). rewrite IH.
  f_equal. rewrite Nat2Z.inj_succ, Z.pow_succ_r by lia. change (Z.of_N (48 - 48)) with 0%Z. lia.
Qed.
Lemma forallb_app_l {A} (f : A -> bool) a b : forallb f (a ++ b) = true -> forallb f a = true.
Proof. rewrite forallb_app. intro H. apply andb_true_iff in H. exact (proj1 H). Qed.
Lemma span_digits_app a c rest : forallb is_digit a = true -> is_digit c = false -> span_digits (a ++ c :: rest) = (a, c :: rest).
Proof.
  induction a as [|x a IH]; intros Ha Hc; cbn [app span_digits].
  - rewrite Hc. reflexivity.
  - cbn [forallb] in Ha. apply andb_true_iff in Ha as [Hx Ha]. rewrite Hx, (IH Ha Hc). reflexivity.
Qed.
Lemma parse_digits_some a : forallb is_digit a = true -> forall acc, exists z, parse_digits a acc = Some z.
Proof.
  induction a as [|x a IH]; intros Ha acc; [eexists; reflexivity|]. cbn [forallb] in Ha. apply andb_true_iff in Ha as [Hx Ha].
  cbn [parse_digits]. rewrite Hx. apply IH, Ha.
Qed.
(* nine digits with the trailing zeros removed: at least one digit is left, and scaling it back gives the value *)
Lemma fraction_digits ns : (0 < ns < 1000000000)%Z ->
  let a := strip_trailing 48%N (pad_left 48%N 9 (show_Z ns)) in
  forallb is_digit a = true /\ 1 <= length a <= 9 /\ scale9 (firstn 9 a) = ns.
Proof.
  intros H a. set (s9 := pad_left 48%N 9 (show_Z ns)) in *.
  assert (L9 : length s9 = 9).
  { unfold s9. rewrite pad_left_spec. pose proof (show_Z_len ns 9 ltac:(change (10 ^ Z.of_nat 9)%Z with 1000000000%Z; lia) ltac:(lia)).
    unfold rep. rewrite app_length, repeat_length. lia. }
  assert (D9 : forallb is_digit s9 = true) by (unfold s9; rewrite pad_left_spec, forallb_app, forallb_rep, show_Z_digits by lia; reflexivity).
  assert (P9 : parse_digits s9 0%Z = Some ns) by (unfold s9; rewrite pad_left_spec, parse_digits_app, parse_digits_zeros; apply show_Z_nonneg_parse; lia).
  destruct (strip_trailing_spec s9) as [k Hk]. fold a in Hk.
  assert (Da : forallb is_digit a = true) by (rewrite Hk in D9; exact (forallb_app_l _ _ _ D9)).
  assert (Lk : length a + k = 9) by (rewrite Hk in L9; unfold rep in L9; rewrite app_length, repeat_length in L9; exact L9).
  destruct (parse_digits_some a Da 0%Z) as [z Hz].
  assert (Hns : ns = (z * 10 ^ Z.of_nat k)%Z).
  { rewrite Hk, parse_digits_app, Hz, parse_digits_rep0 in P9. inversion P9. reflexivity. }
  assert (La : 1 <= length a).
  { destruct a as [|x a']; [|cbn; lia]. cbn in Hz. inversion Hz; subst z. lia. }
  split; [exact Da|]. split; [lia|].
  rewrite firstn_all2 by lia. unfold scale9. rewrite Hz. rewrite Hns. replace (9 - length a) with k by lia. reflexivity.
Qed.

Theorem display_parse_roundtrip t : printable t -> parse_default (show_datetime t) = Some t.
Proof.
  intros Hp. destruct (Z.eq_dec (dt_nano t) 0) as [Hn|Hn]; [apply display_parse_roundtrip_whole_seconds; assumption|].
  destruct Hp as [V [Y [h [m [Hh [Hm Ho]]]]]].
  destruct t as [[y mo d] hh mi ss ns off]. cbn [dt_date dt_nano dt_off d_year] in *.
  pose proof V as V0. unfold valid_dt, valid_date in V. cbn [dt_date dt_hour dt_min dt_sec dt_nano d_year d_month d_day] in V.
  assert (d <= 31)%Z as Hd by (unfold days_in_month in V; destruct (mo =? 2)%Z; [destruct (is_leap y)|destruct ((mo =? 4) || (mo =? 6) || (mo =? 9) || (mo =? 11))%Z]; lia).
  destruct (fraction_digits ns ltac:(lia)) as (Da & La & Sa).
  unfold show_datetime, show_date. cbn [dt_date dt_hour dt_min dt_sec dt_nano dt_off d_year d_month d_day].
  replace (ns =? 0)%Z with false by lia. set (a := strip_trailing 48%N (pad_left 48%N 9 (show_Z ns))) in *.
  unfold parse_default. rewrite <- !app_assoc.
  rewrite take_num_padz by (change (10 ^ Z.of_nat 4)%Z with 10000%Z; lia). cbn [app expect_c]. rewrite N.eqb_refl.
  rewrite take_num_padz by (change (10 ^ Z.of_nat 2)%Z with 100%Z; lia). cbn [app expect_c]. rewrite N.eqb_refl.
  rewrite take_num_padz by (change (10 ^ Z.of_nat 2)%Z with 100%Z; lia). cbn [app expect_c]. rewrite N.eqb_refl.
  rewrite take_num_padz by (change (10 ^ Z.of_nat 2)%Z with 100%Z; lia). cbn [app expect_c]. rewrite N.eqb_refl.
  rewrite take_num_padz by (change (10 ^ Z.of_nat 2)%Z with 100%Z; lia). cbn [app expect_c]. rewrite N.eqb_refl.
  rewrite take_num_padz by (change (10 ^ Z.of_nat 2)%Z with 100%Z; lia). cbn [app].
  rewrite span_digits_app by (try exact Da; reflexivity).
  replace (Nat.leb 1 (length a)) with true by (symmetry; apply Nat.leb_le; lia). rewrite Sa.
  cbn [expect_c]. rewrite N.eqb_refl.
  unfold show_offset. cbn [app].
  assert (Z.abs off / 3600 = h /\ (Z.abs off / 60) mod 60 = m)%Z as [Eh Em] by lia.
  rewrite Eh, Em.
  destruct (off <? 0)%Z eqn:Sg.
  - change ((45 =? 43)%N || (45 =? 45)%N) with true. cbn iota.
    rewrite take_num_padz by (change (10 ^ Z.of_nat 2)%Z with 100%Z; lia).
    rewrite <- (app_nil_r (padz 2 m)). rewrite take_num_padz by (change (10 ^ Z.of_nat 2)%Z with 100%Z; lia).
    change (45 =? 45)%N with true. cbn iota.
    replace (-1 * (h * 3600 + m * 60))%Z with off by lia. rewrite V0. replace (m <? 60)%Z with true by lia. reflexivity.
  - change ((43 =? 43)%N || (43 =? 45)%N) with true. cbn iota.
    rewrite take_num_padz by (change (10 ^ Z.of_nat 2)%Z with 100%Z; lia).
    rewrite <- (app_nil_r (padz 2 m)). rewrite take_num_padz by (change (10 ^ Z.of_nat 2)%Z with 100%Z; lia).
    change (43 =? 45)%N with false. cbn iota.
    replace (1 * (h * 3600 + m * 60))%Z with off by lia. rewrite V0. replace (m <? 60)%Z with true by lia. reflexivity.
Qed.

(* ---- the ISO week, for every year ---- *)
Definition jan1 (y : Z) : Z := date_days (mkDate y 1 1).
Definition year_len (y : Z) : Z := if is_leap y then 366%Z else 365%Z.

Lemma days_of_ordinal d : valid_date d = true -> date_days d = (jan1 (d_year d) + ordinal d - 1)%Z.
Proof.
  intro V. pose proof (valid_date_month d V) as M. destruct d as [y m dd]. cbn [d_year d_month d_day] in *.
  unfold valid_date, ordinal, jan1, date_days in *. cbn [d_year d_month d_day] in *.
  destruct (is_leap y) eqn:L; month_cases M; unfold days_in_month in *; rewrite ?L in *; closed_bools;
    match goal with |- context [cum_days ?k] => ev (cum_days k) end; unfold days_from_civil; closed_bools;
    try (apply is_leap_spec in L);
    try (assert (~ ((y mod 4 = 0 /\ y mod 100 <> 0) \/ y mod 400 = 0)%Z) as L' by (rewrite <- is_leap_spec; congruence));
    lia.
Qed.
Lemma jan1_next y : jan1 (y + 1) = (jan1 y + year_len y)%Z.
Proof.
  unfold jan1, year_len, date_days, days_from_civil. cbn [d_year d_month d_day]. closed_bools.
  destruct (is_leap y) eqn:L; [apply is_leap_spec in L|assert (~ ((y mod 4 = 0 /\ y mod 100 <> 0) \/ y mod 400 = 0)%Z) as L' by (rewrite <- is_leap_spec; congruence)]; lia.
Qed.
Lemma ordinal_le_len d : valid_date d = true -> (1 <= ordinal d <= year_len (d_year d))%Z.
Proof.
  intro V. pose proof (valid_date_month d V) as M. destruct d as [y m dd]. cbn [d_year d_month d_day] in *.
  unfold valid_date, ordinal, year_len in *. cbn [d_year d_month d_day] in *.
  destruct (is_leap y) eqn:L; month_cases M; unfold days_in_month in *; rewrite ?L in *; closed_bools;
    match goal with |- context [cum_days ?k] => ev (cum_days k) end; lia.
Qed.

(* ISO 8601: the week-year of a day is the civil year that contains the Thursday of its week, and the week
   number counts the Thursdays of that year *)
Theorem iso_week_is_the_thursday_rule d : valid_date d = true ->
  let T := (date_days d - wd_mon0 d + 3)%Z in
  let Y := fst (iso_year_week d) in
  (jan1 Y <= T < jan1 (Y + 1))%Z /\ snd (iso_year_week d) = ((T - jan1 Y) / 7 + 1)%Z.
Proof.
  intro V. pose proof (ordinal_le_len d V) as Ho. pose proof (days_of_ordinal d V) as Hd.
  cbv zeta. unfold iso_year_week, weeks_in_year, wd_mon0.
  set (y := d_year d) in *. set (o := ordinal d) in *.
  change (date_days (mkDate y 1 1)) with (jan1 y). change (date_days (mkDate (y - 1) 1 1)) with (jan1 (y - 1)).
  pose proof (jan1_next y) as N1. pose proof (jan1_next (y + 1)) as N2. pose proof (jan1_next (y - 1)) as N0.
  replace (y - 1 + 1)%Z with y in N0 by lia. replace (y + 1 + 1)%Z with (y + 2)%Z in N2 by lia.
  rewrite Hd. unfold year_len in *.
  set (J := jan1 y) in *. set (Jp := jan1 (y - 1)) in *. set (Jn := jan1 (y + 1)) in *. set (Jnn := jan1 (y + 2)) in *.
  assert (Adj : (is_leap y = true -> is_leap (y - 1) = false /\ is_leap (y + 1) = false) /\ (is_leap (y - 1) = true -> is_leap (y + 1) = false)).
  { unfold is_leap. lia. }
  destruct (is_leap y) eqn:L0; destruct (is_leap (y - 1)) eqn:Lp; destruct (is_leap (y + 1)) eqn:Ln; cbn [andb];
  try (exfalso; destruct Adj as [A1 A2]; first [destruct (A1 eq_refl); discriminate | specialize (A2 eq_refl); discriminate]);
  clear Adj;
  repeat match goal with |- context [if ?c then _ else _] => destruct c eqn:? end; cbn [fst snd];
  repeat match goal with H : context [if ?c then _ else _] |- _ => destruct c eqn:? end;
  try (replace (y - 1 + 1)%Z with y by lia; fold J); try (replace (y + 1 + 1)%Z with (y + 2)%Z by lia; fold Jnn); fold Jn; fold Jp;
  lia.
Qed.
