"""C03 — literal text is preserved; trim markers, raw and comment do exactly their job."""
import json, random, re
from lv import C, R, S, P, Natv
import lv

PROP = "C03"
TARGETS = ["props/C03.vo", "corr/Lexcorr.vo"]
HEADER = "From LV Require Import Corr Peg Grammar Lexcorr.\n"
CHECKER = "lex_check"
TRUSTED = [
    "coq/gen/Grammar.v is generated from crates/core/src/parser/grammar.pest by tools/translate.py on every run (a pest construct the translator does not know is a failed generation); model/Peg.v is the semantics of pest 2.7 "
    "(ordered choice, greedy repetition, atomicity modes with implicit WHITESPACE*, silent rules, pair stream) — the pest runtime itself is modelled, validated by comparing the complete pair stream on every generated template",
    "what parser.rs and the raw/comment blocks do with the pair stream (Text::render_to, TagBlock::escape_liquid, CommentBlock::parse) is judged by the structural oracle of this check on the rendered output, not by a theorem",
]
RULE = ("templates built from text segments (letters, non-ASCII, stray '{', '}', '%', quotes, runs of 0..4 of space/tab/LF/CR/CRLF) interleaved with output tags, assign tags, if blocks, raw blocks and comment blocks whose delimiter sides independently carry or omit the trim marker "
        "(all 4 / 16 combinations) with 0..3 spaces or a tab inside the delimiters; raw bodies with things that look like markup and unterminated markup; comment bodies with text, invalid output tags, assign/increment and nested comments; "
        "expected output computed from the generated structure; the pair stream of every template compared with the generated grammar model; non-trivial = non-empty output")

WS = " \t\n\r"
RUNS = ["", " ", "  ", "\t", "\n", "\r\n", "\r", " \t", "\n\n", " \n ", "\t\t\n", "\r\r", "   \n"]
# characters that are white space to Unicode (char::is_whitespace) but not to the grammar: they are text and must survive every trim
UWS = ["\u00a0", "\u2003", "\u3000", "\u0085", "\u2028", "\x0c", "\x0b"]
WORDS = UWS + ["a\u00a0", "\u2003b", "a", "b", "xyz", "é", "√x", "𝄞", "}", "}}", "%", "%}", "'", '"', "{ x", "x {", "-", "-}", "{-", "|", "a{b}c", "<p>", "0", "nil"]


def text_segment(rnd):
    parts = []
    for _ in range(rnd.randint(0, 4)):
        parts.append(rnd.choice(RUNS))
        parts.append(rnd.choice(WORDS))
    parts.append(rnd.choice(RUNS))
    s = "".join(parts)
    s = s.replace("{{", "{ {").replace("{%", "{ %")
    while s.endswith("{"):
        s = s[:-1]
    return s


def delim(open_, close, inner, lt, rt, rnd):
    pad = lambda: rnd.choice(["", " ", "  ", "   ", "\t", " \n"])
    return open_ + ("-" if lt else "") + pad() + inner + pad() + ("-" if rt else "") + close


RAW_BODIES = ["", "plain", "{{ x }}", "{% if a %}", "{{ unterminated", "{% unterminated", "}} %}", " {{- x -}} ", "{%- endif -%}", "a {% raw %} b", "{{ 'x' | upcase }}", "  lead and trail  ", "\n{{ x }}\n", "\t{%\tx\t%}\t", "{", "{{", "{ { } }",
              "{% comment %}c{% endcomment %}", "é{{√}}𝄞", "a\u00a0", "{{ x }}\u2003 \t\n", "\u00a0", "\x0c \u3000", "x\u0085\n", "\u2028 "]
COMMENT_BODIES = ["", "plain text", "{{ bad", "{{ 'x' }", "{% assign zz = 1 %}", "{% increment n %}", "{% comment %}inner{% endcomment %}", "{{ 1 | plus: }}", "text {{ 'v' }} text", "{% if true %}{% assign zz = 2 %}{% endif %}",
                  "  \n\t", "{% decrement n %}{% capture zz %}x{% endcapture %}", "}} %} {", "{{ 99999999999999999999 }}", "{% unknown_tag %}", "é√𝄞"]


# block kinds: the tags in order, and which of the segments between them are printed (in order, with repetition)
BLOCKS = {
    "if": (["if true", "endif"], [0]),
    "if-else-true": (["if true", "else", "endif"], [0]),
    "if-else-false": (["if false", "else", "endif"], [1]),
    "if-elsif": (["if false", "elsif true", "else", "endif"], [1]),
    "if-no-arm": (["if false", "elsif nil", "endif"], []),
    "unless": (["unless false", "endunless"], [0]),
    "unless-else": (["unless true", "else", "endunless"], [1]),
    "for-twice": (["for i in (1..2)", "endfor"], [0, 0]),
    "for-else-empty": (["for i in (1..0)", "else", "endfor"], [1]),
    "for-else-nonempty": (["for i in (3..3)", "else", "endfor"], [0]),
    "case-first": (["case 1", "when 1", "when 2", "else", "endcase"], [1]),
    "case-second": (["case 2", "when 1", "when 2", "else", "endcase"], [2]),
    "case-else": (["case 3", "when 1", "when 2", "else", "endcase"], [3]),
    "case-none": (["case 3", "when 1", "when 2", "endcase"], []),
    "case-or": (["case 2", "when 1 or 2", "when 2", "endcase"], [1]),
    "capture": (["capture cc", "endcapture"], []),
    "ifchanged-once": (["ifchanged", "endifchanged"], None),       # printed unless it repeats the previous ifchanged output: decided while rendering
}


def gen_items(rnd, depth, n):
    items = []
    for _ in range(n):
        k = rnd.choice(["out", "out", "assign", "raw", "comment", "if", "blk", "blk"] if depth > 0 else ["out", "assign", "raw", "comment"])
        t = [rnd.random() < 0.5 for _ in range(4)]
        if k == "blk":
            kind = rnd.choice(sorted(BLOCKS))
            tags, _ = BLOCKS[kind]
            items.append(("text", text_segment(rnd)))
            items.append(("blk", kind, [gen_items(rnd, depth - 1, rnd.randint(0, 2)) for _ in range(len(tags) - 1)], [rnd.random() < 0.4 for _ in range(2 * len(tags))]))
            continue
        items.append(("text", text_segment(rnd)))
        if k == "out":
            v = rnd.choice(["v", "", "é", " sp ", "}"])
            q = '"' if "'" in v else "'"
            items.append(("out", q + v + q, v, t[0], t[1]))
        elif k == "assign":
            items.append(("assign", t[0], t[1]))
        elif k == "raw":
            items.append(("raw", rnd.choice(RAW_BODIES) if rnd.random() < 0.7 else text_segment(rnd), t))
        elif k == "comment":
            items.append(("comment", rnd.choice(COMMENT_BODIES) if rnd.random() < 0.7 else text_segment(rnd), t))
        else:
            items.append(("if", gen_items(rnd, depth - 1, rnd.randint(0, 2)), t))
    items.append(("text", text_segment(rnd)))
    return items


def source(items, rnd):
    out = []
    for it in items:
        k = it[0]
        if k == "text":
            out.append(it[1])
        elif k == "out":
            out.append(delim("{{", "}}", it[1], it[3], it[4], rnd))
        elif k == "assign":
            out.append(delim("{%", "%}", "assign q = 'Q'", it[1], it[2], rnd))
        elif k == "raw":
            t = it[2]
            out.append(delim("{%", "%}", "raw", t[0], t[1], rnd) + it[1] + delim("{%", "%}", "endraw", t[2], t[3], rnd))
        elif k == "comment":
            t = it[2]
            out.append(delim("{%", "%}", "comment", t[0], t[1], rnd) + it[1] + delim("{%", "%}", "endcomment", t[2], t[3], rnd))
        elif k == "blk":
            tags, _ = BLOCKS[it[1]]
            t = it[3]
            for j, tag in enumerate(tags):
                out.append(delim("{%", "%}", tag, t[2 * j], t[2 * j + 1], rnd))
                if j < len(it[2]):
                    out.append(source(it[2][j], rnd))
            if it[1] == "capture":
                out.append("{{ cc }}")
        else:
            t = it[2]
            out.append(delim("{%", "%}", "if true", t[0], t[1], rnd) + source(it[1], rnd) + delim("{%", "%}", "endif", t[2], t[3], rnd))
    return "".join(out)


def tokens(items, toks):
    """lexical view: ('text', [s]) (shared, mutable) | ('tag', left trim, right trim); returns the items annotated with their text cells"""
    ann = []
    for it in items:
        k = it[0]
        if k == "text":
            if toks and toks[-1][0] == "text":
                toks[-1][1][0] += it[1]          # adjacent text is one run of text
                ann.append(("text", None))
            else:
                cell = [it[1]]
                toks.append(("text", cell))
                ann.append(("text", cell))
        elif k == "out":
            toks.append(("tag", it[3], it[4]))
            ann.append(("print", it[2]))
        elif k == "assign":
            toks.append(("tag", it[1], it[2]))
            ann.append(("print", ""))
        elif k == "raw":
            t = it[2]
            toks.append(("tag", t[0], t[1]))
            cell = [it[1]]
            toks.append(("text", cell))
            toks.append(("tag", t[2], t[3]))
            ann.append(("text", cell))
        elif k == "comment":
            t = it[2]
            toks.append(("tag", t[0], t[3]))          # whatever it holds, a comment emits nothing
            ann.append(("print", ""))
        else:
            kind, segs, t = ("if", [it[1]], it[2]) if k == "if" else (it[1], it[2], it[3])
            tags, _ = BLOCKS[kind]
            sub = []
            for j in range(len(tags)):
                toks.append(("tag", t[2 * j], t[2 * j + 1]))
                if j < len(segs):
                    sub.append(tokens(segs[j], toks))
            ann.append(("blk", kind, sub))
            if kind == "capture":
                toks.append(("tag", False, False))
                ann.append(("printcc",))
    return ann


def render_ann(ann, st):
    out = []
    for a in ann:
        if a[0] == "text":
            out.append(a[1][0] if a[1] is not None else "")
        elif a[0] == "print":
            out.append(a[1])
        elif a[0] == "printcc":
            out.append(st.get("cc", ""))
        else:
            kind, sub = a[1], a[2]
            sel = BLOCKS[kind][1]
            if kind == "capture":
                st["cc"] = render_ann(sub[0], st)
            elif kind.startswith("ifchanged"):
                body = render_ann(sub[0], st)
                if st.get("ifchanged") != body:
                    out.append(body)
                st["ifchanged"] = body
            else:
                for j in sel:
                    out.append(render_ann(sub[j], st))
    return "".join(out)


def expected(items):
    toks = []
    ann = tokens(items, toks)
    for i, tk in enumerate(toks):          # the trim markers act on the text next to them, wherever that text ends up
        if tk[0] != "text":
            continue
        if i + 1 < len(toks) and toks[i + 1][0] == "tag" and toks[i + 1][1]:
            tk[1][0] = tk[1][0].rstrip(WS)
        if i > 0 and toks[i - 1][0] == "tag" and toks[i - 1][2]:
            tk[1][0] = tk[1][0].lstrip(WS)
    return render_ann(ann, {})


PROBE = "[{% increment n %}{% if zz %}LEAK{% endif %}]"


def gen(tier, seed):
    rnd = random.Random(seed)
    cases = []

    def add(items, why, probe=True):
        src = source(items, rnd)
        cases.append({"src": src + (PROBE if probe else ""), "expect": expected(items) + ("[0]" if probe else ""), "why": why})
    # no markup at all: the template renders to itself
    for _ in range(300 if tier == "quick" else 5000):
        s = text_segment(rnd)
        cases.append({"src": s, "expect": s, "why": "no markup"})
    for s in ["", " ", "\n", "\t", "{", "}", "%", "{ {", "a{b", "}}", "%}", "é", "\r\n\r", "{ %", "{-", "-}}", "'", '"{"', "{ { x } }", "a\tb"]:
        cases.append({"src": s, "expect": s, "why": "no markup"})
    # every whitespace run on each side of every trim combination
    for ru in RUNS:
        for lt in (False, True):
            for rt in (False, True):
                for kind in ("out", "assign"):
                    it = ("out", "'v'", "v", lt, rt) if kind == "out" else ("assign", lt, rt)
                    add([("text", "a" + ru), it, ("text", ru + "b")], "whitespace run x trim markers")
                for kind in ("raw", "comment", "if"):
                    for lt2 in (False, True):
                        for rt2 in (False, True):
                            t = [lt, rt, lt2, rt2]
                            body = "x" if kind != "if" else [("text", ru + "x" + ru)]
                            if kind == "raw":
                                it = ("raw", ru + "x" + ru, t)
                            elif kind == "comment":
                                it = ("comment", ru + "x" + ru, t)
                            else:
                                it = ("if", body, t)
                            add([("text", "a" + ru), it, ("text", ru + "b")], "whitespace run x trim markers (blocks)")
    # every block kind: distinct text in every segment between its tags (also where no branch prints it), under no / all / alternating trim markers
    for kind in sorted(BLOCKS):
        tags, _ = BLOCKS[kind]
        for ru in ("", " ", "\n", " \t\n "):
            for pat in ("none", "all", "alt", "alt2"):
                t = [{"none": False, "all": True, "alt": j % 2 == 0, "alt2": j % 2 == 1}[pat] for j in range(2 * len(tags))]
                segs = [[("text", ru + "s%d" % j + ru)] for j in range(len(tags) - 1)]
                add([("text", "a" + ru), ("blk", kind, segs, t), ("text", ru + "b")], "every block kind x segment texts x trim markers")
        segs = [[("text", " "), ("out", "'v'", "v", False, False), ("text", "\n")] for j in range(len(tags) - 1)]
        add([("text", "a"), ("blk", kind, segs, [False] * (2 * len(tags))), ("text", "b")], "every block kind x segment texts x trim markers")
    for b in RAW_BODIES:
        for t in ([False] * 4, [True] * 4, [False, True, True, False]):
            add([("text", "<"), ("raw", b, t), ("text", ">")], "raw body")
    for b in COMMENT_BODIES:
        for t in ([False] * 4, [True] * 4, [True, False, False, True]):
            add([("text", "< "), ("comment", b, t), ("text", " >")], "comment body")
    for _ in range(500 if tier == "quick" else 10000):
        add(gen_items(rnd, 2, rnd.randint(1, 4)), "random structure")
    for i, c in enumerate(cases):
        c["id"] = i
    dist = {"exhaustive": True}
    for c in cases:
        dist[c["why"]] = dist.get(c["why"], 0) + 1
    return cases, dist


def request(c):
    return {"id": c["id"], "kind": "render", "tpl": c["src"], "data": []}


def spec_check(c, resp):
    inp = {"template": c["src"]}
    if "panic" in resp:
        return {"what": "panicked", "input": inp, "observed": resp["panic"]}
    if "ok" not in resp or not isinstance(resp["ok"], str):
        return {"what": "a well-formed template did not render", "input": inp, "observed": resp, "expected": c["expect"]}
    if resp["ok"] != c["expect"]:
        return {"what": "output differs from what the structure of the template prescribes (%s)" % c["why"], "input": inp, "observed": resp["ok"], "expected": c["expect"]}
    return None


def nontrivial(c, resp):
    return bool(resp.get("ok"))


# ---- the grammar model on the same templates ----
_names = None


def rule_ids():
    global _names
    if _names is None:
        txt = open(lv.COQ + "/gen/Grammar.v", encoding="utf-8").read()
        _names = {m.group(1): int(m.group(2)) for m in re.finditer(r"Definition r_(\w+) : nat := (\d+)\.", txt)}
        _names["EOI"] = 1000
    return _names


def lex_ir(text, rule, tokens):
    ids = rule_ids()
    exp = None if tokens is None else ("some", [P(Natv(ids[n]), P(Natv(a), Natv(b))) for n, a, b in tokens])
    return R("mkL", S(text), Natv(ids[rule]), exp)


def main(tier, seed):
    import lvcheck, types
    run = lv.Run(PROP, tier, seed)
    run.trusted = lv.COMMON_TRUSTED + TRUSTED
    lv.standard_proof_phase(run, PROP, TARGETS, thorough=(tier == "thorough"))
    ok, binp, out, dt = lv.build_harness("debug")
    run.checker_cmds.append("cargo build --offline (harness over /repo)")
    if not ok:
        run.obligation(False, "harness build against /repo", out[-3000:])
        return run.finish()
    cases, dist = gen(tier, seed)
    resps, problems = lv.run_harness(binp, [request(c) for c in cases], tag="C03")
    for pb in problems:
        run.violations.append({"what": "implementation process died", "observed": pb["tail"]})
    nontriv, samples, evaluations = set(), [], 0
    for c in cases:
        r = resps.get(c["id"])
        if r is None:
            continue
        evaluations += 1
        v = spec_check(c, r)
        if v:
            run.violations.append(v)
        if nontrivial(c, r):
            nontriv.add(c["src"])
            if len(samples) < 3 and c["why"] == "random structure":
                samples.append({"request": request(c), "implementation": r})
    st = lex_suite(run, binp, [c["src"] for c in cases], "C03", tier, seed)
    run.coverage.update({"evaluations": evaluations + st["evaluations"], "distinct_nontrivial": len(nontriv), "rule": RULE, "samples": samples,
                         "traces_validated_against_impl": evaluations + st["evaluations"], "disagreements_checked": st["disagreements"], "exhaustive": True, "input_distribution": dist})
    return run.finish()


def lex_suite(run, binp, texts, tag, tier, seed, rule="LaxLiquidFile"):
    """the pair stream of pest on every text == the generated grammar under model/Peg.v"""
    texts = sorted(set(texts))
    reqs = [{"id": i, "kind": "lex", "text": t, "rule": rule} for i, t in enumerate(texts)]
    resps, problems = lv.run_harness(binp, reqs, tag=tag + "lex")
    irs, keys = [], []
    for q in reqs:
        r = resps.get(q["id"])
        if r is None:
            continue
        if "panic" in r:
            run.violations.append({"what": "the pest parser panicked", "input": {"text": q["text"]}, "observed": r["panic"]})
            continue
        if rule == "LaxLiquidFile" and r["tokens"] is None:
            run.violations.append({"what": "the lax grammar rejected a text (parse() expects it never does)", "input": {"text": q["text"]}})
        irs.append(lex_ir(q["text"], rule, r["tokens"]))
        keys.append(q["text"])
    okd, drv, dout, ddt = lv.build_driver()
    run.checker_cmds.append("coqc extract/Extract.v && genreaders.py && ocamlfind ocamlopt (extracted model driver)")
    run.obligation(okd, "extraction of the model and driver build", dout[-3000:])
    failing = []
    if okd:
        failing, errors = lv.run_driver(drv, "lex_check", [lv.to_sexp(t) for t in irs], tag=tag + "lex")
        run.obligation(not errors, "correspondence suite %s/lex evaluated by the extracted model" % tag, json.dumps(errors)[:3000])
        rnd = random.Random(seed)
        idx = sorted(set(failing[:20]) | set(rnd.sample(range(len(irs)), min(len(irs), 60 if tier == "quick" else 300))))
        cfail, cproblems = lv.run_coq_cases(tag + "lex", HEADER, [lv.to_coq(irs[i]) for i in idx], check_fn="lex_check", shard_size=20)
        run.checker_cmds.append("coqc cases_*.v (Eval vm_compute in failing lex_check cases) on a sample")
        run.obligation(not cproblems and sorted(idx[j] for j in cfail) == sorted(i for i in failing if i in set(idx)),
                       "extracted driver agrees with vm_compute inside Coq on %d sampled cases (lex_check)" % len(idx), json.dumps(cproblems)[:2000])
    for i in failing[:5]:
        run.broken.append({"obligation": "correspondence %s/lex: the generated grammar model and pest disagree on the pair stream" % tag, "input": {"text": keys[i]}})
    run.obligation(okd and not failing, "correspondence %s/lex: model pair stream == pest pair stream on every text" % tag, "%d disagreements" % len(failing))
    return {"evaluations": len(irs), "disagreements": len(failing)}
