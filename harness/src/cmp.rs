//! C11: equality and ordering through Value, ValueViewCmp and ValueCow, rebuilt `reps` times
use crate::val;
use liquid_core::model::{ValueCow, ValueView, ValueViewCmp};
use serde_json::{json, Value as J};
use std::cmp::Ordering;

fn ord(o: Option<Ordering>) -> &'static str {
    match o {
        None => "none",
        Some(Ordering::Less) => "lt",
        Some(Ordering::Equal) => "eq",
        Some(Ordering::Greater) => "gt",
    }
}

pub fn run(req: &J) -> J {
    let reps = req["reps"].as_u64().unwrap_or(1);
    let mut answers: Vec<J> = Vec::new();
    let mut api_disagree: Vec<String> = Vec::new();
    for _ in 0..reps {
        // rebuilt from scratch: every HashMap gets a fresh RandomState, hence a fresh iteration order
        let a = val::from_json(&req["a"]);
        let b = val::from_json(&req["b"]);
        let ans = json!({
            "eq": a == b, "ne": a != b, "cmp": ord(a.partial_cmp(&b)),
            "lt": a < b, "le": a <= b, "gt": a > b, "ge": a >= b,
        });
        // the other comparison APIs must give the same answers
        let (va, vb) = (ValueViewCmp::new(a.as_view()), ValueViewCmp::new(b.as_view()));
        if (va == vb) != (a == b) { api_disagree.push("ValueViewCmp::eq".into()); }
        if va.partial_cmp(&vb) != a.partial_cmp(&b) { api_disagree.push("ValueViewCmp::partial_cmp".into()); }
        let (ca, cb): (ValueCow<'_>, ValueCow<'_>) = (ValueCow::Borrowed(a.as_view()), ValueCow::Owned(b.clone()));
        if (ca == cb) != (a == b) { api_disagree.push("ValueCow::eq".into()); }
        if (ca == b) != (a == b) { api_disagree.push("ValueCow==Value".into()); }
        let (oa, ob) = (a.to_value(), b.to_value());
        if (oa == ob) != (a == b) { api_disagree.push("to_value eq".into()); }
        if oa.partial_cmp(&ob) != a.partial_cmp(&b) { api_disagree.push("to_value cmp".into()); }
        if !answers.contains(&ans) {
            answers.push(ans);
        }
    }
    api_disagree.sort();
    api_disagree.dedup();
    json!({"answers": answers, "api_disagree": api_disagree})
}
