(* ValidProofs.v — everything a render writes is the UTF-8 encoding of valid characters, so the two
   `String::from_utf8(..).expect` sites of capture / ifchanged (model sites 303, 304) cannot be
   reached: with SafeProofs.v this completes the no-panic theorem of C02 up to the unspecified sort.
   Validity of characters is an invariant of the whole evaluation: of the caller's data, of the
   template's literals and text, of what filters return (a hypothesis here, discharged per filter
   family below) and of what the oracle tables return. *)
From LV Require Import Base Value Stack Utf8 Filters_math Filters_html Filters_seq Eval BaseLemmas StackProofs
  Utf8Proofs DecimalProofs ValueProofs EvalInd EvalProofs ShapeProofs FindProofs SafeProofs DateProofs.
Require Import ZifyBool ZifyNat ZifyN.

Definition sv (s : str) : bool := forallb valid_char s.
Fixpoint vv (v : value) : bool :=
  match v with
  | VScalar (SStr s) => sv s
  | VScalar _ => true
  | VArray l => forallb vv l
  | VObject kvs => forallb (fun kv => sv (fst kv) && vv (snd kv)) kvs
  | VState _ | VNil => true
  end.
Definition ov (d : obj) : bool := forallb (fun kv => sv (fst kv) && vv (snd kv)) d.
Definition fv (f : frame) : bool := match f with FPlain d | FSandbox d | FGlobal d | FIndex d => ov d end.
Definition rtv (r : rt) : bool := forallb fv r.

Lemma sv_app a b : sv (a ++ b) = sv a && sv b.
Proof. apply forallb_app. Qed.
Lemma sv_cons c s : sv (c :: s) = valid_char c && sv s.
Proof. reflexivity. Qed.
Lemma digit_valid c : is_digit c = true -> valid_char c = true.
Proof. unfold is_digit, valid_char. lia. Qed.
Lemma digits_sv s : forallb is_digit s = true -> sv s = true.
Proof. unfold sv. induction s as [|c t IH]; cbn [forallb]; [reflexivity|]. intro H. apply andb_true_iff in H as [H1 H2]. rewrite (digit_valid c H1), IH by exact H2. reflexivity. Qed.
Lemma show_N_digits n : forallb is_digit (show_N n) = true.
Proof. unfold show_N. apply DateProofs.digits_all. reflexivity. Qed.
Lemma show_Z_sv z : sv (show_Z z) = true.
Proof.
  destruct z as [|p|p]; [reflexivity| |]; cbn [show_Z].
  - apply digits_sv, show_N_digits.
  - rewrite sv_cons. rewrite (digits_sv _ (show_N_digits (N.pos p))). reflexivity.
Qed.
Lemma sv_rep c n : valid_char c = true -> sv (repeat c n) = true.
Proof. intro H. induction n; [reflexivity|]. cbn [repeat]. rewrite sv_cons, H, IHn. reflexivity. Qed.
Lemma pad_left_sv c w s : valid_char c = true -> sv s = true -> sv (pad_left c w s) = true.
Proof. intros Hc Hs. rewrite DateProofs.pad_left_spec. unfold Strftime.rep. rewrite sv_app, (sv_rep c _ Hc), Hs. reflexivity. Qed.
Lemma padz_sv w z : sv (padz w z) = true.
Proof. unfold padz. destruct (z <? 0)%Z; [rewrite sv_cons|]; rewrite pad_left_sv; try reflexivity; apply show_Z_sv. Qed.
Lemma strip_trailing_sv c s : sv s = true -> sv (strip_trailing c s) = true.
Proof.
  induction s as [|x t IH]; [reflexivity|]. rewrite sv_cons. intro H. apply andb_true_iff in H as [H1 H2]. cbn [strip_trailing].
  specialize (IH H2). destruct (strip_trailing c t) as [|y t'] eqn:E.
  - destruct (N.eqb x c); [reflexivity|]. rewrite sv_cons, H1. reflexivity.
  - rewrite sv_cons, H1. exact IH.
Qed.
Lemma show_date_sv d : sv (show_date d) = true.
Proof. unfold show_date. rewrite !sv_app, !padz_sv. reflexivity. Qed.
Lemma show_datetime_sv t : sv (show_datetime t) = true.
Proof.
  unfold show_datetime, show_offset.
  assert (F : sv (strip_trailing 48%N (pad_left 48%N 9 (show_Z (dt_nano t)))) = true)
    by (apply strip_trailing_sv, pad_left_sv; [reflexivity|apply show_Z_sv]).
  destruct (dt_nano t =? 0)%Z; destruct (dt_off t <? 0)%Z;
    repeat (rewrite sv_app || rewrite sv_cons); rewrite ?show_date_sv, ?padz_sv, ?F; reflexivity.
Qed.

(* the oracle tables (float printing, case mapping, grapheme segmentation) return valid text *)
Definition oracle_valid (O : oracle) : Prop :=
  (forall f, sv (fshow O f) = true) /\
  (forall c, valid_char c = true -> sv (upper_c O c) = true) /\
  (forall c, valid_char c = true -> sv (lower_c O c) = true) /\
  (forall s, sv s = true -> forallb sv (graphemes O s) = true).

Section V.
Variable O : oracle.
Hypothesis HO : oracle_valid O.

Lemma kstr_sv s : vv (VScalar s) = true -> sv (scalar_kstr O s) = true.
Proof.
  destruct s; cbn [vv scalar_kstr]; intro H; try exact H.
  - apply show_Z_sv. - apply HO. - destruct b; reflexivity. - apply show_datetime_sv. - apply show_date_sv.
Qed.
Lemma sv_concat l : forallb sv l = true -> sv (concat l) = true.
Proof. induction l as [|a t IH]; cbn [forallb concat]; [reflexivity|]. intro H. apply andb_true_iff in H as [H1 H2]. rewrite sv_app, H1, IH by exact H2. reflexivity. Qed.
Lemma render_sv v : vv v = true -> sv (Value.render O v) = true.
Proof.
  induction v as [s|l IH|l IH|s|] using ValueProofs.value_ind'; intro H.
  - apply kstr_sv. exact H.
  - cbn [Value.render]. cbn [vv] in H.
    induction l as [|a t IHt]; [reflexivity|]. cbn [flat_map]. cbn [forallb] in H. apply andb_true_iff in H as [Ha Ht].
    inversion IH as [|? ? IHa IHl]; subst. rewrite sv_app, (IHa Ha). cbn [andb]. apply IHt; assumption.
  - cbn [vv] in H.
    induction l as [|[k a] t IHt]; [reflexivity|]. cbn [forallb fst snd] in H. apply andb_true_iff in H as [Hka Ht].
    apply andb_true_iff in Hka as [Hk Ha]. inversion IH as [|? ? IHa IHl]; subst. cbn [snd] in IHa.
    change (Value.render O (VObject ((k, a) :: t))) with (k ++ Value.render O a ++ Value.render O (VObject t)).
    rewrite !sv_app, Hk, (IHa Ha). cbn [andb]. apply IHt; assumption.
  - reflexivity.
  - reflexivity.
Qed.

(* ---- lookups return parts of valid data ---- *)
Lemma nth_error_vv l j v : forallb vv l = true -> nth_error l j = Some v -> vv v = true.
Proof. intros H E. apply nth_error_In in E. rewrite forallb_forall in H. auto. Qed.
Lemma arr_get_vv l i v : forallb vv l = true -> arr_get l i = Some v -> vv v = true.
Proof. unfold arr_get. intros H. destruct (_ <? 0)%Z; [discriminate|]. apply nth_error_vv. exact H. Qed.
Lemma lookup_vv k d v : ov d = true -> lookup k d = Some v -> vv v = true.
Proof.
  intros H E. apply lookup_some in E. unfold ov in H. rewrite forallb_forall in H. specialize (H _ E). cbn [fst snd] in H.
  apply andb_true_iff in H as [_ H]. exact H.
Qed.
Lemma augmented_get_vv v idx c : vv v = true -> augmented_get O v idx = Some c -> vv c = true.
Proof.
  destruct v as [s|l|kvs|st|]; cbn [augmented_get vv]; intros H E; try discriminate.
  - destruct (str_eqb _ k_size); inversion E; reflexivity.
  - destruct (to_integer idx); [eapply arr_get_vv; eassumption|].
    destruct (str_eqb _ k_first); [eapply arr_get_vv; eassumption|].
    destruct (str_eqb _ k_last); [eapply arr_get_vv; eassumption|].
    destruct (str_eqb _ k_size); inversion E; reflexivity.
  - destruct (lookup (scalar_kstr O idx) kvs) eqn:L; [inversion E; subst; eapply lookup_vv; eassumption|].
    destruct (str_eqb _ k_size); inversion E; reflexivity.
Qed.
Lemma try_find_vv p : forall v c, vv v = true -> try_find O v p = Some c -> vv c = true.
Proof.
  induction p as [|i p IH]; intros v c H E; cbn [try_find] in E; [inversion E; subst; exact H|].
  destruct (augmented_get O v i) eqn:A; [|discriminate]. eapply IH; [eapply augmented_get_vv; eassumption|exact E].
Qed.
Lemma frame_obj_vv d : ov d = true -> vv (VObject d) = true.
Proof. intro H. exact H. Qed.
Lemma try_get_vv p : forall r c, rtv r = true -> Stack.try_get O p r = Some c -> vv c = true.
Proof.
  induction r as [|f q IH]; intros c H E; cbn [Stack.try_get] in E; destruct (path_key O p); try discriminate.
  cbn [rtv forallb] in H. apply andb_true_iff in H as [Hf Hq].
  destruct f as [d|d|d|d]; cbn [fv] in Hf;
    try (destruct (has_key s d); [eapply try_find_vv; [apply frame_obj_vv; exact Hf|exact E]|apply IH; assumption]).
  destruct (lookup s d); [eapply try_find_vv; [apply frame_obj_vv; exact Hf|exact E]|discriminate].
Qed.
Lemma get_vv p r c : rtv r = true -> Stack.get O p r = Ok c -> vv c = true.
Proof. intros H E. apply (get_try_get_agree O) in E. eapply try_get_vv; eassumption. Qed.

(* ---- templates whose literals, text and names are valid ---- *)
Fixpoint expr_ok (e : expr) : bool :=
  match e with
  | ELit v => vv v
  | EVar _ idx => (fix go (l : list expr) : bool := match l with [] => true | x :: t => expr_ok x && go t end) idx
  end.
Definition exprs_ok (l : list expr) : bool := forallb expr_ok l.
Definition fchain_ok (fc : fchain) : bool := expr_ok (fst fc) && forallb (fun fa => exprs_ok (snd fa)) (snd fc).
Fixpoint cond_ok (c : cond) : bool :=
  match c with
  | CBin l _ r => expr_ok l && expr_ok r
  | CExists l => expr_ok l
  | CAnd a b | COr a b => cond_ok a && cond_ok b
  end.
Definition range_ok (r : range) : bool := match r with RArray e => expr_ok e | RCounted a b => expr_ok a && expr_ok b end.
Definition oexpr_ok (o : option expr) : bool := match o with Some e => expr_ok e | None => true end.
Definition args_ok (a : list (str * expr)) : bool := forallb (fun xa => sv (fst xa) && expr_ok (snd xa)) a.

Lemma expr_ok_var r idx : expr_ok (EVar r idx) = forallb expr_ok idx.
Proof. cbn [expr_ok]. induction idx as [|x t IH]; [reflexivity|]. cbn [forallb]. rewrite IH. reflexivity. Qed.

Lemma eval_indices_ok idx s : forall p, eval_indices O idx s = Ok p -> True.
Proof. trivial. Qed.
Lemma eval_expr_vv e : forall s v, expr_ok e = true -> rtv (fr s) = true -> eval_expr O e s = Ok v -> vv v = true.
Proof.
  induction e as [lv|r idx IH] using expr_ind'; intros s v He Hs E.
  - inversion E; subst. exact He.
  - rewrite eval_var_unfold in E. destruct (eval_indices O idx s) as [p| | |]; try discriminate. cbn [bind] in E.
    eapply get_vv; eassumption.
Qed.
Lemma try_eval_expr_vv e : forall s v, rtv (fr s) = true -> expr_ok e = true -> try_eval_expr O e s = Some v -> vv v = true.
Proof.
  destruct e as [lv|r idx]; intros s v Hs He E; cbn [try_eval_expr] in E.
  - inversion E; subst. exact He.
  - match type of E with match ?pp with _ => _ end = _ => destruct pp as [p|]; [|discriminate] end. eapply try_get_vv; eassumption.
Qed.
Lemma eval_exprs_vv l s : forall vs, exprs_ok l = true -> rtv (fr s) = true -> eval_exprs O l s = Ok vs -> forallb vv vs = true.
Proof.
  induction l as [|e t IH]; intros vs Hl Hs E; cbn [eval_exprs] in E; [inversion E; reflexivity|].
  cbn [exprs_ok forallb] in Hl. apply andb_true_iff in Hl as [He Ht].
  destruct (eval_expr O e s) as [v| | |] eqn:Ee; try discriminate. cbn [bind] in E.
  destruct (eval_exprs O t s) as [r| | |] eqn:Et; try discriminate. cbn [bind] in E. inversion E; subst.
  cbn [forallb]. rewrite (eval_expr_vv e s v He Hs Ee), (IH r Ht Hs eq_refl). reflexivity.
Qed.

(* what filters return (hypothesis of this section; see the lemmas after it) *)
Hypothesis FV : forall f v args r, vv v = true -> forallb vv args = true -> apply_filter O f v args = Ok r -> vv r = true.
Lemma apply_filters_vv fs s : forall v r, vv v = true -> forallb (fun fa => exprs_ok (snd fa)) fs = true -> rtv (fr s) = true ->
  apply_filters O v fs s = Ok r -> vv r = true.
Proof.
  induction fs as [|[f args] t IH]; intros v r Hv Hf Hs E; cbn [apply_filters] in E; [inversion E; subst; exact Hv|].
  cbn [forallb snd] in Hf. apply andb_true_iff in Hf as [Ha Ht].
  destruct (eval_exprs O args s) as [a| | |] eqn:Ea; try discriminate. cbn [bind] in E.
  destruct (apply_filter O f v a) as [x| | |] eqn:Ex; try discriminate. cbn [bind] in E.
  eapply IH; [|exact Ht|exact Hs|exact E]. eapply FV; [exact Hv| |exact Ex]. eapply eval_exprs_vv; eassumption.
Qed.
Lemma eval_chain_vv fc s v : fchain_ok fc = true -> rtv (fr s) = true -> eval_chain_e O fc s = Ok v -> vv v = true.
Proof.
  unfold fchain_ok, eval_chain_e. intros H Hs E. apply andb_true_iff in H as [He Hf].
  destruct (eval_expr O (fst fc) s) as [x| | |] eqn:Ex; try discriminate. cbn [bind] in E.
  eapply apply_filters_vv; [|exact Hf|exact Hs|exact E]. eapply eval_expr_vv; eassumption.
Qed.
End V.

(* ---- state updates keep the frames valid ---- *)
Lemma upsert_ov k v d : sv k = true -> vv v = true -> ov d = true -> ov (upsert k v d) = true.
Proof.
  intros Hk Hv. unfold ov. induction d as [|[y w] t IH]; cbn [upsert forallb fst snd]; intro H.
  - rewrite Hk, Hv. reflexivity.
  - apply andb_true_iff in H as [H1 H2]. destruct (str_eqb k y); cbn [forallb fst snd]; [rewrite Hk, Hv, H2; reflexivity|rewrite H1, IH by exact H2; reflexivity].
Qed.
Lemma set_global_rtv x v : sv x = true -> vv v = true -> forall r r', rtv r = true -> set_global x v r = Ok r' -> rtv r' = true.
Proof.
  intros Hx Hv. induction r as [|f q IH]; intros r' H E; cbn [set_global] in E; [discriminate|].
  cbn [rtv forallb] in H. apply andb_true_iff in H as [Hf Hq].
  destruct f as [d|d|d|d]; try (destruct (set_global x v q) as [q'| | |] eqn:Eq; try discriminate; cbn [bind] in E; inversion E; subst;
    cbn [rtv forallb]; rewrite Hf; cbn [andb]; eapply IH; [exact Hq|reflexivity]).
  inversion E; subst. cbn [rtv forallb fv]. rewrite upsert_ov by assumption. exact Hq.
Qed.
Lemma set_index_rtv x v : sv x = true -> vv v = true -> forall r r', rtv r = true -> set_index x v r = Ok r' -> rtv r' = true.
Proof.
  intros Hx Hv. induction r as [|f q IH]; intros r' H E; cbn [set_index] in E; [discriminate|].
  cbn [rtv forallb] in H. apply andb_true_iff in H as [Hf Hq].
  destruct f as [d|d|d|d]; try (destruct (set_index x v q) as [q'| | |] eqn:Eq; try discriminate; cbn [bind] in E; inversion E; subst;
    cbn [rtv forallb]; rewrite Hf; cbn [andb]; eapply IH; [exact Hq|reflexivity]).
  inversion E; subst. cbn [rtv forallb fv]. rewrite upsert_ov by assumption. exact Hq.
Qed.
Lemma rtv_tl r : rtv r = true -> rtv (tl r) = true.
Proof. destruct r as [|f q]; [auto|]. cbn [rtv forallb tl]. intro H. apply andb_true_iff in H as [_ H]. exact H. Qed.
Lemma rtv_push_plain a s : ov a = true -> rtv (fr s) = true -> rtv (fr (push_plain a s)) = true.
Proof. intros Ha Hs. cbn [push_plain fr rtv forallb fv]. rewrite Ha. exact Hs. Qed.
Lemma rtv_push_sandbox a s : ov a = true -> rtv (fr s) = true -> rtv (fr (push_sandbox a s)) = true.
Proof. intros Ha Hs. cbn [push_sandbox fr rtv forallb fv ov]. rewrite Ha. exact Hs. Qed.
Lemma rtv_build data : ov data = true -> rtv (fr (est_build data)) = true.
Proof. intro H. cbn [est_build fr runtime_build rtv forallb fv]. rewrite H. reflexivity. Qed.

(* ---- sinks that only ever received whole valid strings ---- *)
Definition SVk (k : sink) : Prop := budget k = None /\ exists t, sv t = true /\ acc k = encode t.
Lemma SVk0 : SVk sink0.
Proof. split; [reflexivity|]. exists []. split; reflexivity. Qed.
Lemma encode_app a b : encode (a ++ b) = encode a ++ encode b.
Proof. unfold encode. apply flat_map_app. Qed.
Lemma write_str_SV s k t : sv t = true -> SVk k -> exists k', write_str s k t = (ODone, s, k') /\ SVk k'.
Proof.
  intros Ht [Hb [t0 [H0 Ha]]]. unfold write_str, write. rewrite Hb. eexists. split; [reflexivity|].
  split; [reflexivity|]. exists (t0 ++ t). cbn [acc]. rewrite sv_app, H0, Ht, Ha, encode_app. split; reflexivity.
Qed.
Lemma decode_valid f : forall bs t, decode_fuel f bs = Some t -> sv t = true.
Proof.
  induction f as [|f IH]; intros bs t E; destruct bs as [|b r]; cbn [decode_fuel] in E; try (inversion E; reflexivity); try discriminate.
  destruct (decode_one (b :: r)) as [[c r']|] eqn:D; [|discriminate].
  destruct (decode_fuel f r') as [u|] eqn:U; [|discriminate]. inversion E; subst. rewrite sv_cons, (IH _ _ U).
  assert (valid_char c = true) as ->; [|reflexivity].
  unfold decode_one in D. unfold valid_char.
  repeat match type of D with
         | (if ?b then _ else _) = _ => destruct b eqn:?; try discriminate
         | match ?l with _ => _ end = _ => destruct l; try discriminate
         end; inversion D; subst; unfold is_cont, valid_char in *; lia.
Qed.
Lemma SVk_decode k : SVk k -> exists t, decode (acc k) = Some t /\ sv t = true.
Proof. intros [_ [t [Ht Ha]]]. exists t. rewrite Ha. split; [apply decode_encode; exact Ht|exact Ht]. Qed.

(* ---- the invariant of a render ---- *)
Definition vpost (k : sink) (x : out) : Prop :=
  match x with (o, s', k') => rtv (fr s') = true /\ (SVk k -> SVk k') /\ o <> OPanicked 303%N /\ o <> OPanicked 304%N end.
Definition VF (f : est -> sink -> out) : Prop := forall s k, okst s -> rtv (fr s) = true -> vpost k (f s k).

Ltac vsplit := split; [|split; [|split]].
Ltac vdone := vsplit; auto; try discriminate.
Lemma vpost_here k o s : rtv (fr s) = true -> o <> OPanicked 303%N -> o <> OPanicked 304%N -> vpost k (o, s, k).
Proof. intros. vdone. Qed.
Lemma vpost_of_res {A} (r : res A) s k f : rsafe r -> rtv (fr s) = true ->
  (forall a, r = Ok a -> vpost k (f a)) -> vpost k (of_res r s k f).
Proof.
  intros Hr Hs Hf. destruct r; cbn [of_res]; [apply Hf; reflexivity| | |]; apply vpost_here; auto; try discriminate.
  - cbn [rsafe] in Hr. subst. discriminate.
  - cbn [rsafe] in Hr. subst. discriminate.
Qed.
Lemma vpost_write s k t : rtv (fr s) = true -> sv t = true -> vpost k (write_str s k t).
Proof.
  intros Hs Ht. destruct (write_str_cases s k t) as [k' [E|E]]; rewrite E; vdone;
    intro HS; destruct (write_str_SV s k t Ht HS) as [k2 [E2 S2]]; rewrite E in E2; inversion E2; subst; exact S2.
Qed.
Lemma vpost_trans k k1 (x : out) : (SVk k -> SVk k1) -> vpost k1 x -> vpost k x.
Proof. intros H1. destruct x as [[o s2] k2]. intros [R [S [N3 N4]]]. vdone. Qed.

Lemma fr_set_regs g s : fr (set_regs g s) = fr s.
Proof. reflexivity. Qed.
Lemma fr_pop_plain s : fr (pop_plain s) = tl (fr s).
Proof. reflexivity. Qed.
Lemma fr_pop_sandbox s : fr (pop_sandbox s) = tl (tl (fr s)).
Proof. reflexivity. Qed.

Lemma VF_seq f cont : SF f -> VF f -> VF cont -> VF (fun s k => seq_step (f s k) cont).
Proof.
  intros Sf Hf Hc s k W R. specialize (Sf s k W). specialize (Hf s k W R). destruct (f s k) as [[o s1] k1]. unfold seq_step.
  destruct o; try exact Hf. destruct (interrupted s1); [exact Hf|].
  destruct Sf as [E _]. destruct Hf as [R1 [S1 _]]. eapply vpost_trans; [exact S1|].
  apply Hc; [exact (okst_esim _ _ W E)|exact R1].
Qed.

(* frames pushed by loops *)
Lemma vz_vv z : vv (vz z) = true. Proof. reflexivity. Qed.
Lemma vbool_vv b : vv (vbool b) = true. Proof. reflexivity. Qed.
Lemma forloop_obj_vv i len parent : (match parent with Some p => vv p | None => true end) = true -> vv (forloop_obj i len parent) = true.
Proof. intro H. unfold forloop_obj. cbn [vv forallb fst snd]. destruct parent; cbn [vv] in *; rewrite ?H; reflexivity. Qed.
Lemma tablerow_obj_vv i len col cols : vv (tablerow_obj i len col cols) = true.
Proof. reflexivity. Qed.
Lemma loop_frame_ov key fl x v : sv key = true -> vv fl = true -> sv x = true -> vv v = true -> ov (loop_frame key fl x v) = true.
Proof. intros. unfold loop_frame. apply upsert_ov; auto. unfold ov. cbn [forallb fst snd]. rewrite H, H0. reflexivity. Qed.

Lemma VF_for body x len parent : SF body -> VF body -> sv x = true ->
  (match parent with Some p => vv p | None => true end) = true ->
  forall vs i s k, forallb vv vs = true -> okst s -> rtv (fr s) = true -> vpost k (for_loop body x len parent vs i s k).
Proof.
  intros Sb Hb Hx Hp; induction vs as [|v vs IH]; intros i s k Hv W R; [apply vpost_here; auto; discriminate|]. rewrite for_loop_cons.
  cbn [forallb] in Hv. apply andb_true_iff in Hv as [Hv1 Hvs].
  assert (Ra : rtv (fr (push_plain (iter_frame x len parent i v) s)) = true).
  { apply rtv_push_plain; [|exact R]. apply loop_frame_ov; auto. apply forloop_obj_vv. exact Hp. }
  specialize (Sb _ k (okst_push_plain (iter_frame x len parent i v) s W)). specialize (Hb _ k (okst_push_plain (iter_frame x len parent i v) s W) Ra).
  destruct (body (push_plain (iter_frame x len parent i v) s) k) as [[o s1] k1].
  destruct Sb as [Eb _]. apply esim_pop_plain in Eb. destruct Hb as [R1 [S1 [N3 N4]]].
  assert (W1 : okst (pop_plain s1)) by (eapply okst_esim; eassumption).
  assert (Rp : rtv (fr (pop_plain s1)) = true) by (rewrite fr_pop_plain; apply rtv_tl; exact R1).
  assert (E2 : esim s (clear_intr (pop_plain s1))) by (eapply esim_trans; [exact Eb|apply esim_set_regs; apply W1]).
  destruct o; try (vdone; fail).
  destruct (r_intr (get_regs (pop_plain s1))) as [[|]|]; try (vdone; fail);
    (eapply vpost_trans; [exact S1|]; apply IH; [exact Hvs|exact (okst_esim _ _ W E2)|exact Rp]).
Qed.

Lemma sv_lit_tr : forall z, sv ([60;116;114;32;99;108;97;115;115;61;34;114;111;119]%N ++ show_Z z ++ [34;62]%N) = true.
Proof. intro z. rewrite !sv_app, show_Z_sv. reflexivity. Qed.
Lemma VF_tablerow body x len cols : SF body -> VF body -> sv x = true ->
  forall vs i s k, forallb vv vs = true -> okst s -> rtv (fr s) = true -> vpost k (tablerow_loop body x len cols vs i s k).
Proof.
  intros Sb Hb Hx; induction vs as [|v vs IH]; intros i s k Hv W R; [apply vpost_here; auto; discriminate|]. cbn [tablerow_loop].
  cbn [forallb] in Hv. apply andb_true_iff in Hv as [Hv1 Hvs].
  match goal with |- context [write_str s k ?t] =>
    assert (Ht : sv t = true) by (destruct (_ =? 0)%Z; rewrite ?sv_app, ?show_Z_sv; reflexivity);
    pose proof (vpost_write s k t R Ht) as Hw; destruct (write_str_cases s k t) as [k0 [E|E]]; rewrite E in *
  end; [|exact Hw].
  destruct Hw as [_ [S0 _]].
  match goal with |- context [body (push_plain ?a s) k0] =>
    assert (Ra : rtv (fr (push_plain a s)) = true) by (apply rtv_push_plain; [apply loop_frame_ov; auto; reflexivity|exact R]);
    specialize (Sb (push_plain a s) k0 (okst_push_plain a s W)); specialize (Hb (push_plain a s) k0 (okst_push_plain a s W) Ra);
    destruct (body (push_plain a s) k0) as [[o1 s1] k1] end.
  destruct Sb as [Eb _]. apply esim_pop_plain in Eb. destruct Hb as [R1 [S1 [N3 N4]]].
  assert (Rp : rtv (fr (pop_plain s1)) = true) by (rewrite fr_pop_plain; apply rtv_tl; exact R1).
  destruct o1; try (vdone; fail).
  match goal with |- context [write_str (pop_plain s1) k1 ?t] =>
    assert (Ht2 : sv t = true) by (destruct (_ || _); reflexivity);
    pose proof (vpost_write (pop_plain s1) k1 t Rp Ht2) as Hw2; destruct (write_str_cases (pop_plain s1) k1 t) as [k2 [E2|E2]]; rewrite E2 in *
  end.
  - destruct Hw2 as [_ [S2 _]]. eapply vpost_trans; [intro X; apply S2, S1, S0, X|].
    apply IH; [exact Hvs|exact (okst_esim _ _ W Eb)|exact Rp].
  - destruct Hw2 as [Rw [S2 [M3 M4]]]. vdone.
Qed.

Lemma VF_render_for body x len base : SF body -> VF body -> sv x = true ->
  (forall s, rsafe (base s)) -> (forall s b, rtv (fr s) = true -> base s = Ok b -> ov b = true) ->
  forall vs i s k, forallb vv vs = true -> okst s -> rtv (fr s) = true -> vpost k (render_for_loop body x len base vs i s k).
Proof.
  intros Sb Hb Hx Hsafe Hov; induction vs as [|v vs IH]; intros i s k Hv W R; [apply vpost_here; auto; discriminate|]. cbn [render_for_loop].
  cbn [forallb] in Hv. apply andb_true_iff in Hv as [Hv1 Hvs].
  apply vpost_of_res; [apply Hsafe|exact R|]. intros b0 Eb0. pose proof (Hov s b0 R Eb0) as Hbase.
  match goal with |- context [body (push_sandbox ?a s) k] =>
    assert (Ra : rtv (fr (push_sandbox a s)) = true)
      by (apply rtv_push_sandbox; [apply upsert_ov; auto; apply upsert_ov; auto; reflexivity|exact R]);
    specialize (Sb (push_sandbox a s) k (okst_push_sandbox a s W)); specialize (Hb (push_sandbox a s) k (okst_push_sandbox a s W) Ra);
    destruct (body (push_sandbox a s) k) as [[o1 s1] k1] end.
  destruct Sb as [Eb _]. apply esim_pop_sandbox in Eb. destruct Hb as [R1 [S1 [N3 N4]]].
  assert (Rp : rtv (fr (pop_sandbox s1)) = true) by (rewrite fr_pop_sandbox; apply rtv_tl, rtv_tl; exact R1).
  destruct o1; try (vdone; fail).
  destruct (match r_intr (get_regs s1) with Some Brk => true | _ => false end); [vdone|].
  eapply vpost_trans; [exact S1|]. apply IH; [exact Hvs|exact (okst_esim _ _ W Eb)|exact Rp].
Qed.

(* ---- templates with valid text, literals and names ---- *)
Inductive nv : node -> Prop :=
| nv_text s : sv s = true -> nv (NText s) | nv_raw s : sv s = true -> nv (NRaw s) | nv_comment : nv NComment
| nv_out fc : fchain_ok fc = true -> nv (NOutput fc)
| nv_assign x fc : sv x = true -> fchain_ok fc = true -> nv (NAssign x fc)
| nv_capture x b : sv x = true -> Forall nv b -> nv (NCapture x b)
| nv_inc x : sv x = true -> nv (NIncrement x) | nv_dec x : sv x = true -> nv (NDecrement x)
| nv_cycle n vs : exprs_ok vs = true -> nv (NCycle n vs)
| nv_if m c t e : cond_ok c = true -> Forall nv t -> OptForall nv e -> nv (NIf m c t e)
| nv_case tg ws e : expr_ok tg = true -> Forall (fun w => exprs_ok (fst w) = true /\ Forall nv (snd w)) ws -> OptForall nv e -> nv (NCase tg ws e)
| nv_for x r l o rv b e : sv x = true -> range_ok r = true -> oexpr_ok l = true -> oexpr_ok o = true -> Forall nv b -> OptForall nv e ->
    nv (NFor x r l o rv b e)
| nv_table x r c l o b : sv x = true -> range_ok r = true -> oexpr_ok c = true -> oexpr_ok l = true -> oexpr_ok o = true -> Forall nv b ->
    nv (NTableRow x r c l o b)
| nv_break : nv NBreak | nv_cont : nv NContinue
| nv_ifch b : Forall nv b -> nv (NIfChanged b)
| nv_incl p a : expr_ok p = true -> args_ok a = true -> nv (NInclude p a)
| nv_render p f a : expr_ok p = true -> args_ok a = true ->
    (match f with Some (rng, x) => range_ok rng = true /\ sv x = true | None => True end) -> nv (NRender p f a).
Definition tvalid (t : template) : Prop := Forall nv t.

Section V2.
Variable O : oracle.
Hypothesis HO : oracle_valid O.
Hypothesis FV : forall f v args r, vv v = true -> forallb vv args = true -> apply_filter O f v args = Ok r -> vv r = true.

Lemma z_range_vv n : forall a, forallb vv (z_range n a) = true.
Proof. induction n; intro a; [reflexivity|]. cbn [z_range forallb vv]. apply IHn. Qed.
Lemma forallb_firstn {A} (p : A -> bool) n l : forallb p l = true -> forallb p (firstn n l) = true.
Proof. revert l; induction n; intros l H; [reflexivity|]. destruct l; [reflexivity|]. cbn [firstn forallb] in *. apply andb_true_iff in H as [H1 H2]. rewrite H1, IHn by exact H2. reflexivity. Qed.
Lemma forallb_skipn {A} (p : A -> bool) n l : forallb p l = true -> forallb p (skipn n l) = true.
Proof. revert l; induction n; intros l H; [exact H|]. destruct l; [reflexivity|]. cbn [skipn forallb] in *. apply andb_true_iff in H as [H1 H2]. apply IHn. exact H2. Qed.
Lemma forallb_rev {A} (p : A -> bool) l : forallb p l = true -> forallb p (rev l) = true.
Proof. intro H. rewrite forallb_forall in *. intros x Hx. apply H. apply in_rev. exact Hx. Qed.
Lemma iter_array_vv l lim off rv : forallb vv l = true -> forallb vv (iter_array l lim off rv) = true.
Proof. intro H. unfold iter_array. destruct rv; [apply forallb_rev|]; apply forallb_firstn, forallb_skipn; exact H. Qed.
Lemma get_array_vv v l : vv v = true -> get_array v = Ok l -> forallb vv l = true.
Proof.
  destruct v as [s|a|kvs|st|]; cbn [get_array vv]; intros H E; inversion E; subst; try reflexivity; [exact H|].
  induction kvs as [|[k x] t IH]; [reflexivity|]. cbn [forallb fst snd map vv] in *. apply andb_true_iff in H as [H1 H2].
  apply andb_true_iff in H1 as [Hk Hx]. rewrite Hk, Hx. cbn [andb]. apply IH; [exact H2|reflexivity].
Qed.
Lemma eval_range_vv r s l : range_ok r = true -> rtv (fr s) = true -> eval_range O r s = Ok l -> forallb vv l = true.
Proof.
  destruct r as [e|a b]; cbn [eval_range range_ok]; intros Hr Hs E.
  - destruct (eval_expr O e s) as [v| | |] eqn:Ev; try discriminate. cbn [bind] in E.
    eapply get_array_vv; [eapply (eval_expr_vv O); eassumption|exact E].
  - destruct (int_arg O a s) as [x| | |]; try discriminate. cbn [bind] in E. destruct (int_arg O b s) as [y| | |]; try discriminate.
    cbn [bind] in E. inversion E; subst. destruct (y <? x)%Z; [reflexivity|apply z_range_vv].
Qed.
Lemma eval_args_ov args s : forall acc a, args_ok args = true -> rtv (fr s) = true -> ov acc = true -> eval_args O args s acc = Ok a -> ov a = true.
Proof.
  induction args as [|[x e] t IH]; intros acc a Ha Hs Hacc E; cbn [eval_args] in E; [inversion E; subst; exact Hacc|].
  cbn [args_ok forallb fst snd] in Ha. apply andb_true_iff in Ha as [Hxe Ht]. apply andb_true_iff in Hxe as [Hx He].
  destruct (try_eval_expr O e s) as [v|] eqn:Ev; [|discriminate].
  eapply IH; [exact Ht|exact Hs| |exact E]. apply upsert_ov; auto. eapply (try_eval_expr_vv O); eassumption.
Qed.
Lemma parent_vv s : (match try_get O [SStr k_forloop] (fr s) with Some p => vv p | None => true end) = true \/ rtv (fr s) <> true.
Proof.
  destruct (rtv (fr s)) eqn:R; [left|right; discriminate].
  destruct (try_get O [SStr k_forloop] (fr s)) as [p|] eqn:E; [|reflexivity]. eapply (try_get_vv O); eassumption.
Qed.

Section VAll.
Variable ps : pstore.
Variable rec : template -> est -> sink -> out.
Hypothesis ps_ok : forall name, match ps name with Ok b => twf b /\ tvalid b | Panic _ => False | _ => True end.
Hypothesis rec_SF : forall l, twf l -> SF (rec l).
Hypothesis rec_VF : forall l, twf l -> tvalid l -> VF (rec l).
Notation rn := (rnode O ps rec).
Notation rl := (rlist O ps rec).

Lemma ps_ok1 : forall name, match ps name with Ok b => twf b | Panic _ => False | _ => True end.
Proof. intro name. specialize (ps_ok name). destruct (ps name); auto. tauto. Qed.
Lemma ps_tv name b : ps name = Ok b -> twf b /\ tvalid b.
Proof. intro E. specialize (ps_ok name). rewrite E in ps_ok. exact ps_ok. Qed.
Lemma lookup2_tv name body : lookup2 ps name = Ok body -> twf body /\ tvalid body.
Proof.
  unfold lookup2. destruct (ps name) as [b0| | |] eqn:E0; intro E; try (apply ps_tv in E; exact E).
  inversion E; subst. apply ps_tv in E0. exact E0.
Qed.

Lemma VF_rlist_of l : Forall (fun n => SF (rn n) /\ VF (rn n)) l -> VF (rl l).
Proof.
  induction 1 as [|n l [Sn Hn] Hl IH]; [intros s k W R; apply vpost_here; auto; discriminate|].
  exact (VF_seq (rn n) (rl l) Sn Hn IH).
Qed.
Lemma SF_rlist_of' l : Forall (fun n => SF (rn n) /\ VF (rn n)) l -> SF (rl l).
Proof. intro H. apply (SF_rlist_of O ps rec). eapply Forall_impl; [|exact H]. intros a [X _]. exact X. Qed.

Lemma SFn n : nwf n -> SF (rn n).
Proof. apply (SF_rnode O ps rec ps_ok1 rec_SF). Qed.
Lemma mk_both l : Forall (fun n => nwf n -> nv n -> VF (rn n)) l -> Forall nwf l -> Forall nv l ->
  Forall (fun n => SF (rn n) /\ VF (rn n)) l.
Proof.
  induction 1 as [|n l Hn _ IH]; intros W V; inversion W; inversion V; subst; constructor; auto. split; [apply SFn; assumption|auto].
Qed.
Lemma VF_ropt o : optF (fun n => nwf n -> nv n -> VF (rn n)) o -> OptForall nwf o -> OptForall nv o -> VF (ropt_list O ps rec o).
Proof.
  destruct o as [l|]; simpl; intros H W V; [|intros s k _ R; apply vpost_here; auto; discriminate].
  inversion W; inversion V; subst. apply VF_rlist_of. apply mk_both; assumption.
Qed.
Lemma case_any_vpost tv body (rest : out) st k : okst st -> rtv (fr st) = true -> vpost k rest -> VF (rl body) -> forall l,
  vpost k ((fix any (l : list expr) : out :=
           match l with
           | [] => rest
           | a :: l' => of_res (eval_expr O a st) st k (fun av => if value_eq av tv then rl body st k else any l')
           end) l).
Proof.
  intros W R Hr Hb. induction l as [|a l IH]; [exact Hr|].
  apply vpost_of_res; [apply eval_expr_safe|exact R|]. intros av _.
  destruct (value_eq av tv); [apply Hb; assumption|exact IH].
Qed.

Theorem VF_rnode : forall n, nwf n -> nv n -> VF (rn n).
Proof.
  induction n using node_ind'; intros Hwf Hnv st k W R; pose proof W as [Wr [WG WI]].
  - inversion Hnv; subst. apply vpost_write; assumption.
  - inversion Hnv; subst. apply vpost_write; assumption.
  - apply vpost_here; auto; discriminate.
  - cbn [rnode]. inversion Hnv; subst. apply vpost_of_res; [apply eval_chain_e_safe|exact R|]. intros v E.
    apply vpost_write; [exact R|]. apply (render_sv O HO). eapply (eval_chain_vv O FV); eassumption.
  - cbn [rnode]. inversion Hnv; subst. apply vpost_of_res; [apply eval_chain_e_safe|exact R|]. intros v E.
    destruct (set_global_safe x v (fr st) WG) as [f' E2]. rewrite E2. cbn [of_res]. vsplit; auto; try discriminate.
    cbn [fr]. eapply set_global_rtv; [eassumption| |exact R|exact E2]. eapply (eval_chain_vv O FV); eassumption.
  - rewrite rnode_capture. inversion Hwf; inversion Hnv; subst.
    pose proof (mk_both b H ltac:(assumption) ltac:(assumption)) as Hboth.
    pose proof (SF_rlist_of' b Hboth st sink0 W) as Sb. pose proof (VF_rlist_of b Hboth st sink0 W R) as Hb.
    destruct (rl b st sink0) as [[o s1] kc]. destruct Sb as [Eb _]. destruct Hb as [R1 [S1 [N3 N4]]].
    destruct o; try (vsplit; auto; fail).
    destruct (SVk_decode kc (S1 SVk0)) as [t [Dt Ht]]. rewrite Dt.
    pose proof (okst_esim _ _ W Eb) as [_ [G1 _]].
    destruct (set_global_safe x (VScalar (SStr t)) (fr s1) G1) as [f' E2]. rewrite E2. cbn [of_res]. vsplit; auto; try discriminate.
    cbn [fr]. match goal with Hx : sv x = true |- _ => exact (set_global_rtv x (VScalar (SStr t)) Hx Ht _ _ R1 E2) end.
  - cbn [rnode]. inversion Hnv; subst.
    match goal with |- context [write_str st k ?t] => pose proof (vpost_write st k t R (show_Z_sv _)) as Hw; destruct (write_str_cases st k t) as [k0 [E|E]]; rewrite E in * end; [|exact Hw].
    destruct Hw as [_ [S0 _]].
    match goal with |- context [set_index x ?v (fr st)] => destruct (set_index_safe x v (fr st) WI) as [f' E2]; rewrite E2 end. cbn [of_res].
    vsplit; auto; try discriminate. cbn [fr]. match goal with Hx : sv x = true |- _ => exact (set_index_rtv x _ Hx (vz_vv _) _ _ R E2) end.
  - cbn [rnode]. inversion Hnv; subst.
    match goal with |- context [write_str st k ?t] => pose proof (vpost_write st k t R (show_Z_sv _)) as Hw; destruct (write_str_cases st k t) as [k0 [E|E]]; rewrite E in * end; [|exact Hw].
    destruct Hw as [_ [S0 _]].
    match goal with |- context [set_index x ?v (fr st)] => destruct (set_index_safe x v (fr st) WI) as [f' E2]; rewrite E2 end. cbn [of_res].
    vsplit; auto; try discriminate. cbn [fr]. match goal with Hx : sv x = true |- _ => exact (set_index_rtv x _ Hx (vz_vv _) _ _ R E2) end.
  - cbn [rnode]. inversion Hwf; inversion Hnv; subst.
    apply vpost_of_res; [apply cycle_step_safe; destruct vs; [congruence|discriminate]|exact R|].
    intros [i g] _. cbn [fst snd]. destruct (nth_error vs i) as [e|] eqn:En; [|apply vpost_here; auto; discriminate].
    assert (expr_ok e = true) as He.
    { apply nth_error_In in En. match goal with X : exprs_ok vs = true |- _ => unfold exprs_ok in X; rewrite forallb_forall in X; auto end. }
    apply vpost_of_res; [apply eval_expr_safe|exact R|]. intros v E.
    apply vpost_write; [exact R|]. apply (render_sv O HO). eapply (eval_expr_vv O); [exact He| |exact E]. exact R.
  - rewrite rnode_if. inversion Hwf; inversion Hnv; subst. apply vpost_of_res; [apply eval_cond_safe|exact R|]. intros b _.
    destruct (Bool.eqb b m); [apply VF_rlist_of; [apply mk_both; assumption|exact W|exact R]|apply VF_ropt; assumption].
  - rewrite rnode_case. inversion Hwf as [| | | | | | | | | |? ? ? Hws He| | | | | | |]; subst.
    inversion Hnv as [| | | | | | | | | |? ? ? Htg Hvs Hve| | | | | | |]; subst.
    apply vpost_of_res; [apply eval_expr_safe|exact R|]. intros tv _. clear Hwf Hnv.
    induction ws as [|[args body] ws IHw]; [apply VF_ropt; assumption|].
    inversion H as [|? ? Hb Hr]; subst. inversion Hws as [|? ? Hb' Hr']; subst. inversion Hvs as [|? ? [Ha Hb''] Hr'']; subst. simpl in Hb, Hb', Hb''.
    apply case_any_vpost; [exact W|exact R|apply IHw; assumption|apply VF_rlist_of; apply mk_both; assumption].
  - rewrite rnode_for. inversion Hwf; inversion Hnv; subst.
    apply vpost_of_res; [apply eval_range_safe|exact R|]. intros arr Ea.
    apply vpost_of_res; [apply attr_usize_safe|exact R|]. intros lim _.
    apply vpost_of_res; [apply attr_usize_safe|exact R|]. intros off _. cbv zeta.
    match goal with |- context [iter_array ?a ?b ?c ?d] => pose proof (iter_array_vv a b c d (eval_range_vv _ _ _ ltac:(eassumption) R Ea)) as Hsel; destruct (iter_array a b c d) eqn:Esel end;
      [apply VF_ropt; assumption|].
    pose proof (mk_both b H ltac:(assumption) ltac:(assumption)) as Hboth.
    apply VF_for; [apply SF_rlist_of'; exact Hboth|apply VF_rlist_of; exact Hboth|assumption| |exact Hsel|exact W|exact R].
    destruct (parent_vv st) as [Hp|Hp]; [exact Hp|contradiction].
  - rewrite (ShapeProofs.rnode_tablerow O ps rec). inversion Hwf; inversion Hnv; subst.
    apply vpost_of_res; [apply eval_range_safe|exact R|]. intros arr Ea.
    apply vpost_of_res; [apply attr_usize_safe|exact R|]. intros cs _.
    apply vpost_of_res; [apply attr_usize_safe|exact R|]. intros lim _.
    apply vpost_of_res; [apply attr_usize_safe|exact R|]. intros off _. cbv zeta.
    pose proof (mk_both b H ltac:(assumption) ltac:(assumption)) as Hboth.
    match goal with |- context [iter_array ?a ?b ?c ?d] => pose proof (iter_array_vv a b c d (eval_range_vv _ _ _ ltac:(eassumption) R Ea)) as Hsel end.
    destruct cs as [[|p|p]|]; try (apply vpost_here; auto; discriminate);
      (apply VF_tablerow; [apply SF_rlist_of'; exact Hboth|apply VF_rlist_of; exact Hboth|assumption|exact Hsel|exact W|exact R]).
  - cbn [rnode]. vsplit; auto; discriminate.
  - cbn [rnode]. vsplit; auto; discriminate.
  - rewrite (ShapeProofs.rnode_ifchanged O ps rec). inversion Hwf; inversion Hnv; subst.
    pose proof (mk_both b H ltac:(assumption) ltac:(assumption)) as Hboth.
    pose proof (SF_rlist_of' b Hboth st sink0 W) as Sb. pose proof (VF_rlist_of b Hboth st sink0 W R) as Hb.
    destruct (rl b st sink0) as [[o s1] kc]. destruct Sb as [Eb _]. destruct Hb as [R1 [S1 [N3 N4]]].
    destruct o; try (vsplit; auto; fail).
    destruct (SVk_decode kc (S1 SVk0)) as [t [Dt Ht]]. rewrite Dt. cbv zeta.
    destruct (match r_changed (get_regs s1) with Some l => negb (str_eqb l t) | None => true end).
    + apply vpost_write; [rewrite fr_set_regs; exact R1|exact Ht].
    + vsplit; auto; discriminate.
  - cbn [rnode]. inversion Hnv; subst. apply vpost_of_res; [apply eval_expr_safe|exact R|]. intros pv _.
    destruct pv; try (apply vpost_here; auto; discriminate).
    apply vpost_of_res; [apply eval_args_safe|exact R|]. intros ar Ear.
    apply vpost_of_res; [apply (ps_safe ps ps_ok1)|exact R|]. intros body Eb.
    destruct (ps_tv _ _ Eb) as [Tw Tv].
    assert (Ra : rtv (fr (push_plain ar st)) = true) by (apply rtv_push_plain; [match goal with Hargs : args_ok _ = true |- _ => exact (eval_args_ov _ _ [] _ Hargs R eq_refl Ear) end|exact R]).
    pose proof (rec_VF body Tw Tv (push_plain ar st) k (okst_push_plain _ _ W) Ra) as Hb.
    destruct (rec body (push_plain ar st) k) as [[o1 s1] k1]. destruct Hb as [R1 [S1 [N3 N4]]].
    vsplit; auto. rewrite fr_pop_plain. apply rtv_tl. exact R1.
  - cbn [rnode]. inversion Hnv as [| | | | | | | | | | | | | | | | |? ? ? Hp Ha Hf]; subst.
    apply vpost_of_res; [apply eval_expr_safe|exact R|]. intros pv _.
    destruct pv; try (apply vpost_here; auto; discriminate).
    cbv zeta. match goal with |- context [ps (?n ++ k_dot_liquid)] => fold (lookup2 ps n); pose proof (lookup2_ok ps ps_ok1 n) as [Hl1 _]; pose proof (lookup2_tv n) as Hl2 end.
    destruct f as [[rng x]|].
    + destruct Hf as [Hrng Hx]. apply vpost_of_res; [apply eval_range_safe|exact R|]. intros arr Ea.
      pose proof (eval_range_vv _ _ _ Hrng R Ea) as Harr.
      destruct arr as [|v0 vs0]; [apply vpost_here; auto; discriminate|].
      apply vpost_of_res; [apply eval_args_safe|exact R|]. intros ar Ear.
      apply vpost_of_res; [exact Hl1|exact R|]. intros body Eb. destruct (Hl2 _ Eb) as [Tw Tv].
      apply VF_render_for; [apply rec_SF; exact Tw|apply rec_VF; assumption|exact Hx|intro s0; apply eval_args_safe| |exact Harr|exact W|exact R].
      intros s0 b0 R0 E0. match goal with Hargs : args_ok _ = true |- _ => exact (eval_args_ov _ _ [] _ Hargs R0 eq_refl E0) end.
    + apply vpost_of_res; [apply eval_args_safe|exact R|]. intros ar Ear.
      apply vpost_of_res; [exact Hl1|exact R|]. intros body Eb. destruct (Hl2 _ Eb) as [Tw Tv].
      assert (Ra : rtv (fr (push_sandbox ar st)) = true) by (apply rtv_push_sandbox; [match goal with Hargs : args_ok _ = true |- _ => exact (eval_args_ov _ _ [] _ Hargs R eq_refl Ear) end|exact R]).
      pose proof (rec_VF body Tw Tv (push_sandbox ar st) k (okst_push_sandbox _ _ W) Ra) as Hb.
      destruct (rec body (push_sandbox ar st) k) as [[o1 s1] k1]. destruct Hb as [R1 [S1 [N3 N4]]].
      vsplit; auto. rewrite fr_pop_sandbox. apply rtv_tl, rtv_tl. exact R1.
Qed.
End VAll.
End V2.

Section Top.
Variable O : oracle.
Hypothesis HO : oracle_valid O.
Hypothesis FV : forall f v args r, vv v = true -> forallb vv args = true -> apply_filter O f v args = Ok r -> vv r = true.
Variable ps : pstore.
Hypothesis ps_ok : forall name, match ps name with Ok b => twf b /\ tvalid b | Panic _ => False | _ => True end.

Lemma ps_ok_wf : forall name, match ps name with Ok b => twf b | Panic _ => False | _ => True end.
Proof. intro name. specialize (ps_ok name). destruct (ps name); auto. tauto. Qed.

Theorem render_valid : forall d l, twf l -> tvalid l -> VF (render O ps d l).
Proof.
  induction d as [|d IH]; intros l Hw Hv; [intros s k W R; apply vpost_here; auto; discriminate|].
  cbn [render]. apply VF_rlist_of. unfold twf, tvalid in *. rewrite Forall_forall in *. intros n Hn. split.
  - apply (SF_rnode O ps (render O ps d) ps_ok_wf); [intros; apply (render_safe O ps ps_ok_wf); assumption|auto].
  - apply (VF_rnode O HO FV ps (render O ps d) ps_ok); [intros; apply (render_safe O ps ps_ok_wf); assumption|exact IH|auto|auto].
Qed.

(* C02, complete up to the unspecified sort: no panic site other than slice::sort_by on a comparator
   that is not a total preorder can be reached, and what a render writes into an unbounded sink is
   the UTF-8 encoding of valid characters *)
Theorem render_top_panic_free depth t data k : twf t -> tvalid t -> ov data = true ->
  match render_top O ps depth t data k with
  | (OPanicked n, _, _) => n = site_sort_unspecified
  | _ => True
  end.
Proof.
  intros Hw Hv Hd. unfold render_top.
  pose proof (render_safe O ps ps_ok_wf (S depth) t Hw (est_build data) k (okst_build data)) as S1.
  pose proof (render_valid (S depth) t Hw Hv (est_build data) k (okst_build data) (rtv_build data Hd)) as V1.
  destruct (render O ps (S depth) t (est_build data) k) as [[o s'] k']. destruct S1 as [_ So]. destruct V1 as [_ [_ [N3 N4]]].
  destruct o; auto. cbn [osafe] in So. destruct So as [E|[E|E]]; [exact E|subst; contradiction|subst; contradiction].
Qed.
Theorem output_is_utf8 depth t data : twf t -> tvalid t -> ov data = true ->
  match render_top O ps depth t data sink0 with
  | (_, _, k') => exists text, forallb valid_char text = true /\ acc k' = encode text /\ decode (acc k') = Some text
  end.
Proof.
  intros Hw Hv Hd. unfold render_top.
  pose proof (render_valid (S depth) t Hw Hv (est_build data) sink0 (okst_build data) (rtv_build data Hd)) as V1.
  destruct (render O ps (S depth) t (est_build data) sink0) as [[o s'] k']. destruct V1 as [_ [Sk _]].
  destruct (Sk SVk0) as [_ [text [Ht Ha]]]. exists text. repeat split; auto. rewrite Ha. apply decode_encode. exact Ht.
Qed.
End Top.
