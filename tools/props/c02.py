"""C02 — rendering is total: any template on any data yields output or an error.

Two suites share one run: (F) every filter x every input kind x every argument kind at arity <= 2,
compared as values with the model's apply_filter (filters outside the model are explored on the
implementation only); (T) templates stressing every tag and block with type-confused and extreme
arguments, compared with the model's evaluator."""
import itertools, json, random, struct, types
from props import tpl, seqcommon as sc, progen
from props.tpl import lit, var, I, Sx, observed
from lv import C, R, S, P, Opt, val_ir, float_ir
import lv

PROP = "C02"
TARGETS = ["props/C02.vo", "corr/C02corr.vo", "corr/Rendercorr.vo"]
TRUSTED = [
    "model/Eval.v transcribes every stdlib tag and block, model/Filters_{math,html,seq}.v every stdlib filter except `date`; the jekyll/shopify/extra filters and `date` are outside the model: "
    "for them the sweep below explores the implementation only (no theorem covers them; C17 covers strftime)",
    "panic freedom of the implementation's Rust code below the level of the model (slice indexing inside a filter body, allocation failure, stack depth) is observed by the sweep (catch_unwind, process exit status, debug and release builds), not proved",
    "the two String::from_utf8(..).expect sites of capture/ifchanged (model sites 303/304) are excluded from the theorem's conclusion: their safety is the UTF-8 validity of what a render writes, which is checked on every output of the sweep",
]
RULE = ("(F) every registered filter x input pool (nil, booleans, 0, -1, 7, i64::MIN/MAX, floats incl. ties and NaN, empty/blank/non-ASCII/combining strings, numeric strings, arrays of mixed types and of 40 elements, arrays of objects, objects, nested) "
        "x argument pool at arity 0..2 (plus one argument too many / too few), every combination at arity <= 1 and a seeded sample of the pairs at arity 2 in the quick tier (all pairs in thorough), debug and release builds; "
        "(T) for/tablerow over every pool value with limit/offset/cols drawn from {0,-1,1,3,10^4,i64::MIN,i64::MAX, strings, floats, nil}, ranges with confused and reversed bounds, cycle/increment/decrement/capture/ifchanged/case/include/render "
        "with type-confused operands, and random nested programs over stress data; non-trivial = the render returns Ok with non-empty output")

I64MIN, I64MAX = -2 ** 63, 2 ** 63 - 1


def F(x):
    return ["f", str(struct.unpack("<Q", struct.pack("<d", x))[0])]


INPUTS = [["n"], ["b", True], ["b", False], ["i", "0"], ["i", "-1"], ["i", "7"], ["i", str(I64MIN)], ["i", str(I64MAX)], F(2.5), F(0.5), F(-1.5), F(1e300),
          ["s", ""], ["s", "  "], ["s", "abc def"], ["s", "héllo wörld"], ["s", "é́x"], ["s", "12"], ["s", "3.5"], ["s", "<a href='x'>&amp;</a>"], ["s", "%41+%zz%c3%a9"], ["s", "caf%FF"], ["s", "%C3"], ["s", "a" + "é" * 40], ["s", "日" * 25],
          ["a", []], ["a", [["i", "3"], ["s", "a"], ["n"], F(1.5), ["b", True]]], ["a", [["a", [["i", "1"], ["i", "2"]]], ["a", [["i", "3"]]]]],
          ["a", [["i", str(i % 7)] for i in range(40)]], ["a", [["o", [["a", ["i", "2"]]]], ["o", [["a", ["i", "1"]]]], ["o", [["b", ["s", "x"]]]]]],
          ["a", [["o", [["a", ["i", "1"]]]], ["o", [["a", ["s", "x"]]]], ["o", [["a", ["a", [["i", "1"]]]]]], ["o", [["a", ["b", True]]]]]],      # property values that do not order against each other
          ["o", []], ["o", [["a", ["i", "1"]]]], ["o", [["a", ["o", [["b", ["a", [["i", "1"]]]]]]]]]]
INPUTS_THOROUGH = [F(float("nan")), F(float("inf")), F(-0.0), ["s", "\U0001F1F7\U0001F1FA👍🏽"], ["s", "a" * 300], ["a", [["s", "b"], ["s", "A"], ["s", "a"], ["s", "B"]]], ["i", "10000"], ["s", "-"], ["st", "Empty"]]
ARGS = [["n"], ["b", True], ["i", "0"], ["i", "-1"], ["i", "1"], ["i", "3"], ["i", "10000"], ["i", str(I64MIN)], ["i", str(I64MAX)], F(0.5), F(-2.5), ["s", ""], ["s", " "], ["s", "a"], ["s", "é"], ["s", "2"], ["s", "ab" + "日" * 22],
        ["a", [["i", "1"]]], ["o", [["a", ["i", "1"]]]]]
ARGS_THOROUGH = [F(float("nan")), F(0.0), ["s", "ab"], ["i", "50"], ["s", "%Y"], ["a", []]]

STD = {"abs": (0, 0), "append": (1, 1), "at_least": (1, 1), "at_most": (1, 1), "capitalize": (0, 0), "ceil": (0, 0), "compact": (0, 1), "concat": (1, 1), "default": (1, 1),
       "divided_by": (1, 1), "downcase": (0, 0), "escape": (0, 0), "escape_once": (0, 0), "first": (0, 0), "floor": (0, 0), "join": (0, 1), "last": (0, 0), "lstrip": (0, 0), "map": (1, 1),
       "minus": (1, 1), "modulo": (1, 1), "newline_to_br": (0, 0), "plus": (1, 1), "prepend": (1, 1), "remove": (1, 1), "remove_first": (1, 1), "replace": (1, 2), "replace_first": (1, 2),
       "reverse": (0, 0), "round": (0, 1), "rstrip": (0, 0), "size": (0, 0), "slice": (1, 2), "sort": (0, 1), "sort_natural": (0, 1), "split": (1, 1), "strip": (0, 0), "strip_html": (0, 0),
       "strip_newlines": (0, 0), "times": (1, 1), "truncate": (0, 2), "truncatewords": (0, 2), "uniq": (0, 0), "upcase": (0, 0), "url_decode": (0, 0), "url_encode": (0, 0), "where": (1, 2), "date": (1, 1)}
EXTRA = {"push": (1, 1), "pop": (0, 0), "shift": (0, 0), "unshift": (1, 1), "array_to_sentence_string": (0, 1), "slugify": (0, 1), "pluralize": (2, 2), "date_in_tz": (2, 2), "sort": (0, 1)}


XF = {"push": "XPush", "pop": "XPop", "shift": "XShift", "unshift": "XUnshift", "array_to_sentence_string": "XSentence", "pluralize": "XPluralize"}


def filt_ctor(name):
    if name == "date":
        return C("FD")
    if name in XF:
        return C("FX", C(XF[name]))
    if name in tpl.MATH:
        return C("FM", C(tpl.MATH[name]))
    if name in tpl.HTML:
        return C("FH", C(tpl.HTML[name]))
    return C("FS", C(sc.CTOR[name]))


# ------------------------------------------------------------------ suite F: filters
PARSE = {}
DATES = {}      # text -> ['dt', text, y, mo, d, h, mi, s, ns, off] | None : DateTime::from_str as the implementation answers it
DATE_INPUTS = [["s", "2016-02-16 10:00:00 +0100"], ["s", "2024-02-29 23:59:59.25 -0330"], ["s", "13 Jun 2016 02:30:00 +0300"], ["s", "1700000000"], ["s", "2016-02-16"], ["dt", "1999-12-31 23:59:59 +1400", 1999, 12, 31, 23, 59, 59, 0, 50400]]
DATE_ARGS = [["s", "%Y-%m-%d %H:%M:%S %z"], ["s", "%a %b %e %j %U %G-%V %s %L"], ["s", "%-d %^B %10Y %é %"], ["s", "%Q %:z %::z %E"], ["s", "é%%é"]]


def f_gen(tier, seed):
    rnd = random.Random(seed)
    ins = INPUTS + (INPUTS_THOROUGH if tier == "thorough" else INPUTS_THOROUGH[:3])
    args = ARGS + (ARGS_THOROUGH if tier == "thorough" else [])
    cases = []

    def add(f, x, a, config):
        cases.append({"f": f, "x": x, "args": a, "config": config, "chain": [(f, a)]})
    for table, config in ((STD, "stdlib"), (EXTRA, "all")):
        for f, (lo, hi) in sorted(table.items()):
            for n in range(max(0, lo - 1), hi + 2):
                if n > 2 and not (hi == 2 and n == 3):
                    continue
                if n == 0:
                    combos = [[]]
                elif n == 1:
                    combos = [[a] for a in args]
                elif n == 2:
                    combos = [[a, b] for a in args for b in args]
                else:
                    combos = [[args[2], args[13], args[3]]]
                wrong = n < lo or n > hi
                for x in (ins + DATE_INPUTS if f == "date" else ins):
                    cs = combos + [[a] for a in DATE_ARGS] if (f == "date" and n == 1) else combos
                    if wrong:
                        cs = combos[:2]
                    elif n == 2 and tier == "quick":
                        cs = rnd.sample(combos, 24)
                    for a in cs:
                        add(f, x, a, config)
    for i, c in enumerate(cases):
        c["id"] = i
    dist = {"exhaustive": True, "filters_modelled": len(STD) + len(XF), "filters_explored_only": len(EXTRA) - len(XF), "inputs": len(ins), "arguments": len(args), "cases": len(cases)}
    return cases, dist


def f_in_model(c):
    return c["config"] == "stdlib" or c["f"] in XF


def f_strings(c):
    ss = []
    for v in [c["x"]] + c["args"]:
        sc.walk_strings(v, ss)
    return ss


PREP_VIOLATIONS = []


def f_prepare(cases, run):
    sc.prepare([c for c in cases if f_in_model(c)], run)
    ss = sorted({s for c in cases if f_in_model(c) for s in f_strings(c)} - set(PARSE))
    if ss:
        r = run([{"id": 0, "kind": "oracle", "parse": ss, "show": [], "chars": "", "graphemes": []}])[0]
        for s, b in zip(ss, r["parse"]):
            PARSE[s] = b
    # DateTime::from_str of every string the date filter may see ("now"/"today" read the clock: never generated)
    ds = sorted({c["x"][1] for c in cases if f_in_model(c) and c["f"] == "date" and c["x"][0] == "s"} - set(DATES))
    if ds:
        rr = run([{"id": i, "kind": "dateparse", "text": t} for i, t in enumerate(ds)])
        for i, t in enumerate(ds):
            r = rr.get(i) if isinstance(rr, dict) else rr[i]
            if r is None or "dt" not in r:
                PREP_VIOLATIONS.append({"what": "reading a text as a date-time (what the date filter does to a string input) panicked or did not return", "input": {"text": t, "template": "{{ s | date: '%Y' }}"}, "observed": r})
                DATES[t] = None
            else:
                DATES[t] = r["dt"]
    # graphemes of every string a truncate may see
    gs = sorted({sc.show_value(c["x"]) for c in cases if f_in_model(c) and c["f"] == "truncate"} - set(sc.ORACLE["graphemes"]))
    if gs:
        r = run([{"id": 0, "kind": "oracle", "parse": [], "show": [], "chars": "", "graphemes": gs}])[0]
        for s, g in zip(gs, r["graphemes"]):
            sc.ORACLE["graphemes"][s] = g


def f_request(c):
    names = ["a%d" % i for i in range(len(c["args"]))]
    t = "{{ x | %s%s | lv_dump }}" % (c["f"], (": " + ", ".join(names)) if names else "")
    return {"id": c["id"], "kind": "render", "config": c["config"], "tpl": t, "data": [["x", c["x"]]] + [[n, a] for n, a in zip(names, c["args"])]}


def f_observed(resp):
    if "ok" in resp:
        if not isinstance(resp["ok"], str):
            return ("badutf8", resp["ok"])
        return ("ok", json.loads(resp["ok"]))
    if "panic" in resp:
        return ("panic", resp["panic"])
    return ("err", resp.get("err") or resp.get("parse_err") or resp.get("build_err"))


def f_case_ir(c, resp):
    kind, v = f_observed(resp)
    exp = C("OOk", val_ir(v)) if kind == "ok" else C("OErr") if kind == "err" else C("OPanic")
    vals = [c["x"]] + c["args"]
    ss, fs = [], []
    for x in vals:
        sc.walk_strings(x, ss)
        sc.walk_floats(x, fs)
    extra = "".join(sc.show_value(x) for x in vals if x[0] != "s")
    casing = c["f"] in ("upcase", "downcase", "capitalize", "sort_natural")
    chars = sorted(sc.closure(set("".join(ss) + extra))) if casing else []
    ups = [P(("n", ord(ch)), S(sc.ORACLE["chars"][ch][0])) for ch in chars if ch in sc.ORACLE["chars"] and sc.ORACLE["chars"][ch][0] != ch]
    los = [P(("n", ord(ch)), S(sc.ORACLE["chars"][ch][1])) for ch in chars if ch in sc.ORACLE["chars"] and sc.ORACLE["chars"][ch][1] != ch]
    gkeys = sorted(set(ss) | {sc.show_value(c["x"])})
    graphs = [P(S(s), [S(g) for g in sc.ORACLE["graphemes"][s]]) for s in gkeys if s in sc.ORACLE["graphemes"] and sc.ORACLE["graphemes"][s] != list(s)]
    shows = [P(float_ir(b), S(sc.ORACLE["show"][b])) for b in sorted(set(fs)) if b in sc.ORACLE["show"]]
    parses = [P(S(s), Opt(float_ir, PARSE[s])) for s in sorted(set(ss)) if s in PARSE]
    dates = []
    if c["f"] == "date" and c["x"][0] == "s" and c["x"][1] in DATES:
        j = DATES[c["x"][1]]
        dates = [P(S(c["x"][1]), None if j is None else ("some", lv.scalar_ir(j)[2][0]))]
    return R("mkF", filt_ctor(c["f"]), val_ir(c["x"]), [val_ir(a) for a in c["args"]], shows, parses, ups, los, graphs, dates, exp)


def comparable_for_sort(c):
    """false when the sort keys are not mutually comparable under Liquid's ordering (the known finding)"""
    from props import c14
    seq = c14.as_seq(c["x"])
    if c["args"]:
        keyf = lambda v: c14.prop(v, sc.show_value(c["args"][0]))
    else:
        keyf = lambda v: v
    try:
        ks = [keyf(v) for v in seq]
        return not any(c14.nsc(a, b) is None for a in ks for b in ks)
    except Exception:
        return True


def f_spec_check(c, resp):
    kind, got = f_observed(resp)
    inp = {"template": f_request(c)["tpl"], "data": f_request(c)["data"], "config": c["config"]}
    if kind == "panic":
        if c["f"] in ("sort", "sort_natural") and "total order" in str(got) and not comparable_for_sort(c):
            return {"what": "sort panicked on elements that are not mutually comparable", "input": inp, "observed": got, "key": "sort-incomparable"}
        return {"what": "filter panicked", "input": inp, "observed": got}
    if kind == "badutf8":
        return {"what": "filter output is not valid UTF-8", "input": inp, "observed": got}
    return None


def f_nontrivial(c, resp):
    kind, got = f_observed(resp)
    return kind == "ok" and got != ["n"]


FILTERS = types.SimpleNamespace(PROP=PROP, SUITE="C02filters", HEADER="From LV Require Import Corr Eval C02corr.\n", CHECKER="filter_check", MODEL_HANDLES_PANIC=True,
                                PROFILES=["debug", "release"], gen=f_gen, prepare=f_prepare, request=f_request, case_ir=f_case_ir, spec_check=f_spec_check,
                                nontrivial=f_nontrivial, in_model=f_in_model)


# ------------------------------------------------------------------ suite T: tags and blocks
def t_gen(tier, seed):
    rnd = random.Random(seed + 7)
    pool = [v for v in INPUTS if not (v[0] == "f" and v[1] == F(1e300)[1])]
    data = [["p%d" % i, v] for i, v in enumerate(pool)]
    names = [n for n, _ in data]
    # multi-key objects print in hash order: they are iterated only where nothing of them is printed
    nums = [["i", "0"], ["i", "-1"], ["i", "1"], ["i", "3"], ["i", "10000"], ["i", str(I64MIN)], ["i", str(I64MAX)], ["s", "2"], ["s", "x"], F(1.5), ["n"], ["b", True], ["a", []]]
    ndata = [["n%d" % i, v] for i, v in enumerate(nums)]
    nnames = [n for n, _ in ndata]
    alld = data + ndata + [["arr", ["a", [["s", "x"], ["s", "y"], ["s", "z"], ["s", "w"], ["s", "v"]]]]]
    cases = []

    def add(t, why, partials=None):
        cases.append({"tpl": t, "data": alld, "why": why, "partials": partials})
    body = [("out", (var("x"), [])), ("text", ","), ("out", (var("forloop", "index"), [])), ("text", ";")]
    # for over every value
    for n in names:
        add([("for", "x", ("arr", var(n)), None, None, False, [("text", "i")], [("text", "E")])], "for over any value")
        add([("tablerow", "x", ("arr", var(n)), None, None, None, [("text", "i")])], "tablerow over any value")
        add([("cycle", None, [var(n), Sx("b")]), ("cycle", None, [var(n), Sx("b")])], "cycle values")
        add([("case", var(n), [([var(m)], [("text", m)]) for m in names[:6]], [("text", "E")])], "case")
        add([("capture", "c", [("out", (var(n), [("size", [])]))]), ("out", (var("c"), []))], "capture")
        add([("ifchanged", [("out", (var(n), [("size", [])]))]), ("ifchanged", [("out", (var(n), [("size", [])]))])], "ifchanged")
        add([("assign", "z", (var(n), [])), ("out", (var("z"), [("size", [])]))], "assign")
        add([("include", var(n), [])], "include any name", [("abc def", [("text", "P")])])
        add([("render", var(n), None, [("k", var(n))])], "render any name", [("12", [("out", (var("k"), [("size", [])]))])])
        add([("render", Sx("q"), (("arr", var(n)), "it"), [])], "render for any value", [("q", [("text", "r")])])
        add([("render", Sx("q"), ("with", var(n), "it"), [])], "render with any value", [("q", [("out", (var("it"), [("size", [])]))])])
    # limit / offset / cols from the stress pool
    for a in nnames:
        add([("for", "x", ("arr", var("arr")), var(a), None, False, body, None)], "for limit")
        add([("for", "x", ("arr", var("arr")), None, var(a), True, body, None)], "for offset")
        add([("tablerow", "x", ("arr", var("arr")), var(a), None, None, [("out", (var("x"), []))])], "tablerow cols")
        add([("for", "x", ("cnt", var(a), I(3) if a != "n5" else I(I64MIN + 2)), None, None, False, body, [("text", "E")])], "range start")
        add([("for", "x", ("cnt", I(-2), var(a)), None, None, False, [("text", ".")], [("text", "E")])] if a not in ("n4", "n6") else
            [("for", "x", ("cnt", I(9990), var(a)), None, None, False, [("text", ".")], [("text", "E")])] if a == "n4" else
            [("for", "x", ("cnt", I(I64MAX - 3), var(a)), None, None, False, [("text", ".")], [("text", "E")])], "range end")
        for b in nnames if tier == "thorough" else rnd.sample(nnames, 4):
            add([("for", "x", ("arr", var("arr")), var(a), var(b), False, body, None)], "for limit+offset")
            add([("tablerow", "x", ("arr", var("arr")), var(a), var(b), var(a), [("out", (var("x"), []))])], "tablerow cols+limit+offset")
    # literal forms the parser accepts
    for z in (0, -1, 1, 2, 3, 7, 10000, I64MAX, I64MIN):
        add([("tablerow", "x", ("arr", var("arr")), I(z), None, None, [("out", (var("x"), []))])], "tablerow cols literal")
        add([("for", "x", ("arr", var("arr")), I(z), I(z), False, body, None)], "for literal limit/offset")
    add([("for", "x", ("cnt", I(I64MAX - 2), I(I64MAX)), None, None, False, [("out", (var("x"), []))], None)], "range at i64::MAX")
    add([("for", "x", ("cnt", I(I64MIN), I(I64MIN + 2)), None, None, False, [("out", (var("x"), []))], None)], "range at i64::MIN")
    add([("for", "x", ("cnt", I(5), I(1)), None, None, False, [("text", ".")], [("text", "E")])], "reversed range")
    add([("inc", "c")] * 3 + [("dec", "c")] * 5 + [("dec", "d")], "counters")
    # random nested programs over the stress data
    allow = ("assign", "capture", "inc", "dec", "for", "if", "include", "render", "read", "text", "break", "continue", "cycle", "ifchanged", "tablerow")
    for _ in range(150 if tier == "quick" else 3000):
        g = progen.Gen(rnd, partial_names=["p1"], allow=allow, names=["a", "b", "c"])
        p1 = progen.Gen(rnd, partial_names=[], allow=allow).body(2, False, 3)
        t = g.program(size=5, depth=3)
        # arrays of at most 6 elements: a capture that prints itself inside nested loops grows like len^len
        small = [v for v in pool if not (v[0] in "ao" and len(v[1]) > 6)]
        d = [["a", rnd.choice(small)], ["b", rnd.choice(small)], ["arr", rnd.choice([v for v in small if v[0] in "ao" and (v[0] != "o" or len(v[1]) < 2)] + [["a", [["i", "1"], ["i", "2"]]]])]]
        cases.append({"tpl": t, "data": d, "why": "random program", "partials": [("p1", p1)]})
    for i, c in enumerate(cases):
        c["id"] = i
    dist = {"exhaustive": True}
    for c in cases:
        dist[c["why"]] = dist.get(c["why"], 0) + 1
    return cases, dist


def t_prepare(cases, run):
    tpl.prepare_floats(cases, run)


def t_spec_check(c, resp):
    cls, acc = observed(resp)
    inp = {"template": tpl.body_text(c["tpl"]), "data": [d for d in c["data"] if d[0] in tpl.body_text(c["tpl"])], "partials": [[n, tpl.body_text(b)] for n, b in (c["partials"] or [])]}
    if cls == 2:
        return {"what": "render panicked", "input": inp, "observed": resp.get("panic")}
    if "parse_err" in resp:
        return {"what": "a well-formed template was rejected by the parser", "input": inp, "observed": resp["parse_err"]}
    if acc is None:
        return {"what": "the bytes written are not valid UTF-8", "input": inp, "observed": resp}
    return None


def t_nontrivial(c, resp):
    cls, acc = observed(resp)
    return cls == 0 and bool(acc)


TAGS = types.SimpleNamespace(PROP=PROP, SUITE="C02tags", HEADER="From LV Require Import Corr Eval Rendercorr.\n", CHECKER="render_check", MODEL_HANDLES_PANIC=True,
                             PROFILES=["debug", "release"], gen=t_gen, prepare=t_prepare, request=tpl.request, case_ir=lambda c, r: tpl.case_ir(c, r),
                             spec_check=t_spec_check, nontrivial=t_nontrivial)


def main(tier, seed):
    import lvcheck
    run = lv.Run(PROP, tier, seed)
    run.trusted = lv.COMMON_TRUSTED + TRUSTED
    lv.standard_proof_phase(run, PROP, TARGETS, thorough=(tier == "thorough"))
    a = lvcheck.generic_suite(run, FILTERS, tier, seed)
    b = lvcheck.generic_suite(run, TAGS, tier, seed)
    seen_pv = set()
    for v in PREP_VIOLATIONS:
        if v["input"]["text"] not in seen_pv:
            seen_pv.add(v["input"]["text"])
            run.violations.append(v)
    # every argument position of every tag filled with every kind of expression (C01's grid): whatever parses is rendered, on both builds; never a panic, always valid UTF-8
    from props import c01
    texts = []
    for schema in c01.ARG_SCHEMAS:
        k = schema.count("S")
        fills = [(x,) * k for x in c01.ARG_POOL] + ([(x, y) for x in c01.ARG_CORE for y in c01.ARG_POOL] + [(y, x) for x in c01.ARG_CORE for y in c01.ARG_POOL] if k == 2 else [])
        for f in fills:
            parts = schema.split("S")
            texts.append("".join(x + (f[i] if i < len(f) else "") for i, x in enumerate(parts)))
    texts = sorted(set(texts))
    gdata = [["x", ["o", [["y", ["i", "2"]], ["k", ["s", "v"]]]]], ["y", ["i", "2"]], ["a", ["a", [["s", "é1"], ["i", "2"], ["n"], ["o", [["k", ["s", "v"]]]]]]], ["forloop", ["s", "shadow"]]]
    grid_n, grid_rendered = 0, 0
    for profile in ("debug", "release"):
        ok, binp, out, dt = lv.build_harness(profile)
        if not ok:
            run.obligation(False, "harness build against /repo (%s)" % profile, out[-2000:])
            continue
        reqs = [{"id": i, "kind": "render", "tpl": t, "data": gdata, "partials": [["p", "<{{ k }}{{ v }}>"], ["v", "V"]]} for i, t in enumerate(texts)]
        resps, problems = lv.run_harness(binp, reqs, tag="C02grid" + profile)
        for pb in problems:
            run.violations.append({"what": "implementation process died while rendering", "input": {"template": texts[pb["first_unanswered"]] if pb.get("first_unanswered") is not None and pb["first_unanswered"] < len(texts) else None}, "observed": pb["tail"], "profile": profile})
        for i, t in enumerate(texts):
            r = resps.get(i)
            if r is None:
                continue
            grid_n += 1
            if "panic" in r:
                run.violations.append({"what": "parsing or rendering panicked", "input": {"template": t, "data": gdata}, "observed": r["panic"], "profile": profile})
            elif "ok" in r or "err" in r:
                grid_rendered += 1
                if tpl.observed(r)[1] is None:
                    run.violations.append({"what": "the bytes written are not valid UTF-8", "input": {"template": t, "data": gdata}, "observed": r, "profile": profile})
    a["evaluations"] += grid_n
    a["nontrivial"] += grid_rendered
    a["dist"]["tag_argument_grid_templates"] = len(texts)
    run.coverage.update({"evaluations": a["evaluations"] + b["evaluations"], "distinct_nontrivial": a["nontrivial"] + b["nontrivial"], "rule": RULE,
                         "samples": a["samples"][:2] + b["samples"][:2], "traces_validated_against_impl": a["evaluations"] + b["evaluations"],
                         "disagreements_checked": a["disagreements"] + b["disagreements"], "exhaustive": True,
                         "input_distribution": {"filters": a["dist"], "tags": b["dist"]}})
    return run.finish()
