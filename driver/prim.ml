(* readers for the primitive extracted types *)
open Model
exception Bad of string
let bad what s = raise (Bad (what ^ ": " ^ Sexp.to_string s))

let hexval c = match c with
  | '0'..'9' -> Char.code c - 48 | 'a'..'f' -> Char.code c - 87 | 'A'..'F' -> Char.code c - 55
  | _ -> raise (Bad "hex digit")

(* positive from a hex magnitude string (most significant digit first); None for zero *)
let pos_of_hex (h : string) : positive option =
  let acc = ref None in
  String.iter (fun c ->
    let v = hexval c in
    for b = 3 downto 0 do
      let bit = (v lsr b) land 1 in
      acc := (match !acc, bit with
              | None, 0 -> None
              | None, _ -> Some XH
              | Some p, 0 -> Some (XO p)
              | Some p, _ -> Some (XI p))
    done) h;
  !acc

let split_num (a : string) : bool * string =
  let neg = String.length a > 0 && a.[0] = '-' in
  let a = if neg then String.sub a 1 (String.length a - 1) else a in
  if String.length a > 0 && a.[0] = 'x' then (neg, String.sub a 1 (String.length a - 1))
  else (neg, Printf.sprintf "%x" (int_of_string a))

let read_z (s : Sexp.t) : z = match s with
  | Sexp.Atom a -> let (neg, h) = split_num a in
      (match pos_of_hex h with None -> Z0 | Some p -> if neg then Zneg p else Zpos p)
  | _ -> bad "z" s
let read_n (s : Sexp.t) : n = match s with
  | Sexp.Atom a -> let (_, h) = split_num a in (match pos_of_hex h with None -> N0 | Some p -> Npos p)
  | _ -> bad "n" s
let read_positive (s : Sexp.t) : positive = match s with
  | Sexp.Atom a -> let (_, h) = split_num a in (match pos_of_hex h with None -> bad "positive 0" s | Some p -> p)
  | _ -> bad "positive" s
let read_nat (s : Sexp.t) : nat = match s with
  | Sexp.Atom a -> let (_, h) = split_num a in
      let k = int_of_string ("0x" ^ (if h = "" then "0" else h)) in
      let rec go i acc = if i = 0 then acc else go (i - 1) (S acc) in go k O
  | _ -> bad "nat" s
let read_bool (s : Sexp.t) : bool = match s with
  | Sexp.Atom "true" -> true | Sexp.Atom "false" -> false | _ -> bad "bool" s
let read_unit (s : Sexp.t) : unit = ignore s
let read_list (f : Sexp.t -> 'a) (s : Sexp.t) : 'a list = match s with
  | Sexp.List l -> List.map f l
  | Sexp.Atom a when String.length a >= 2 && a.[0] = 's' && a.[1] = ':' ->
      (* a string atom read at type `n list`: the elements are hex code points *)
      let body = String.sub a 2 (String.length a - 2) in
      if body = "" then [] else List.map (fun h -> f (Sexp.Atom ("x" ^ h))) (String.split_on_char ',' body)
  | _ -> bad "list" s
let read_option (f : Sexp.t -> 'a) (s : Sexp.t) : 'a option = match s with
  | Sexp.Atom "None" -> None
  | Sexp.List [Sexp.Atom "Some"; x] -> Some (f x)
  | _ -> bad "option" s
let read_tuple2 f g (s : Sexp.t) = match s with Sexp.List [a; b] -> (f a, g b) | _ -> bad "pair" s
let read_tuple3 f g h (s : Sexp.t) = match s with Sexp.List [a; b; c] -> (f a, g b, h c) | _ -> bad "triple" s
let read_tuple4 f g h i (s : Sexp.t) = match s with Sexp.List [a; b; c; d] -> (f a, g b, h c, i d) | _ -> bad "4-tuple" s
let read_fn (_ : Sexp.t) = raise (Bad "functions cannot be read")
