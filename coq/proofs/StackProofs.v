(* Proofs about model/Stack.v (property C18; reused by C04/C08). *)
From LV Require Import Base Value Stack BaseLemmas.

Section P.
Variable O : oracle.
Notation try_get := (try_get O).
Notation get := (get O).
Notation find := (find O).
Notation try_find := (try_find O).

Arguments Value.try_find : simpl never.
Arguments Value.find : simpl never.

(* find.rs: the panic at the end of `find` cannot be reached when the first path element
   is a key of the object (which every caller in stack.rs checks first) *)
Lemma try_find_single d k : try_find (VObject d) [k] = 
  match lookup (scalar_kstr O k) d with
  | Some x => Some x
  | None => if str_eqb (scalar_kstr O k) k_size then Some (VScalar (SInt (Z.of_nat (length d)))) else None
  end.
Proof. unfold Value.try_find; simpl. destruct (lookup _ d); [reflexivity|]. destruct (str_eqb _ _); reflexivity. Qed.

Lemma try_find_cons_key d k p : has_key (scalar_kstr O k) d = true ->
  try_find (VObject d) (k :: p) =
  match lookup (scalar_kstr O k) d with Some x => try_find x p | None => None end.
Proof.
  unfold has_key. intro H. unfold Value.try_find at 1; simpl. fold (Value.try_find O).
  destruct (lookup _ d); [reflexivity|discriminate].
Qed.

Lemma prefix_resolves d k p n : has_key (scalar_kstr O k) d = true ->
  any_prefix_resolves O (VObject d) (k :: p) (S n) = true.
Proof.
  intro H. induction n as [|n IH].
  - simpl. rewrite try_find_single. apply has_key_lookup in H. destruct (lookup _ d); [reflexivity|congruence].
  - cbn [any_prefix_resolves] in *. destruct (try_find (VObject d) (firstn (S (S n)) (k :: p))); [reflexivity|exact IH].
Qed.

Lemma find_spec d k p : has_key (scalar_kstr O k) d = true ->
  find (VObject d) (k :: p) =
  match try_find (VObject d) (k :: p) with Some v => Ok v | None => Err EUnknownIndex end.
Proof.
  intro H. unfold Value.find. destruct (try_find (VObject d) (k :: p)) eqn:E; [reflexivity|].
  destruct p as [|j p].
  - rewrite try_find_single in E. apply has_key_lookup in H. destruct (lookup _ d); congruence.
  - cbn [length Nat.sub]. rewrite ?Nat.sub_0_r. rewrite prefix_resolves by assumption. reflexivity.
Qed.

(* ---- C18: the failing and the optional lookup agree ---- *)
Theorem get_try_get_agree p r v : get p r = Ok v <-> try_get p r = Some v.
Proof.
  induction r as [|f q IH]; destruct p as [|k p']; simpl; try (split; discriminate).
  destruct f as [d|d|d|d];
    try (destruct (has_key (scalar_kstr O k) d) eqn:H;
         [rewrite find_spec by assumption; destruct (try_find (VObject d) (k :: p')); split; congruence
         |exact IH]).
  destruct (lookup (scalar_kstr O k) d); [destruct (try_find (VObject d) (k :: p')); split; congruence|split; discriminate].
Qed.

Theorem get_never_panics p r : not_panic (get p r) = true /\ get p r <> OutOfFuel.
Proof.
  induction r as [|f q IH]; destruct p as [|k p']; simpl; try (split; [reflexivity|discriminate]).
  destruct f as [d|d|d|d];
    try (destruct (has_key (scalar_kstr O k) d) eqn:H;
         [rewrite find_spec by assumption; destruct (try_find (VObject d) (k :: p')); split; (reflexivity || discriminate)
         |exact IH]).
  destruct (lookup (scalar_kstr O k) d); [destruct (try_find (VObject d) (k :: p'))|]; split; (reflexivity || discriminate).
Qed.

(* a lookup that fails, fails with an error *)
Corollary get_ok_or_err p r : (exists v, get p r = Ok v /\ try_get p r = Some v) \/
                              (exists c, get p r = Err c /\ try_get p r = None).
Proof.
  destruct (get_never_panics p r) as [Hp Hf].
  destruct (get p r) as [v|c|s|] eqn:E; try discriminate; try congruence.
  - left; exists v; split; [reflexivity|apply get_try_get_agree; assumption].
  - right; exists c; split; [reflexivity|].
    destruct (try_get p r) as [v|] eqn:T; [|reflexivity].
    apply get_try_get_agree in T. congruence.
Qed.

(* ---- refinement to the abstract "resolving layer" specification ---- *)
Theorem try_get_refines_spec p r : try_get p r = spec_try_get O p r.
Proof.
  unfold spec_try_get. induction r as [|f q IH]; destruct p as [|k p']; simpl; try reflexivity.
  destruct f as [d|d|d|d]; try (destruct (has_key (scalar_kstr O k) d) eqn:H; [reflexivity|exact IH]).
  unfold has_key. destruct (lookup (scalar_kstr O k) d); reflexivity.
Qed.

(* ---- the root listing is exactly the set of top-level names that resolve ---- *)
Lemma try_get_name_resolve k r : try_get [SStr k] r <> None <-> resolve k r <> None.
Proof.
  rewrite try_get_refines_spec. unfold spec_try_get; simpl.
  induction r as [|f q IH]; simpl; [tauto|].
  assert (G : forall d, has_key k d = true -> try_find (VObject d) [SStr k] <> None).
  { intros d H. rewrite try_find_single; simpl. apply has_key_lookup in H. destruct (lookup k d); congruence. }
  destruct f as [d|d|d|d]; destruct (has_key k d) eqn:H; try exact IH;
    try (split; intros _; [discriminate|apply G; assumption]); tauto.
Qed.

Theorem roots_exact k r : In k (roots r) <-> try_get [SStr k] r <> None.
Proof.
  rewrite try_get_name_resolve.
  induction r as [|f q IH]; simpl; [split; [tauto|congruence]|].
  assert (G : forall d, In k (roots q ++ keys d) <->
              (if has_key k d then Some d else resolve k q) <> None).
  { intro d. rewrite in_app_iff, (lookup_in_keys k d), IH. unfold has_key.
    destruct (lookup k d) eqn:L; split; try tauto; try congruence; intros; right; congruence. }
  destruct f as [d|d|d|d]; try apply G.
  rewrite (lookup_in_keys k d). unfold has_key. destruct (lookup k d); split; congruence.
Qed.

(* ---- layers are transparent for names they do not define ---- *)
Theorem plain_transparent k p d q : has_key (scalar_kstr O k) d = false ->
  try_get (k :: p) (FPlain d :: q) = try_get (k :: p) q /\ get (k :: p) (FPlain d :: q) = get (k :: p) q.
Proof. intro H; simpl; rewrite H; split; reflexivity. Qed.
Theorem plain_answers k p d q : has_key (scalar_kstr O k) d = true ->
  try_get (k :: p) (FPlain d :: q) = try_find (VObject d) (k :: p).
Proof. intro H; simpl; rewrite H; reflexivity. Qed.
Theorem global_transparent k p d q : has_key (scalar_kstr O k) d = false ->
  try_get (k :: p) (FGlobal d :: q) = try_get (k :: p) q /\ get (k :: p) (FGlobal d :: q) = get (k :: p) q.
Proof. intro H; simpl; rewrite H; split; reflexivity. Qed.

(* ---- a sandboxed scope hides every outer name ---- *)
Theorem sandbox_hides_all p d q q' :
  try_get p (FSandbox d :: q) = try_get p (FSandbox d :: q') /\
  get p (FSandbox d :: q) = get p (FSandbox d :: q') /\
  roots (FSandbox d :: q) = roots (FSandbox d :: q').
Proof. destruct p; repeat split; reflexivity. Qed.
Theorem sandbox_only_own p d q v : try_get p (FSandbox d :: q) = Some v ->
  exists k p', p = k :: p' /\ has_key (scalar_kstr O k) d = true /\ try_find (VObject d) p = Some v.
Proof.
  destruct p as [|k p']; simpl; [discriminate|]. unfold has_key.
  destruct (lookup (scalar_kstr O k) d) eqn:L; [|discriminate]. intro H. exists k, p'.
  rewrite L. repeat split; auto.
Qed.

(* ---- global assignment lands in the nearest enclosing global layer ---- *)
Fixpoint through (r : rt) : option (list frame * obj * rt) :=
  match r with
  | [] => None
  | FGlobal d :: q => Some ([], d, q)
  | f :: q => match through q with Some (a, d, b) => Some (f :: a, d, b) | None => None end
  end.
Definition not_global (f : frame) : Prop := match f with FGlobal _ => False | _ => True end.

Lemma through_split r a d b : through r = Some (a, d, b) ->
  r = a ++ FGlobal d :: b /\ Forall not_global a.
Proof.
  revert a d b; induction r as [|f q IH]; intros a d b H; simpl in *; [discriminate|].
  destruct f as [e|e|e|e];
    try (destruct (through q) as [[[a' d'] b']|]; [|discriminate]; inversion H; subst;
         destruct (IH _ _ _ eq_refl) as [E F]; simpl; rewrite <- E; split; [reflexivity|constructor; simpl; auto]).
  inversion H; subst. split; [reflexivity|constructor].
Qed.

Theorem set_global_nearest k v r a d b : through r = Some (a, d, b) ->
  set_global k v r = Ok (a ++ FGlobal (upsert k v d) :: b) /\ Forall not_global a.
Proof.
  revert a d b; induction r as [|f q IH]; intros a d b H; simpl in *; [discriminate|].
  destruct f as [e|e|e|e];
    try (destruct (through q) as [[[a' d'] b']|]; [|discriminate]; inversion H; subst;
         destruct (IH _ _ _ eq_refl) as [E F]; rewrite E; simpl; split; [reflexivity|constructor; simpl; auto]).
  inversion H; subst. split; [reflexivity|constructor].
Qed.

Theorem set_global_panics_iff k v r : (exists s, set_global k v r = Panic s) <-> through r = None.
Proof.
  induction r as [|f q IH]; simpl; [split; eauto|].
  destruct f as [e|e|e|e]; try (destruct (through q) as [[[a d] b]|] eqn:T;
    [destruct (set_global_nearest k v q a d b T) as [E _]; rewrite E; simpl; split; [intros [s Hs]; discriminate|discriminate]
    |destruct IH as [_ IH2]; destruct (IH2 eq_refl) as [s Hs]; rewrite Hs; simpl; split; eauto]).
  split; [intros [s Hs]; discriminate|discriminate].
Qed.

(* dropping a layer gives back the runtime as it was, plus the global assignments made meanwhile *)
Theorem pop_restores k v f q r' : not_global f -> set_global k v (f :: q) = Ok r' ->
  exists q', r' = f :: q' /\ set_global k v q = Ok q'.
Proof.
  destruct f as [e|e|e|e]; simpl; try tauto; intros _ H;
    (destruct (set_global k v q) as [q'| | |]; simpl in H; try discriminate; inversion H; eauto).
Qed.
Theorem pop_restores_index k v f q r' : (match f with FIndex _ => False | _ => True end) ->
  set_index k v (f :: q) = Ok r' -> exists q', r' = f :: q' /\ set_index k v q = Ok q'.
Proof.
  destruct f as [e|e|e|e]; simpl; try tauto; intros _ H;
    (destruct (set_index k v q) as [q'| | |]; simpl in H; try discriminate; inversion H; eauto).
Qed.
(* lookups through a popped plain/sandbox layer are those of the underlying runtime *)
Theorem pop_lookup_unchanged p f q : try_get p (tl (f :: q)) = try_get p q.
Proof. reflexivity. Qed.

(* an assignment is seen by every plain layer above the global layer that does not define the name *)
Definition plain_without (k : str) (f : frame) : Prop :=
  match f with FPlain e | FIndex e => has_key k e = false | _ => False end.
Theorem assign_visible k v a d b :
  Forall (plain_without k) a ->
  try_get [SStr k] (a ++ FGlobal (upsert k v d) :: b) = Some v.
Proof.
  induction a as [|f a IH]; intro H; simpl.
  - unfold has_key. rewrite lookup_upsert_same. rewrite try_find_single; simpl. rewrite lookup_upsert_same. reflexivity.
  - inversion H as [|? ? Hf Ha]; subst. destruct f as [e|e|e|e]; simpl in Hf; try contradiction;
      rewrite Hf; apply IH; assumption.
Qed.
(* ... and is invisible from inside a sandbox placed above the global layer (unless the
   sandbox defines the name itself) *)
Theorem assign_hidden_by_sandbox k p e a :
  has_key (scalar_kstr O k) e = false -> try_get (k :: p) (FSandbox e :: a) = None.
Proof. simpl. unfold has_key. destruct (lookup _ e); [discriminate|reflexivity]. Qed.
(* other names are unaffected by the assignment *)
Theorem assign_other_names k v j p r r' : scalar_kstr O j <> k -> set_global k v r = Ok r' ->
  try_get (j :: p) r' = try_get (j :: p) r.
Proof.
  intro N. revert r'; induction r as [|f q IH]; intros r' H; simpl in H; [discriminate|].
  assert (Hk : forall d, has_key (scalar_kstr O j) (upsert k v d) = has_key (scalar_kstr O j) d).
  { intro d. unfold has_key. rewrite lookup_upsert_other by assumption. reflexivity. }
  destruct f as [e|e|e|e];
    try (destruct (set_global k v q) as [q'| | |]; simpl in H; try discriminate; inversion H; subst;
         simpl; rewrite ?(IH q' eq_refl); reflexivity).
  inversion H; subst. simpl. rewrite Hk. destruct (has_key (scalar_kstr O j) e) eqn:Hh; [|reflexivity].
  rewrite !try_find_cons_key by (rewrite ?Hk; assumption). rewrite lookup_upsert_other by assumption. reflexivity.
Qed.

(* ---- counters are shared by all layers, sandboxes included ---- *)
Definition not_index (f : frame) : Prop := match f with FIndex _ => False | _ => True end.
Theorem counters_shared k v a d b :
  Forall not_index a ->
  set_index k v (a ++ FIndex d :: b) = Ok (a ++ FIndex (upsert k v d) :: b) /\
  get_index k (a ++ FIndex (upsert k v d) :: b) = Some v.
Proof.
  induction a as [|f a IH]; intro H; simpl; [split; [reflexivity|apply lookup_upsert_same]|].
  inversion H as [|? ? Hf Ha]; subst. destruct (IH Ha) as [E1 E2].
  destruct f as [e|e|e|e]; simpl in Hf; try contradiction; simpl; rewrite E1; simpl; split; auto.
Qed.
Theorem counters_ignore_scopes k f q : not_index f -> get_index k (f :: q) = get_index k q.
Proof. destruct f; simpl; tauto. Qed.

(* ---- every operation sequence over a builder-made runtime is safe ---- *)
Fixpoint has_global (r : rt) : bool := match r with [] => false | FGlobal _ :: _ => true | _ :: q => has_global q end.
Fixpoint has_index (r : rt) : bool := match r with [] => false | FIndex _ :: _ => true | _ :: q => has_index q end.
(* the base (the last |r| - n frames) contains a global and an index layer *)
Definition base_ok (s : rt * nat) : Prop :=
  let (r, n) := s in n <= length r /\ has_global (skipn n r) = true /\ has_index (skipn n r) = true.

Lemma has_global_skipn n r : n <= length r -> has_global (skipn n r) = true -> has_global r = true.
Proof.
  revert r; induction n as [|n IH]; intros r Hl H; [exact H|].
  destruct r as [|f q]; simpl in *; [lia|]. destruct f; auto; apply IH; auto; lia.
Qed.
Lemma has_index_skipn n r : n <= length r -> has_index (skipn n r) = true -> has_index r = true.
Proof.
  revert r; induction n as [|n IH]; intros r Hl H; [exact H|].
  destruct r as [|f q]; simpl in *; [lia|]. destruct f; auto; apply IH; auto; lia.
Qed.
Lemma set_global_shape k v r : has_global r = true ->
  exists r', set_global k v r = Ok r' /\ length r' = length r /\
             forall n, has_global (skipn n r') = has_global (skipn n r) /\ has_index (skipn n r') = has_index (skipn n r).
Proof.
  induction r as [|f q IH]; simpl; [discriminate|]. intro H.
  destruct f as [e|e|e|e];
    try (destruct (IH H) as [q' [E [L S]]]; rewrite E; simpl; eexists; split; [reflexivity|]; split; [simpl; congruence|];
         intros [|n]; simpl; [destruct (S 0) as [S1 S2]; simpl in *; auto|apply S]).
  eexists; split; [reflexivity|]; split; [reflexivity|]. intros [|n]; simpl; auto.
Qed.
Lemma set_index_shape k v r : has_index r = true ->
  exists r', set_index k v r = Ok r' /\ length r' = length r /\
             forall n, has_global (skipn n r') = has_global (skipn n r) /\ has_index (skipn n r') = has_index (skipn n r).
Proof.
  induction r as [|f q IH]; simpl; [discriminate|]. intro H.
  destruct f as [e|e|e|e];
    try (destruct (IH H) as [q' [E [L S]]]; rewrite E; simpl; eexists; split; [reflexivity|]; split; [simpl; congruence|];
         intros [|n]; simpl; [destruct (S 0) as [S1 S2]; simpl in *; auto|apply S]).
  eexists; split; [reflexivity|]; split; [reflexivity|]. intros [|n]; simpl; auto.
Qed.

Lemma step_safe s o : base_ok s -> exists s', step s o = Ok s' /\ base_ok s'.
Proof.
  destruct s as [r n]. intros [Hl [Hg Hi]]. destruct o as [d|d| | |k v|k v]; simpl.
  - eexists; split; [reflexivity|]. simpl; repeat split; auto; lia.
  - eexists; split; [reflexivity|]. simpl; repeat split; auto; lia.
  - eexists; split; [reflexivity|]. simpl; repeat split; auto; lia.
  - destruct n as [|n]; [eexists; split; [reflexivity|]; simpl; auto|].
    destruct r as [|f q]; [simpl in Hl; lia|]. eexists; split; [reflexivity|]. simpl in *; repeat split; auto; lia.
  - destruct (set_global_shape k v r (has_global_skipn n r Hl Hg)) as [r' [E [L S]]]. rewrite E; simpl.
    eexists; split; [reflexivity|]. destruct (S n) as [S1 S2]. simpl; repeat split; try congruence; lia.
  - destruct (set_index_shape k v r (has_index_skipn n r Hl Hi)) as [r' [E [L S]]]. rewrite E; simpl.
    eexists; split; [reflexivity|]. destruct (S n) as [S1 S2]. simpl; repeat split; try congruence; lia.
Qed.

Theorem run_safe ops : forall s, base_ok s -> exists s', run s ops = Ok s' /\ base_ok s'.
Proof.
  induction ops as [|o t IH]; intros s H; simpl; [eauto|].
  destruct (step_safe s o H) as [s' [E H']]. rewrite E; simpl. apply IH; assumption.
Qed.

(* the unreachable!()s of RuntimeCore are never reached from a RuntimeBuilder-made runtime *)
Theorem builder_runtime_safe data ops :
  exists s', run (runtime_build data, 0) ops = Ok s' /\ base_ok s'.
Proof. apply run_safe. simpl; repeat split; auto; lia. Qed.
End P.
