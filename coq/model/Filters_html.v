(* Filters_html.v — crates/lib/src/stdlib/filters/html.rs (escape, escape_once, strip_html)
   and url.rs (url_encode, url_decode).  The entity table, the set of escaped characters, the
   percent-encoding set and the '+' replacement are the GENERATED constants of gen/Consts.v. *)
From LV Require Export Value Utf8.
From LV Require Import Consts.

(* html.rs nr_escaped: the first listed prefix that matches *)
Fixpoint first_prefix (ps : list str) (t : str) : nat :=
  match ps with [] => 0 | p :: ps' => if prefixb p t then length p else first_prefix ps' t end.
Definition nr_escaped (t : str) : nat := first_prefix html_prefixes t.

Fixpoint assoc_c (c : char) (l : list (char * str)) : option str :=
  match l with [] => None | (d, e) :: t => if N.eqb c d then Some e else assoc_c c t end.
Definition memb_c (c : char) (l : list char) : bool := existsb (N.eqb c) l.
Definition cAMP : char := 38%N.

(* html.rs escape(): one pass over the characters with the `skip` counter *)
Fixpoint esc (once : bool) (skip : nat) (s : str) : str :=
  match s with
  | [] => []
  | c :: t =>
      match skip with
      | S k => c :: esc once k t
      | O =>
          if memb_c c html_specials then
            match assoc_c c html_escapes with
            | Some e => e ++ esc once 0 t
            | None =>     (* the '&' arm *)
                let n := if once then nr_escaped t else 0 in
                match n with
                | O => html_amp_escaped ++ esc once 0 t
                | S _ => html_amp_kept ++ esc once n t
                end
            end
          else c :: esc once 0 t
      end
  end.
Definition escape_str := esc false 0.
Definition escape_once_str := esc true 0.

(* ---- url_encode / url_decode ---- *)
Definition is_alnum (b : N) : bool :=
  ((48 <=? b) && (b <=? 57) || (65 <=? b) && (b <=? 90) || (97 <=? b) && (b <=? 122))%N.
Definition k_NON_ALPHANUMERIC : str := [78;79;78;95;65;76;80;72;65;78;85;77;69;82;73;67]%N.
(* is byte b in the AsciiSet (bytes >= 128 are always encoded by utf8_percent_encode) *)
Definition in_encode_set (b : N) : bool :=
  if (128 <=? b)%N then true else
  let base := if str_eqb url_base_set k_NON_ALPHANUMERIC then negb (is_alnum b) else true in
  fold_left (fun acc e => if N.eqb (snd e) b then negb (fst e) else acc) url_set_edits base.
Definition hex_digit (n : N) : char := if (n <? 10)%N then (48 + n)%N else (55 + n)%N.   (* upper case *)
Definition pct_byte (b : N) : str :=
  if in_encode_set b then [37%N; hex_digit (b / 16); hex_digit (b mod 16)] else [b].
Definition url_encode_str (s : str) : str := flat_map pct_byte (encode s).

Definition hex_val (c : char) : option N :=
  if ((48 <=? c) && (c <=? 57))%N then Some (c - 48)%N
  else if ((65 <=? c) && (c <=? 70))%N then Some (c - 55)%N
  else if ((97 <=? c) && (c <=? 102))%N then Some (c - 87)%N
  else None.
(* percent_encoding::percent_decode over bytes: "%XY" with two hex digits is one byte, anything else literal *)
Fixpoint pct_decode (bs : list byte) : list byte :=
  match bs with
  | [] => []
  | b :: t =>
      if N.eqb b 37 then
        match t with
        | h :: l :: t' =>
            match hex_val h, hex_val l with
            | Some x, Some y => (x * 16 + y)%N :: pct_decode t'
            | _, _ => b :: pct_decode t
            end
        | _ => b :: pct_decode t
        end
      else b :: pct_decode t
  end.
Definition replace_char (c : char) (r : str) (s : str) : str := flat_map (fun x => if N.eqb x c then r else [x]) s.
Definition url_decode_str (s : str) : option str :=
  decode (pct_decode (encode (replace_char (fst url_decode_replace) (snd url_decode_replace) s))).

(* ---- strip_html: four leftmost, lazy, case-insensitive passes ---- *)
(* regex (?i): simple case folding; among the letters used only 's' has an extra partner (U+017F) *)
Definition lower (c : char) : char :=
  if ((65 <=? c) && (c <=? 90))%N then (c + 32)%N else if N.eqb c 383 then 115%N else if N.eqb c 8490 then 107%N else c.
Definition ci_eqb (a b : char) : bool := N.eqb (lower a) (lower b).
Fixpoint prefix_ci (p s : str) : bool :=
  match p, s with
  | [], _ => true
  | a :: p', b :: s' => ci_eqb a b && prefix_ci p' s'
  | _ :: _, [] => false
  end.
Fixpoint occurs_ci (p s : str) : bool :=
  prefix_ci p s || match s with [] => false | _ :: t => occurs_ci p t end.
Inductive smode := Normal | Skipping | Dropping (n : nat).
(* remove every leftmost `open ... close` (close searched lazily after the opener), when a closer exists *)
Fixpoint strip_between (op cl : str) (m : smode) (s : str) : str :=
  match s with
  | [] => []
  | c :: t =>
      match m with
      | Dropping (S k) => strip_between op cl (match k with O => Normal | _ => Dropping k end) t
      | Dropping O => c :: strip_between op cl Normal t      (* not reached *)
      | Skipping =>
          if prefix_ci cl s then strip_between op cl (match length cl with S (S k) => Dropping (S k) | _ => Normal end) t
          else strip_between op cl Skipping t
      | Normal =>
          if prefix_ci op s && occurs_ci cl (skipn (length op) s) then
            (* consume the opener, then look for the closer *)
            match length op with
            | S (S k) => strip_open op cl (S k) t
            | _ => strip_between op cl Skipping t
            end
          else c :: strip_between op cl Normal t
      end
  end
with strip_open (op cl : str) (n : nat) (s : str) : str :=   (* drop the remaining n characters of the opener *)
  match s with
  | [] => []
  | _ :: t => match n with
              | S (S k) => strip_open op cl (S k) t
              | _ => strip_between op cl Skipping t
              end
  end.
Definition s_script : str := [60;115;99;114;105;112;116]%N.
Definition s_script_end : str := [60;47;115;99;114;105;112;116;62]%N.
Definition s_style : str := [60;115;116;121;108;101]%N.
Definition s_style_end : str := [60;47;115;116;121;108;101;62]%N.
Definition s_comment : str := [60;33;45;45]%N.
Definition s_comment_end : str := [45;45;62]%N.
Definition strip_html_str (s : str) : str :=
  strip_between [60%N] [62%N] Normal
    (strip_between s_comment s_comment_end Normal
       (strip_between s_style s_style_end Normal
          (strip_between s_script s_script_end Normal s))).

(* ---- the filters ---- *)
Inductive htmlf := HEscape | HEscapeOnce | HUrlEncode | HUrlDecode | HStripHtml.
Definition html_filter (O : oracle) (f : htmlf) (input : value) : res value :=
  match f with
  | HEscape => match input with VNil => Ok VNil | _ => Ok (VScalar (SStr (escape_str (to_kstr O input)))) end
  | HEscapeOnce => match input with VNil => Ok VNil | _ => Ok (VScalar (SStr (escape_once_str (to_kstr O input)))) end
  | HUrlEncode => match input with VNil => Ok VNil | _ => Ok (VScalar (SStr (url_encode_str (to_kstr O input)))) end
  | HUrlDecode => match input with
                  | VNil => Ok VNil
                  | _ => match url_decode_str (to_kstr O input) with
                         | Some s => Ok (VScalar (SStr s)) | None => Err EInvalidInput end
                  end
  | HStripHtml => Ok (VScalar (SStr (strip_html_str (to_kstr O input))))
  end.
