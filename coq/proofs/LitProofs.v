(* LitProofs.v — the integer-literal rule of the generated grammar, exactly, and what a numeral in a template is:
   for every integer of the 64-bit range the text `show_Z z` is one Literal pair with one IntegerLiteral child
   spanning exactly the numeral, which parse_i64 reads back as z. *)
From LV Require Import Base Peg Grammar PegProofs BaseLemmas.
From Coq Require Import Lia.

Fixpoint span_dig (s : str) : str * str :=
  match s with
  | c :: t => if is_digit c then let (a, b) := span_dig t in (c :: a, b) else ([], s)
  | [] => ([], [])
  end.
Lemma span_dig_app ds rest : forallb is_digit ds = true -> (match rest with c :: _ => is_digit c = false | [] => True end) ->
  span_dig (ds ++ rest) = (ds, rest).
Proof.
  induction ds as [|c ds IH]; intros Hd Hr; cbn [app].
  - destruct rest as [|c r]; [reflexivity|]. cbn [span_dig]. rewrite Hr. reflexivity.
  - cbn [forallb] in Hd. apply andb_true_iff in Hd as [Hc Hd]. cbn [span_dig]. rewrite Hc, (IH Hd Hr). reflexivity.
Qed.
Lemma span_dig_len s : length (fst (span_dig s)) + length (snd (span_dig s)) = length s.
Proof. induction s as [|c t IH]; [reflexivity|]. cbn [span_dig]. destruct (is_digit c); [destruct (span_dig t); cbn in *; lia|reflexivity]. Qed.

Lemma span_dig_nil s r : span_dig s = ([], r) -> r = s.
Proof. destruct s as [|c t]; cbn [span_dig]; [intro H; inversion H; reflexivity|]. destruct (is_digit c); [destruct (span_dig t); discriminate|intro H; inversion H; reflexivity]. Qed.
Lemma ev_rng_digit f at_ la s pos : evg (S f) at_ la (PRng 48%N 57%N) s pos =
  Some (match s with c :: r => if is_digit c then Some (r, S pos, []) else None | [] => None end).
Proof. reflexivity. Qed.

Lemma digits_plus la : forall s pos fuel, 3 + length s <= fuel ->
  evg fuel Atomic la (PPlus (PRng 48%N 57%N)) s pos =
  Some (match span_dig s with ([], _) => None | (ds, r) => Some (r, pos + length ds, []) end).
Proof.
  induction s as [|c t IH]; intros pos fuel Hf; (destruct fuel as [|f]; [lia|]); rewrite ev_plus_atomic; (destruct f as [|f]; [cbn in Hf; lia|]); rewrite ev_rng_digit.
  - reflexivity.
  - cbn [span_dig]. destruct (is_digit c); [|reflexivity].
    rewrite (IH (S pos) (S f)) by (cbn [length] in Hf; lia).
    destruct (span_dig t) as [[|d ds] r] eqn:E; cbn [length app]; [rewrite (span_dig_nil _ _ E)|]; apply res_eq; lia.
Qed.

Definition strip_sign (s : str) : nat * str :=
  match s with c :: t => if ((c =? 43) || (c =? 45))%N then (1, t) else (0, s) | [] => (0, []) end.

(* IntegerLiteral = @{ ("+" | "-")? ~ ASCII_DIGIT+ }, in any mode that produces pairs *)
Theorem integer_rule_exact at_ s pos fuel : at_ <> Atomic -> 10 + length s <= fuel ->
  evg fuel at_ false (PRef r_IntegerLiteral) s pos =
  Some (let (sg, s1) := strip_sign s in
        match span_dig s1 with
        | ([], _) => None
        | (ds, r) => Some (r, pos + sg + length ds, [mkTok r_IntegerLiteral pos (pos + sg + length ds)])
        end).
Proof.
  intros Hat Hf. do 5 (destruct fuel as [|fuel]; [lia|]).
  rewrite ev_ref. rules. cbn [r_mod r_body]. cbv zeta.
  replace (negb false && negb (atom_eqb at_ Atomic) && negb false) with true by (destruct at_; try reflexivity; congruence).
  rewrite ev_seq, ev_opt, ev_alt, !ev_lit.
  destruct s as [|c t].
  - cbn [strip_prefix strip_sign]. rewrite skipf_id by discriminate.
    rewrite (digits_plus false [] pos (S (S (S fuel)))) by (cbn; lia). reflexivity.
  - cbn [strip_sign]. rewrite !strip1.
    destruct (N.eqb_spec 43 c) as [<-|N1].
    + cbn [N.eqb Pos.eqb orb length Nat.add]. rewrite skipf_id by discriminate.
      rewrite (digits_plus false t (pos + 1) (S (S (S fuel)))) by (cbn [length] in Hf; lia).
      destruct (span_dig t) as [[|d ds] r]; [reflexivity|]. cbn [app]. repeat f_equal; lia.
    + destruct (N.eqb_spec 45 c) as [<-|N2].
      * cbn [N.eqb Pos.eqb orb length Nat.add]. rewrite skipf_id by discriminate.
        rewrite (digits_plus false t (pos + 1) (S (S (S fuel)))) by (cbn [length] in Hf; lia).
        destruct (span_dig t) as [[|d ds] r]; [reflexivity|]. cbn [app]. repeat f_equal; lia.
      * replace ((c =? 43)%N || (c =? 45)%N) with false by (symmetry; apply orb_false_iff; split; apply N.eqb_neq; congruence).
        rewrite skipf_id by discriminate.
        rewrite (digits_plus false (c :: t) pos (S (S (S fuel)))) by (cbn [length] in *; lia).
        destruct (span_dig (c :: t)) as [[|d ds] r]; [reflexivity|]. cbn [app]. repeat f_equal; lia.
Qed.

From LV Require Import DecimalProofs DateProofs.
Lemma show_N_digits n : forallb is_digit (show_N n) = true.
Proof. unfold show_N. apply DateProofs.digits_all. reflexivity. Qed.
Lemma show_N_nonempty p : show_N (Npos p) <> [].
Proof. intro E. pose proof (show_N_parse (Npos p)) as H. rewrite E in H. cbn in H. inversion H. Qed.
Lemma digit_not_sign c : is_digit c = true -> ((c =? 43) || (c =? 45))%N = false.
Proof. unfold is_digit. intro H. apply andb_true_iff in H as [H1 H2]. apply N.leb_le in H1. apply orb_false_iff. split; apply N.eqb_neq; lia. Qed.

Definition no_digit_next (rest : str) : Prop := match rest with c :: _ => is_digit c = false | [] => True end.

(* the numeral of z, followed by anything that is not a digit, is one IntegerLiteral pair over exactly the numeral *)
Theorem numeral_is_one_integer_literal z rest at_ pos fuel : no_digit_next rest -> at_ <> Atomic ->
  10 + length (show_Z z ++ rest) <= fuel ->
  evg fuel at_ false (PRef r_IntegerLiteral) (show_Z z ++ rest) pos =
  Some (Some (rest, pos + length (show_Z z), [mkTok r_IntegerLiteral pos (pos + length (show_Z z))])).
Proof.
  intros Hr Hat Hf. rewrite integer_rule_exact by assumption.
  destruct z as [|p|p]; cbn [show_Z].
  - cbn [app strip_sign]. change ((48 =? 43)%N || (48 =? 45)%N) with false. cbv iota.
    pose proof (span_dig_app [48%N] rest eq_refl Hr) as X. cbn [app] in X. rewrite X. cbn [length]. replace (pos + 0 + 1) with (pos + 1) by lia. reflexivity.
  - pose proof (show_N_digits (Npos p)) as D. pose proof (show_N_nonempty p) as NE.
    destruct (show_N (Npos p)) as [|c ds] eqn:E; [congruence|]. cbn [app strip_sign].
    cbn [forallb] in D. apply andb_true_iff in D as [Dc Dd]. rewrite (digit_not_sign c Dc). cbv iota.
    assert (X : span_dig ((c :: ds) ++ rest) = (c :: ds, rest)) by (apply span_dig_app; [cbn [forallb]; rewrite Dc, Dd; reflexivity|exact Hr]).
    cbn [app] in X. rewrite X. replace (pos + 0 + length (c :: ds)) with (pos + length (c :: ds)) by lia. reflexivity.
  - pose proof (show_N_digits (Npos p)) as D. pose proof (show_N_nonempty p) as NE.
    cbn [app strip_sign]. change ((45 =? 43)%N || (45 =? 45)%N) with true. cbv iota.
    rewrite (span_dig_app _ rest D Hr).
    destruct (show_N (Npos p)) as [|c ds] eqn:E; [congruence|]. cbn [length].
    replace (pos + 1 + S (length ds)) with (pos + S (S (length ds))) by lia. reflexivity.
Qed.

(* ---- the Literal rule on a numeral ---- *)
Definition no_fraction_next (rest : str) : Prop :=
  match rest with 46%N :: c :: _ => is_digit c = false | _ => True end.

Lemma float_rule_no_fraction at_ la s pos fuel : 12 + length s <= fuel ->
  (let (sg, s1) := strip_sign s in no_fraction_next (snd (span_dig s1))) ->
  evg fuel at_ la (PRef r_FloatLiteral) s pos = Some None.
Proof.
  intros Hf Hn. do 7 (destruct fuel as [|fuel]; [lia|]).
  rewrite ev_ref. rules. cbn [r_mod r_body]. cbv zeta.
  rewrite ev_seq, ev_opt, ev_alt, !ev_lit.
  assert (Tail : forall t p, length t <= length s -> no_fraction_next (snd (span_dig t)) ->
    evg (S (S (S (S (S fuel))))) Atomic la (PSeq (PPlus (PRng 48%N 57%N)) (PSeq (PLit (@cons char 46%N (@nil char))) (PPlus (PRng 48%N 57%N)))) t p = Some None).
  { intros t p Lt Ht. rewrite ev_seq. rewrite (digits_plus la t p) by lia.
    pose proof (span_dig_len t) as SL. destruct (span_dig t) as [[|d ds] r] eqn:E; [reflexivity|]. cbn [fst snd length] in SL, Ht.
    rewrite skipf_id by discriminate. rewrite ev_seq, ev_lit.
    destruct r as [|c r']; [reflexivity|]. rewrite strip1. destruct (N.eqb_spec 46 c) as [<-|N]; [|reflexivity].
    rewrite skipf_id by discriminate. cbn [length] in SL. rewrite (digits_plus la r') by lia.
    destruct r' as [|c' r'']; [reflexivity|]. cbn [no_fraction_next] in Ht. cbn [span_dig]. rewrite Ht. reflexivity. }
  destruct s as [|c t].
  - cbn [strip_prefix]. rewrite skipf_id by discriminate. cbn [strip_sign] in Hn. rewrite (Tail [] pos) by (cbn; auto). reflexivity.
  - cbn [strip_sign] in Hn. rewrite !strip1.
    destruct (N.eqb_spec 43 c) as [<-|N1].
    + cbn [N.eqb Pos.eqb orb] in Hn. rewrite skipf_id by discriminate. rewrite Tail by (cbn [length]; auto; lia). reflexivity.
    + destruct (N.eqb_spec 45 c) as [<-|N2].
      * cbn [N.eqb Pos.eqb orb] in Hn. rewrite skipf_id by discriminate. rewrite Tail by (cbn [length]; auto; lia). reflexivity.
      * replace ((c =? 43)%N || (c =? 45)%N) with false in Hn by (symmetry; apply orb_false_iff; split; apply N.eqb_neq; congruence).
        rewrite skipf_id by discriminate. rewrite Tail by (cbn [length]; auto). reflexivity.
Qed.

Definition numeral_head (h : char) : Prop := is_digit h = true \/ h = 45%N.
Lemma head_neq h k : numeral_head h -> (k <? 45)%N = true \/ (57 <? k)%N = true -> (k =? h)%N = false.
Proof.
  intros [H | ->] Hk; apply N.eqb_neq.
  - unfold is_digit in H. apply andb_true_iff in H as [H1 H2]. apply N.leb_le in H1, H2.
    destruct Hk as [Hk|Hk]; apply N.ltb_lt in Hk; lia.
  - destruct Hk as [Hk|Hk]; apply N.ltb_lt in Hk; lia.
Qed.
Ltac lit_fail Hh := rewrite ?ev_alt, ?ev_seq, ?ev_lit; cbn [strip_prefix];
  rewrite ?(head_neq _ _ Hh) by (first [left; reflexivity | right; reflexivity]); try reflexivity.

Lemma simple_literals_fail (which : nat) at_ la h t pos fuel : numeral_head h -> 6 <= fuel ->
  which = r_NilLiteral \/ which = r_EmptyLiteral \/ which = r_BlankLiteral \/ which = r_StringLiteral ->
  evg fuel at_ la (PRef which) (h :: t) pos = Some None.
Proof.
  intros Hh Hf Hw. do 5 (destruct fuel as [|fuel]; [lia|]).
  destruct Hw as [-> | [-> | [-> | ->]]]; rewrite ev_ref; rules; cbn [r_mod r_body]; cbv zeta; lit_fail Hh.
Qed.

Ltac rwl H := let X := fresh "X" in pose proof H as X;
  cbv [r_NilLiteral r_EmptyLiteral r_BlankLiteral r_StringLiteral r_FloatLiteral r_IntegerLiteral] in X; rewrite X; clear X.
(* a numeral in value position is read as Literal > IntegerLiteral, both spanning exactly the numeral *)
Theorem numeral_is_a_literal z rest at_ pos fuel : no_digit_next rest -> no_fraction_next rest -> at_ <> Atomic ->
  24 + length (show_Z z ++ rest) <= fuel ->
  evg fuel at_ false (PRef r_Literal) (show_Z z ++ rest) pos =
  Some (Some (rest, pos + length (show_Z z),
              [mkTok r_Literal pos (pos + length (show_Z z)); mkTok r_IntegerLiteral pos (pos + length (show_Z z))])).
Proof.
  intros Hr Hfr Hat Hf.
  assert (Hhead : exists h t, show_Z z ++ rest = h :: t /\ numeral_head h).
  { destruct z as [|p|p]; cbn [show_Z app].
    - exists 48%N, rest. split; [reflexivity|left; reflexivity].
    - pose proof (show_N_digits (Npos p)) as D. pose proof (show_N_nonempty p) as NE.
      destruct (show_N (Npos p)) as [|c ds]; [congruence|]. cbn [forallb] in D. apply andb_true_iff in D as [Dc _].
      exists c, (ds ++ rest). split; [reflexivity|left; exact Dc].
    - exists 45%N, (show_N (Npos p) ++ rest). split; [reflexivity|right; reflexivity]. }
  destruct Hhead as (h & t & Es & Hh).
  assert (Hfl : let (sg, s1) := strip_sign (show_Z z ++ rest) in no_fraction_next (snd (span_dig s1))).
  { destruct z as [|p|p]; cbn [show_Z app strip_sign].
    - change ((48 =? 43)%N || (48 =? 45)%N) with false. cbv iota.
      pose proof (span_dig_app [48%N] rest eq_refl Hr) as X. cbn [app] in X. rewrite X. exact Hfr.
    - pose proof (show_N_digits (Npos p)) as D. pose proof (show_N_nonempty p) as NE.
      destruct (show_N (Npos p)) as [|c ds] eqn:E; [congruence|]. cbn [app strip_sign].
      pose proof D as D'. cbn [forallb] in D'. apply andb_true_iff in D' as [Dc _]. rewrite (digit_not_sign c Dc).
      pose proof (span_dig_app (c :: ds) rest D Hr) as X. cbn [app] in X. rewrite X. exact Hfr.
    - change ((45 =? 43)%N || (45 =? 45)%N) with true. cbv iota.
      rewrite (span_dig_app _ rest (show_N_digits (Npos p)) Hr). exact Hfr. }
  pose proof (numeral_is_one_integer_literal z rest at_ pos) as HI.
  pose proof (float_rule_no_fraction at_ false (show_Z z ++ rest) pos) as HF.
  do 7 (destruct fuel as [|fuel]; [lia|]).
  rewrite ev_ref. rules. cbn [r_mod r_body]. cbv zeta.
  replace (negb false && negb (atom_eqb at_ Atomic) && negb false) with true by (destruct at_; try reflexivity; congruence).
  replace (match at_ with NonAtomic => NonAtomic | Atomic => Atomic | Compound => Compound end) with at_ by (destruct at_; reflexivity).
  rewrite Es in *. rewrite !ev_alt.
  rwl (simple_literals_fail r_NilLiteral at_ false h t pos (S (S (S (S (S fuel))))) Hh ltac:(lia) (or_introl eq_refl)).
  rwl (simple_literals_fail r_EmptyLiteral at_ false h t pos (S (S (S (S fuel)))) Hh ltac:(lia) (or_intror (or_introl eq_refl))).
  rwl (simple_literals_fail r_BlankLiteral at_ false h t pos (S (S (S fuel))) Hh ltac:(lia) (or_intror (or_intror (or_introl eq_refl)))).
  rwl (simple_literals_fail r_StringLiteral at_ false h t pos (S (S fuel)) Hh ltac:(lia) (or_intror (or_intror (or_intror eq_refl)))).
  rwl (HF (S fuel) ltac:(cbn [length] in *; lia) Hfl).
  rwl (HI fuel Hr Hat ltac:(cbn [length] in *; lia)).
  reflexivity.
Qed.
