(* BlockProofs.v — the block machinery never panics and always finishes, for every element stream a
   pest parse can produce (any elements, then exactly one EOI). *)
From LV Require Import Base BlockParse.
From Coq Require Import Lia.

Fixpoint live (it : list elem) : bool :=
  match it with
  | [] => false
  | EEOI :: t => match t with [] => true | _ => false end
  | _ :: t => live t
  end.
Definition wf (it : list elem) : Prop := it = [] \/ live it = true.

Lemma live_tail e t : e <> EEOI -> live (e :: t) = true -> live t = true.
Proof. destruct e; simpl; auto; congruence. Qed.
Lemma live_cons e t : e <> EEOI -> live t = true -> live (e :: t) = true.
Proof. destruct e; simpl; auto; congruence. Qed.
Lemma live_app body : Forall (fun e => e <> EEOI) body -> live (body ++ [EEOI]) = true.
Proof. induction 1 as [|e b He _ IH]; [reflexivity|]. simpl app. apply live_cons; assumption. Qed.
Lemma live_inv it : live it = true -> exists body, it = body ++ [EEOI] /\ Forall (fun e => e <> EEOI) body.
Proof.
  induction it as [|e t IH]; [discriminate|]. intro L.
  destruct e; try (simpl in L; destruct (IH L) as (b & -> & F); eexists (_ :: b); split; [reflexivity|constructor; [discriminate|exact F]]).
  simpl in L. destruct t; [|discriminate]. exists []. split; [reflexivity|constructor].
Qed.

Definition nfacts (s : st) (r : nres) (s' : st) : Prop :=
  wf (snd s') /\ length (snd s') <= length (snd s) /\
  (r = NNone -> fst s' = true) /\
  (forall e, r = NSome e -> e <> EEOI /\ live (snd s') = true /\ S (length (snd s')) = length (snd s)).
Lemma next_spec k s : wf (snd s) -> nfacts s (fst (next k s)) (snd (next k s)).
Proof.
  destruct s as [c it]. unfold next, nfacts. intro W. destruct c; simpl.
  - repeat split; auto; intros; discriminate.
  - destruct it as [|e it]; simpl.
    + repeat split; auto; intros; discriminate.
    + destruct W as [W|W]; [discriminate|].
      assert (T : e <> EEOI -> wf it) by (intro; right; eapply live_tail; eauto).
      assert (Lt : e <> EEOI -> live it = true) by (intro; eapply live_tail; eauto).
      assert (fin : forall x, x = e -> x <> EEOI -> nfacts (false, x :: it) (NSome x) (false, it)).
      { intros x -> Hx. unfold nfacts; simpl. split; [auto|]. split; [lia|]. split; [discriminate|].
        intros e' E; inversion E; subst. auto. }
      destruct e as [| ok | | name aok noargs | ]; simpl; try (apply fin; [reflexivity|discriminate]).
      * destruct (kw_eqb name k); [destruct noargs|]; simpl; try (apply fin; [reflexivity|discriminate]).
        -- split; [apply T; discriminate|]. split; [lia|]. split; [reflexivity|]. intros; discriminate.
        -- split; [apply T; discriminate|]. split; [lia|]. split; intros; discriminate.
      * simpl in W. destruct it; [|discriminate]. split; [left; reflexivity|]. split; [simpl; lia|]. split; intros; discriminate.
Qed.

Definition lfacts (n : nat) (s : st) (r : pres * st) : Prop :=
  fst r <> PPanic /\ (fst r = POk -> fst (snd r) = true) /\ wf (snd (snd r)) /\
  length (snd (snd r)) <= length (snd s) /\ (n > 2 * length (snd s) -> fst r <> PFuel).
Definition lok (n : nat) (f : st -> pres * st) : Prop := forall s, wf (snd s) -> lfacts n s (f s).
Definition efacts (n : nat) (it : list elem) (r : pres * list elem) : Prop :=
  fst r <> PPanic /\ wf (snd r) /\ length (snd r) <= length it /\ (n > 2 * length it + 1 -> fst r <> PFuel).

Lemma escape_facts k it : live it = true ->
  let r := escape k it in
  fst r <> PPanic /\ fst r <> PFuel /\ (fst r = POk -> fst (snd r) = true) /\ wf (snd (snd r)) /\
  length (snd (snd r)) <= length it.
Proof.
  induction it as [|e it IH]; [discriminate|]. intros L.
  assert (Hrec : e <> EEOI -> let r := escape k it in
     fst r <> PPanic /\ fst r <> PFuel /\ (fst r = POk -> fst (snd r) = true) /\ wf (snd (snd r)) /\
     length (snd (snd r)) <= length (e :: it)).
  { intro Hne. destruct (IH (live_tail _ _ Hne L)) as (A & B & C & D & E).
    simpl in *. repeat split; auto. }
  destruct e as [| ok | | name aok noargs | ]; simpl escape; try (apply Hrec; discriminate).
  - destruct (kw_eqb name k && noargs); [|apply Hrec; discriminate].
    simpl. repeat split; auto; try discriminate. right. eapply live_tail; [|exact L]. discriminate.
  - simpl in L. destruct it; [|discriminate]. simpl. repeat split; auto; try discriminate. left; reflexivity.
Qed.
Lemma escape_spec k it : live it = true -> forall n, lfacts n (false, it) (escape k it).
Proof. intros L n. destruct (escape_facts k it L) as (A & B & C & D & E). unfold lfacts; simpl. repeat split; auto. Qed.

Lemma closing_spec n it r : lfacts n (false, it) r -> efacts (S n) it (closing r).
Proof.
  intros (A & B & C & D & E). destruct r as [x s]; simpl in *. unfold efacts.
  destruct x; simpl.
  - unfold assert_empty. rewrite (B eq_refl). repeat split; auto; discriminate.
  - repeat split; auto; discriminate.
  - congruence.
  - repeat split; auto; try discriminate. intro. apply E. lia.
Qed.

(* one element, then continue with [f] (the common tail of every loop) *)
Definition after_elem (n : nat) (e : elem) (c : bool) (it' : list elem) (f : st -> pres * st) : pres * st :=
  match parse_elem n e it' with
  | (POk, it'') => f (c, it'')
  | (r, it'') => (r, (c, it''))
  end.
Lemma after_elem_spec n e c it' f s :
  e <> EEOI -> live it' = true -> S (length it') = length (snd s) ->
  efacts n it' (parse_elem n e it') -> lok n f ->
  lfacts (S n) s (after_elem n e c it' f).
Proof.
  intros Hne L Len (A & B & C & D) Hf. unfold after_elem.
  destruct (parse_elem n e it') as [r it'']; simpl in *.
  destruct r.
  - destruct (Hf (c, it'') B) as (A' & B' & C' & D' & E'). simpl in *.
    unfold lfacts. repeat split; auto; try lia. intro. apply E'. lia.
  - unfold lfacts; simpl. repeat split; auto; try discriminate; lia.
  - congruence.
  - unfold lfacts; simpl. repeat split; auto; try discriminate; try lia. intro. apply D. lia.
Qed.
(* the error of a nested tag thrown away (comment) *)
Definition after_swallow (n : nat) (e : elem) (c : bool) (it' : list elem) (f : st -> pres * st) : pres * st :=
  match parse_elem n e it' with
  | (PPanic, it'') => (PPanic, (c, it''))
  | (PFuel, it'') => (PFuel, (c, it''))
  | (_, it'') => f (c, it'')
  end.
Lemma after_swallow_spec n e c it' f s :
  e <> EEOI -> live it' = true -> S (length it') = length (snd s) ->
  efacts n it' (parse_elem n e it') -> lok n f ->
  lfacts (S n) s (after_swallow n e c it' f).
Proof.
  intros Hne L Len (A & B & C & D) Hf. unfold after_swallow.
  destruct (parse_elem n e it') as [r it'']; simpl in *.
  destruct r; try congruence;
    try (destruct (Hf (c, it'') B) as (A' & B' & C' & D' & E'); simpl in *;
         unfold lfacts; repeat split; auto; try lia; intro; apply E'; lia).
  unfold lfacts; simpl. repeat split; auto; try discriminate; try lia. intro. apply D. lia.
Qed.

Lemma lfacts_weaken n s s' r : length (snd s') < length (snd s) -> lfacts n s' r -> lfacts (S n) s r.
Proof. intros Le (A & B & C & D & E). unfold lfacts. repeat split; auto; try lia. intro; apply E; lia. Qed.
Lemma lfacts_err n s s' : wf (snd s') -> length (snd s') <= length (snd s) -> lfacts n s (PErr, s').
Proof. intros. unfold lfacts; simpl. repeat split; auto; discriminate. Qed.
Lemma lfacts_ok n s s' : fst s' = true -> wf (snd s') -> length (snd s') <= length (snd s) -> lfacts n s (POk, s').
Proof. intros. unfold lfacts; simpl. repeat split; auto; discriminate. Qed.
Lemma efacts_leaf n it (b : bool) : live it = true -> efacts (S n) it ((if b then POk else PErr), it).
Proof. intro L. unfold efacts; simpl. destruct b; repeat split; auto; try discriminate; right; exact L. Qed.
Lemma efacts_err n it : live it = true -> efacts (S n) it (PErr, it).
Proof. unfold efacts; simpl. repeat split; auto; try discriminate. right; assumption. Qed.

Theorem blocks_inv : forall n,
  (forall e it, e <> EEOI -> live it = true -> efacts n it (parse_elem n e it)) /\
  (forall k, lok n (parse_all n k)) /\
  (forall c, lok n (parse_if n c)) /\
  (forall k b, lok n (else_loop n k b)) /\
  lok n (case_loop n) /\
  lok n (comment_loop n).
Proof.
  induction n as [|n (IHe & IHa & IHi & IHl & IHk & IHc)].
  - split; [|repeat split]; simpl; intros; unfold efacts, lfacts; simpl; repeat split; auto; try discriminate; try lia.
    right; assumption.
  - assert (Hclose : forall (f : st -> pres * st) it, live it = true -> lok n f -> efacts (S n) it (closing (f (false, it)))).
    { intros f it L Hf. apply closing_spec. apply (Hf (false, it)). right; exact L. }
    split; [|split; [|split; [|split; [|split]]]].
    + (* parse_elem *)
      intros e it Hne L. cbn [parse_elem].
      destruct e as [| ok | | name aok noargs | ]; try congruence.
      * unfold efacts; simpl. repeat split; auto; try discriminate. right; exact L.
      * apply efacts_leaf, L.
      * apply efacts_err, L.
      * destruct name; destruct aok, noargs; cbv beta iota;
          first [ apply efacts_err; exact L
                | apply (efacts_leaf n it true); exact L
                | apply (efacts_leaf n it false); exact L
                | apply closing_spec; apply escape_spec; exact L
                | apply Hclose; [exact L | auto] ].
    + (* parse_all *)
      intros k s W. cbn [parse_all]. pose proof (next_spec k s W) as (N1 & N2 & N3 & N4).
      destruct (next k s) as [r s']; simpl in *.
      destruct r as [e| |].
      * destruct s' as [c it']. destruct (N4 e eq_refl) as (Hne & L & Len). simpl in *.
        apply (after_elem_spec n e c it' (parse_all n k) s Hne L Len (IHe _ _ Hne L) (IHa k)).
      * apply lfacts_ok; auto.
      * apply lfacts_err; auto.
    + (* parse_if *)
      intros c s W. cbn [parse_if]. destruct c; simpl negb; cbv iota; [|apply lfacts_err; auto].
      pose proof (next_spec KEndif s W) as (N1 & N2 & N3 & N4).
      destruct (next KEndif s) as [r s']; simpl in *.
      destruct r as [e| |]; [|apply lfacts_ok; auto|apply lfacts_err; auto].
      destruct (N4 e eq_refl) as (Hne & L & Len).
      assert (Hgen : lfacts (S n) s (after_elem n e (fst s') (snd s') (parse_if n true))).
      { apply after_elem_spec; auto. }
      destruct s' as [c0 it']; simpl in *.
      destruct e as [| ok | | name aok noargs | ]; try exact Hgen.
      destruct name; try exact Hgen.
      * eapply lfacts_weaken; [|apply IHa; exact N1]. simpl; lia.
      * eapply lfacts_weaken; [|apply IHi; exact N1]. simpl; lia.
    + (* else_loop *)
      intros k b s W. cbn [else_loop].
      pose proof (next_spec k s W) as (N1 & N2 & N3 & N4).
      destruct (next k s) as [r s']; simpl in *.
      destruct r as [e| |]; [|apply lfacts_ok; auto|apply lfacts_err; auto].
      destruct (N4 e eq_refl) as (Hne & L & Len).
      assert (Hgen : lfacts (S n) s (after_elem n e (fst s') (snd s') (else_loop n k b))).
      { apply after_elem_spec; auto. }
      destruct s' as [c0 it']; simpl in *.
      destruct e as [| ok | | name aok noargs | ]; try exact Hgen.
      destruct name; try exact Hgen.
      destruct (b && negb noargs); [apply lfacts_err; auto|].
      eapply lfacts_weaken; [|apply IHa; exact N1]. simpl; lia.
    + (* case_loop *)
      intros s W. cbn [case_loop].
      pose proof (next_spec KEndcase s W) as (N1 & N2 & N3 & N4).
      destruct (next KEndcase s) as [r s']; simpl in *.
      destruct r as [e| |]; [|apply lfacts_ok; auto|apply lfacts_err; auto].
      destruct (N4 e eq_refl) as (Hne & L & Len).
      assert (Hgen : lfacts (S n) s (after_elem n e (fst s') (snd s') (case_loop n))).
      { apply after_elem_spec; auto. }
      destruct s' as [c0 it']; simpl in *.
      destruct e as [| ok | | name aok noargs | ]; try exact Hgen.
      destruct name; try exact Hgen.
      * destruct noargs; [|apply lfacts_err; auto].
        eapply lfacts_weaken; [|apply IHa; exact N1]. simpl; lia.
      * destruct aok; [|apply lfacts_err; auto].
        eapply lfacts_weaken; [|apply IHk; exact N1]. simpl; lia.
    + (* comment_loop *)
      intros s W. cbn [comment_loop].
      pose proof (next_spec KEndcomment s W) as (N1 & N2 & N3 & N4).
      destruct (next KEndcomment s) as [r s']; simpl in *.
      destruct r as [e| |]; [|apply lfacts_ok; auto|apply lfacts_err; auto].
      destruct (N4 e eq_refl) as (Hne & L & Len).
      assert (Hskip : lfacts (S n) s (comment_loop n s')).
      { eapply lfacts_weaken; [|apply IHc; exact N1]. lia. }
      assert (Hgen : lfacts (S n) s (after_elem n e (fst s') (snd s') (comment_loop n))).
      { apply after_elem_spec; auto. }
      assert (Hsw : lfacts (S n) s (after_swallow n e (fst s') (snd s') (comment_loop n))).
      { apply after_swallow_spec; auto. }
      destruct s' as [c0 it']; simpl in *.
      destruct e as [| ok | | name aok noargs | ]; try exact Hskip.
      destruct name; first [exact Hgen | exact Hsw].
Qed.

Definition fuel_for (it : list elem) : nat := 2 * length it + 2.

Lemma top_total : forall n it, wf it -> top n it <> PPanic /\ (n > 2 * length it -> top n it <> PFuel).
Proof.
  induction n as [|n IH]; intros it W; [split; [discriminate|lia]|].
  cbn [top]. destruct it as [|e it']; [split; discriminate|].
  destruct W as [W|W]; [discriminate|].
  destruct e as [| ok | | name aok noargs | ]; try (split; discriminate);
    match goal with |- context [parse_elem n ?e ?i] =>
      pose proof (proj1 (blocks_inv n) e i ltac:(discriminate) ltac:(eapply live_tail; [|exact W]; discriminate)) as (A & B & C & D);
      destruct (parse_elem n e i) as [r it'']; simpl in A, B, C, D;
      destruct (IH it'' B) as (I1 & I2);
      destruct r; try congruence; simpl length; (split; [assumption || discriminate | intro; try discriminate; try (apply I2; lia); try (apply D; lia)])
    end.
Qed.

(* every element stream pest can hand over: any number of non-EOI elements, then the EOI *)
Theorem blocks_total body :
  Forall (fun e => e <> EEOI) body ->
  parse_elements (body ++ [EEOI]) = POk \/ parse_elements (body ++ [EEOI]) = PErr.
Proof.
  intro F. unfold parse_elements.
  destruct (top_total (fuel_for (body ++ [EEOI])) (body ++ [EEOI]) (or_intror (live_app _ F))) as (A & B).
  specialize (B ltac:(unfold fuel_for; lia)).
  destruct (top _ _); auto; congruence.
Qed.
(* more fuel never changes the answer is not needed: the fuel used is the one the definition fixes *)
