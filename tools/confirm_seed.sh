#!/bin/bash
# usage: confirm_seed.sh <Cnn> <demo-relpath-in-worktree> <cargo test args for demo>
# Confirms in the scratch worktree /tmp/wt-<Cnn>: (1) patch applies to a clean tree, (2) full suite passes with the
# change (demo moved aside), (3) demo fails with the change, (4) demo passes without it.  Writes /tmp/seed-<Cnn>/confirm.log
P=$1; DEMO=$2; shift 2
W=/tmp/wt-$P; S=/tmp/seed-$P; L=$S/confirm.log
export CARGO_NET_OFFLINE=true
cd $W || exit 1
{
echo "== confirm $P $(date)"
git stash -q -u; git checkout -q -- . ; git stash drop -q 2>/dev/null
git status --short | head
git apply $S/patch.diff && echo "PATCH_APPLIES=yes" || echo "PATCH_APPLIES=no"
echo "-- full suite with change"
cargo nextest run --workspace --no-fail-fast --offline 2>&1 | grep -E "Summary|^\s+FAIL |^error" | head -20
mkdir -p $(dirname $DEMO); cp $S/demo.rs $DEMO
echo "-- demo with change"
cargo test --offline "$@" 2>&1 | grep -E "^test result|panicked|FAILED|error(\[|:)" | head -10
git stash -q   # stashes tracked changes (the patch); the untracked demo stays
echo "-- demo without change"
cargo test --offline "$@" 2>&1 | grep -E "^test result|panicked|FAILED|error(\[|:)" | head -10
git stash pop -q
echo "== done"
} > $L 2>&1
