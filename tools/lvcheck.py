#!/usr/bin/env python3
"""lvcheck.py — entry point:  lvcheck.py <Cnn> --tier quick|thorough   |   lvcheck.py replay <file>"""
import sys, os, json, importlib, time, argparse, random
sys.path.insert(0, os.path.dirname(os.path.abspath(__file__)))
import lv


def generic_check(mod, tier, seed):
    """the standard pipeline for properties whose module follows the c18.py interface"""
    run = lv.Run(mod.PROP, tier, seed)
    run.trusted = lv.COMMON_TRUSTED + list(getattr(mod, "TRUSTED", []))
    run.assumptions = list(getattr(mod, "ASSUMPTIONS", []))
    # (T) theorems
    lv.standard_proof_phase(run, mod.PROP, mod.TARGETS, thorough=(tier == "thorough"))
    st = generic_suite(run, mod, tier, seed)
    run.coverage.update({"evaluations": st["evaluations"], "distinct_nontrivial": st["nontrivial"],
                         "rule": getattr(mod, "RULE", "see input_distribution; non-trivial as defined by the property module"),
                         "samples": st["samples"], "traces_validated_against_impl": st["evaluations"],
                         "disagreements_checked": st["disagreements"],
                         "exhaustive": bool(st["dist"].get("exhaustive", False))})
    run.coverage["input_distribution"] = st["dist"]
    return run.finish()


def generic_suite(run, mod, tier, seed):
    """generate, run the implementation, judge with the module's specification, compare with the model"""
    name = getattr(mod, "SUITE", mod.PROP)
    # (G) generated artefacts
    if hasattr(mod, "regenerate"):
        ok, detail = mod.regenerate()
        run.obligation(ok, "regeneration from /repo", detail)
    # harness
    profiles = getattr(mod, "PROFILES", ["debug"])
    bins = {}
    for prof in profiles:
        ok, binp, out, dt = lv.build_harness(prof)
        cmd = "cargo build --offline%s (harness over /repo)" % (" --release" if prof == "release" else "")
        if cmd not in run.checker_cmds:
            run.checker_cmds.append(cmd)
        if not ok:
            run.obligation(False, "harness build (%s) against /repo" % prof, out[-3000:])
        bins[prof] = binp if ok else None
    cases, dist = mod.gen(tier, seed)
    evaluations = 0
    nontriv = set()
    samples = []
    disagreements = 0
    in_model = getattr(mod, "in_model", lambda c: True)
    for prof in profiles:
        if not bins[prof]:
            continue
        if hasattr(mod, "prepare"):
            mod.prepare(cases, lambda rq: lv.run_harness(bins[prof], rq, tag=name + prof + "prep")[0])
        reqs = [mod.request(c) for c in cases]
        resps, problems = lv.run_harness(bins[prof], reqs, tag=name + prof)
        for pb in problems:
            cid = pb["first_unanswered"]
            c = next((c for c in cases if c["id"] == cid), None)
            run.violations.append({"what": "implementation process died (abort/stack overflow/timeout) on a case",
                                   "input": c, "observed": pb["tail"], "profile": prof})
        irs, kept = [], []
        for c in cases:
            r = resps.get(c["id"])
            if r is None:
                continue
            evaluations += 1
            v = mod.spec_check(c, r)
            if v:
                v["profile"] = prof
                run.violations.append(v)
            if mod.nontrivial(c, r):
                nontriv.add(json.dumps(mod.request(c), sort_keys=True))
            if len(samples) < 3 and mod.nontrivial(c, r):
                samples.append({"request": mod.request(c), "implementation": r})
            if "panic" in r and not getattr(mod, "MODEL_HANDLES_PANIC", False):
                continue
            if not in_model(c):
                continue
            try:
                irs.append(mod.case_ir(c, r) if not hasattr(mod, "case_ir_p") else mod.case_ir_p(c, r, prof))
                kept.append(c)
            except Exception as e:   # the observation cannot be expressed in the model's types
                run.broken.append({"obligation": "correspondence %s: case not expressible" % name, "detail": repr(e), "input": c})
        if hasattr(mod, "spec_global"):
            for v in mod.spec_global(cases, resps):
                v["profile"] = prof
                run.violations.append(v)
        # the extracted model (OCaml driver) on every case
        okd, drv, dout, ddt = lv.build_driver()
        cmd = "coqc extract/Extract.v && genreaders.py && ocamlfind ocamlopt (extracted model driver)"
        if cmd not in run.checker_cmds:
            run.checker_cmds.append(cmd)
        run.obligation(okd, "extraction of the model and driver build", dout[-3000:])
        failing = []
        if okd:
            failing, errors = lv.run_driver(drv, mod.CHECKER, [lv.to_sexp(t) for t in irs], tag=name + prof)
            run.obligation(not errors, "correspondence suite %s/%s evaluated by the extracted model" % (name, prof), json.dumps(errors)[:3000])
            # cross-check of extraction and glue: a sample of the same cases evaluated inside Coq
            rnd = random.Random(seed)
            nsample = min(len(irs), 200 if tier == "quick" else 1000)
            sample_idx = sorted(set(failing[:50]) | set(rnd.sample(range(len(irs)), nsample)))
            header = mod.HEADER
            cfail, cproblems = lv.run_coq_cases(name + prof, header, [lv.to_coq(irs[i]) for i in sample_idx],
                                                check_fn=mod.CHECKER, shard_size=100)
            run.checker_cmds.append("coqc cases_*.v (Eval vm_compute in failing %s cases) on a sample [%s/%s]" % (mod.CHECKER, name, prof))
            coq_failing = sorted(sample_idx[j] for j in cfail)
            drv_failing = sorted(i for i in failing if i in set(sample_idx))
            run.obligation(not cproblems and coq_failing == drv_failing,
                           "extracted driver agrees with vm_compute inside Coq on %d sampled cases (%s/%s)" % (len(sample_idx), name, prof),
                           json.dumps({"problems": cproblems, "coq": coq_failing, "driver": drv_failing})[:3000])
            run.coverage["coq_vm_compute_cross_checked"] = run.coverage.get("coq_vm_compute_cross_checked", 0) + len(sample_idx)
        disagreements += len(failing)
        if failing:
            bad = sorted((kept[i] for i in failing), key=lambda c: len(json.dumps(c)))[:5]
            for c in bad:
                r = resps[c["id"]]
                run.broken.append({"obligation": "correspondence %s/%s: model and implementation disagree" % (name, prof),
                                   "input": mod.request(c), "implementation": r,
                                   "spec_verdict": mod.spec_check(c, r) or "specification not contradicted by the implementation on this input"})
        run.obligation(okd and not failing, "correspondence %s/%s: model == implementation on every case" % (name, prof),
                       "%d disagreements" % len(failing))
    return {"evaluations": evaluations, "nontrivial": len(nontriv), "samples": samples, "disagreements": disagreements, "dist": dist}


def generic_replay(j):
    """run the recorded input(s) of a replay file on the implementation as it is now and print what it answers"""
    ok, binp, out, dt = lv.build_harness("debug")
    if not ok:
        print("harness build failed:\n" + out[-2000:])
        return 2
    items = [j.get("violation")] + list(j.get("all") or []) + [b for b in (j.get("broken_obligations") or []) if isinstance(b, dict)]
    reqs = []
    for it in items:
        inp = (it or {}).get("input")
        if not isinstance(inp, dict):
            continue
        if "kind" in inp:
            q = dict(inp)
        elif "template" in inp:
            q = {"kind": "render", "tpl": inp["template"], "data": inp.get("data", [])}
            if inp.get("partials"):
                q["partials"] = inp["partials"]
        elif "text" in inp:
            q = {"kind": "parse", "config": inp.get("config", "stdlib"), "tpl": inp["text"]}
        else:
            continue
        q["id"] = len(reqs)
        reqs.append(q)
        if len(reqs) >= 10:
            break
    if not reqs:
        print("no input of this replay file can be re-run generically; the recorded observation is printed above")
        return 0
    resps, problems = lv.run_harness(binp, reqs, tag="replay")
    for q in reqs:
        print("REQUEST  " + json.dumps(q, ensure_ascii=False)[:1500])
        print("NOW      " + json.dumps(resps.get(q["id"]), ensure_ascii=False)[:1500])
    return 0


def main():
    ap = argparse.ArgumentParser()
    ap.add_argument("prop")
    ap.add_argument("file", nargs="?")
    ap.add_argument("--tier", default="quick")
    a = ap.parse_args()
    tier = os.environ.get("VERIF_TIER") or a.tier
    seed = int(os.environ.get("VERIF_SEED", "1"))
    if a.prop == "replay":
        j = json.load(open(a.file))
        print(json.dumps(j, indent=1)[:20000])
        mod = importlib.import_module("props." + j["property"].lower())
        if hasattr(mod, "replay"):
            return mod.replay(j)
        return generic_replay(j)
    mod = importlib.import_module("props." + a.prop.lower())
    try:
        if hasattr(mod, "main"):
            return mod.main(tier, seed)
        return generic_check(mod, tier, seed)
    except Exception:
        # the machinery itself failed (typically: the implementation answered an oracle or harness request in a way no
        # run on the unchanged tree does).  The property is then not shown to hold: report what was found so far, or
        # name the step that no longer runs (no-failing-input-found).
        import traceback
        tb = traceback.format_exc()
        sys.stderr.write(tb)
        run = lv.CURRENT[-1] if lv.CURRENT else lv.Run(a.prop.upper(), tier, seed)
        run.obligation(False, "the check ran to completion (model / implementation correspondence could be evaluated)", tb[-3000:])
        return run.finish()


if __name__ == "__main__":
    sys.exit(main())
