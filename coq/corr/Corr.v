(* Corr.v — helpers shared by the correspondence checkers (executable, no proofs):
   structural comparison of observed vs. modelled results and table-driven oracles. *)
From Coq Require Export SpecFloat.
From LV Require Export Base Value.

Definition sf_eqb (a b : spec_float) : bool :=
  match a, b with
  | S754_zero s, S754_zero t => Bool.eqb s t
  | S754_infinity s, S754_infinity t => Bool.eqb s t
  | S754_nan, S754_nan => true
  | S754_finite s m e, S754_finite t n f => Bool.eqb s t && Pos.eqb m n && Z.eqb e f
  | _, _ => false
  end.

Definition date_same (a b : date) := Z.eqb (d_year a) (d_year b) && Z.eqb (d_month a) (d_month b) && Z.eqb (d_day a) (d_day b).
Definition dt_same (a b : datetime) :=
  date_same (dt_date a) (dt_date b) && Z.eqb (dt_hour a) (dt_hour b) && Z.eqb (dt_min a) (dt_min b)
  && Z.eqb (dt_sec a) (dt_sec b) && Z.eqb (dt_nano a) (dt_nano b) && Z.eqb (dt_off a) (dt_off b).
Definition scalar_same (a b : scalar) : bool :=
  match a, b with
  | SInt x, SInt y => Z.eqb x y
  | SFloat x, SFloat y => sf_eqb x y
  | SBool x, SBool y => Bool.eqb x y
  | SDateTime x, SDateTime y => dt_same x y
  | SDate x, SDate y => date_same x y
  | SStr x, SStr y => str_eqb x y
  | _, _ => false
  end.
Definition state_same (a b : state) : bool :=
  match a, b with Truthy, Truthy | DefaultValue, DefaultValue | Empty, Empty | Blank, Blank => true | _, _ => false end.

(* identical data, objects compared as maps (iteration order ignored) *)
Fixpoint value_same (a b : value) {struct a} : bool :=
  match a, b with
  | VScalar x, VScalar y => scalar_same x y
  | VArray x, VArray y =>
      (fix go (x y : list value) : bool :=
         match x, y with
         | [], [] => true
         | u :: x', w :: y' => value_same u w && go x' y'
         | _, _ => false
         end) x y
  | VObject x, VObject y =>
      Nat.eqb (length x) (length y) &&
      (fix go (x : list (str * value)) : bool :=
         match x with
         | [] => true
         | (k, u) :: x' => match lookup k y with Some w => value_same u w | None => false end && go x'
         end) x
  | VState s, VState t => state_same s t
  | VNil, VNil => true
  | _, _ => false
  end.

Definition opt_same {A} (f : A -> A -> bool) (a b : option A) : bool :=
  match a, b with Some x, Some y => f x y | None, None => true | _, _ => false end.
Fixpoint list_same {A} (f : A -> A -> bool) (a b : list A) : bool :=
  match a, b with [] , [] => true | x :: a', y :: b' => f x y && list_same f a' b' | _, _ => false end.
Definition subset_str (a b : list str) : bool := forallb (fun k => mem_str k b) a.
Definition set_same (a b : list str) : bool := subset_str a b && subset_str b a.

(* oracles instantiated by tables observed from the implementation in this run *)
Fixpoint assoc_f (t : list (spec_float * str)) (f : spec_float) : str :=
  match t with [] => [63%N] | (g, s) :: t' => if sf_eqb f g then s else assoc_f t' f end.
Fixpoint assoc_n (t : list (char * str)) (c : char) : str :=
  match t with [] => [c] | (d, s) :: t' => if N.eqb c d then s else assoc_n t' c end.
Definition table_oracle5 (shows : list (spec_float * str)) (parses : list (str * option spec_float))
                         (uppers lowers : list (char * str)) (graphs : list (str * list str)) : oracle :=
  mkOracle (assoc_f shows) (fun s => match lookup s parses with Some r => r | None => None end)
           (assoc_n uppers) (assoc_n lowers)
           (fun s => match lookup s graphs with Some g => g | None => map (fun c => [c]) s end)
           (fun _ => None).
(* the same with the text -> date-time conversion given as a table *)
Definition with_dates (O : oracle) (dates : list (str * option datetime)) : oracle :=
  mkOracle (fshow O) (fparse O) (upper_c O) (lower_c O) (graphemes O)
           (fun s => match lookup s dates with Some r => r | None => None end).
Definition table_oracle (shows : list (spec_float * str)) (parses : list (str * option spec_float)) : oracle :=
  table_oracle5 shows parses [] [] [].
Definition no_oracle : oracle := table_oracle [] [].

(* indices (0-based) of the cases on which the check fails *)
Fixpoint failing_from {A} (chk : A -> bool) (i : N) (l : list A) : list N :=
  match l with
  | [] => []
  | c :: t => if chk c then failing_from chk (N.succ i) t else i :: failing_from chk (N.succ i) t
  end.
Definition failing {A} (chk : A -> bool) (l : list A) : list N := failing_from chk 0%N l.

(* canonical outcome of a modelled computation, as the implementation side reports it *)
Inductive outcome (A : Type) := OOk (a : A) | OErr | OPanic.
Arguments OOk {A} a. Arguments OErr {A}. Arguments OPanic {A}.
Definition outcome_of {A} (r : res A) : outcome A :=
  match r with Ok a => OOk a | Err _ => OErr | Panic _ => OPanic | OutOfFuel => OPanic end.
Definition outcome_same {A} (f : A -> A -> bool) (a b : outcome A) : bool :=
  match a, b with OOk x, OOk y => f x y | OErr, OErr => true | OPanic, OPanic => true | _, _ => false end.
