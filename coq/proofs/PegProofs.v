(* PegProofs.v — facts about the grammar generated from grammar.pest (coq/gen/Grammar.v) under the
   pest semantics of model/Peg.v: what counts as whitespace, and that `WHITESPACE*` (what a trim
   marker and the inside of a delimiter skip) consumes exactly the maximal whitespace run. *)
From LV Require Import Base Peg Grammar.
Require Import ZifyBool ZifyNat ZifyN.

Definition is_ws (c : char) : bool := (c =? 32)%N || (c =? 9)%N || (c =? 10)%N || (c =? 13)%N.
Fixpoint drop_ws (s : str) : str := match s with c :: r => if is_ws c then drop_ws r else s | [] => [] end.
Fixpoint count_ws (s : str) : nat := match s with c :: r => if is_ws c then S (count_ws r) else 0 | [] => 0 end.

Notation evg := (ev liquid_grammar liquid_ws).

Lemma strip1 c d r : strip_prefix [c] (d :: r) = if (c =? d)%N then Some r else None.
Proof. cbn [strip_prefix]. destruct (c =? d)%N; reflexivity. Qed.

(* one-step unfoldings of the evaluator (so that proofs never unfold the whole fixpoint) *)
Section Unfold.
Variable g : grammar. Variable ws : option nat.
Lemma ev_lit f at_ la l s pos : ev g ws (S f) at_ la (PLit l) s pos =
  Some (match strip_prefix l s with Some r => Some (r, pos + length l, []) | None => None end).
Proof. reflexivity. Qed.
Lemma ev_alt f at_ la a b s pos : ev g ws (S f) at_ la (PAlt a b) s pos =
  match ev g ws f at_ la a s pos with Some None => ev g ws f at_ la b s pos | x => x end.
Proof. reflexivity. Qed.
Lemma ev_ref f at_ la n s pos : ev g ws (S f) at_ la (PRef n) s pos =
  match nth_error g n with
  | None => Some None
  | Some r =>
      let at' := match r_mod r with MAtomic => Atomic | MCompound => Compound | MNonAtomic => NonAtomic | _ => at_ end in
      let emits := negb la && negb (atom_eqb at_ Atomic) && negb (match r_mod r with MSilent => true | _ => false end) in
      match ev g ws f at' la (r_body r) s pos with
      | Some (Some (s', p', ts)) => Some (Some (s', p', if emits then mkTok n pos p' :: ts else ts))
      | x => x
      end
  end.
Proof. reflexivity. Qed.
Lemma ev_star f at_ la a s pos : ev g ws (S f) at_ la (PStar a) s pos =
  match ev g ws f at_ la (PPlus a) s pos with Some None => Some (Some (s, pos, [])) | x => x end.
Proof. reflexivity. Qed.
Lemma ev_plus_atomic f la a s pos : ev g ws (S f) Atomic la (PPlus a) s pos =
  match ev g ws f Atomic la a s pos with
  | Some (Some (s1, p1, t1)) =>
      match ev g ws f Atomic la (PPlus a) s1 p1 with
      | Some (Some (s3, p3, t3)) => Some (Some (s3, p3, t1 ++ t3))
      | Some None => Some (Some (s1, p1, t1))
      | None => None
      end
  | x => x
  end.
Proof. reflexivity. Qed.
End Unfold.

(* one application of the WHITESPACE rule (atomic context, as inside `WHITESPACE*`) *)
Lemma ws_rule_one fuel la s pos : 6 <= fuel ->
  evg fuel Atomic la (PRef r_WHITESPACE) s pos =
  Some (match s with
        | c :: r => if (c =? 13)%N then match r with 10%N :: r' => Some (r', pos + 2, []) | _ => Some (r, pos + 1, []) end
                    else if is_ws c then Some (r, pos + 1, []) else None
        | [] => None
        end).
Proof.
  intro Hf. do 6 (destruct fuel as [|fuel]; [lia|]).
  rewrite ev_ref.
  change (nth_error liquid_grammar r_WHITESPACE) with (Some (mkRule MSilent (PAlt (PLit [32]%N) (PAlt (PLit [9]%N) (PAlt (PLit [10]%N) (PAlt (PLit [13;10]%N) (PLit [13]%N))))))).
  cbn [r_mod r_body atom_eqb]. cbv zeta. replace (negb la && negb true && negb true) with false by (destruct la; reflexivity).
  rewrite !ev_alt, !ev_lit.
  destruct s as [|c r]; [reflexivity|].
  rewrite !strip1. unfold is_ws. cbn [length Nat.add].
  destruct (N.eqb_spec 32 c) as [<-|N1]; [reflexivity|].
  destruct (N.eqb_spec 9 c) as [<-|N2]; [reflexivity|].
  destruct (N.eqb_spec 10 c) as [<-|N3]; [reflexivity|].
  cbn [strip_prefix].
  destruct (N.eqb_spec 13 c) as [<-|N4].
  - cbn [N.eqb Pos.eqb orb]. destruct r as [|d r']; [reflexivity|].
    destruct (N.eqb_spec 10 d) as [<-|N5]; [reflexivity|]. 
    replace (d =? 10)%N with false by lia.
    destruct d as [|p]; [reflexivity|]. repeat (destruct p as [p|p|]; try reflexivity); exfalso; apply N5; reflexivity.
  - replace (c =? 13)%N with false by lia. replace (c =? 32)%N with false by lia. replace (c =? 9)%N with false by lia.
    replace (c =? 10)%N with false by lia. reflexivity.
Qed.

Definition ws_head (s : str) : bool := match s with c :: _ => is_ws c | [] => false end.
Lemma drop_ws_nohead s : ws_head s = false -> drop_ws s = s /\ count_ws s = 0.
Proof. destruct s as [|c r]; cbn [ws_head drop_ws count_ws]; [auto|]. intros ->. auto. Qed.

Lemma res_eq (a : str) (p p' : nat) (t : list tok) : p = p' -> Some (Some (a, p, t)) = Some (Some (a, p', t)).
Proof. intros ->. reflexivity. Qed.
Ltac fin := cbn [app]; first [reflexivity | (apply res_eq; lia)].
Lemma plus_ws la : forall n s fuel pos, length s <= n -> 7 + length s <= fuel ->
  evg fuel Atomic la (PPlus (PRef r_WHITESPACE)) s pos =
  Some (if ws_head s then Some (drop_ws s, pos + count_ws s, []) else None).
Proof.
  induction n as [|n IH]; intros s fuel pos Hn Hf.
  - destruct s; [|cbn in Hn; lia]. destruct fuel as [|f]; [lia|]. rewrite ev_plus_atomic, ws_rule_one by lia. reflexivity.
  - destruct fuel as [|f]; [lia|]. rewrite ev_plus_atomic, ws_rule_one by lia.
    destruct s as [|c r]; [reflexivity|]. cbn [length] in Hn, Hf. cbn [ws_head].
    destruct (N.eqb_spec c 13) as [->|N13].
    + change (is_ws 13%N) with true. cbn iota.
      destruct r as [|d r'].
      * rewrite (IH [] f (pos + 1)) by (cbn; lia). cbn [ws_head drop_ws count_ws is_ws]. change (is_ws 13%N) with true. cbn iota.
        fin.
      * destruct (N.eqb_spec d 10) as [->|N10].
        -- cbn [length] in Hn, Hf. rewrite (IH r' f (pos + 2)) by lia.
           cbn [drop_ws count_ws]. change (is_ws 13%N) with true. change (is_ws 10%N) with true. cbn iota.
           destruct (ws_head r') eqn:E; [fin|].
           destruct (drop_ws_nohead r' E) as [-> ->]. fin.
        -- assert (match d :: r' with 10%N :: r'0 => Some (r'0, pos + 2, @nil tok) | _ => Some (d :: r', pos + 1, []) end = Some (d :: r', pos + 1, [])) as ->.
           { destruct d as [|p]; [reflexivity|]. repeat (destruct p as [p|p|]; try reflexivity); exfalso; apply N10; reflexivity. }
           assert (Hl : length (d :: r') <= n) by (cbn [length] in *; lia).
           assert (Hl2 : 7 + length (d :: r') <= f) by (cbn [length] in *; lia).
           remember (d :: r') as rest eqn:Er. clear Er.
           rewrite (IH rest f (pos + 1)) by assumption.
           cbn [drop_ws count_ws]. change (is_ws 13%N) with true. cbn iota.
           destruct (ws_head rest) eqn:E; [fin|].
           destruct (drop_ws_nohead rest E) as [-> ->]. fin.
    + destruct (is_ws c) eqn:W; [|reflexivity].
      rewrite (IH r f (pos + 1)) by lia. cbn [drop_ws count_ws]. rewrite W.
      destruct (ws_head r) eqn:E; [fin|].
      destruct (drop_ws_nohead r E) as [-> ->]. fin.
Qed.

(* `WHITESPACE*` — what follows "{{-"/"{%-" backwards, what precedes "-}}"/"-%}" forwards, and what
   separates a delimiter from its content — consumes exactly the maximal run of space, tab, LF and
   CR characters, and nothing else *)
Theorem ws_star_exact la s pos fuel : 8 + length s <= fuel ->
  evg fuel Atomic la (PStar (PRef r_WHITESPACE)) s pos = Some (Some (drop_ws s, pos + count_ws s, [])).
Proof.
  intro Hf. destruct fuel as [|f]; [lia|]. rewrite ev_star, (plus_ws la (length s)) by lia.
  destruct (ws_head s) eqn:E; [reflexivity|]. destruct (drop_ws_nohead s E) as [-> ->]. fin.
Qed.
Theorem drop_ws_spec s : exists w, s = w ++ drop_ws s /\ forallb is_ws w = true /\ ws_head (drop_ws s) = false /\ length w = count_ws s.
Proof.
  induction s as [|c r IH]; [exists []; repeat split|]. cbn [drop_ws count_ws].
  destruct (is_ws c) eqn:W.
  - destruct IH as [w [E [F [H L]]]]. exists (c :: w). cbn [app forallb length]. rewrite W, F, <- E, L. repeat split. exact H.
  - exists []. cbn [ws_head]. rewrite W. repeat split.
Qed.
