(* C01 placeholder *)
From LV Require Import Base Peg Grammar.
