(* Decimal printing and parsing of integers round-trip (used by C15: numeric strings behave
   like the numbers they spell; and by C07: integer literals denote the value they print as). *)
From Coq Require Import ZifyN ZifyNat ZifyBool.
From LV Require Import Base.
Ltac Zify.zify_post_hook ::= Z.div_mod_to_equations.

Fixpoint ndig (fuel : nat) (n : N) : nat :=
  match fuel with
  | O => 0
  | S f => if (n / 10 =? 0)%N then 1 else S (ndig f (n / 10)%N)
  end.

Lemma is_digit_48 n : is_digit (48 + n mod 10)%N = true.
Proof. unfold is_digit. assert (n mod 10 < 10)%N by (apply N.mod_lt; lia). apply andb_true_iff; split; apply N.leb_le; lia. Qed.

Lemma pow2_ge (f : nat) : (1 <= 2 ^ N.of_nat f)%N.
Proof. induction f as [|f IH]; [simpl; lia|]. rewrite Nat2N.inj_succ, N.pow_succ_r'. lia. Qed.

Lemma digits_S f n acc : digits_pos_fuel (S f) n acc =
  if (n / 10 =? 0)%N then (48 + n mod 10)%N :: acc else digits_pos_fuel f (n / 10)%N ((48 + n mod 10)%N :: acc).
Proof. reflexivity. Qed.
Lemma ndig_S f n : ndig (S f) n = if (n / 10 =? 0)%N then 1 else S (ndig f (n / 10)%N).
Proof. reflexivity. Qed.

Lemma digits_parse f : forall n acc a, (n < 2 ^ N.of_nat (S f))%N ->
  parse_digits (digits_pos_fuel (S f) n acc) a =
  parse_digits acc (a * 10 ^ Z.of_nat (ndig (S f) n) + Z.of_N n)%Z.
Proof.
  induction f as [|f IH]; intros n acc a Hn.
  - (* n < 2 *) rewrite digits_S, ndig_S. assert (E : (n / 10 = 0)%N) by (change (2 ^ N.of_nat 1)%N with 2%N in Hn; lia).
    rewrite E. simpl N.eqb. cbn [parse_digits]. rewrite is_digit_48. f_equal. change (10 ^ Z.of_nat 1)%Z with 10%Z. lia.
  - rewrite digits_S, (ndig_S (S f)). destruct (N.eqb_spec (n / 10) 0) as [E|E].
    + cbn [parse_digits]. rewrite is_digit_48. f_equal. change (10 ^ Z.of_nat 1)%Z with 10%Z. lia.
    + rewrite IH.
      * cbn [parse_digits]. rewrite is_digit_48. f_equal.
        rewrite (Nat2Z.inj_succ (ndig (S f) (n / 10))), Z.pow_succ_r by lia. lia.
      * rewrite Nat2N.inj_succ, N.pow_succ_r' in Hn. lia.
Qed.

Lemma digits_head f : forall n acc, exists c t, digits_pos_fuel (S f) n acc = c :: t /\ is_digit c = true.
Proof.
  induction f as [|f IH]; intros n acc; rewrite digits_S.
  - destruct (n / 10 =? 0)%N; eexists; eexists; split; try reflexivity; apply is_digit_48.
  - destruct (n / 10 =? 0)%N; [eexists; eexists; split; [reflexivity|apply is_digit_48]|apply IH].
Qed.

Lemma show_N_parse n : parse_digits (show_N n) 0 = Some (Z.of_N n).
Proof.
  unfold show_N. rewrite digits_parse.
  - simpl. f_equal.
  - destruct n as [|p]; [simpl; lia|]. rewrite Nat2N.inj_succ, N2Nat.id. apply N.log2_spec. lia.
Qed.
Lemma show_N_head n : exists c t, show_N n = c :: t /\ is_digit c = true.
Proof. apply digits_head. Qed.

Theorem parse_show_Z z : in_i64 z = true -> parse_i64 (show_Z z) = Some z.
Proof.
  intro H. destruct z as [|p|p]; [reflexivity| |].
  - simpl show_Z. destruct (show_N_head (Npos p)) as [c [t [E D]]]. unfold parse_i64. rewrite E.
    assert (c <> 45%N /\ c <> 43%N) as [N1 N2] by (unfold is_digit in D; lia).
    destruct (N.eqb_spec c 45); [contradiction|]. 
    replace (match c with 45%N => _ | 43%N => _ | _ => _ end) with
      (match c :: t with [] => None | _ => match parse_digits (c :: t) 0 with
         | Some z => if in_i64 z then Some z else None | None => None end end).
    + rewrite <- E, show_N_parse. simpl Z.of_N. rewrite H. reflexivity.
    + destruct c as [|q]; [reflexivity|]. 
      repeat (destruct q as [q|q|]; try reflexivity; try (exfalso; apply N1; reflexivity); try (exfalso; apply N2; reflexivity)).
  - simpl show_Z. unfold parse_i64. destruct (show_N_head (Npos p)) as [c [t [E D]]].
    rewrite E, <- E, show_N_parse. simpl Z.of_N. simpl Z.opp. rewrite H. reflexivity.
Qed.
