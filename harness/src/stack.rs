//! C18: traces of scope operations on the real runtime types, through &dyn Runtime nesting
use crate::val;
use liquid_core::model::{Object, Scalar, ScalarCow, Value, ValueView};
use liquid_core::runtime::{GlobalFrame, Runtime, RuntimeBuilder, SandboxedStackFrame, StackFrame};
use serde_json::{json, Value as J};

enum Op {
    PushPlain(Object),
    PushSandbox(Object),
    PushGlobal,
    Pop,
    SetGlobal(String, Value),
    SetIndex(String, Value),
}

struct Ctx {
    probes: Vec<Vec<Scalar>>,
    names: Vec<String>,
    obs: Vec<J>,
}

fn observe(rt: &dyn Runtime, cx: &mut Ctx) {
    let mut tr = Vec::new();
    let mut ge = Vec::new();
    for p in &cx.probes {
        let path: Vec<ScalarCow<'_>> = p.iter().map(|s| s.as_ref()).collect();
        tr.push(match rt.try_get(&path) {
            Some(v) => val::view_to_json(v.as_view()),
            None => J::Null,
        });
        ge.push(match rt.get(&path) {
            Ok(v) => val::view_to_json(v.as_view()),
            Err(_) => J::Null,
        });
    }
    let roots: Vec<String> = rt.roots().iter().map(|k| k.as_str().to_owned()).collect();
    let idx: Vec<J> = cx
        .names
        .iter()
        .map(|n| match rt.get_index(n) {
            Some(v) => val::view_to_json(v.as_view()),
            None => J::Null,
        })
        .collect();
    cx.obs.push(json!({"try": tr, "get": ge, "roots": roots, "idx": idx}));
}

/// runs ops[*pos..] over `rt`; returns true when it stopped at a Pop that closes this level
fn go(rt: &dyn Runtime, ops: &[Op], pos: &mut usize, depth: usize, cx: &mut Ctx) -> bool {
    while *pos < ops.len() {
        let op = &ops[*pos];
        *pos += 1;
        match op {
            Op::PushPlain(d) => {
                let f = StackFrame::new(rt, d);
                observe(&f, cx);
                if go(&f, ops, pos, depth + 1, cx) {
                    observe(rt, cx);
                }
            }
            Op::PushSandbox(d) => {
                let f = SandboxedStackFrame::new(rt, d);
                observe(&f, cx);
                if go(&f, ops, pos, depth + 1, cx) {
                    observe(rt, cx);
                }
            }
            Op::PushGlobal => {
                let f = GlobalFrame::new(rt);
                observe(&f, cx);
                if go(&f, ops, pos, depth + 1, cx) {
                    observe(rt, cx);
                }
            }
            Op::Pop => {
                if depth > 0 {
                    return true;
                }
                observe(rt, cx); // no-op at the base
            }
            Op::SetGlobal(k, v) => {
                rt.set_global(k.clone().into(), v.clone());
                observe(rt, cx);
            }
            Op::SetIndex(k, v) => {
                rt.set_index(k.clone().into(), v.clone());
                observe(rt, cx);
            }
        }
    }
    false
}

pub fn run(req: &J) -> J {
    let data = val::obj_from_json(&req["data"]);
    let probes: Vec<Vec<Scalar>> = req["probes"]
        .as_array()
        .unwrap()
        .iter()
        .map(|p| {
            p.as_array()
                .unwrap()
                .iter()
                .map(|s| val::from_json(s).into_scalar().expect("scalar path element"))
                .collect()
        })
        .collect();
    let names: Vec<String> = req["names"].as_array().unwrap().iter().map(|s| s.as_str().unwrap().to_owned()).collect();
    let ops: Vec<Op> = req["ops"]
        .as_array()
        .unwrap()
        .iter()
        .map(|o| {
            let a = o.as_array().unwrap();
            match a[0].as_str().unwrap() {
                "plain" => Op::PushPlain(val::obj_from_json(&a[1])),
                "sandbox" => Op::PushSandbox(val::obj_from_json(&a[1])),
                "global" => Op::PushGlobal,
                "pop" => Op::Pop,
                "setg" => Op::SetGlobal(a[1].as_str().unwrap().to_owned(), val::from_json(&a[2])),
                "seti" => Op::SetIndex(a[1].as_str().unwrap().to_owned(), val::from_json(&a[2])),
                x => panic!("op {}", x),
            }
        })
        .collect();
    let mut cx = Ctx { probes, names, obs: Vec::new() };
    let base = RuntimeBuilder::new().set_globals(&data).build();
    observe(&base, &mut cx);
    let mut pos = 0;
    go(&base, &ops, &mut pos, 0, &mut cx);
    json!({"obs": cx.obs})
}
