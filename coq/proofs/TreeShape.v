(* TreeShape.v — the children analysis on liquid's grammar (coq/gen/Grammar.v, regenerated on every run):
   the shape of the pair tree that crates/core/src/parser/parser.rs walks with
   `into_inner().next().expect(..)`, `unreachable!()` and `panic!("Expected ..")`. *)
From LV Require Import Base Peg PegTree Grammar PegProofs TreeProofs.
From Coq Require Import Lia.

Definition K0 : nat := 60.
Notation wf := (wf_tree liquid_grammar K0).
Notation wff := (wf_forest liquid_grammar K0).

Lemma liquid_eoi_free : length liquid_grammar <= eoi_id.
Proof. vm_compute. repeat constructor. Qed.

(* every pair tree pest can build for this grammar, from any start rule and text, is well-shaped throughout *)
Theorem parse_tree_wf f start s rest p F :
  parse_tree liquid_grammar liquid_ws f start s = Some (Some (rest, p, F)) -> wff F.
Proof. unfold parse_tree. apply wf_sound. exact liquid_eoi_free. Qed.
(* and its pre-order flattening is the pair stream of Peg.parse *)
Theorem parse_tree_flat f start s :
  parse liquid_grammar liquid_ws f start s = flat_res (parse_tree liquid_grammar liquid_ws f start s).
Proof. unfold parse, parse_tree. apply ev_flat. Qed.

(* sub-pairs *)
Inductive within : ttree -> ttree -> Prop :=
| w_here t : within t t
| w_below t k cs c : In c cs -> within t c -> within t (TNode k cs).
Lemma wff_in F c : wff F -> In c F -> wf c.
Proof. induction F as [|x F IH]; [intros _ []|]. cbn [wf_forest]. intros [H1 H2] [<-|H]; auto. Qed.
Lemma wf_within t u : within t u -> wf u -> wf t.
Proof.
  induction 1 as [|t k cs c Hin _ IH]; [auto|]. intro H. apply wf_tree_unfold in H. destruct H as [_ H].
  apply IH. eapply wff_in; eassumption.
Qed.

Lemma mem_In x l : mem x l = true -> In x l.
Proof. induction l as [|y l IH]; [discriminate|]. rewrite mem_cons. intro H. apply orb_true_iff in H. destruct H as [H|H]; [left; symmetry; apply Nat.eqb_eq, H|right; auto]. Qed.
Lemma sat_pos_nil_forall r l : sat_pos [] r l -> Forall (fun x => In x r) l.
Proof. induction l as [|x l IH]; [constructor|]. cbn [sat_pos]. intros [H1 H2]. constructor; [apply mem_In, H1|auto]. Qed.

(* the shape of the children of a pair, by rule: what the Rust code expects at each site *)
Definition literal_rules := [r_NilLiteral; r_EmptyLiteral; r_BlankLiteral; r_StringLiteral; r_FloatLiteral; r_IntegerLiteral; r_BooleanLiteral].
Definition tag_token_rules := [r_Range; r_FilterChain; r_Equals; r_NotEquals; r_LesserThanGreaterThan; r_GreaterThanEquals; r_LesserThanEquals;
                               r_GreaterThan; r_LesserThan; r_Assign; r_Comma; r_Colon].
Definition element_rules := [r_Expression; r_Tag; r_Raw; r_InvalidLiquid; eoi_id].
Definition leaf_rules := literal_rules ++ [r_Identifier; r_Raw; r_InvalidLiquid; eoi_id; r_Equals; r_NotEquals; r_LesserThanGreaterThan; r_GreaterThanEquals; r_LesserThanEquals;
                               r_GreaterThan; r_LesserThan; r_Assign; r_Comma; r_Colon].
Definition children_spec (n : nat) (cs : list nat) : Prop :=
  (n = r_Tag -> cs = [r_TagInner]) /\
  (n = r_TagInner -> exists more, cs = r_Identifier :: more /\ Forall (fun x => In x tag_token_rules) more) /\
  (n = r_Expression -> cs = [r_ExpressionInner]) /\
  (n = r_ExpressionInner -> cs = [r_FilterChain]) /\
  (n = r_FilterChain -> exists more, cs = r_Value :: more /\ Forall (fun x => x = r_Filter) more) /\
  (n = r_Filter -> exists more, cs = r_Identifier :: more /\ Forall (fun x => x = r_PositionalFilterArgument \/ x = r_KeywordFilterArgument) more) /\
  (n = r_PositionalFilterArgument -> cs = [r_Value]) /\
  (n = r_KeywordFilterArgument -> cs = [r_Identifier; r_Value]) /\
  (n = r_Value -> cs = [r_Literal] \/ cs = [r_Variable]) /\
  (n = r_Literal -> exists k, cs = [k] /\ In k literal_rules) /\
  (n = r_Variable -> exists more, cs = r_Identifier :: more /\ Forall (fun x => x = r_Identifier \/ x = r_Value) more) /\
  (n = r_Range -> cs = [r_Value; r_Value]) /\
  (n = r_LaxLiquidFile -> Forall (fun x => In x element_rules) cs) /\
  (n = r_LiquidFile -> Forall (fun x => In x [r_Expression; r_Tag; r_Raw; eoi_id]) cs) /\
  (In n leaf_rules -> cs = []).

Lemma sat_zero r l : sat (mkA 0 (Some 0) [] r) l -> l = [].
Proof. intros (_ & H & _). cbn in H. destruct l; [reflexivity|cbn in H; lia]. Qed.
Lemma sat_one p ps r l : sat (mkA 1 (Some 1) (p :: ps) r) l -> exists x, l = [x] /\ In x p.
Proof.
  intros (H1 & H2 & H3). cbn in H1, H2, H3. destruct l as [|x [|y l]]; cbn in H1, H2; try lia.
  exists x. split; [reflexivity|]. cbn in H3. apply mem_In, H3.
Qed.
Lemma sat_two p q ps r l : sat (mkA 2 (Some 2) (p :: q :: ps) r) l -> exists x y, l = [x; y] /\ In x p /\ In y q.
Proof.
  intros (H1 & H2 & H3). cbn in H1, H2, H3. destruct l as [|x [|y [|z l]]]; cbn in H1, H2; try lia.
  exists x, y. cbn in H3. destruct H3 as (A & B & _). repeat split; auto using mem_In.
Qed.
Lemma sat_head p ps r l : sat (mkA 1 None (p :: ps) r) l -> exists x more, l = x :: more /\ In x p /\ sat_pos ps r more.
Proof.
  intros (H1 & _ & H3). cbn in H1, H3. destruct l as [|x l]; cbn in H1; try lia.
  exists x, l. cbn in H3. destruct H3 as (A & B). repeat split; auto using mem_In.
Qed.
Lemma sat_pos_forall_in p r U l : (forall q, In q p -> incl q U) -> incl r U -> sat_pos p r l -> Forall (fun x => In x U) l.
Proof.
  revert p. induction l as [|x l IH]; intros p Hp Hr H; [constructor|]. cbn [sat_pos] in H.
  destruct p as [|q p']; destruct H as [H1 H2]; constructor.
  - apply Hr, mem_In, H1.
  - apply (IH []); [intros q []|exact Hr|exact H2].
  - apply (Hp q (or_introl eq_refl)), mem_In, H1.
  - apply (IH p'); [|exact Hr|exact H2]. intros q' Hq'. apply Hp. right. exact Hq'.
Qed.
Lemma sat_any lo0 r l : sat (mkA lo0 None [] r) l -> Forall (fun x => In x r) l.
Proof. intros (_ & _ & H). cbn in H. apply sat_pos_nil_forall, H. Qed.

Definition nonatomic (m : atom) : Prop := m = NonAtomic \/ m = Compound.
Lemma nonatomic_of m : m <> Atomic -> nonatomic m. Proof. destruct m; [left|congruence|right]; reflexivity. Qed.
Ltac modes Hm := destruct Hm as [-> | ->].
Ltac tab := vm_compute; reflexivity.
Definition ca := child_abs liquid_grammar K0.

Lemma tab_Tag m : nonatomic m -> ca m r_Tag = Some (mkA 1 (Some 1) [[r_TagInner]] []). Proof. intro H; modes H; tab. Qed.
Lemma tab_TagInner m : nonatomic m -> ca m r_TagInner = Some (mkA 1 None [[r_Identifier]] [r_Range; r_FilterChain; r_Equals; r_NotEquals; r_LesserThanGreaterThan; r_GreaterThanEquals; r_LesserThanEquals; r_GreaterThan; r_LesserThan; r_Assign; r_Comma; r_Colon]).
Proof. intro H; modes H; tab. Qed.
Lemma tab_Expression m : nonatomic m -> ca m r_Expression = Some (mkA 1 (Some 1) [[r_ExpressionInner]] []). Proof. intro H; modes H; tab. Qed.
Lemma tab_ExpressionInner m : nonatomic m -> ca m r_ExpressionInner = Some (mkA 1 (Some 1) [[r_FilterChain]] []). Proof. intro H; modes H; tab. Qed.
Lemma tab_FilterChain m : nonatomic m -> ca m r_FilterChain = Some (mkA 1 None [[r_Value]] [r_Filter]). Proof. intro H; modes H; tab. Qed.
Lemma tab_Filter m : nonatomic m -> ca m r_Filter = Some (mkA 1 None [[r_Identifier]; [r_KeywordFilterArgument; r_PositionalFilterArgument]] [r_KeywordFilterArgument; r_PositionalFilterArgument]).
Proof. intro H; modes H; tab. Qed.
Lemma tab_Positional m : nonatomic m -> ca m r_PositionalFilterArgument = Some (mkA 1 (Some 1) [[r_Value]] []). Proof. intro H; modes H; tab. Qed.
Lemma tab_Keyword m : nonatomic m -> ca m r_KeywordFilterArgument = Some (mkA 2 (Some 2) [[r_Identifier]; [r_Value]] []). Proof. intro H; modes H; tab. Qed.
Lemma tab_Value m : nonatomic m -> ca m r_Value = Some (mkA 1 (Some 1) [[r_Literal; r_Variable]] []). Proof. intro H; modes H; tab. Qed.
Lemma tab_Literal m : nonatomic m -> ca m r_Literal = Some (mkA 1 (Some 1) [[r_NilLiteral; r_EmptyLiteral; r_BlankLiteral; r_StringLiteral; r_FloatLiteral; r_IntegerLiteral; r_BooleanLiteral]] []).
Proof. intro H; modes H; tab. Qed.
Lemma tab_Variable m : nonatomic m -> ca m r_Variable = Some (mkA 1 None [[r_Identifier]] [r_Identifier; r_Value]). Proof. intro H; modes H; tab. Qed.
Lemma tab_Range m : nonatomic m -> ca m r_Range = Some (mkA 2 (Some 2) [[r_Value]; [r_Value]] []). Proof. intro H; modes H; tab. Qed.
Lemma tab_Lax m : nonatomic m -> ca m r_LaxLiquidFile = Some (mkA 1 None [] [r_Expression; r_Tag; r_Raw; r_InvalidLiquid; eoi_id]). Proof. intro H; modes H; tab. Qed.
Lemma tab_Strict m : nonatomic m -> ca m r_LiquidFile = Some (mkA 1 None [] [r_Expression; r_Tag; r_Raw; eoi_id]). Proof. intro H; modes H; tab. Qed.
Lemma tab_leaf m n : nonatomic m -> In n leaf_rules -> ca m n = Some (mkA 0 (Some 0) [] []).
Proof. intros H Hn. unfold leaf_rules, literal_rules in Hn. cbn [app] in Hn. modes H; repeat (destruct Hn as [<-|Hn]; [tab|]); destruct Hn. Qed.

Lemma local_children k cs : local_ok liquid_grammar K0 k cs -> children_spec (t_rule k) (roots cs).
Proof.
  intros [m [Hm H]]. apply nonatomic_of in Hm. fold ca in H. generalize dependent (roots cs). intros l H.
  unfold children_spec. repeat split; intro E; try rewrite E in H.
  - rewrite (tab_Tag m Hm) in H. destruct (sat_one _ _ _ _ H) as (x & -> & [<-|[]]). reflexivity.
  - rewrite (tab_TagInner m Hm) in H. destruct (sat_head _ _ _ _ H) as (x & more & -> & [<-|[]] & Hp).
    exists more. split; [reflexivity|]. apply sat_pos_nil_forall in Hp. exact Hp.
  - rewrite (tab_Expression m Hm) in H. destruct (sat_one _ _ _ _ H) as (x & -> & [<-|[]]). reflexivity.
  - rewrite (tab_ExpressionInner m Hm) in H. destruct (sat_one _ _ _ _ H) as (x & -> & [<-|[]]). reflexivity.
  - rewrite (tab_FilterChain m Hm) in H. destruct (sat_head _ _ _ _ H) as (x & more & -> & [<-|[]] & Hp).
    exists more. split; [reflexivity|]. apply sat_pos_nil_forall in Hp. eapply Forall_impl; [|exact Hp]. intros a [<-|[]]. reflexivity.
  - rewrite (tab_Filter m Hm) in H. destruct (sat_head _ _ _ _ H) as (x & more & -> & [<-|[]] & Hp).
    exists more. split; [reflexivity|].
    apply (sat_pos_forall_in _ _ [r_KeywordFilterArgument; r_PositionalFilterArgument]) in Hp.
    + eapply Forall_impl; [|exact Hp]. intros a [<-|[<-|[]]]; auto.
    + intros q [<-|[]]. apply incl_refl.
    + apply incl_refl.
  - rewrite (tab_Positional m Hm) in H. destruct (sat_one _ _ _ _ H) as (x & -> & [<-|[]]). reflexivity.
  - rewrite (tab_Keyword m Hm) in H. destruct (sat_two _ _ _ _ _ H) as (x & y & -> & [<-|[]] & [<-|[]]). reflexivity.
  - rewrite (tab_Value m Hm) in H. destruct (sat_one _ _ _ _ H) as (x & -> & [<-|[<-|[]]]); auto.
  - rewrite (tab_Literal m Hm) in H. destruct (sat_one _ _ _ _ H) as (x & -> & Hx). exists x. split; [reflexivity|exact Hx].
  - rewrite (tab_Variable m Hm) in H. destruct (sat_head _ _ _ _ H) as (x & more & -> & [<-|[]] & Hp).
    exists more. split; [reflexivity|]. apply sat_pos_nil_forall in Hp. eapply Forall_impl; [|exact Hp]. intros a [<-|[<-|[]]]; auto.
  - rewrite (tab_Range m Hm) in H. destruct (sat_two _ _ _ _ _ H) as (x & y & -> & [<-|[]] & [<-|[]]). reflexivity.
  - rewrite (tab_Lax m Hm) in H. apply sat_any in H. exact H.
  - rewrite (tab_Strict m Hm) in H. apply sat_any in H. exact H.
  - rewrite (tab_leaf m _ Hm E) in H. apply sat_zero in H. exact H.
Qed.

(* every pair anywhere in a parse tree of this grammar has the children parser.rs expects *)
Theorem children_as_expected f start s rest p F t k cs :
  parse_tree liquid_grammar liquid_ws f start s = Some (Some (rest, p, F)) ->
  In t F -> within (TNode k cs) t -> children_spec (t_rule k) (roots cs).
Proof.
  intros HP Hin Hw. apply local_children. pose proof (parse_tree_wf _ _ _ _ _ _ HP) as W.
  pose proof (wf_within _ _ Hw (wff_in _ _ W Hin)) as Wt. apply wf_tree_unfold in Wt. exact (proj1 Wt).
Qed.

(* the top of the tree: one LaxLiquidFile pair over the whole text whose children are elements
   (Expression / Tag / Raw / InvalidLiquid) followed by exactly one EOI pair — the stream
   model/BlockParse.v's theorem quantifies over *)
Theorem lax_tree_shape f s rest p F :
  parse_tree liquid_grammar liquid_ws f r_LaxLiquidFile s = Some (Some (rest, p, F)) ->
  exists body, F = [TNode (mkTok r_LaxLiquidFile 0 p) (body ++ [TNode (mkTok eoi_id p p) []])] /\
               Forall (fun t => In (root t) [r_Expression; r_Tag; r_Raw; r_InvalidLiquid]) body.
Proof.
  unfold parse_tree. intro H. destruct f as [|f1]; [discriminate|]. cbn [evf] in H.
  assert (R : nth_error liquid_grammar r_LaxLiquidFile =
              Some (mkRule MCompound (PSeq PSoi (PSeq (PStar (PAlt (PRef r_Element) (PRef r_InvalidLiquid))) PEoi)))) by reflexivity.
  rewrite R in H. cbn [r_mod r_body mode_of is_silent negb andb atom_eqb] in H.
  match type of H with match ?x with _ => _ end = _ => destruct x as [[[[s1 p1] ts]|]|] eqn:Hb; try discriminate end.
  inversion H; subst. clear H.
  destruct f1 as [|f2]; [discriminate|]. cbn [evf] in Hb.
  destruct f2 as [|f3]; [discriminate|]. cbn [evf Nat.eqb] in Hb.
  destruct (evf liquid_grammar liquid_ws f3 Compound false (PStar (PAlt (PRef r_Element) (PRef r_InvalidLiquid))) s 0) as [[[[s2 p2] t2]|]|] eqn:Hstar; try discriminate.
  destruct f3 as [|f4]; [discriminate|]. cbn [evf orb atom_eqb] in Hb.
  destruct s2 as [|c s2]; [|discriminate]. cbn [app] in Hb. inversion Hb; subst. clear Hb.
  exists t2. split; [reflexivity|].
  assert (HA : abs liquid_grammar 10 Compound (PStar (PAlt (PRef r_Element) (PRef r_InvalidLiquid))) =
               Some (mkA 0 None [] [r_Expression; r_Tag; r_Raw; r_InvalidLiquid])) by (vm_compute; reflexivity).
  pose proof (abs_sound _ _ _ _ _ _ _ _ _ _ Hstar _ _ HA) as S. apply sat_any in S.
  unfold roots in S. apply Forall_map in S. exact S.
Qed.

(* ---- the two layers composed ---- *)
From LV Require Import PegTotal BlockParse BlockProofs.
Definition eoi_node (t : ttree) : bool := Nat.eqb (root t) eoi_id.
(* any reading of the elements as BlockParse elements: which tag keyword, which verdict of its argument
   parser — arbitrary, as long as the EOI pair, and only it, is read as EEOI *)
Definition faithful (alpha : ttree -> elem) : Prop := forall t, alpha t = EEOI <-> eoi_node t = true.

Theorem parse_total_composed s : exists f, forall f', f <= f' ->
  exists p body,
    parse_tree liquid_grammar liquid_ws f' r_LaxLiquidFile s =
      Some (Some ([], p, [TNode (mkTok r_LaxLiquidFile 0 p) (body ++ [TNode (mkTok eoi_id p p) []])])) /\
    Forall (fun t => In (root t) [r_Expression; r_Tag; r_Raw; r_InvalidLiquid]) body /\
    forall alpha, faithful alpha ->
      parse_elements (map alpha (body ++ [TNode (mkTok eoi_id p p) []])) = POk \/
      parse_elements (map alpha (body ++ [TNode (mkTok eoi_id p p) []])) = PErr.
Proof.
  destruct (lax_parse_total s) as [f Hf]. exists f. intros f' Hle. destruct (Hf f' Hle) as (p & ts & HP).
  rewrite parse_tree_flat in HP.
  destruct (parse_tree liquid_grammar liquid_ws f' r_LaxLiquidFile s) as [[[[rest p'] F]|]|] eqn:HT; try discriminate.
  cbn [flat_res] in HP. inversion HP; subst. clear HP.
  destruct (lax_tree_shape _ _ _ _ _ HT) as (body & -> & Hbody).
  exists p, body. split; [reflexivity|]. split; [exact Hbody|].
  intros alpha Ha. rewrite map_app. cbn [map].
  replace (alpha (TNode (mkTok eoi_id p p) [])) with EEOI by (symmetry; apply Ha; reflexivity).
  apply blocks_total. apply Forall_map. eapply Forall_impl; [|exact Hbody].
  intros t Ht Hc. apply Ha in Hc. unfold eoi_node in Hc. apply Nat.eqb_eq in Hc. cbv beta in Ht. rewrite Hc in Ht.
  cbn in Ht. repeat (destruct Ht as [Ht|Ht]; [discriminate Ht|]). destruct Ht.
Qed.

(* ---- the elements tile the text: each starts where the previous one ended, the first at 0, the last ends where
   the EOI pair sits ---- *)
Fixpoint tiles (a b : nat) (F : list ttree) : Prop :=
  match F with
  | [] => a = b
  | TNode k _ :: t => t_start k = a /\ tiles (t_end k) b t
  end.
Lemma tiles_app a b c F G : tiles a b F -> tiles b c G -> tiles a c (F ++ G).
Proof.
  revert a. induction F as [|[k cs] F IH]; intros a HF HG; cbn [tiles app] in *; [subst; exact HG|].
  destruct HF as [H1 H2]. split; [exact H1|]. apply IH; assumption.
Qed.
Definition one_span (pos p' : nat) (F : list ttree) : Prop := exists k cs, F = [TNode k cs] /\ t_start k = pos /\ t_end k = p'.
Lemma one_span_tiles pos p' F : one_span pos p' F -> tiles pos p' F.
Proof. intros (k & cs & -> & H1 & H2). cbn [tiles]. split; [exact H1|exact H2]. Qed.

Lemma ref_one f at_ n s pos s' p' F r : nth_error liquid_grammar n = Some r -> is_silent (r_mod r) = false -> at_ <> Atomic ->
  evf liquid_grammar liquid_ws (S f) at_ false (PRef n) s pos = Some (Some (s', p', F)) -> one_span pos p' F.
Proof.
  intros Hn Hs Hat H. cbn [evf] in H. rewrite Hn in H. rewrite Hs in H.
  replace (negb false && negb (atom_eqb at_ Atomic) && negb false) with true in H by (destruct at_; try reflexivity; congruence).
  destruct (evf liquid_grammar liquid_ws f (mode_of (r_mod r) at_) false (r_body r) s pos) as [[[[s1 p1] ts]|]|]; try discriminate.
  inversion H; subst. exists (mkTok n pos p'), ts. repeat split.
Qed.
Definition lax_item_t : pe := PAlt (PRef r_Element) (PRef r_InvalidLiquid).
Lemma item_one f s pos s' p' F : evf liquid_grammar liquid_ws f Compound false lax_item_t s pos = Some (Some (s', p', F)) -> one_span pos p' F.
Proof.
  intro H. destruct f as [|f1]; [discriminate|]. unfold lax_item_t in H. cbn [evf] in H.
  destruct (evf liquid_grammar liquid_ws f1 Compound false (PRef r_Element) s pos) as [[[[s1 p1] t1]|]|] eqn:E1; try discriminate.
  - inversion H; subst. clear H.
    (* Element is silent: one of Expression | Tag | Raw *)
    destruct f1 as [|f2]; [discriminate|]. cbn [evf] in E1.
    assert (R : nth_error liquid_grammar r_Element = Some (mkRule MSilent (PAlt (PRef r_Expression) (PAlt (PRef r_Tag) (PRef r_Raw))))) by reflexivity.
    rewrite R in E1. cbn [r_mod r_body mode_of is_silent negb andb atom_eqb] in E1.
    destruct (evf liquid_grammar liquid_ws f2 Compound false (PAlt (PRef r_Expression) (PAlt (PRef r_Tag) (PRef r_Raw))) s pos) as [[[[s2 p2] t2]|]|] eqn:E2; try discriminate.
    inversion E1; subst. clear E1.
    destruct f2 as [|f3]; [discriminate|]. cbn [evf] in E2.
    destruct (evf liquid_grammar liquid_ws f3 Compound false (PRef r_Expression) s pos) as [[[[s3 p3] t3]|]|] eqn:E3; try discriminate.
    + inversion E2; subst. destruct f3 as [|f4]; [discriminate|]. eapply (ref_one f4 Compound r_Expression); [reflexivity|reflexivity|discriminate|exact E3].
    + destruct f3 as [|f4]; [discriminate|]. cbn [evf] in E2.
      destruct (evf liquid_grammar liquid_ws f4 Compound false (PRef r_Tag) s pos) as [[[[s4 p4] t4]|]|] eqn:E4; try discriminate.
      * inversion E2; subst. destruct f4 as [|f5]; [discriminate|]. eapply (ref_one f5 Compound r_Tag); [reflexivity|reflexivity|discriminate|exact E4].
      * destruct f4 as [|f5]; [discriminate|]. eapply (ref_one f5 Compound r_Raw); [reflexivity|reflexivity|discriminate|exact E2].
  - destruct f1 as [|f2]; [discriminate|]. eapply (ref_one f2 Compound r_InvalidLiquid); [reflexivity|reflexivity|discriminate|exact H].
Qed.
Lemma plus_tiles : forall f s pos s' p' F,
  evf liquid_grammar liquid_ws f Compound false (PPlus lax_item_t) s pos = Some (Some (s', p', F)) -> tiles pos p' F.
Proof.
  induction f as [|f IH]; intros s pos s' p' F H; [discriminate|]. cbn [evf] in H.
  destruct (evf liquid_grammar liquid_ws f Compound false lax_item_t s pos) as [[[[s1 p1] t1]|]|] eqn:E1; try discriminate.
  pose proof (one_span_tiles _ _ _ (item_one _ _ _ _ _ _ E1)) as T1.
  destruct (evf liquid_grammar liquid_ws f Compound false (PPlus lax_item_t) s1 p1) as [[[[s3 p3] t3]|]|] eqn:E3; try discriminate.
  - inversion H; subst. eapply tiles_app; [exact T1|]. eapply IH; exact E3.
  - inversion H; subst. exact T1.
Qed.
Lemma star_tiles f s pos s' p' F :
  evf liquid_grammar liquid_ws f Compound false (PStar lax_item_t) s pos = Some (Some (s', p', F)) -> tiles pos p' F.
Proof.
  intro H. destruct f as [|f1]; [discriminate|]. cbn [evf] in H.
  destruct (evf liquid_grammar liquid_ws f1 Compound false (PPlus lax_item_t) s pos) as [[[[s1 p1] t1]|]|] eqn:E1; try discriminate.
  - inversion H; subst. eapply plus_tiles; exact E1.
  - inversion H; subst. reflexivity.
Qed.
Theorem lax_elements_tile f s rest p F :
  parse_tree liquid_grammar liquid_ws f r_LaxLiquidFile s = Some (Some (rest, p, F)) ->
  exists body, F = [TNode (mkTok r_LaxLiquidFile 0 p) (body ++ [TNode (mkTok eoi_id p p) []])] /\ tiles 0 p body.
Proof.
  unfold parse_tree. intro H. destruct f as [|f1]; [discriminate|]. cbn [evf] in H.
  assert (R : nth_error liquid_grammar r_LaxLiquidFile =
              Some (mkRule MCompound (PSeq PSoi (PSeq (PStar (PAlt (PRef r_Element) (PRef r_InvalidLiquid))) PEoi)))) by reflexivity.
  rewrite R in H. cbn [r_mod r_body mode_of is_silent negb andb atom_eqb] in H.
  match type of H with match ?x with _ => _ end = _ => destruct x as [[[[s1 p1] ts]|]|] eqn:Hb; try discriminate end.
  inversion H; subst. clear H.
  destruct f1 as [|f2]; [discriminate|]. cbn [evf] in Hb.
  destruct f2 as [|f3]; [discriminate|]. cbn [evf Nat.eqb] in Hb.
  destruct (evf liquid_grammar liquid_ws f3 Compound false (PStar (PAlt (PRef r_Element) (PRef r_InvalidLiquid))) s 0) as [[[[s2 p2] t2]|]|] eqn:Hstar; try discriminate.
  destruct f3 as [|f4]; [discriminate|]. cbn [evf orb atom_eqb] in Hb.
  destruct s2 as [|c s2]; [|discriminate]. cbn [app] in Hb. inversion Hb; subst. clear Hb.
  exists t2. split; [reflexivity|]. exact (star_tiles _ _ _ _ _ _ Hstar).
Qed.

(* every text: the parse finishes with elements that tile the whole text, first to last character *)
From LV Require Import PegPos.
Theorem elements_tile_the_text s : exists f, forall f', f <= f' ->
  exists body,
    parse_tree liquid_grammar liquid_ws f' r_LaxLiquidFile s =
      Some (Some ([], length s, [TNode (mkTok r_LaxLiquidFile 0 (length s)) (body ++ [TNode (mkTok eoi_id (length s) (length s)) []])])) /\
    Forall (fun t => In (root t) [r_Expression; r_Tag; r_Raw; r_InvalidLiquid]) body /\
    tiles 0 (length s) body.
Proof.
  destruct (lax_parse_total s) as [f Hf]. exists f. intros f' Hle. destruct (Hf f' Hle) as (p & ts & HP).
  pose proof (parse_end_is_length _ _ _ _ _ _ _ HP) as Hp. subst p.
  rewrite parse_tree_flat in HP.
  destruct (parse_tree liquid_grammar liquid_ws f' r_LaxLiquidFile s) as [[[[rest p'] F]|]|] eqn:HT; try discriminate.
  cbn [flat_res] in HP. inversion HP; subst. clear HP.
  destruct (lax_tree_shape _ _ _ _ _ HT) as (body & -> & Hbody).
  destruct (lax_elements_tile _ _ _ _ _ HT) as (body' & E & Ht).
  inversion E as [E']. apply app_inj_tail in E' as [<- _].
  exists body. split; [reflexivity|]. split; [exact Hbody|exact Ht].
Qed.

(* ---- the source text is exactly the concatenation of its elements' texts ---- *)
Definition sub (s : str) (a b : nat) : str := firstn (b - a) (skipn a s).
Definition span_text (s : str) (t : ttree) : str := match t with TNode k _ => sub s (t_start k) (t_end k) end.
Fixpoint tiles_le (a b : nat) (F : list ttree) : Prop :=
  match F with
  | [] => a = b
  | TNode k _ :: t => t_start k = a /\ a <= t_end k /\ tiles_le (t_end k) b t
  end.
Lemma tiles_le_app a b c F G : tiles_le a b F -> tiles_le b c G -> tiles_le a c (F ++ G).
Proof.
  revert a. induction F as [|[k cs] F IH]; intros a HF HG; cbn [tiles_le app] in *; [subst; exact HG|].
  destruct HF as (H1 & H2 & H3). repeat split; auto.
Qed.
Lemma tiles_le_bounds a b F : tiles_le a b F -> a <= b.
Proof. revert a. induction F as [|[k cs] F IH]; intros a H; cbn [tiles_le] in H; [lia|]. destruct H as (H1 & H2 & H3). apply IH in H3. lia. Qed.
Lemma firstn_plus {A} : forall n m (l : list A), firstn (n + m) l = firstn n l ++ firstn m (skipn n l).
Proof. induction n as [|n IH]; intros m l; [reflexivity|]. destruct l as [|x l]; [cbn; rewrite firstn_nil; reflexivity|]. cbn [Nat.add firstn skipn app]. rewrite IH. reflexivity. Qed.
Lemma skipn_skipn' {A} : forall x y (l : list A), skipn x (skipn y l) = skipn (x + y) l.
Proof. intros x y. revert x. induction y as [|y IH]; intros x l; [rewrite Nat.add_0_r; reflexivity|]. destruct l as [|a l]; [rewrite !skipn_nil; reflexivity|]. replace (x + S y) with (S (x + y)) by lia. cbn [skipn]. apply IH. Qed.
Lemma sub_split s a m b : a <= m -> m <= b -> sub s a m ++ sub s m b = sub s a b.
Proof.
  intros H1 H2. unfold sub. replace (b - a) with ((m - a) + (b - m)) by lia.
  rewrite firstn_plus, skipn_skipn'. replace (m - a + a) with m by lia. reflexivity.
Qed.
Lemma tiles_concat s : forall F a b, tiles_le a b F -> concat (map (span_text s) F) = sub s a b.
Proof.
  induction F as [|[k cs] F IH]; intros a b H; cbn [tiles_le map concat span_text] in *.
  - subst. unfold sub. rewrite Nat.sub_diag. reflexivity.
  - destruct H as (H1 & H2 & H3). subst a. rewrite (IH _ _ H3). apply sub_split; [exact H2|exact (tiles_le_bounds _ _ _ H3)].
Qed.
Lemma sub_all s : sub s 0 (length s) = s.
Proof. unfold sub. cbn [skipn]. rewrite Nat.sub_0_r. apply firstn_all. Qed.

Lemma evf_span f at_ e s pos s' p' F : evf liquid_grammar liquid_ws f at_ false e s pos = Some (Some (s', p', F)) -> pos <= p'.
Proof.
  intro H. pose proof (ev_flat liquid_grammar liquid_ws f at_ false e s pos) as E. rewrite H in E. cbn [flat_res] in E.
  pose proof (ev_pos _ _ _ _ _ _ _ _ _ _ _ E) as P. pose proof (ev_len liquid_grammar liquid_ws hintf rankf liquid_K liquid_wf _ _ _ _ _ _ _ _ _ E) as L. lia.
Qed.
Lemma plus_tiles_le : forall f s pos s' p' F,
  evf liquid_grammar liquid_ws f Compound false (PPlus lax_item_t) s pos = Some (Some (s', p', F)) -> tiles_le pos p' F.
Proof.
  induction f as [|f IH]; intros s pos s' p' F H; [discriminate|]. cbn [evf] in H.
  destruct (evf liquid_grammar liquid_ws f Compound false lax_item_t s pos) as [[[[s1 p1] t1]|]|] eqn:E1; try discriminate.
  assert (T1 : tiles_le pos p1 t1).
  { destruct (item_one _ _ _ _ _ _ E1) as (k & cs & -> & Hs & He). cbn [tiles_le]. pose proof (evf_span _ _ _ _ _ _ _ _ E1). repeat split; auto; lia. }
  destruct (evf liquid_grammar liquid_ws f Compound false (PPlus lax_item_t) s1 p1) as [[[[s3 p3] t3]|]|] eqn:E3; try discriminate.
  - inversion H; subst. eapply tiles_le_app; [exact T1|]. eapply IH; exact E3.
  - inversion H; subst. exact T1.
Qed.
(* the text of a template is the concatenation of the texts of its top-level elements, in order *)
Theorem source_is_the_concatenation_of_its_elements s : exists f, forall f', f <= f' ->
  exists body,
    parse_tree liquid_grammar liquid_ws f' r_LaxLiquidFile s =
      Some (Some ([], length s, [TNode (mkTok r_LaxLiquidFile 0 (length s)) (body ++ [TNode (mkTok eoi_id (length s) (length s)) []])])) /\
    concat (map (span_text s) body) = s.
Proof.
  destruct (lax_parse_total s) as [f Hf]. exists f. intros f' Hle. destruct (Hf f' Hle) as (p & ts & HP).
  pose proof (parse_end_is_length _ _ _ _ _ _ _ HP) as Hp. subst p.
  rewrite parse_tree_flat in HP. unfold parse_tree in *.
  destruct (evf liquid_grammar liquid_ws f' NonAtomic false (PRef r_LaxLiquidFile) s 0) as [[[[rest p'] F]|]|] eqn:HT; try discriminate.
  cbn [flat_res] in HP. inversion HP; subst. clear HP.
  (* unfold the top rule as in lax_tree_shape, keeping the star's evaluation *)
  pose proof HT as H. destruct f' as [|f1]; [discriminate|]. cbn [evf] in H.
  assert (R : nth_error liquid_grammar r_LaxLiquidFile =
              Some (mkRule MCompound (PSeq PSoi (PSeq (PStar (PAlt (PRef r_Element) (PRef r_InvalidLiquid))) PEoi)))) by reflexivity.
  rewrite R in H. cbn [r_mod r_body mode_of is_silent negb andb atom_eqb] in H.
  match type of H with match ?x with _ => _ end = _ => destruct x as [[[[s1 p1] tsb]|]|] eqn:Hb; try discriminate end.
  inversion H; subst. clear H.
  destruct f1 as [|f2]; [discriminate|]. cbn [evf] in Hb.
  destruct f2 as [|f3]; [discriminate|]. cbn [evf Nat.eqb] in Hb.
  destruct (evf liquid_grammar liquid_ws f3 Compound false (PStar (PAlt (PRef r_Element) (PRef r_InvalidLiquid))) s 0) as [[[[s2 p2] t2]|]|] eqn:Hstar; try discriminate.
  destruct f3 as [|f4]; [discriminate|]. cbn [evf orb atom_eqb] in Hb.
  destruct s2 as [|c s2]; [|discriminate]. cbn [app] in Hb. inversion Hb; subst. clear Hb.
  exists t2. split; [reflexivity|].
  assert (T : tiles_le 0 (length s) t2).
  { cbn [evf] in Hstar.
    destruct (evf liquid_grammar liquid_ws f4 Compound false (PPlus (PAlt (PRef r_Element) (PRef r_InvalidLiquid))) s 0) as [[[[s3 p3] t3]|]|] eqn:E1; try discriminate.
    - inversion Hstar; subst. exact (plus_tiles_le _ _ _ _ _ _ E1).
    - inversion Hstar; subst. reflexivity. }
  rewrite (tiles_concat s _ _ _ T). apply sub_all.
Qed.
