(* C14 — Array filters neither invent nor lose elements beyond their contract.
   Statements only; proofs in proofs/ArrProofs.v and proofs/SeqProofs.v.
   sort/sort_natural use slice::sort_by, whose result std specifies only for a comparator that
   is a total preorder on the input.  KnownClass (known_findings.txt: sort-incomparable) is
   exactly the complement: `total_preorder_on cmp l = false`; outside it everything is proved. *)
From Coq Require Import Permutation Sorted.
From LV Require Import Base Value Filters_seq ArrProofs SeqProofs.

Section Sort.
Context {A : Type} (cmp : A -> A -> comparison).
(* a permutation, for any comparator *)
Theorem sort_perm : forall l, Permutation (stable_sort cmp l) l.
Proof. exact (ArrProofs.sort_perm cmp). Qed.
(* outside the known class: specified, a permutation, non-decreasing, idempotent *)
Theorem sort_by_spec : forall l, total_preorder_on cmp l = true ->
  sort_by cmp l = Ok (stable_sort cmp l) /\ Permutation (stable_sort cmp l) l /\
  StronglySorted (fun a b => leq cmp a b = true) (stable_sort cmp l) /\ stable_sort cmp (stable_sort cmp l) = stable_sort cmp l.
Proof. exact (ArrProofs.sort_by_spec cmp). Qed.
(* ... and stable: the elements equivalent to any given one keep their relative order *)
Theorem sort_stable : forall P, total_preorder cmp P -> forall x l, P x -> Forall P l ->
  filter (equiv_to cmp x) (stable_sort cmp l) = filter (equiv_to cmp x) l.
Proof. exact (ArrProofs.sort_stable cmp). Qed.
(* the known class is exactly where the model says "unspecified" *)
Theorem sort_by_unspecified_iff : forall l, (exists s, sort_by cmp l = Panic s) <-> total_preorder_on cmp l = false.
Proof. exact (ArrProofs.sort_by_unspecified_iff cmp). Qed.
End Sort.
(* witness that the known class is inhabited by ordinary data: 1, "a", 2 — 1 and 2 are ordered,
   "a" is unordered with both *)
Theorem sort_known_class_witness :
  total_preorder_on sort_cmp [VScalar (SInt 2); VScalar (SStr [97%N]); VScalar (SInt 1)] = false.
Proof. vm_compute. reflexivity. Qed.
(* nil sorts last *)
Theorem nil_sorts_last : forall b, is_nil b = false ->
  cmp_or_eq (nil_safe_compare VNil b) = Gt /\ cmp_or_eq (nil_safe_compare b VNil) = Lt.
Proof. exact ArrProofs.nil_safe_nil_last. Qed.

(* uniq drops exactly the elements equal to an earlier kept one *)
Theorem uniq_kept_are_new : forall l seen pre x post, uniq_go seen l = pre ++ x :: post ->
  existsb (fun v => value_eq v x) (seen ++ pre) = false.
Proof. exact ArrProofs.uniq_kept_are_new. Qed.
Theorem uniq_dropped_have_witness : forall l seen x, In x l ->
  existsb (fun v => value_eq v x) (seen ++ uniq_go seen l) = true \/ In x (uniq_go seen l).
Proof. exact ArrProofs.uniq_dropped_have_witness. Qed.
Theorem uniq_subseq : forall seen l x, In x (uniq_go seen l) -> In x l.
Proof. exact ArrProofs.uniq_go_subseq. Qed.

Section C14.
Variable O : oracle.
Notation sf := (seq_filter O).
Theorem reverse_spec : forall l, sf QReverse (VArray l) [] = Ok (VArray (rev l)) /\ Permutation (rev l) l /\ rev (rev l) = l.
Proof. exact (ArrProofs.reverse_spec O). Qed.
Theorem compact_spec : forall l, sf QCompact (VArray l) [] = Ok (VArray (filter (fun v => negb (is_nil v)) l)).
Proof. exact (ArrProofs.compact_spec O). Qed.
Theorem concat_spec : forall l m, sf QConcat (VArray l) [VArray m] = Ok (VArray (l ++ m)) /\ length (l ++ m) = length l + length m.
Proof. exact (ArrProofs.concat_spec O). Qed.
Theorem map_spec : forall l p, sf QMap (VArray l) [sstr p] =
  Ok (VArray (flat_map (fun v => match v with VObject kvs => match lookup p kvs with Some x => [x] | None => [] end | _ => [] end) l)).
Proof. exact (ArrProofs.map_spec O). Qed.
Theorem where_spec : forall l p t, forallb is_object l = true -> sf QWhere (VArray l) [sstr p; t] =
  Ok (VArray (filter (fun v => match v with VObject kvs => match lookup p kvs with Some x => value_eq t x | None => false end | _ => false end) l)).
Proof. exact (ArrProofs.where_spec O). Qed.
Theorem where_truthy_spec : forall l p, forallb is_object l = true -> sf QWhere (VArray l) [sstr p] =
  Ok (VArray (filter (fun v => match v with VObject kvs => match lookup p kvs with Some x => truthy x | None => false end | _ => false end) l)).
Proof. exact (ArrProofs.where_truthy_spec O). Qed.
Theorem uniq_spec : forall l, sf QUniq (VArray l) [] = Ok (VArray (uniq_go [] l)).
Proof. exact (ArrProofs.uniq_spec O). Qed.
Theorem first_last_size : forall l, sf QFirst (VArray l) [] = Ok (nth 0 l VNil) /\ sf QLast (VArray l) [] = Ok (nth (length l - 1) l VNil) /\
  sf QSize (VArray l) [] = Ok (VScalar (SInt (Z.of_nat (length l)))).
Proof. exact (ArrProofs.first_last_size O). Qed.
Theorem slice_array : forall l off len, (1 <= len)%Z ->
  sf QSlice (VArray l) [VScalar (SInt off); VScalar (SInt len)] = Ok (VArray (slice_list off len l)).
Proof. exact (ArrProofs.slice_array O). Qed.
Theorem join_spec : forall l sep, sf QJoin (VArray l) [sstr sep] = Ok (sstr (join_str sep (map (to_kstr O) l))).
Proof. exact (ArrProofs.join_spec O). Qed.
(* forall l, ~ KnownClass l -> the sort filter returns the stable sorted permutation *)
Theorem sort_filter_spec : forall l, total_preorder_on sort_cmp l = true ->
  sf QSort (VArray l) [] = Ok (VArray (stable_sort sort_cmp l)).
Proof. exact (ArrProofs.sort_filter_spec O). Qed.
Theorem sort_filter_known_class : forall l, total_preorder_on sort_cmp l = false ->
  sf QSort (VArray l) [] = Panic site_sort_unspecified.
Proof. exact (ArrProofs.sort_filter_unspecified O). Qed.
End C14.

(* non-vacuity: comparable scalars with duplicates, an int/float tie and nils *)
Example c14_nonvacuous :
  let l := [VScalar (SInt 2); VNil; VScalar (SFloat (f_of_Z 2)); VScalar (SInt 1); VNil] in
  total_preorder_on sort_cmp l = true /\
  stable_sort sort_cmp l = [VScalar (SInt 1); VScalar (SInt 2); VScalar (SFloat (f_of_Z 2)); VNil; VNil].
Proof. vm_compute. split; reflexivity. Qed.

Print Assumptions sort_perm.
Print Assumptions sort_by_spec.
Print Assumptions sort_stable.
Print Assumptions sort_by_unspecified_iff.
Print Assumptions sort_known_class_witness.
Print Assumptions nil_sorts_last.
Print Assumptions uniq_kept_are_new.
Print Assumptions uniq_dropped_have_witness.
Print Assumptions uniq_subseq.
Print Assumptions reverse_spec.
Print Assumptions compact_spec.
Print Assumptions concat_spec.
Print Assumptions map_spec.
Print Assumptions where_spec.
Print Assumptions where_truthy_spec.
Print Assumptions uniq_spec.
Print Assumptions first_last_size.
Print Assumptions slice_array.
Print Assumptions join_spec.
Print Assumptions sort_filter_spec.
Print Assumptions sort_filter_known_class.
