(* C04: the shape invariant of the evaluator — a render never changes the kinds of the scope
   frames nor the contents of plain (caller data, loop, include-argument) and sandbox frames; only the
   global layers (assign, capture), the counter layer and the registers are ever written. *)
From LV Require Import Base Value Stack Eval BaseLemmas StackProofs EvalInd EvalProofs.

Inductive fsim : frame -> frame -> Prop :=
| fs_plain d : fsim (FPlain d) (FPlain d)
| fs_sand d : fsim (FSandbox d) (FSandbox d)
| fs_glob d d' : fsim (FGlobal d) (FGlobal d')
| fs_idx d d' : fsim (FIndex d) (FIndex d').
Definition sim (r r' : rt) := Forall2 fsim r r'.
Definition esim (s s' : est) := sim (fr s) (fr s') /\ length (rg s) = length (rg s').
Definition wfr (s : est) := rg s <> [].

Lemma fsim_refl f : fsim f f. Proof. destruct f; constructor. Qed.
Lemma sim_refl r : sim r r. Proof. induction r; constructor; auto using fsim_refl. Qed.
Lemma fsim_trans a b c : fsim a b -> fsim b c -> fsim a c.
Proof. intros H1 H2; inversion H1; subst; inversion H2; subst; constructor. Qed.
Lemma sim_trans a b c : sim a b -> sim b c -> sim a c.
Proof. unfold sim. intros H; revert c; induction H; intros c H2; inversion H2; subst; constructor; eauto using fsim_trans. Qed.
Lemma esim_refl s : esim s s. Proof. split; [apply sim_refl|reflexivity]. Qed.
Lemma esim_trans a b c : esim a b -> esim b c -> esim a c.
Proof. intros [H1 L1] [H2 L2]. split; [eapply sim_trans; eassumption|congruence]. Qed.
Lemma wfr_esim s s' : wfr s -> esim s s' -> wfr s'.
Proof. unfold wfr. intros W [_ L] E. rewrite E in L. destruct (rg s); [congruence|discriminate]. Qed.
Lemma sim_tl a b : sim a b -> sim (tl a) (tl b).
Proof. intros H; inversion H; subst; simpl; [constructor|assumption]. Qed.

Lemma sim_set_global x v r r' : set_global x v r = Ok r' -> sim r r'.
Proof.
  revert r'; induction r as [|f q IH]; intros r' H; simpl in H; [discriminate|].
  destruct f as [d|d|d|d];
    try (destruct (set_global x v q) as [q'| | |]; simpl in H; try discriminate; inversion H; subst;
         constructor; [apply fsim_refl|apply IH; reflexivity]).
  inversion H; subst. constructor; [constructor|apply sim_refl].
Qed.
Lemma sim_set_index x v r r' : set_index x v r = Ok r' -> sim r r'.
Proof.
  revert r'; induction r as [|f q IH]; intros r' H; simpl in H; [discriminate|].
  destruct f as [d|d|d|d];
    try (destruct (set_index x v q) as [q'| | |]; simpl in H; try discriminate; inversion H; subst;
         constructor; [apply fsim_refl|apply IH; reflexivity]).
  inversion H; subst. constructor; [constructor|apply sim_refl].
Qed.
Lemma esim_set_regs g s : wfr s -> esim s (set_regs g s).
Proof. unfold wfr, set_regs, esim. intro W. simpl. split; [apply sim_refl|]. destruct (rg s); [congruence|reflexivity]. Qed.
Lemma esim_frames f s : sim (fr s) f -> esim s (mkEst f (rg s)).
Proof. intro H. split; [exact H|reflexivity]. Qed.

Definition SH (f : est -> sink -> out) : Prop :=
  forall s k, wfr s -> match f s k with (_, s', _) => esim s s' end.

Lemma SH_write t : SH (fun s k => write_str s k t).
Proof. intros s k W. unfold write_str. destruct (write k (encode t)). apply esim_refl. Qed.

Lemma SH_seq f cont : SH f -> SH cont -> SH (fun s k => seq_step (f s k) cont).
Proof.
  intros Hf Hc s k W. specialize (Hf s k W). destruct (f s k) as [[o s1] k1]. unfold seq_step.
  destruct o; try assumption. destruct (interrupted s1); [assumption|].
  specialize (Hc s1 k1 (wfr_esim _ _ W Hf)). destruct (cont s1 k1) as [[o2 s2] k2]. eapply esim_trans; eassumption.
Qed.

(* a body run inside a pushed plain frame, the frame popped afterwards *)
Lemma esim_pop_plain a s s' : esim (push_plain a s) s' -> esim s (pop_plain s').
Proof. intros [H L]. split; [apply sim_tl in H; exact H|exact L]. Qed.
Lemma wfr_push_plain a s : wfr s -> wfr (push_plain a s). Proof. auto. Qed.
Lemma esim_pop_sandbox a s s' : esim (push_sandbox a s) s' -> esim s (pop_sandbox s').
Proof.
  intros [H L]. split; [apply sim_tl in H; apply sim_tl in H; exact H|].
  simpl in L. unfold pop_sandbox; simpl. destruct (rg s'); simpl in *; [discriminate|lia].
Qed.
Lemma wfr_push_sandbox a s : wfr (push_sandbox a s). Proof. unfold wfr; simpl; discriminate. Qed.

Lemma SH_for body x len parent : SH body -> forall vs i, SH (for_loop body x len parent vs i).
Proof.
  intros Hb; induction vs as [|v vs IH]; intros i s k W; [apply esim_refl|]. rewrite for_loop_cons.
  specialize (Hb (push_plain (iter_frame x len parent i v) s) k (wfr_push_plain _ _ W)).
  destruct (body (push_plain (iter_frame x len parent i v) s) k) as [[o s1] k1].
  apply esim_pop_plain in Hb.
  assert (W1 : wfr (pop_plain s1)) by (eapply wfr_esim; eassumption).
  assert (E2 : esim s (clear_intr (pop_plain s1))) by (eapply esim_trans; [exact Hb|apply esim_set_regs; exact W1]).
  destruct o; try exact Hb.
  destruct (r_intr (get_regs (pop_plain s1))) as [[|]|]; try exact E2;
    (specialize (IH (i + 1)%Z (clear_intr (pop_plain s1)) k1 (wfr_esim _ _ W E2));
     destruct (for_loop body x len parent vs (i + 1)%Z (clear_intr (pop_plain s1)) k1) as [[o2 s2] k2];
     eapply esim_trans; eassumption).
Qed.

Lemma write_str_cases s k t : exists k', write_str s k t = (ODone, s, k') \/ write_str s k t = (OFail ESink, s, k').
Proof. unfold write_str. destruct (write k (encode t)) as [k' [|]]; eauto. Qed.

Lemma SH_tablerow body x len cols : SH body -> forall vs i, SH (tablerow_loop body x len cols vs i).
Proof.
  intros Hb; induction vs as [|v vs IH]; intros i s k W; [apply esim_refl|]. cbn [tablerow_loop].
  match goal with |- context [write_str s k ?t] => destruct (write_str_cases s k t) as [k0 [E|E]]; rewrite E end; [|apply esim_refl].
  match goal with |- context [body (push_plain ?a s) k0] =>
    specialize (Hb (push_plain a s) k0 (wfr_push_plain _ _ W)); destruct (body (push_plain a s) k0) as [[o1 s1] k1] end.
  apply esim_pop_plain in Hb. destruct o1; try exact Hb.
  match goal with |- context [write_str (pop_plain s1) k1 ?t] => destruct (write_str_cases (pop_plain s1) k1 t) as [k2 [E2|E2]]; rewrite E2 end; [|exact Hb].
  specialize (IH (i + 1)%Z (pop_plain s1) k2 (wfr_esim _ _ W Hb)).
  destruct (tablerow_loop body x len cols vs (i + 1)%Z (pop_plain s1) k2) as [[o3 s3] k3]. eapply esim_trans; eassumption.
Qed.

Lemma SH_render_for body x len base : SH body -> forall vs i, SH (render_for_loop body x len base vs i).
Proof.
  intros Hb; induction vs as [|v vs IH]; intros i s k W; [apply esim_refl|]. cbn [render_for_loop].
  destruct (base s) as [b0| | |]; cbn [of_res]; try apply esim_refl.
  match goal with |- context [body (push_sandbox ?a s) k] =>
    specialize (Hb (push_sandbox a s) k (wfr_push_sandbox _ _)); destruct (body (push_sandbox a s) k) as [[o1 s1] k1] end.
  apply esim_pop_sandbox in Hb. destruct o1; try exact Hb.
  destruct (match r_intr (get_regs s1) with Some Brk => true | _ => false end); [exact Hb|].
  specialize (IH (i + 1)%Z (pop_sandbox s1) k1 (wfr_esim _ _ W Hb)).
  destruct (render_for_loop body x len base vs (i + 1)%Z (pop_sandbox s1) k1) as [[o3 s3] k3]. eapply esim_trans; eassumption.
Qed.

Section SHAll.
Variable O : oracle. Variable ps : pstore.
Variable rec : template -> est -> sink -> out.
Hypothesis rec_SH : forall l, SH (rec l).
Notation rn := (rnode O ps rec).
Notation rl := (rlist O ps rec).

Lemma SH_rlist_of l : Forall (fun n => SH (rn n)) l -> SH (rl l).
Proof.
  induction 1 as [|n l Hn _ IH]; [intros s k W; apply esim_refl|].
  exact (SH_seq (rn n) (rl l) Hn IH).
Qed.
Lemma SH_ropt o : optF (fun n => SH (rn n)) o -> SH (ropt_list O ps rec o).
Proof. destruct o as [l|]; simpl; intro H; [apply SH_rlist_of; exact H|intros s k W; apply esim_refl]. Qed.

Lemma rnode_tablerow x rng cols limit offset body s k :
  rn (NTableRow x rng cols limit offset body) s k =
  of_res (eval_range O rng s) s k (fun arr =>
  of_res (attr_usize O cols s) s k (fun cs =>
  of_res (attr_usize O limit s) s k (fun lim =>
  of_res (attr_usize O offset s) s k (fun off =>
    let sel := iter_array arr lim (match off with Some z => z | None => 0%Z end) false in
    let len := Z.of_nat (length sel) in
    match cs with
    | Some 0%Z => (OFail EInvalidArgument, s, k)
    | _ => tablerow_loop (rl body) x len (match cs with Some c => c | None => len end) sel 0%Z s k
    end)))).
Proof. reflexivity. Qed.
Lemma rnode_ifchanged body s k :
  rn (NIfChanged body) s k =
  match rl body s sink0 with
  | (ODone, s', kc) =>
      match decode (acc kc) with
      | None => (OPanicked 304%N, s', k)
      | Some t =>
          let g := get_regs s' in
          let changed := match r_changed g with Some l => negb (str_eqb l t) | None => true end in
          let s2 := set_regs (mkRegs (r_intr g) (r_cycles g) (Some t)) s' in
          if changed then write_str s2 k t else (ODone, s2, k)
      end
  | (o, s', _) => (o, s', k)
  end.
Proof. reflexivity. Qed.

Ltac of_res_tac := match goal with |- context [of_res ?r _ _ _] => destruct r; cbn [of_res]; try apply esim_refl end.

Lemma case_any_esim tv body (rest : out) st k : wfr st ->
  (match rest with (_, s', _) => esim st s' end) -> SH (rl body) -> forall l,
  match (fix any (l : list expr) : out :=
           match l with
           | [] => rest
           | a :: l' => of_res (eval_expr O a st) st k (fun av => if value_eq av tv then rl body st k else any l')
           end) l with (_, s', _) => esim st s' end.
Proof.
  intros W Hr Hb. induction l as [|a l IH]; [exact Hr|].
  destruct (eval_expr O a st); cbn [of_res]; try apply esim_refl.
  destruct (value_eq a0 tv); [apply Hb; exact W|exact IH].
Qed.

Theorem SH_rnode : forall n, SH (rn n).
Proof.
  induction n using node_ind'; intros st k W.
  - apply (SH_write s st k W).
  - apply (SH_write s st k W).
  - apply esim_refl.
  - cbn [rnode]. of_res_tac. apply (SH_write _ st k W).
  - cbn [rnode]. of_res_tac. destruct (set_global x a (fr st)) eqn:E; cbn [of_res]; try apply esim_refl.
    apply esim_frames. eapply sim_set_global; exact E.
  - rewrite rnode_capture. pose proof (SH_rlist_of b H st sink0 W) as Hb.
    destruct (rl b st sink0) as [[o s1] kc]. destruct o; try exact Hb.
    destruct (decode (acc kc)); [|exact Hb].
    destruct (set_global x (VScalar (SStr s)) (fr s1)) eqn:E; cbn [of_res]; try exact Hb.
    eapply esim_trans; [exact Hb|]. apply esim_frames. eapply sim_set_global; exact E.
  - cbn [rnode]. match goal with |- context [write_str st k ?t] => destruct (write_str_cases st k t) as [k0 [E|E]]; rewrite E end; [|apply esim_refl].
    match goal with |- context [set_index x ?v (fr st)] => destruct (set_index x v (fr st)) eqn:E2; cbn [of_res]; try apply esim_refl end.
    apply esim_frames. eapply sim_set_index; exact E2.
  - cbn [rnode]. match goal with |- context [write_str st k ?t] => destruct (write_str_cases st k t) as [k0 [E|E]]; rewrite E end; [|apply esim_refl].
    match goal with |- context [set_index x ?v (fr st)] => destruct (set_index x v (fr st)) eqn:E2; cbn [of_res]; try apply esim_refl end.
    apply esim_frames. eapply sim_set_index; exact E2.
  - cbn [rnode]. of_res_tac. destruct a as [i g]. cbn [fst snd].
    pose proof (esim_set_regs g st W) as Hs. destruct (nth_error vs i); [|exact Hs].
    of_res_tac; try exact Hs. pose proof (SH_write (Value.render O a) (set_regs g st) k (wfr_esim _ _ W Hs)) as Hw.
    destruct (write_str (set_regs g st) k (Value.render O a)) as [[o1 s1] k1]. eapply esim_trans; eassumption.
  - rewrite rnode_if. of_res_tac. destruct (Bool.eqb a m); [apply SH_rlist_of; assumption|apply SH_ropt; assumption].
  - rewrite rnode_case. of_res_tac.
    induction ws as [|[args body] ws IHw]; [apply SH_ropt; assumption|].
    inversion H as [|? ? Hb Hr]; subst. simpl in Hb.
    apply case_any_esim; [exact W|apply IHw; assumption|apply SH_rlist_of; assumption].
  - rewrite rnode_for. repeat of_res_tac.
    match goal with |- context [iter_array ?a ?b ?c ?d] => destruct (iter_array a b c d) eqn:Esel end; [apply SH_ropt; assumption|].
    apply SH_for; [apply SH_rlist_of; assumption|exact W].
  - rewrite rnode_tablerow. repeat of_res_tac.
    destruct a0 as [[|p|p]|]; try apply esim_refl; apply SH_tablerow; try (apply SH_rlist_of; assumption); exact W.
  - cbn [rnode]. apply esim_set_regs; exact W.
  - cbn [rnode]. apply esim_set_regs; exact W.
  - rewrite rnode_ifchanged. pose proof (SH_rlist_of b H st sink0 W) as Hb.
    destruct (rl b st sink0) as [[o s1] kc]. destruct o; try exact Hb.
    destruct (decode (acc kc)) as [t|]; [|exact Hb]. cbv zeta.
    assert (W1 : wfr s1) by (eapply wfr_esim; eassumption).
    match goal with |- context [set_regs ?g s1] => pose proof (esim_set_regs g s1 W1) as Hs end.
    destruct (match r_changed (get_regs s1) with Some l => negb (str_eqb l t) | None => true end).
    + match goal with |- context [write_str ?s2 k t] => destruct (write_str_cases s2 k t) as [k0 [E|E]]; rewrite E end;
        eapply esim_trans; eassumption.
    + eapply esim_trans; eassumption.
  - cbn [rnode]. of_res_tac. destruct a0; try apply esim_refl. repeat of_res_tac.
    pose proof (rec_SH a1 (push_plain a0 st) k (wfr_push_plain _ _ W)) as Hb.
    destruct (rec a1 (push_plain a0 st) k) as [[o1 s1] k1]. apply esim_pop_plain in Hb. exact Hb.
  - cbn [rnode]. of_res_tac. destruct a0; try apply esim_refl.
    destruct f as [[rng x]|].
    + of_res_tac. destruct a0 as [|v0 vs0]; [apply esim_refl|]. repeat of_res_tac.
      apply SH_render_for; [apply rec_SH|exact W].
    + repeat of_res_tac.
      match goal with |- context [rec ?b (push_sandbox ?a st) k] =>
        pose proof (rec_SH b (push_sandbox a st) k (wfr_push_sandbox _ _)) as Hb; destruct (rec b (push_sandbox a st) k) as [[o1 s1] k1] end.
      apply esim_pop_sandbox in Hb. exact Hb.
Qed.
End SHAll.

(* the invariant holds for every template, every nesting depth of partials, every data *)
Theorem shape_inv O ps : forall d l, SH (render O ps d l).
Proof.
  induction d as [|d IH]; intro l; [intros s k W; apply esim_refl|].
  cbn [render]. apply SH_rlist_of. apply Forall_forall. intros n _. apply SH_rnode. exact IH.
Qed.

(* user-facing corollaries *)
Corollary caller_data_untouched O ps depth t data k :
  match render_top O ps depth t data k with
  | (_, s', _) => exists g c, fr s' = [FGlobal g; FPlain data; FIndex c]
  end.
Proof.
  unfold render_top. pose proof (shape_inv O ps (S depth) t (est_build data) k) as H.
  assert (W : wfr (est_build data)) by (unfold wfr; simpl; discriminate). specialize (H W).
  destruct (render O ps (S depth) t (est_build data) k) as [[o s'] k']. destruct H as [H _].
  simpl in H. inversion H as [|? ? ? ? F1 T1]; subst. inversion T1 as [|? ? ? ? F2 T2]; subst.
  inversion T2 as [|? ? ? ? F3 T3]; subst. inversion T3; subst.
  inversion F1; inversion F2; inversion F3; subst. eauto.
Qed.

(* ---- more C04 facts ---- *)
Theorem build_order data : fr (est_build data) = [FGlobal []; FPlain data; FIndex []].
Proof. reflexivity. Qed.
(* assign lands in the nearest enclosing global layer, whatever plain/sandbox layers are above it,
   touches nothing else, and is what a later lookup of the name finds unless a layer above defines it *)
Theorem assign_persists O ps rec x v s k a d b : fr s = a ++ FGlobal d :: b -> Forall StackProofs.not_global a ->
  rnode O ps rec (NAssign x (ELit v, [])) s k = (ODone, mkEst (a ++ FGlobal (upsert x v d) :: b) (rg s), k).
Proof.
  intros E Ha. cbn [rnode eval_chain_e fst snd eval_expr apply_filters bind of_res].
  assert (T : StackProofs.through (fr s) = Some (a, d, b)).
  { rewrite E. clear E. induction a as [|f a IH]; [reflexivity|]. inversion Ha as [|? ? Hf Hr]; subst.
    simpl. rewrite (IH Hr). destruct f; simpl in Hf; try contradiction; reflexivity. }
  destruct (StackProofs.set_global_nearest x v (fr s) a d b T) as [Es _]. rewrite Es. reflexivity.
Qed.
Theorem assign_then_visible O x v a d b :
  Forall (StackProofs.plain_without x) a -> try_get O [SStr x] (a ++ FGlobal (upsert x v d) :: b) = Some v.
Proof. apply StackProofs.assign_visible. Qed.
(* capture binds exactly the text its body writes, and writes nothing itself *)
Theorem capture_exact O ps rec x body s k :
  match rlist O ps rec body s sink0 with
  | (ODone, s', kc) =>
      forall t f', decode (acc kc) = Some t -> set_global x (VScalar (SStr t)) (fr s') = Ok f' ->
      rnode O ps rec (NCapture x body) s k = (ODone, mkEst f' (rg s'), k)
  | (o, s', _) => o <> ODone -> rnode O ps rec (NCapture x body) s k = (o, s', k)
  end.
Proof.
  rewrite rnode_capture. destruct (rlist O ps rec body s sink0) as [[o s'] kc].
  destruct o; [intros t f' Ht Hf; rewrite Ht, Hf; reflexivity|intros _; reflexivity|intros _; reflexivity].
Qed.
(* a loop variable (and forloop) stops existing when the loop ends; include arguments when the
   include returns: after ANY node the frames are the ones before it, only global/counter layers differ *)
Corollary frames_restored O ps d n s k : wfr s ->
  match rnode O ps (render O ps d) n s k with (_, s', _) => sim (fr s) (fr s') /\ length (rg s) = length (rg s') end.
Proof. intro W. apply (SH_rnode O ps (render O ps d) (shape_inv O ps d) n s k W). Qed.
