"""scen.py — scenarios shared by C09 (histories), C19 (compilation policies) and C20 (threads):
a parser with partial sources, a few templates with stateful constructs, a few data objects."""
import random
from props import tpl, progen
from props.tpl import lit, var, I, Sx
from props.progen import read, reads_all

BROKEN = "{% if %}oops"
ARR = ("arr", var("arr"))


def fixed_scenarios():
    S = []
    stateful = [("cycle", None, [Sx("c1"), Sx("c2"), Sx("c3")]), ("inc", "n"), ("dec", "m"), ("ifchanged", [("out", (var("a"), []))]),
                ("assign", "g", (Sx("G"), [])), ("capture", "cap", [("text", "K"), ("out", (var("a"), []))])] + read("g") + read("cap") + read("n")
    t1 = [("for", "x", ARR, None, None, False, stateful + [("text", ";")], None)] + reads_all()
    # fails midway: error raised inside a loop after a break was requested / inside capture / inside a partial
    t2 = [("for", "x", ARR, None, None, False, [("cycle", None, [Sx("c1"), Sx("c2"), Sx("c3")]), ("inc", "n"),
           ("if", True, ("bin", var("x"), "==", Sx("y")), [("break",)], None), ("assign", "g", (var("x"), []))], None),
          ("capture", "cap", [("text", "in"), ("out", (var("boom"), []))]), ("text", "never")]
    t3 = [("cycle", None, [Sx("c1"), Sx("c2"), Sx("c3")]), ("include", Sx("p"), []), ("render", Sx("q"), None, [("v", var("a"))]), ("include", Sx("bad"), []), ("text", "never")]
    # every block that renders its body into a buffer of its own, failing after the body has written something on
    # some data and succeeding on other data, with the result made visible
    t5 = [("capture", "cap", [("text", "in"), ("out", (var("boom"), []))])] + read("cap") + \
         [("ifchanged", [("text", "ic"), ("out", (var("boom"), []))]), ("text", "|"),
          ("for", "x", ARR, None, None, False, [("capture", "c2", [("out", (var("x"), [])), ("out", (var("boom"), []))])] + read("c2"), None)]
    t4 = read("g") + read("cap") + read("n") + [("cycle", None, [Sx("c1"), Sx("c2"), Sx("c3")]), ("ifchanged", [("text", "same")]), ("inc", "n")]
    partials = [("p", [("text", "<p"), ("inc", "n"), ("cycle", None, [Sx("c1"), Sx("c2"), Sx("c3")]), ("assign", "g", (Sx("pG"), [])), ("text", ">")]),
                ("q", [("text", "<q"), ("out", (var("v"), [])), ("break",), ("text", "never>")]), ("bad", BROKEN)]
    datas = [[["a", ["s", "A1"]], ["arr", ["a", [["s", "x"], ["s", "y"], ["s", "z"]]]]],
             [["a", ["s", "A2"]], ["arr", ["a", [["s", "y"]]]], ["boom", ["s", "B"]]],
             [["arr", ["a", []]]]]
    S.append({"partials": partials, "templates": [t1, t2, t3, t4, t5], "datas": datas})
    # a scenario whose partials are all fine, used more than once within a render
    partials2 = [("p", [("text", "("), ("out", (var("k"), [])), ("inc", "n"), ("text", ")")]), ("unused_bad", BROKEN)]
    u1 = [("for", "x", ARR, None, None, False, [("include", Sx("p"), [("k", var("x"))]), ("render", Sx("p"), None, [("k", var("x"))])], None), ("include", var("pn"), [("k", Sx("dyn"))])]
    u2 = [("text", "no partial here"), ("inc", "n")]
    u3 = [("if", True, ("ex", var("nope")), [("include", Sx("unused_bad"), []), ("include", Sx("missing"), [])], [("text", "dead path ok")])]
    datas2 = [[["arr", ["a", [["s", "x"], ["s", "y"]]]], ["pn", ["s", "p"]]], [["arr", ["a", []]], ["pn", ["s", "missing"]]]]
    S.append({"partials": partials2, "templates": [u1, u2, u3], "datas": datas2})
    return S


def random_scenario(rnd):
    allow = ("assign", "capture", "inc", "dec", "for", "if", "include", "render", "read", "text", "break", "continue", "cycle", "ifchanged")
    p3 = progen.Gen(rnd, partial_names=[], allow=allow).body(2, False, 3)
    p2 = progen.Gen(rnd, partial_names=["p3"], allow=allow).body(2, False, 3)
    p1 = progen.Gen(rnd, partial_names=["p2", "p3"], allow=allow).body(2, False, 3)
    parts = [("p1", p1), ("p2", p2), ("p3", p3)]
    r = rnd.random()
    if r < 0.25:
        i = rnd.randrange(3)
        parts[i] = (parts[i][0], BROKEN)
    elif r < 0.4:
        parts.pop(rnd.randrange(3))
    tpls = [progen.Gen(rnd, partial_names=["p1", "p2", "p3"], allow=allow).program(size=4, depth=3) for _ in range(rnd.randint(2, 3))]
    if rnd.random() < 0.5:
        tpls.append([("text", "t"), ("out", (var("undefined_name"), [])), ("text", "never")])
    datas = [progen.DATA, [["a", ["i", "7"]], ["arr", ["a", [["i", "1"]]]]]] + ([[["arr", ["a", []]]]] if rnd.random() < 0.5 else [])
    return {"partials": parts, "templates": tpls, "datas": datas}


def partials_req(sc):
    return [[n, b if isinstance(b, str) else tpl.body_text(b)] for n, b in sc["partials"]]


def same(a, b):
    """two call results are the same result (error texts are compared too: they are deterministic)"""
    return a == b


def classify(r):
    return tpl.observed(r)
