"""tpl.py — one template representation, two printers: Liquid source text (for the implementation)
and the model's `template` term (IR for Coq / the extracted driver).

expr  : ("lit", value_json) | ("var", root, [index, ...]) with index = ("lit", v) | ("var", ...)
fchain: (expr, [(filter_name, [expr, ...]), ...])
cond  : ("bin", expr, op, expr) | ("ex", expr) | ("and", c, c) | ("or", c, c)      (shapes the parser can produce)
range : ("arr", expr) | ("cnt", expr, expr)
node  : ("text", s) | ("raw", s) | ("comment", s) | ("out", fchain) | ("assign", x, fchain) | ("capture", x, body)
        | ("inc", x) | ("dec", x) | ("cycle", name|None, [expr]) | ("if", mode, cond, body, else|None)   (elsif = else [if])
        | ("case", expr, [([expr], body)], else|None) | ("for", x, range, limit|None, offset|None, reversed, body, else|None)
        | ("tablerow", x, range, cols|None, limit|None, offset|None, body) | ("break",) | ("continue",)
        | ("ifchanged", body) | ("include", expr, [(x, expr)]) | ("render", expr, None|(range, x)|("with", expr, x), [(x, expr)])
"""
import json, struct
from lv import C, R, S, P, Opt, Zv, val_ir, scalar_ir, float_ir, obj_ir
from props import seqcommon as sc

MATH = {"abs": "FAbs", "at_least": "FAtLeast", "at_most": "FAtMost", "plus": "FPlus", "minus": "FMinus", "times": "FTimes",
        "divided_by": "FDividedBy", "modulo": "FModulo", "round": "FRound", "ceil": "FCeil", "floor": "FFloor"}
HTML = {"escape": "HEscape", "escape_once": "HEscapeOnce", "url_encode": "HUrlEncode", "url_decode": "HUrlDecode", "strip_html": "HStripHtml"}
OPS = {"==": "OpEq", "!=": "OpNe", "<>": "OpNe", "<": "OpLt", ">": "OpGt", "<=": "OpLe", ">=": "OpGe", "contains": "OpContains"}


def lit(v):
    return ("lit", v)


def var(root, *idx):
    return ("var", root, [i if isinstance(i, tuple) else lit(["s", i] if isinstance(i, str) else ["i", str(i)]) for i in idx])


def I(n):
    return lit(["i", str(n)])


def Sx(s):
    return lit(["s", s])


# ---------------------------------------------------------------- Liquid text
def is_ident(s):
    return bool(s) and (s[0].isalpha() or s[0] == "_") and s.isascii() and all(ch.isalnum() or ch == "_" for ch in s)


def lit_text(v):
    t = v[0]
    if t == "i":
        return v[1]
    if t == "f" and len(v) > 2:
        return v[2]          # a spelled decimal literal: the value is float(v[2]), correctly rounded
    if t == "s" and len(v) > 2:
        assert v[2] not in v[1]
        return v[2] + v[1] + v[2]
    if t == "f":
        x = struct.unpack("<d", struct.pack("<Q", int(v[1])))[0]
        s = repr(x)
        assert "e" not in s and "inf" not in s and "nan" not in s, s
        return s
    if t == "s":
        return "'%s'" % v[1] if "'" not in v[1] else '"%s"' % v[1]
    if t == "b":
        return "true" if v[1] else "false"
    if t == "n":
        return "nil"
    if t == "st":
        return {"Empty": "empty", "Blank": "blank"}[v[1]]
    raise ValueError(v)


def expr_text(e):
    if e[0] == "lit":
        return lit_text(e[1])
    s = e[1]
    for i in e[2]:
        if i[0] == "lit" and i[1][0] == "s" and is_ident(i[1][1]):
            s += "." + i[1][1]
        else:
            s += "[" + expr_text(i) + "]"
    return s


def chain_text(fc):
    s = expr_text(fc[0])
    for f, args in fc[1]:
        s += " | " + f + ((": " + ", ".join(expr_text(a) for a in args)) if args else "")
    return s


def cond_text(c):
    if c[0] == "bin":
        return "%s %s %s" % (expr_text(c[1]), c[2], expr_text(c[3]))
    if c[0] == "ex":
        return expr_text(c[1])
    return "%s %s %s" % (cond_text(c[1]), c[0], cond_text(c[2]))


def range_text(r):
    return expr_text(r[1]) if r[0] == "arr" else "(%s..%s)" % (expr_text(r[1]), expr_text(r[2]))


def args_text(args):
    return ", ".join("%s: %s" % (x, expr_text(e)) for x, e in args)


def body_text(body):
    return "".join(node_text(n) for n in body)


def node_text(n):
    k = n[0]
    if k == "text":
        return n[1]
    if k == "raw":
        return "{% raw %}" + n[1] + "{% endraw %}"
    if k == "comment":
        return "{% comment %}" + n[1] + "{% endcomment %}"
    if k == "out":
        return "{{ " + chain_text(n[1]) + " }}"
    if k == "assign":
        return "{% assign " + n[1] + " = " + chain_text(n[2]) + " %}"
    if k == "capture":
        return "{% capture " + n[1] + " %}" + body_text(n[2]) + "{% endcapture %}"
    if k == "inc":
        return "{% increment " + n[1] + " %}"
    if k == "dec":
        return "{% decrement " + n[1] + " %}"
    if k == "cycle":
        return "{% cycle " + ((lit_text(["s", n[1]]) + ": ") if n[1] is not None else "") + ", ".join(expr_text(e) for e in n[2]) + " %}"
    if k == "if":
        kw = "if" if n[1] else "unless"
        s = "{% " + kw + " " + cond_text(n[2]) + " %}" + body_text(n[3])
        e = n[4]
        while e is not None and n[1] and len(e) == 1 and e[0][0] == "if" and e[0][1] and e[0][-1] == "elsif":
            s += "{% elsif " + cond_text(e[0][2]) + " %}" + body_text(e[0][3])
            e = e[0][4]
        if e is not None:
            s += "{% else %}" + body_text(e)
        return s + "{% end" + kw + " %}"
    if k == "case":
        s = "{% case " + expr_text(n[1]) + " %}"
        for vals, body in n[2]:
            s += "{% when " + " or ".join(expr_text(v) for v in vals) + " %}" + body_text(body)
        if n[3] is not None:
            s += "{% else %}" + body_text(n[3])
        return s + "{% endcase %}"
    if k == "for":
        _, x, rng, limit, offset, rev, body, els = n
        s = "{% for " + x + " in " + range_text(rng)
        if limit is not None:
            s += " limit:" + expr_text(limit)
        if offset is not None:
            s += " offset:" + expr_text(offset)
        if rev:
            s += " reversed"
        s += " %}" + body_text(body)
        if els is not None:
            s += "{% else %}" + body_text(els)
        return s + "{% endfor %}"
    if k == "tablerow":
        _, x, rng, cols, limit, offset, body = n
        s = "{% tablerow " + x + " in " + range_text(rng)
        if cols is not None:
            s += " cols:" + expr_text(cols)
        if limit is not None:
            s += " limit:" + expr_text(limit)
        if offset is not None:
            s += " offset:" + expr_text(offset)
        return s + " %}" + body_text(body) + "{% endtablerow %}"
    if k == "break":
        return "{% break %}"
    if k == "continue":
        return "{% continue %}"
    if k == "ifchanged":
        return "{% ifchanged %}" + body_text(n[1]) + "{% endifchanged %}"
    if k == "include":
        return "{% include " + expr_text(n[1]) + ((" " + args_text(n[2])) if n[2] else "") + " %}"
    if k == "render":
        _, p, form, args = n
        s = "{% render " + expr_text(p)
        if form is not None and form[0] == "with":
            s += " with " + expr_text(form[1]) + " as " + form[2]
        elif form is not None:
            s += " for " + range_text(form[0]) + " as " + form[1]
        if args:
            s += ", " + args_text(args)
        return s + " %}"
    raise ValueError(n)


# ---------------------------------------------------------------- model term
def expr_ir(e):
    if e[0] == "lit":
        return C("ELit", val_ir(e[1]))
    return C("EVar", scalar_ir(["s", e[1]]), [expr_ir(i) for i in e[2]])


def filt_ir(name):
    if name in MATH:
        return C("FM", C(MATH[name]))
    if name in HTML:
        return C("FH", C(HTML[name]))
    return C("FS", C(sc.CTOR[name]))


def chain_ir(fc):
    return P(expr_ir(fc[0]), [P(filt_ir(f), [expr_ir(a) for a in args]) for f, args in fc[1]])


def cond_ir(c):
    if c[0] == "bin":
        return C("CBin", expr_ir(c[1]), C(OPS[c[2]]), expr_ir(c[3]))
    if c[0] == "ex":
        return C("CExists", expr_ir(c[1]))
    return C("CAnd" if c[0] == "and" else "COr", cond_ir(c[1]), cond_ir(c[2]))


def range_ir(r):
    return C("RArray", expr_ir(r[1])) if r[0] == "arr" else C("RCounted", expr_ir(r[1]), expr_ir(r[2]))


def body_ir(b):
    return [node_ir(n) for n in b]


def cycle_name(n):
    if n[1] is not None:
        return n[1]
    # name = the values' Display forms joined by "-" (string literals print with double quotes)
    def disp(e):
        if e[0] == "lit" and e[1][0] == "s":
            return '"%s"' % e[1][1]
        return expr_text(e)
    return "-".join(disp(e) for e in n[2])


def node_ir(n):
    k = n[0]
    if k == "text":
        return C("NText", S(n[1]))
    if k == "raw":
        return C("NRaw", S(n[1]))
    if k == "comment":
        return C("NComment")
    if k == "out":
        return C("NOutput", chain_ir(n[1]))
    if k == "assign":
        return C("NAssign", S(n[1]), chain_ir(n[2]))
    if k == "capture":
        return C("NCapture", S(n[1]), body_ir(n[2]))
    if k == "inc":
        return C("NIncrement", S(n[1]))
    if k == "dec":
        return C("NDecrement", S(n[1]))
    if k == "cycle":
        return C("NCycle", S(cycle_name(n)), [expr_ir(e) for e in n[2]])
    if k == "if":
        return C("NIf", bool(n[1]), cond_ir(n[2]), body_ir(n[3]), Opt(body_ir, n[4]))
    if k == "case":
        return C("NCase", expr_ir(n[1]), [P([expr_ir(v) for v in vals], body_ir(b)) for vals, b in n[2]], Opt(body_ir, n[3]))
    if k == "for":
        _, x, rng, limit, offset, rev, body, els = n
        return C("NFor", S(x), range_ir(rng), Opt(expr_ir, limit), Opt(expr_ir, offset), bool(rev), body_ir(body), Opt(body_ir, els))
    if k == "tablerow":
        _, x, rng, cols, limit, offset, body = n
        return C("NTableRow", S(x), range_ir(rng), Opt(expr_ir, cols), Opt(expr_ir, limit), Opt(expr_ir, offset), body_ir(body))
    if k == "break":
        return C("NBreak")
    if k == "continue":
        return C("NContinue")
    if k == "ifchanged":
        return C("NIfChanged", body_ir(n[1]))
    if k == "include":
        return C("NInclude", expr_ir(n[1]), [P(S(x), expr_ir(e)) for x, e in n[2]])
    if k == "render":
        _, p, form, args = n
        if form is not None and form[0] == "with":
            return C("NRender", expr_ir(p), None, [P(S(form[2]), expr_ir(form[1]))] + [P(S(x), expr_ir(e)) for x, e in args])
        return C("NRender", expr_ir(p), Opt(lambda f: P(range_ir(f[0]), S(f[1])), form), [P(S(x), expr_ir(e)) for x, e in args])
    raise ValueError(n)


def elsif(cond, body, els):
    """an `elsif` arm: an if-node marked so that the printer writes it as {% elsif %}"""
    return ("if", True, cond, body, els, "elsif")


# ---------------------------------------------------------------- the render case
def walk_values(n, out):
    """collect every literal value and text of a template (for the oracle tables)"""
    if isinstance(n, (list, tuple)):
        if len(n) == 2 and n[0] == "lit":
            out.append(n[1])
            return
        for x in n:
            walk_values(x, out)


def request(c):
    r = {"id": c["id"], "kind": "render", "tpl": body_text(c["tpl"]), "data": c.get("data", [])}
    if c.get("partials") is not None:
        r["partials"] = [[name, src if isinstance(src, str) else body_text(src)] for name, src in c["partials"]]
    if c.get("policy"):
        r["policy"] = c["policy"]
    if c.get("budget") is not None:
        r["sink"] = {"budget": c["budget"]}
    return r


def observed(resp):
    """(class 0/1/2, accepted text or None)"""
    if "panic" in resp:
        return (2, "")
    if "result" in resp:      # sink run
        acc = resp["accepted"]
        return ((0 if resp["result"] == "ok" else 1), acc if isinstance(acc, str) else None)
    if "ok" in resp:
        return (0, resp["ok"] if isinstance(resp["ok"], str) else None)
    if "err" in resp:
        p = resp.get("partial", "")
        return (1, p if isinstance(p, str) else None)
    return (1, "")            # parse_err / build_err


def case_ir(c, resp, tables=None):
    cls, acc = observed(resp)
    vals = []
    walk_values(c["tpl"], vals)
    for _, v in c.get("data", []):
        vals.append(v)
    for _, src in (c.get("partials") or []):
        if not isinstance(src, str):
            walk_values(src, vals)
    fs, ss = [], []
    for v in vals:
        sc.walk_floats(v, fs)
        sc.walk_strings(v, ss)
    shows = [P(float_ir(b), S(sc.ORACLE["show"][b])) for b in sorted(set(fs)) if b in sc.ORACLE["show"]]
    extra = c.get("oracle", {})
    shows += [P(float_ir(b), S(s)) for b, s in extra.get("show", {}).items()]
    parses = [P(S(s), Opt(float_ir, b)) for s, b in extra.get("parse", {}).items()]
    casing = c.get("casing", False)
    chars = sorted(sc.closure(set("".join(ss)))) if casing else []
    ups = [P(("n", ord(ch)), S(sc.ORACLE["chars"][ch][0])) for ch in chars if sc.ORACLE["chars"][ch][0] != ch]
    los = [P(("n", ord(ch)), S(sc.ORACLE["chars"][ch][1])) for ch in chars if sc.ORACLE["chars"][ch][1] != ch]
    parts = [P(S(name), None if isinstance(src, str) else ("some", body_ir(src))) for name, src in (c.get("partials") or [])]
    budget = None if c.get("budget") is None else ("some", ("nat", c["budget"]))
    return R("mkR", body_ir(c["tpl"]), obj_ir(c.get("data", [])), parts, shows, parses, ups, los, [], budget, ("n", cls), S(acc or ""))


def prepare_floats(cases, run):
    """Display of every float literal / datum (the model's fshow oracle)"""
    fs = set()
    for c in cases:
        vals = []
        walk_values(c["tpl"], vals)
        for _, v in c.get("data", []):
            vals.append(v)
        for v in vals:
            tmp = []
            sc.walk_floats(v, tmp)
            fs.update(tmp)
    fs = sorted(fs - set(sc.ORACLE["show"]))
    if fs:
        r = run([{"id": 0, "kind": "oracle", "show": fs, "parse": [], "chars": "", "graphemes": []}])[0]
        for b, s in zip(fs, r["show"]):
            sc.ORACLE["show"][b] = s
