(* PegTree.v — the pair TREE of a pest parse (what `Pair::into_inner` walks), as a second reading of the
   evaluator of Peg.v: the same definition with the pairs of a rule's body kept under the rule's pair
   instead of after it.  proofs/TreeProofs.v shows that its pre-order flattening is Peg.ev's pair stream
   (the object the correspondence with pest compares), so that a statement about children is a statement
   about the stream the implementation walks.
   Second part: a static analysis of a grammar that bounds, for every rule and atomicity mode, how many
   children a pair of that rule has and which rules they can belong to, position by position. *)
From LV Require Export Peg.

Inductive ttree := TNode (t : tok) (cs : list ttree).
Definition root (t : ttree) : nat := match t with TNode k _ => t_rule k end.
Definition kids (t : ttree) : list ttree := match t with TNode _ cs => cs end.
Fixpoint flat (t : ttree) : list tok :=
  match t with TNode k cs => k :: (fix fl (l : list ttree) : list tok := match l with [] => [] | c :: l' => flat c ++ fl l' end) cs end.
Fixpoint flats (l : list ttree) : list tok := match l with [] => [] | c :: l' => flat c ++ flats l' end.

Definition fres := option (option (str * nat * list ttree)).
Definition mode_of (m : modif) (at_ : atom) : atom :=
  match m with MAtomic => Atomic | MCompound => Compound | MNonAtomic => NonAtomic | _ => at_ end.
Definition is_silent (m : modif) : bool := match m with MSilent => true | _ => false end.

Section EvalT.
Variable g : grammar.
Variable ws : option nat.

Fixpoint evf (fuel : nat) (at_ : atom) (la : bool) (e : pe) (s : str) (pos : nat) {struct fuel} : fres :=
  match fuel with
  | O => None
  | S f =>
    let skip (s : str) (pos : nat) : fres :=
      match at_, ws with
      | NonAtomic, Some w => evf f Atomic la (PStar (PRef w)) s pos
      | _, _ => Some (Some (s, pos, []))
      end in
    match e with
    | PLit l => Some (match strip_prefix l s with Some r => Some (r, pos + length l, []) | None => None end)
    | PRng a b => Some (match s with
                        | c :: r => if (a <=? c)%N && (c <=? b)%N then Some (r, S pos, []) else None
                        | [] => None end)
    | PAny => Some (match s with _ :: r => Some (r, S pos, []) | [] => None end)
    | PSoi => Some (if Nat.eqb pos 0 then Some (s, pos, []) else None)
    | PEoi => Some (match s with
                    | [] => Some (s, pos, if la || atom_eqb at_ Atomic then [] else [TNode (mkTok eoi_id pos pos) []])
                    | _ => None end)
    | PRef n =>
        match nth_error g n with
        | None => Some None
        | Some r =>
            let at' := mode_of (r_mod r) at_ in
            let emits := negb la && negb (atom_eqb at_ Atomic) && negb (is_silent (r_mod r)) in
            match evf f at' la (r_body r) s pos with
            | Some (Some (s', p', ts)) => Some (Some (s', p', if emits then [TNode (mkTok n pos p') ts] else ts))
            | x => x
            end
        end
    | PSeq a b =>
        match evf f at_ la a s pos with
        | Some (Some (s1, p1, t1)) =>
            match skip s1 p1 with
            | Some (Some (s2, p2, _)) =>
                match evf f at_ la b s2 p2 with
                | Some (Some (s3, p3, t3)) => Some (Some (s3, p3, t1 ++ t3))
                | x => x
                end
            | x => x
            end
        | x => x
        end
    | PAlt a b =>
        match evf f at_ la a s pos with
        | Some None => evf f at_ la b s pos
        | x => x
        end
    | POpt a =>
        match evf f at_ la a s pos with
        | Some None => Some (Some (s, pos, []))
        | x => x
        end
    | PNot a =>
        match evf f at_ true a s pos with
        | Some None => Some (Some (s, pos, []))
        | Some (Some _) => Some None
        | None => None
        end
    | PPlus a =>
        match evf f at_ la a s pos with
        | Some (Some (s1, p1, t1)) =>
            match skip s1 p1 with
            | Some (Some (s2, p2, _)) =>
                match evf f at_ la (PPlus a) s2 p2 with
                | Some (Some (s3, p3, t3)) => Some (Some (s3, p3, t1 ++ t3))
                | Some None => Some (Some (s1, p1, t1))
                | None => None
                end
            | Some None => Some (Some (s1, p1, t1))
            | None => None
            end
        | x => x
        end
    | PStar a =>
        match evf f at_ la (PPlus a) s pos with
        | Some None => Some (Some (s, pos, []))
        | x => x
        end
    end
  end.

Definition parse_tree (fuel : nat) (start : nat) (s : str) : fres := evf fuel NonAtomic false (PRef start) s 0.
End EvalT.

(* ---------- the children analysis ---------- *)
(* an abstraction of the root rules of a forest: at least [lo] and at most [hi] trees; the i-th root
   belongs to the i-th set of [pre] when there is one, to [rest] otherwise *)
Record fabs := mkA { lo : nat; hi : option nat; pre : list (list nat); rest : list nat }.
Definition mem (n : nat) (l : list nat) : bool := existsb (Nat.eqb n) l.
Fixpoint union (a b : list nat) : list nat :=
  match a with [] => b | x :: a' => if mem x b then union a' b else x :: union a' b end.
Definition all_of (A : fabs) : list nat := fold_right union (rest A) (pre A).
(* position sets of A padded to n entries *)
Fixpoint padded (n : nat) (p : list (list nat)) (r : list nat) : list (list nat) :=
  match n with O => [] | S n' => match p with [] => r :: padded n' [] r | x :: p' => x :: padded n' p' r end end.
Definition a_empty : fabs := mkA 0 (Some 0) [] [].
Definition a_single (n : nat) : fabs := mkA 1 (Some 1) [[n]] [].
Definition hi_add (a b : option nat) : option nat := match a, b with Some x, Some y => Some (x + y) | _, _ => None end.
Definition hi_max (a b : option nat) : option nat := match a, b with Some x, Some y => Some (Nat.max x y) | _, _ => None end.
Definition exact (A : fabs) : bool := match hi A with Some h => Nat.eqb h (lo A) | None => false end.
Definition a_seq (A B : fabs) : fabs :=
  if exact A then mkA (lo A + lo B) (hi_add (hi A) (hi B)) (padded (lo A) (pre A) (rest A) ++ pre B) (rest B)
  else mkA (lo A + lo B) (hi_add (hi A) (hi B)) (padded (lo A) (pre A) (rest A)) (union (all_of A) (all_of B)).
Fixpoint zip_union (n : nat) (p q : list (list nat)) (rp rq : list nat) : list (list nat) :=
  match n with O => [] | S n' =>
    union (match p with [] => rp | x :: _ => x end) (match q with [] => rq | y :: _ => y end)
      :: zip_union n' (tl p) (tl q) rp rq end.
Definition a_alt (A B : fabs) : fabs :=
  mkA (Nat.min (lo A) (lo B)) (hi_max (hi A) (hi B))
      (zip_union (Nat.max (length (pre A)) (length (pre B))) (pre A) (pre B) (rest A) (rest B)) (union (rest A) (rest B)).
Definition a_star (A : fabs) : fabs := mkA 0 (match hi A with Some 0 => Some 0 | _ => None end) [] (all_of A).
Definition a_plus (A : fabs) : fabs := a_seq A (a_star A).

Section Abs.
Variable g : grammar.
Fixpoint abs (K : nat) (at_ : atom) (e : pe) : option fabs :=
  match K with O => None | S K =>
  match e with
  | PLit _ | PRng _ _ | PAny | PSoi | PNot _ => Some a_empty
  | PEoi => Some (if atom_eqb at_ Atomic then a_empty else a_single eoi_id)
  | PRef n =>
      match nth_error g n with
      | None => Some a_empty                      (* never matches *)
      | Some r =>
          if negb (atom_eqb at_ Atomic) && negb (is_silent (r_mod r)) then Some (a_single n)
          else abs K (mode_of (r_mod r) at_) (r_body r)
      end
  | PSeq a b => match abs K at_ a, abs K at_ b with Some A, Some B => Some (a_seq A B) | _, _ => None end
  | PAlt a b => match abs K at_ a, abs K at_ b with Some A, Some B => Some (a_alt A B) | _, _ => None end
  | POpt a => match abs K at_ a with Some A => Some (a_alt A a_empty) | None => None end
  | PStar a => match abs K at_ a with Some A => Some (a_star A) | None => None end
  | PPlus a => match abs K at_ a with Some A => Some (a_plus A) | None => None end
  end end.
(* the children of a pair of rule n that was produced in mode at_ *)
Definition child_abs (K : nat) (at_ : atom) (n : nat) : option fabs :=
  match nth_error g n with
  | None => Some a_empty
  | Some r => abs K (mode_of (r_mod r) at_) (r_body r)
  end.
End Abs.
