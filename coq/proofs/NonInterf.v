(* NonInterf.v — render is observationally isolated: what a rendered partial writes, and whether it fails,
   depends only on its arguments, the shared counters and the partial store — not on anything else in
   the caller's scope or registers.  A relational (two-run) invariant through the whole evaluator. *)
From LV Require Import Base Value Stack Eval BaseLemmas StackProofs EvalInd EvalProofs FindProofs SafeProofs.
From Coq Require Import Lia.

Section NI.
Variable O : oracle.

(* ---- the part of a runtime a sandboxed computation can see ---- *)
Definition noidx (F : rt) : Prop := Forall (fun f => match f with FIndex _ => False | _ => True end) F.
Fixpoint ixobj (q : rt) : option obj :=
  match q with [] => None | FIndex d :: _ => Some d | _ :: q' => ixobj q' end.
Definition above (F : rt) (g a : obj) (q : rt) : rt := F ++ FGlobal g :: FSandbox a :: q.

Lemma try_get_above F g a q q' p : try_get O p (above F g a q) = try_get O p (above F g a q').
Proof.
  unfold above. induction F as [|f F IH]; cbn [app].
  - destruct p as [|x p]; [reflexivity|]. cbn [try_get path_key]. destruct (has_key (scalar_kstr O x) g); reflexivity.
  - destruct p as [|x p]; [destruct f; reflexivity|]. destruct f; cbn [try_get path_key]; try (destruct (has_key _ d); [reflexivity|exact IH]). reflexivity.
Qed.
Lemma get_above F g a q q' p : get O p (above F g a q) = get O p (above F g a q').
Proof.
  unfold above. induction F as [|f F IH]; cbn [app].
  - destruct p as [|x p]; [reflexivity|]. cbn [get path_key]. destruct (has_key (scalar_kstr O x) g); reflexivity.
  - destruct p as [|x p]; [destruct f; reflexivity|]. destruct f; cbn [get path_key]; try (destruct (has_key _ d); [reflexivity|exact IH]). reflexivity.
Qed.
Lemma get_index_above F g a q k : noidx F -> get_index k (above F g a q) = get_index k q.
Proof.
  unfold above. induction 1 as [|f F Hf _ IH]; [reflexivity|]. cbn [app]. destruct f; try contradiction; exact IH.
Qed.
Lemma get_index_ixobj q k : get_index k q = match ixobj q with Some d => lookup k d | None => None end.
Proof. induction q as [|f q IH]; [reflexivity|]. destruct f; cbn [get_index ixobj]; auto. Qed.
Lemma set_index_ixobj q k v : match ixobj q with
  | Some d => exists q', set_index k v q = Ok q' /\ ixobj q' = Some (upsert k v d)
  | None => set_index k v q = Panic site_core_set_index end.
Proof.
  induction q as [|f q IH]; [reflexivity|]. destruct f; cbn [set_index ixobj];
    try (destruct (ixobj q) as [d0|]; [destruct IH as (q' & -> & E); eexists; split; [reflexivity|exact E]|rewrite IH; reflexivity]).
  eexists; split; reflexivity.
Qed.
Lemma set_index_above F g a q k v : noidx F ->
  set_index k v (above F g a q) = match set_index k v q with Ok q' => Ok (above F g a q') | Err c => Err c | Panic n => Panic n | OutOfFuel => OutOfFuel end.
Proof.
  unfold above. induction 1 as [|f F Hf _ IH]; cbn [app].
  - cbn [set_index]. destruct (set_index k v q); reflexivity.
  - destruct f; try contradiction; cbn [set_index]; rewrite IH; destruct (set_index k v q); reflexivity.
Qed.
(* an assignment lands above the sandbox: in the innermost global frame of F, else in g *)
Lemma set_global_above F g a k v : noidx F -> exists F' g', length F' = length F /\ noidx F' /\
  forall q, set_global k v (above F g a q) = Ok (above F' g' a q).
Proof.
  unfold above. induction 1 as [|f F Hf HF IH].
  - exists [], (upsert k v g). split; [reflexivity|]. split; [constructor|]. intro q. reflexivity.
  - destruct IH as (F' & g' & L & N & E). destruct f; try contradiction.
    + exists (FPlain d :: F'), g'. split; [cbn; lia|]. split; [constructor; [exact I|exact N]|]. intro q. cbn [app set_global]. rewrite E. reflexivity.
    + exists (FSandbox d :: F'), g'. split; [cbn; lia|]. split; [constructor; [exact I|exact N]|]. intro q. cbn [app set_global]. rewrite E. reflexivity.
    + exists (FGlobal (upsert k v d) :: F), g. split; [reflexivity|]. split; [constructor; [exact I|exact HF]|]. intro q. reflexivity.
Qed.

(* ---- two runtimes that a sandboxed computation cannot tell apart ---- *)
Definition R (n m : nat) (s1 s2 : est) : Prop :=
  exists F g a q1 q2 G r1 r2,
    fr s1 = above F g a q1 /\ fr s2 = above F g a q2 /\ length F = n /\ noidx F /\
    rg s1 = G ++ r1 /\ rg s2 = G ++ r2 /\ length G = S m /\ ixobj q1 = ixobj q2.

Definition agree (s1 s2 : est) : Prop :=
  (forall p, get O p (fr s1) = get O p (fr s2)) /\ (forall p, try_get O p (fr s1) = try_get O p (fr s2)).
Lemma R_agree n m s1 s2 : R n m s1 s2 -> agree s1 s2.
Proof. intros (F & g & a & q1 & q2 & G & r1 & r2 & E1 & E2 & _). unfold agree. rewrite E1, E2. split; intro p; [apply get_above|apply try_get_above]. Qed.

(* ---- everything that only reads agrees ---- *)
Section Reads.
Variables s1 s2 : est.
Hypothesis A : agree s1 s2.
Lemma eval_expr_agree e : eval_expr O e s1 = eval_expr O e s2.
Proof.
  induction e as [v|r idx IH] using expr_ind'; [reflexivity|]. rewrite !eval_var_unfold.
  assert (E : eval_indices O idx s1 = eval_indices O idx s2).
  { induction IH as [|e t He _ IHt]; [reflexivity|]. cbn [eval_indices]. rewrite He, IHt. reflexivity. }
  rewrite E. destruct (eval_indices O idx s2); cbn [bind]; try reflexivity. apply (proj1 A).
Qed.
Lemma try_eval_expr_agree e : try_eval_expr O e s1 = try_eval_expr O e s2.
Proof.
  induction e as [v|r idx IH] using expr_ind'; [reflexivity|]. cbn [try_eval_expr].
  assert (E : (fix go (l : list expr) : option (list scalar) :=
                 match l with [] => Some [] | i :: t => match try_eval_expr O i s1 with
                   | Some (VScalar x) => match go t with Some r0 => Some (x :: r0) | None => None end | _ => None end end) idx =
              (fix go (l : list expr) : option (list scalar) :=
                 match l with [] => Some [] | i :: t => match try_eval_expr O i s2 with
                   | Some (VScalar x) => match go t with Some r0 => Some (x :: r0) | None => None end | _ => None end end) idx).
  { induction IH as [|e t He _ IHt]; [reflexivity|]. rewrite He, IHt. reflexivity. }
  rewrite E. match goal with |- match ?x with _ => _ end = _ => destruct x end; [apply (proj2 A)|reflexivity].
Qed.
Lemma eval_exprs_agree l : eval_exprs O l s1 = eval_exprs O l s2.
Proof. induction l as [|e t IH]; [reflexivity|]. cbn [eval_exprs]. rewrite eval_expr_agree, IH. reflexivity. Qed.
Lemma apply_filters_agree fs : forall v, apply_filters O v fs s1 = apply_filters O v fs s2.
Proof.
  induction fs as [|[f args] t IH]; intro v; [reflexivity|]. cbn [apply_filters]. rewrite eval_exprs_agree.
  destruct (eval_exprs O args s2); cbn [bind]; try reflexivity. destruct (apply_filter O f v a); cbn [bind]; try reflexivity. apply IH.
Qed.
Lemma eval_chain_agree fc : eval_chain_e O fc s1 = eval_chain_e O fc s2.
Proof. unfold eval_chain_e. rewrite eval_expr_agree. destruct (eval_expr O (fst fc) s2); cbn [bind]; try reflexivity. apply apply_filters_agree. Qed.
Lemma eval_cond_agree c : eval_cond O c s1 = eval_cond O c s2.
Proof.
  induction c as [l o r|l|a IHa b IHb|a IHa b IHb]; cbn [eval_cond].
  - rewrite !eval_expr_agree. reflexivity.
  - rewrite try_eval_expr_agree. reflexivity.
  - rewrite IHa, IHb. reflexivity.
  - rewrite IHa, IHb. reflexivity.
Qed.
Lemma int_arg_agree e : int_arg O e s1 = int_arg O e s2.
Proof. unfold int_arg. rewrite eval_expr_agree. reflexivity. Qed.
Lemma eval_range_agree r : eval_range O r s1 = eval_range O r s2.
Proof. destruct r; cbn [eval_range]; rewrite ?eval_expr_agree, ?int_arg_agree; reflexivity. Qed.
Lemma attr_usize_agree a : attr_usize O a s1 = attr_usize O a s2.
Proof. destruct a; cbn [attr_usize]; rewrite ?eval_expr_agree; reflexivity. Qed.
Lemma eval_args_agree args : forall acc0, eval_args O args s1 acc0 = eval_args O args s2 acc0.
Proof. induction args as [|[x e] t IH]; intro acc0; [reflexivity|]. cbn [eval_args]. rewrite try_eval_expr_agree. destruct (try_eval_expr O e s2); [apply IH|reflexivity]. Qed.
End Reads.

(* ---- state operations keep the two runtimes indistinguishable ---- *)
Lemma R_regs n m s1 s2 : R n m s1 s2 -> get_regs s1 = get_regs s2 /\ forall g, R n m (set_regs g s1) (set_regs g s2).
Proof.
  intros (F & g & a & q1 & q2 & G & r1 & r2 & E1 & E2 & L & N & G1 & G2 & LG & IX).
  destruct G as [|g0 G']; [discriminate|]. unfold get_regs, set_regs. rewrite G1, G2. cbn [app tl]. split; [reflexivity|].
  intro g'. exists F, g, a, q1, q2, (g' :: G'), r1, r2. cbn [fr rg app length] in *. repeat split; auto.
Qed.
Lemma R_interrupted n m s1 s2 : R n m s1 s2 -> interrupted s1 = interrupted s2.
Proof. intro H. unfold interrupted. rewrite (proj1 (R_regs _ _ _ _ H)). reflexivity. Qed.
Lemma R_push_plain n m s1 s2 d : R n m s1 s2 -> R (S n) m (push_plain d s1) (push_plain d s2).
Proof.
  intros (F & g & a & q1 & q2 & G & r1 & r2 & E1 & E2 & L & N & G1 & G2 & LG & IX).
  exists (FPlain d :: F), g, a, q1, q2, G, r1, r2. unfold push_plain, above in *. cbn [fr rg app length]. rewrite E1, E2.
  repeat split; auto. constructor; [exact I|exact N].
Qed.
Lemma R_pop_plain n m s1 s2 : R (S n) m s1 s2 -> R n m (pop_plain s1) (pop_plain s2).
Proof.
  intros (F & g & a & q1 & q2 & G & r1 & r2 & E1 & E2 & L & N & G1 & G2 & LG & IX).
  destruct F as [|f F]; [discriminate|]. inversion N; subst.
  exists F, g, a, q1, q2, G, r1, r2. unfold pop_plain, above in *. cbn [fr rg]. rewrite E1, E2. cbn [app tl].
  cbn [length] in L. repeat split; auto.
Qed.
Lemma R_push_sandbox n m s1 s2 d : R n m s1 s2 -> R (S (S n)) (S m) (push_sandbox d s1) (push_sandbox d s2).
Proof.
  intros (F & g & a & q1 & q2 & G & r1 & r2 & E1 & E2 & L & N & G1 & G2 & LG & IX).
  exists (FGlobal [] :: FSandbox d :: F), g, a, q1, q2, (regs0 :: G), r1, r2. unfold push_sandbox, above in *. cbn [fr rg app length]. rewrite E1, E2, G1, G2.
  repeat split; auto. constructor; [exact I|]. constructor; [exact I|exact N].
Qed.
Lemma R_pop_sandbox n m s1 s2 : R (S (S n)) (S m) s1 s2 -> R n m (pop_sandbox s1) (pop_sandbox s2).
Proof.
  intros (F & g & a & q1 & q2 & G & r1 & r2 & E1 & E2 & L & N & G1 & G2 & LG & IX).
  destruct F as [|f [|f' F]]; try discriminate. inversion N as [|? ? _ N']; subst. inversion N'; subst.
  destruct G as [|g0 G']; [discriminate|].
  exists F, g, a, q1, q2, G', r1, r2. unfold pop_sandbox, above in *. cbn [fr rg]. rewrite E1, E2, G1, G2. cbn [app tl].
  cbn [length] in L, LG. repeat split; auto; lia.
Qed.
Lemma R_set_global n m s1 s2 x v : R n m s1 s2 ->
  exists f1 f2, set_global x v (fr s1) = Ok f1 /\ set_global x v (fr s2) = Ok f2 /\ R n m (mkEst f1 (rg s1)) (mkEst f2 (rg s2)).
Proof.
  intros (F & g & a & q1 & q2 & G & r1 & r2 & E1 & E2 & L & N & G1 & G2 & LG & IX).
  destruct (set_global_above F g a x v N) as (F' & g' & L' & N' & E).
  exists (above F' g' a q1), (above F' g' a q2). rewrite E1, E2, !E. split; [reflexivity|]. split; [reflexivity|].
  exists F', g', a, q1, q2, G, r1, r2. cbn [fr rg]. repeat split; auto. lia.
Qed.
Lemma R_get_index n m s1 s2 x : R n m s1 s2 -> get_index x (fr s1) = get_index x (fr s2).
Proof.
  intros (F & g & a & q1 & q2 & G & r1 & r2 & E1 & E2 & L & N & G1 & G2 & LG & IX).
  rewrite E1, E2, !get_index_above by exact N. rewrite !get_index_ixobj, IX. reflexivity.
Qed.
Lemma R_set_index n m s1 s2 x v : R n m s1 s2 ->
  (exists f1 f2, set_index x v (fr s1) = Ok f1 /\ set_index x v (fr s2) = Ok f2 /\ R n m (mkEst f1 (rg s1)) (mkEst f2 (rg s2))) \/
  (set_index x v (fr s1) = Panic site_core_set_index /\ set_index x v (fr s2) = Panic site_core_set_index).
Proof.
  intros (F & g & a & q1 & q2 & G & r1 & r2 & E1 & E2 & L & N & G1 & G2 & LG & IX).
  rewrite E1, E2, !set_index_above by exact N.
  pose proof (set_index_ixobj q1 x v) as H1. pose proof (set_index_ixobj q2 x v) as H2. rewrite IX in H1.
  destruct (ixobj q2) as [d|].
  - destruct H1 as (q1' & -> & I1). destruct H2 as (q2' & -> & I2). left.
    exists (above F g a q1'), (above F g a q2'). split; [reflexivity|]. split; [reflexivity|].
    exists F, g, a, q1', q2', G, r1, r2. cbn [fr rg]. repeat split; auto. congruence.
  - rewrite H1, H2. right. split; reflexivity.
Qed.

(* ---- two runs of the same computation from indistinguishable runtimes ---- *)
Definition res2 (n m : nat) (o1 o2 : out) : Prop :=
  match o1, o2 with (a, s1', k1), (b, s2', k2) => a = b /\ k1 = k2 /\ R n m s1' s2' end.
Definition G2 (f : est -> sink -> out) : Prop := forall n m s1 s2 k, R n m s1 s2 -> res2 n m (f s1 k) (f s2 k).
Lemma res2_same n m o s1 s2 k : R n m s1 s2 -> res2 n m (o, s1, k) (o, s2, k).
Proof. intro H. repeat split; auto. Qed.
Lemma G2_write t : G2 (fun s k => write_str s k t).
Proof. intros n m s1 s2 k H. unfold write_str. destruct (write k (encode t)) as [k' ok]. apply res2_same, H. Qed.
Lemma G2_seq f cont : G2 f -> G2 cont -> G2 (fun s k => seq_step (f s k) cont).
Proof.
  intros Hf Hc n m s1 s2 k H. specialize (Hf n m s1 s2 k H).
  destruct (f s1 k) as [[o1 t1] k1]. destruct (f s2 k) as [[o2 t2] k2]. destruct Hf as (-> & -> & Ht).
  unfold seq_step. destruct o2; try (apply res2_same; exact Ht).
  rewrite (R_interrupted _ _ _ _ Ht). destruct (interrupted t2); [apply res2_same; exact Ht|apply Hc; exact Ht].
Qed.

(* ---- loops ---- *)
Lemma G2_for body x len parent : G2 body -> forall vs i, G2 (for_loop body x len parent vs i).
Proof.
  intros Hb; induction vs as [|v vs IH]; intros i n m s1 s2 k H; [apply res2_same; exact H|]. rewrite !for_loop_cons.
  specialize (Hb (S n) m _ _ k (R_push_plain _ _ _ _ (iter_frame x len parent i v) H)).
  destruct (body (push_plain (iter_frame x len parent i v) s1) k) as [[o1 t1] k1].
  destruct (body (push_plain (iter_frame x len parent i v) s2) k) as [[o2 t2] k2]. destruct Hb as (-> & -> & Ht).
  apply R_pop_plain in Ht. destruct (R_regs _ _ _ _ Ht) as [Eg Hs].
  destruct o2; try (apply res2_same; exact Ht).
  unfold clear_intr. rewrite Eg.
  destruct (r_intr (get_regs (pop_plain t2))) as [[|]|]; try (apply res2_same; apply Hs); apply IH; apply Hs.
Qed.
Lemma write_str_same s1 s2 k t : exists k', (write_str s1 k t = (ODone, s1, k') /\ write_str s2 k t = (ODone, s2, k')) \/
                                            (write_str s1 k t = (OFail ESink, s1, k') /\ write_str s2 k t = (OFail ESink, s2, k')).
Proof. unfold write_str. destruct (write k (encode t)) as [k' [|]]; exists k'; [left|right]; split; reflexivity. Qed.
Lemma G2_tablerow body x len cols : G2 body -> forall vs i, G2 (tablerow_loop body x len cols vs i).
Proof.
  intros Hb; induction vs as [|v vs IH]; intros i n m s1 s2 k H; [apply res2_same; exact H|]. cbn [tablerow_loop].
  match goal with |- context [write_str s1 k ?t] => destruct (write_str_same s1 s2 k t) as [k0 [[E1 E2]|[E1 E2]]]; rewrite E1, E2 end; [|apply res2_same; exact H].
  match goal with |- context [body (push_plain ?a s1) k0] =>
    specialize (Hb (S n) m _ _ k0 (R_push_plain _ _ _ _ a H));
    destruct (body (push_plain a s1) k0) as [[o1 t1] k1]; destruct (body (push_plain a s2) k0) as [[o2 t2] k2] end.
  destruct Hb as (-> & -> & Ht). apply R_pop_plain in Ht. destruct o2; try (apply res2_same; exact Ht).
  match goal with |- context [write_str (pop_plain t1) k2 ?t] => destruct (write_str_same (pop_plain t1) (pop_plain t2) k2 t) as [k3 [[E3 E4]|[E3 E4]]]; rewrite E3, E4 end;
    [|apply res2_same; exact Ht].
  apply IH; exact Ht.
Qed.
Lemma G2_render_for body x len base : G2 body -> (forall s1 s2, agree s1 s2 -> base s1 = base s2) ->
  forall vs i, G2 (render_for_loop body x len base vs i).
Proof.
  intros Hb Hbase; induction vs as [|v vs IH]; intros i n m s1 s2 k H; [apply res2_same; exact H|]. cbn [render_for_loop].
  rewrite (Hbase _ _ (R_agree _ _ _ _ H)). destruct (base s2) as [b0| | |]; cbn [of_res]; try (apply res2_same; exact H).
  match goal with |- context [body (push_sandbox ?a s1) k] =>
    specialize (Hb _ _ _ _ k (R_push_sandbox _ _ _ _ a H));
    destruct (body (push_sandbox a s1) k) as [[o1 t1] k1]; destruct (body (push_sandbox a s2) k) as [[o2 t2] k2] end.
  destruct Hb as (-> & -> & Ht). destruct (R_regs _ _ _ _ Ht) as [Eg _]. apply R_pop_sandbox in Ht.
  destruct o2; try (apply res2_same; exact Ht). rewrite Eg.
  destruct (match r_intr (get_regs t2) with Some Brk => true | _ => false end); [apply res2_same; exact Ht|apply IH; exact Ht].
Qed.

(* ---- the whole evaluator ---- *)
Section GAll.
Variable ps : pstore.
Variable rec : template -> est -> sink -> out.
Hypothesis rec_G2 : forall l, G2 (rec l).
Notation rn := (rnode O ps rec).
Notation rl := (rlist O ps rec).

Lemma G2_rlist_of l : Forall (fun n => G2 (rn n)) l -> G2 (rl l).
Proof.
  induction 1 as [|n l Hn _ IH]; [intros n m s1 s2 k H; apply res2_same; exact H|].
  exact (G2_seq (rn n) (rl l) Hn IH).
Qed.
Lemma G2_ropt o : optF (fun n => G2 (rn n)) o -> G2 (ropt_list O ps rec o).
Proof. destruct o as [l|]; simpl; intro H; [apply G2_rlist_of; exact H|intros n m s1 s2 k HR; apply res2_same; exact HR]. Qed.

Ltac rd H := let A := fresh "A" in pose proof (R_agree _ _ _ _ H) as A;
  rewrite ?(eval_chain_agree _ _ A), ?(eval_expr_agree _ _ A), ?(eval_cond_agree _ _ A), ?(eval_range_agree _ _ A), ?(attr_usize_agree _ _ A), ?(eval_args_agree _ _ A).
Ltac of2 H := match goal with |- res2 _ _ (of_res ?r _ _ _) (of_res ?r _ _ _) => destruct r; cbn [of_res]; try (apply res2_same; exact H) end.

Lemma case_any_G2 tv body (rest1 rest2 : out) n m s1 s2 k : R n m s1 s2 ->
  res2 n m rest1 rest2 -> G2 (rl body) -> forall l,
  res2 n m
    ((fix any (l : list expr) : out :=
        match l with [] => rest1 | a :: l' => of_res (eval_expr O a s1) s1 k (fun av => if value_eq av tv then rl body s1 k else any l') end) l)
    ((fix any (l : list expr) : out :=
        match l with [] => rest2 | a :: l' => of_res (eval_expr O a s2) s2 k (fun av => if value_eq av tv then rl body s2 k else any l') end) l).
Proof.
  intros H Hr Hb. induction l as [|a l IH]; [exact Hr|].
  rewrite (eval_expr_agree _ _ (R_agree _ _ _ _ H)). of2 H.
  destruct (value_eq a0 tv); [apply Hb; exact H|exact IH].
Qed.

Theorem G2_rnode : forall nd, G2 (rn nd).
Proof.
  induction nd using node_ind'; intros nn mm s1 s2 k HR.
  - apply (G2_write s _ _ _ _ k HR).
  - apply (G2_write s _ _ _ _ k HR).
  - apply res2_same; exact HR.
  - cbn [rnode]. rd HR. of2 HR. apply (G2_write _ _ _ _ _ k HR).
  - cbn [rnode]. rd HR. of2 HR. destruct (R_set_global _ _ _ _ x a HR) as (f1 & f2 & -> & -> & HR2). cbn [of_res]. apply res2_same; exact HR2.
  - rewrite !rnode_capture. pose proof (G2_rlist_of b H _ _ _ _ sink0 HR) as Hb.
    destruct (rl b s1 sink0) as [[o1 t1] kc1]. destruct (rl b s2 sink0) as [[o2 t2] kc2]. destruct Hb as (-> & -> & Ht).
    destruct o2; try (apply res2_same; exact Ht). destruct (decode (acc kc2)); [|apply res2_same; exact Ht].
    destruct (R_set_global _ _ _ _ x (VScalar (SStr s)) Ht) as (f1 & f2 & -> & -> & HR2). cbn [of_res]. apply res2_same; exact HR2.
  - cbn [rnode]. rewrite (R_get_index _ _ _ _ x HR).
    match goal with |- context [write_str s1 k ?t] => destruct (write_str_same s1 s2 k t) as [k0 [[E1 E2]|[E1 E2]]]; rewrite E1, E2 end; [|apply res2_same; exact HR].
    match goal with |- context [set_index x ?v (fr s1)] => destruct (R_set_index _ _ _ _ x v HR) as [(f1 & f2 & -> & -> & HR2)|[-> ->]] end; cbn [of_res]; apply res2_same; assumption.
  - cbn [rnode]. rewrite (R_get_index _ _ _ _ x HR).
    match goal with |- context [write_str s1 k ?t] => destruct (write_str_same s1 s2 k t) as [k0 [[E1 E2]|[E1 E2]]]; rewrite E1, E2 end; [|apply res2_same; exact HR].
    match goal with |- context [set_index x ?v (fr s1)] => destruct (R_set_index _ _ _ _ x v HR) as [(f1 & f2 & -> & -> & HR2)|[-> ->]] end; cbn [of_res]; apply res2_same; assumption.
  - cbn [rnode]. destruct (R_regs _ _ _ _ HR) as [Eg Hs]. rewrite Eg. of2 HR. destruct a as [i g]. cbn [fst snd].
    specialize (Hs g). destruct (nth_error vs i); [|apply res2_same; exact Hs].
    rd Hs. of2 Hs. apply (G2_write _ _ _ _ _ k Hs).
  - rewrite !rnode_if. rd HR. of2 HR. destruct (Bool.eqb a m); [apply G2_rlist_of; assumption|apply G2_ropt; assumption].
  - rewrite !rnode_case. rd HR. of2 HR.
    induction ws as [|[args body] ws IHw]; [apply G2_ropt; assumption|].
    inversion H as [|? ? Hb Hr]; subst. simpl in Hb.
    apply case_any_G2; [exact HR|apply IHw; assumption|apply G2_rlist_of; assumption].
  - rewrite !rnode_for. rd HR. of2 HR. of2 HR. of2 HR. rewrite (proj2 (R_agree _ _ _ _ HR)).
    match goal with |- context [iter_array ?a ?b ?c ?d] => destruct (iter_array a b c d) eqn:Esel end; [apply G2_ropt; assumption|].
    apply G2_for; [apply G2_rlist_of; assumption|exact HR].
  - rewrite !(ShapeProofs.rnode_tablerow O ps rec). rd HR. of2 HR. of2 HR. of2 HR. of2 HR.
    destruct a0 as [[|p|p]|]; try (apply res2_same; exact HR); apply G2_tablerow; try (apply G2_rlist_of; assumption); exact HR.
  - cbn [rnode]. destruct (R_regs _ _ _ _ HR) as [Eg Hs]. rewrite Eg. apply res2_same, Hs.
  - cbn [rnode]. destruct (R_regs _ _ _ _ HR) as [Eg Hs]. rewrite Eg. apply res2_same, Hs.
  - rewrite !(ShapeProofs.rnode_ifchanged O ps rec). pose proof (G2_rlist_of b H _ _ _ _ sink0 HR) as Hb.
    destruct (rl b s1 sink0) as [[o1 t1] kc1]. destruct (rl b s2 sink0) as [[o2 t2] kc2]. destruct Hb as (-> & -> & Ht).
    destruct o2; try (apply res2_same; exact Ht).
    destruct (decode (acc kc2)) as [t|]; [|apply res2_same; exact Ht]. cbv zeta.
    destruct (R_regs _ _ _ _ Ht) as [Eg Hs]. rewrite Eg.
    destruct (match r_changed (get_regs t2) with Some l => negb (str_eqb l t) | None => true end).
    + apply (G2_write t _ _ _ _ k (Hs _)).
    + apply res2_same, Hs.
  - cbn [rnode]. rd HR. of2 HR. destruct a0; try (apply res2_same; exact HR). of2 HR. of2 HR.
    pose proof (rec_G2 a1 _ _ _ _ k (R_push_plain _ _ _ _ a0 HR)) as Hb.
    destruct (rec a1 (push_plain a0 s1) k) as [[o1 t1] k1]. destruct (rec a1 (push_plain a0 s2) k) as [[o2 t2] k2].
    destruct Hb as (-> & -> & Ht). apply R_pop_plain in Ht. apply res2_same; exact Ht.
  - cbn [rnode]. rd HR. of2 HR. destruct a0; try (apply res2_same; exact HR).
    destruct f as [[rng x]|].
    + rd HR. of2 HR. destruct a0 as [|v0 vs0]; [apply res2_same; exact HR|]. of2 HR. of2 HR.
      apply G2_render_for; [apply rec_G2|intros t1 t2 At; apply eval_args_agree; exact At|exact HR].
    + of2 HR. of2 HR.
      match goal with |- context [rec ?b (push_sandbox ?a s1) k] =>
        pose proof (rec_G2 b _ _ _ _ k (R_push_sandbox _ _ _ _ a HR)) as Hb;
        destruct (rec b (push_sandbox a s1) k) as [[o1 t1] k1]; destruct (rec b (push_sandbox a s2) k) as [[o2 t2] k2] end.
      destruct Hb as (-> & -> & Ht). apply R_pop_sandbox in Ht. apply res2_same; exact Ht.
Qed.
End GAll.
Theorem G2_render ps : forall d l, G2 (render O ps d l).
Proof.
  induction d as [|d IH]; intro l; [intros n m s1 s2 k H; apply res2_same; exact H|].
  cbn [render]. apply G2_rlist_of. apply Forall_forall. intros nd _. apply G2_rnode. exact IH.
Qed.
End NI.

(* ---- render: what the partial prints and whether it fails depends on the arguments, the shared counters
   and the partial store only ---- *)
Lemma R_fresh_sandbox a s1 s2 : ixobj (fr s1) = ixobj (fr s2) -> R 0 0 (push_sandbox a s1) (push_sandbox a s2).
Proof.
  intro IX. exists [], [], a, (fr s1), (fr s2), [regs0], (rg s1), (rg s2). unfold push_sandbox, above. cbn [fr rg app length].
  repeat split; auto. constructor.
Qed.
Theorem render_noninterference O ps d p args s1 s2 k :
  eval_expr O p s1 = eval_expr O p s2 -> eval_args O args s1 [] = eval_args O args s2 [] ->
  ixobj (fr s1) = ixobj (fr s2) ->
  match rnode O ps (render O ps d) (NRender p None args) s1 k, rnode O ps (render O ps d) (NRender p None args) s2 k with
  | (o1, _, k1), (o2, _, k2) => o1 = o2 /\ k1 = k2
  end.
Proof.
  intros Ep Ea IX. cbn [rnode]. rewrite Ep, Ea.
  destruct (eval_expr O p s2) as [pv| | |]; cbn [of_res]; try (split; reflexivity).
  destruct pv; try (split; reflexivity).
  destruct (eval_args O args s2 []) as [a| | |]; cbn [of_res]; try (split; reflexivity).
  match goal with |- context [of_res ?r s1 k _] => destruct r as [body| | |]; cbn [of_res]; try (split; reflexivity) end.
  pose proof (G2_render O ps d body 0 0 _ _ k (R_fresh_sandbox a s1 s2 IX)) as H.
  destruct (render O ps d body (push_sandbox a s1) k) as [[o1 t1] k1]. destruct (render O ps d body (push_sandbox a s2) k) as [[o2 t2] k2].
  destruct H as (-> & -> & _). split; reflexivity.
Qed.
(* the same for the for-form: every item is rendered in its own sandbox *)
Lemma R00_pop t1 t2 : R 0 0 t1 t2 -> ixobj (fr (pop_sandbox t1)) = ixobj (fr (pop_sandbox t2)).
Proof.
  intros (F & g & a & q1 & q2 & G & r1 & r2 & E1 & E2 & L & N & G1 & G2' & LG & IX).
  destruct F; [|discriminate]. unfold pop_sandbox, above in *. cbn [fr]. rewrite E1, E2. exact IX.
Qed.
Lemma render_for_ni body x len base : G2 body -> (forall t1 t2, base t1 = base t2) -> forall vs i s1 s2 k, ixobj (fr s1) = ixobj (fr s2) ->
  match render_for_loop body x len base vs i s1 k, render_for_loop body x len base vs i s2 k with
  | (o1, t1, k1), (o2, t2, k2) => o1 = o2 /\ k1 = k2 /\ ixobj (fr t1) = ixobj (fr t2)
  end.
Proof.
  intros Hb Hbase. induction vs as [|v vs IH]; intros i s1 s2 k IX; [repeat split; auto|]. cbn [render_for_loop].
  rewrite (Hbase s1 s2). destruct (base s2) as [b0| | |]; cbn [of_res]; try (repeat split; auto; fail).
  match goal with |- context [body (push_sandbox ?r s1) k] =>
    pose proof (Hb 0 0 _ _ k (R_fresh_sandbox r s1 s2 IX)) as H;
    destruct (body (push_sandbox r s1) k) as [[o1 t1] k1]; destruct (body (push_sandbox r s2) k) as [[o2 t2] k2] end.
  destruct H as (-> & -> & HR). destruct (R_regs _ _ _ _ HR) as [Eg _]. pose proof (R00_pop _ _ HR) as IX'.
  destruct o2; try (repeat split; auto). rewrite Eg.
  destruct (match r_intr (get_regs t2) with Some Brk => true | _ => false end); [repeat split; auto|apply IH; exact IX'].
Qed.
(* the arguments of the for-form are evaluated again for every item in the caller's runtime, which the
   partial may have changed through the shared counters: the statement is for arguments whose value does not
   depend on the runtime (literals) *)
Theorem render_for_noninterference O ps d p rng x args s1 s2 k :
  eval_expr O p s1 = eval_expr O p s2 -> eval_range O rng s1 = eval_range O rng s2 -> (forall t1 t2, eval_args O args t1 [] = eval_args O args t2 []) ->
  ixobj (fr s1) = ixobj (fr s2) ->
  match rnode O ps (render O ps d) (NRender p (Some (rng, x)) args) s1 k, rnode O ps (render O ps d) (NRender p (Some (rng, x)) args) s2 k with
  | (o1, _, k1), (o2, _, k2) => o1 = o2 /\ k1 = k2
  end.
Proof.
  intros Ep Er Ea IX. cbn [rnode]. rewrite Ep, Er, (Ea s1 s2).
  destruct (eval_expr O p s2) as [pv| | |]; cbn [of_res]; try (split; reflexivity).
  destruct pv; try (split; reflexivity).
  destruct (eval_range O rng s2) as [arr| | |]; cbn [of_res]; try (split; reflexivity).
  destruct arr as [|v0 vs0]; [split; reflexivity|].
  destruct (eval_args O args s2 []) as [a| | |]; cbn [of_res]; try (split; reflexivity).
  match goal with |- context [of_res ?r s1 k _] => destruct r as [body| | |]; cbn [of_res]; try (split; reflexivity) end.
  match goal with |- context [render_for_loop ?b ?x ?len ?base ?vs ?i s1 k] =>
    pose proof (render_for_ni b x len base (G2_render O ps d body) Ea vs i s1 s2 k IX) as H;
    destruct (render_for_loop b x len base vs i s1 k) as [[o1 t1] k1]; destruct (render_for_loop b x len base vs i s2 k) as [[o2 t2] k2] end.
  destruct H as (-> & -> & _). split; reflexivity.
Qed.

(* ---- the for-form with arbitrary arguments: what is needed is that the argument expressions cannot tell the two
   callers apart, now and after the partial has moved the (shared) counters ---- *)
From LV Require Import ShapeProofs GenInv IsoProofs.
Lemma body_keeps_caller_frames O ps d body a s k : wfr s ->
  match render O ps d body (push_sandbox a s) k with (_, s', _) => strict (fr s) (fr (pop_sandbox s')) /\ wfr (pop_sandbox s') end.
Proof.
  intro W.
  pose proof (registers_inner_only O ps d body (push_sandbox a s) k (wfr_push_sandbox _ _)) as HA.
  pose proof (frames_below_global_kept O ps d body (push_sandbox a s) k (wfr_push_sandbox _ _)) as HB.
  destruct (render O ps d body (push_sandbox a s) k) as [[o1 s1] k1].
  destruct HA as [_ TA]. destruct HB as [_ HB]. simpl in TA. split.
  - destruct (HB [FGlobal []; FSandbox a] (fr s) eq_refl eq_refl) as [top' [base' [F [L S]]]].
    destruct top' as [|f1 [|f2 [|f3 top']]]; simpl in L; try discriminate.
    unfold pop_sandbox; simpl. rewrite F. simpl. exact S.
  - unfold wfr, pop_sandbox; simpl. rewrite <- TA. exact W.
Qed.
Lemma render_for_ni_gen O ps d body x len base c1 c2 :
  (forall t1 t2, strict c1 (fr t1) -> strict c2 (fr t2) -> ixobj (fr t1) = ixobj (fr t2) -> base t1 = base t2) ->
  forall vs i s1 s2 k, wfr s1 -> wfr s2 -> strict c1 (fr s1) -> strict c2 (fr s2) -> ixobj (fr s1) = ixobj (fr s2) ->
  match render_for_loop (render O ps d body) x len base vs i s1 k, render_for_loop (render O ps d body) x len base vs i s2 k with
  | (o1, _, k1), (o2, _, k2) => o1 = o2 /\ k1 = k2
  end.
Proof.
  intros Hbase. induction vs as [|v vs IH]; intros i s1 s2 k W1 W2 S1 S2 IX; [split; reflexivity|]. cbn [render_for_loop].
  rewrite (Hbase s1 s2 S1 S2 IX). destruct (base s2) as [b0| | |]; cbn [of_res]; try (split; reflexivity).
  match goal with |- context [render O ps d body (push_sandbox ?r s1) k] =>
    pose proof (G2_render O ps d body 0 0 _ _ k (R_fresh_sandbox r s1 s2 IX)) as H;
    pose proof (body_keeps_caller_frames O ps d body r s1 k W1) as K1;
    pose proof (body_keeps_caller_frames O ps d body r s2 k W2) as K2;
    destruct (render O ps d body (push_sandbox r s1) k) as [[o1 t1] k1]; destruct (render O ps d body (push_sandbox r s2) k) as [[o2 t2] k2] end.
  destruct H as (-> & -> & HR). destruct (R_regs _ _ _ _ HR) as [Eg _]. pose proof (R00_pop _ _ HR) as IX'.
  destruct K1 as [K1 W1']. destruct K2 as [K2 W2'].
  destruct o2; try (split; reflexivity). rewrite Eg.
  destruct (match r_intr (get_regs t2) with Some Brk => true | _ => false end); [split; reflexivity|].
  apply IH; auto; eapply strict_trans; eassumption.
Qed.
Theorem render_for_noninterference_gen O ps d p rng x args s1 s2 k : wfr s1 -> wfr s2 ->
  eval_expr O p s1 = eval_expr O p s2 -> eval_range O rng s1 = eval_range O rng s2 ->
  (forall t1 t2, strict (fr s1) (fr t1) -> strict (fr s2) (fr t2) -> ixobj (fr t1) = ixobj (fr t2) ->
     eval_args O args t1 [] = eval_args O args t2 []) ->
  ixobj (fr s1) = ixobj (fr s2) ->
  match rnode O ps (render O ps d) (NRender p (Some (rng, x)) args) s1 k, rnode O ps (render O ps d) (NRender p (Some (rng, x)) args) s2 k with
  | (o1, _, k1), (o2, _, k2) => o1 = o2 /\ k1 = k2
  end.
Proof.
  intros W1 W2 Ep Er Ea IX. cbn [rnode]. rewrite Ep, Er, (Ea s1 s2 (strict_refl _) (strict_refl _) IX).
  destruct (eval_expr O p s2) as [pv| | |]; cbn [of_res]; try (split; reflexivity).
  destruct pv; try (split; reflexivity).
  destruct (eval_range O rng s2) as [arr| | |]; cbn [of_res]; try (split; reflexivity).
  destruct arr as [|v0 vs0]; [split; reflexivity|].
  destruct (eval_args O args s2 []) as [a| | |]; cbn [of_res]; try (split; reflexivity).
  match goal with |- context [of_res ?r s1 k _] => destruct r as [body| | |]; cbn [of_res]; try (split; reflexivity) end.
  apply (render_for_ni_gen O ps d body x _ (fun s' => eval_args O args s' []) (fr s1) (fr s2) Ea); auto using strict_refl.
Qed.
