//! The token (pair) stream of the lax top-level grammar, from a parser derived from /repo's own
//! grammar.pest by the same pest_derive the library uses.
use pest::Parser;
use serde_json::{json, Value as J};

#[derive(pest_derive::Parser)]
#[grammar = "/repo/crates/core/src/parser/grammar.pest"]
struct G;

pub fn run(req: &J) -> J {
    let text = req["text"].as_str().unwrap();
    let rule = match req["rule"].as_str().unwrap_or("LaxLiquidFile") {
        "LaxLiquidFile" => Rule::LaxLiquidFile,
        "LiquidFile" => Rule::LiquidFile,
        "Literal" => Rule::Literal,
        "FilterChain" => Rule::FilterChain,
        _ => return json!({"error": "rule"}),
    };
    // byte offset -> character offset
    let mut char_of = vec![0usize; text.len() + 1];
    let mut n = 0;
    for (i, _) in text.char_indices() {
        char_of[i] = n;
        n += 1;
    }
    char_of[text.len()] = n;
    match G::parse(rule, text) {
        Ok(pairs) => {
            let toks: Vec<J> = pairs
                .flatten()
                .map(|p| json!([format!("{:?}", p.as_rule()), char_of[p.as_span().start()], char_of[p.as_span().end()]]))
                .collect();
            json!({"tokens": toks})
        }
        Err(_) => json!({"tokens": null}),
    }
}

/// The top-level element stream the block parser iterates over: for each element its rule and its
/// source text; for a tag also its name and the number of argument tokens after the name.
pub fn elements(req: &J) -> J {
    let text = req["text"].as_str().unwrap();
    match G::parse(Rule::LaxLiquidFile, text) {
        Ok(mut pairs) => {
            let file = pairs.next().unwrap();
            let els: Vec<J> = file
                .into_inner()
                .map(|p| {
                    let rule = format!("{:?}", p.as_rule());
                    let src = p.as_str().to_string();
                    if p.as_rule() == Rule::Tag {
                        let mut inner = p.into_inner().next().unwrap().into_inner();
                        let name = inner.next().unwrap().as_str().to_string();
                        json!({"rule": rule, "text": src, "name": name, "nargs": inner.count()})
                    } else {
                        json!({"rule": rule, "text": src})
                    }
                })
                .collect();
            json!({"elements": els})
        }
        Err(_) => json!({"elements": null}),
    }
}
